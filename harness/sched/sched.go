// Package sched is a small deterministic scheduler for goroutines of the code under test.
//
// Every call into a harness-owned environment object (fake connection, factory, ...) is a
// yield point: the calling goroutine parks there until the controller resumes it.  The
// controller waits for quiescence — every other goroutine is parked at a yield point,
// finished, or blocked in a synchronisation primitive (decided from the wait reasons in
// runtime.Stack) — and then picks which parked goroutine runs next.  A run is therefore a
// function of the list of choices, and all interleavings of the yield points can be
// enumerated (stateless depth-first search).
package sched

import (
	"fmt"
	"math/rand"
	"regexp"
	"runtime"
	"sort"
	"strconv"
	"strings"
	"sync"
	"time"
)

type parked struct {
	name   string
	ev     string
	resume chan struct{}
	since  time.Time
	ready  func() bool // nil: always enabled
}

// Step is one scheduling decision: who was resumed, at which event, out of whom.
type Step struct {
	Who     string
	Ev      string
	Enabled []string
	Evs     []string // the event each enabled goroutine is parked at
}

type Sched struct {
	mu      sync.Mutex
	names   map[int64]string
	parked  map[string]*parked
	done    map[string]bool
	workers []string
	libs    int
	ctrl    int64
	Trace   []Step
	Panics  map[string]interface{}
	// NoYield: goroutines whose yields are ignored (run freely)
	disabled bool
	// Starve: a goroutine that is not resumed while it is parked at an I/O event (not a lock
	// operation) as long as anybody else can run or time can still move somebody (a stalled
	// underlying call); StarveBudget bounds the time the controller lets pass that way.
	Starve       string
	StarveBudget time.Duration
	Picks        []int // the index taken at every choice point (-1: the controller let time pass)
	// time goroutines spent held at yield points (summed over goroutines): wall-clock
	// durations measured under the scheduler include it
	heldNanos int64
}

// Held: total time goroutines have been held at yield points so far, including those held now.
func (s *Sched) Held() time.Duration {
	s.mu.Lock()
	defer s.mu.Unlock()
	d := time.Duration(s.heldNanos)
	for _, p := range s.parked {
		d += time.Since(p.since)
	}
	return d
}

var gidRe = regexp.MustCompile(`^goroutine (\d+) \[`)

func gid() int64 {
	var buf [64]byte
	n := runtime.Stack(buf[:], false)
	m := gidRe.FindSubmatch(buf[:n])
	id, _ := strconv.ParseInt(string(m[1]), 10, 64)
	return id
}

func New() *Sched {
	return &Sched{names: map[int64]string{}, parked: map[string]*parked{}, done: map[string]bool{}, ctrl: gid(), Panics: map[string]interface{}{}}
}

// Go starts a named worker; it parks at "start" before running f.
func (s *Sched) Go(name string, f func()) {
	s.mu.Lock()
	s.workers = append(s.workers, name)
	s.mu.Unlock()
	go func() {
		s.mu.Lock()
		s.names[gid()] = name
		s.mu.Unlock()
		defer func() {
			if r := recover(); r != nil {
				s.mu.Lock()
				s.Panics[name] = r
				s.mu.Unlock()
			}
			s.mu.Lock()
			s.done[name] = true
			s.mu.Unlock()
		}()
		s.Yield("start")
		f()
	}()
}

// Name of the calling goroutine as the scheduler knows it ("" for the controller).
func (s *Sched) Name() string {
	id := gid()
	s.mu.Lock()
	defer s.mu.Unlock()
	return s.names[id]
}

// Yield parks the calling goroutine at a yield point labelled ev.  Goroutines the library
// spawned itself get the names lib0, lib1, ... in order of their first yield.
func (s *Sched) Yield(ev string) { s.YieldIf(ev, nil) }

// YieldIf is Yield with an enabledness predicate: while ready() is false the goroutine is
// parked but not offered to the controller (it waits for a lock somebody else holds).  ready
// is evaluated by the controller at quiescent points only.
func (s *Sched) YieldIf(ev string, ready func() bool) {
	id := gid()
	s.mu.Lock()
	if s.disabled || id == s.ctrl {
		s.mu.Unlock()
		return
	}
	name, ok := s.names[id]
	if !ok {
		name = fmt.Sprintf("lib%d", s.libs)
		s.libs++
		s.names[id] = name
	}
	p := &parked{name: name, ev: ev, resume: make(chan struct{}), since: time.Now(), ready: ready}
	s.parked[name] = p
	s.mu.Unlock()
	<-p.resume
	s.mu.Lock()
	s.heldNanos += int64(time.Since(p.since))
	s.mu.Unlock()
}

// Release lets every parked goroutine go and ignores all further yields (teardown).
func (s *Sched) Release() {
	s.mu.Lock()
	s.disabled = true
	ps := s.parked
	s.parked = map[string]*parked{}
	s.mu.Unlock()
	for _, p := range ps {
		close(p.resume)
	}
}

var blockedStates = map[string]bool{"chan receive": true, "chan send": true, "select": true, "sync.Mutex.Lock": true,
	"sync.RWMutex.RLock": true, "sync.RWMutex.Lock": true, "sync.Cond.Wait": true, "sync.WaitGroup.Wait": true, "IO wait": true,
	"sleep": true, "chan receive (nil chan)": true, "select (no cases)": true, "finalizer wait": true, "GC sweep wait": true,
	"GC scavenge wait": true, "GC worker (idle)": true, "force gc (idle)": true, "debug call": false}

var allRe = regexp.MustCompile(`(?m)^goroutine (\d+) \[([^\],]+)`)

// quiesce waits until no goroutine other than the controller is running or runnable,
// observed twice in a row.
func (s *Sched) quiesce() {
	buf := make([]byte, 1<<20)
	stable := 0
	for spins := 0; ; spins++ {
		n := runtime.Stack(buf, true)
		busy := false
		for _, m := range allRe.FindAllSubmatch(buf[:n], -1) {
			id, _ := strconv.ParseInt(string(m[1]), 10, 64)
			if id == s.ctrl {
				continue
			}
			if !blockedStates[string(m[2])] {
				busy = true
				break
			}
		}
		if !busy {
			stable++
			if stable >= 2 {
				return
			}
			runtime.Gosched()
			continue
		}
		stable = 0
		if spins > 2000000 {
			panic("sched: no quiescence")
		}
		runtime.Gosched()
	}
}

func (s *Sched) enabled() []string {
	s.quiesce()
	s.mu.Lock()
	defer s.mu.Unlock()
	out := make([]string, 0, len(s.parked))
	for n, p := range s.parked {
		if p.ready == nil || p.ready() {
			out = append(out, n)
		}
	}
	sort.Strings(out)
	return out
}

func (s *Sched) parkedAtLock(name string) bool {
	s.mu.Lock()
	defer s.mu.Unlock()
	p := s.parked[name]
	return p != nil && (strings.Contains(p.ev, "lock@") || p.ev == "start")
}

func (s *Sched) allDoneExcept(name string) bool {
	s.mu.Lock()
	defer s.mu.Unlock()
	for _, w := range s.workers {
		if w != name && !s.done[w] {
			return false
		}
	}
	return true
}

func (s *Sched) allDone() bool {
	s.mu.Lock()
	defer s.mu.Unlock()
	for _, w := range s.workers {
		if !s.done[w] {
			return false
		}
	}
	return true
}

func (s *Sched) resume(name string, en []string) {
	s.mu.Lock()
	p := s.parked[name]
	evs := make([]string, len(en))
	for i, n := range en {
		if q := s.parked[n]; q != nil {
			evs[i] = q.ev
		}
	}
	delete(s.parked, name)
	s.Trace = append(s.Trace, Step{Who: name, Ev: p.ev, Enabled: en, Evs: evs})
	s.mu.Unlock()
	p.resume <- struct{}{}
}

// Run drives the workers: at every quiescent point pick chooses the index (into the sorted
// list of parked goroutines) of the one to resume.  When nobody is parked and not every
// worker is done, it waits up to timerWait for a timer to move something; if nothing
// moves the run is reported as stuck.  Returns the widths of the choice points.
func (s *Sched) Run(pick func(step int, enabled []string) int, timerWait time.Duration) (widths []int, stuck bool) {
	for step := 0; ; step++ {
		en := s.enabled()
		if len(en) == 0 {
			if s.allDone() {
				return widths, false
			}
			deadline := time.Now().Add(timerWait)
			for len(en) == 0 && !s.allDone() && time.Now().Before(deadline) {
				time.Sleep(2 * time.Millisecond)
				en = s.enabled()
			}
			if len(en) == 0 {
				return widths, !s.allDone()
			}
		}
		if s.Starve != "" && s.StarveBudget > 0 {
			vi := -1
			for k, n := range en {
				if n == s.Starve {
					vi = k
				}
			}
			if vi >= 0 && !s.parkedAtLock(s.Starve) {
				if len(en) > 1 {
					en = append(append([]string{}, en[:vi]...), en[vi+1:]...)
				} else if !s.allDoneExcept(s.Starve) {
					time.Sleep(2 * time.Millisecond)
					s.StarveBudget -= 2 * time.Millisecond
					s.Picks = append(s.Picks, -1)
					step--
					continue
				}
			}
		}
		i := pick(step, en)
		if i < 0 {
			i = 0
		}
		i %= len(en) // random walks hand in large random numbers (Walks); DFS choices are below the width
		widths = append(widths, len(en))
		s.Picks = append(s.Picks, i)
		s.resume(en[i], en)
	}
}

// WaitDone waits (without scheduling anything) until every worker has finished.
func (s *Sched) WaitDone(max time.Duration) bool {
	deadline := time.Now().Add(max)
	for !s.allDone() {
		if time.Now().After(deadline) {
			return false
		}
		time.Sleep(200 * time.Microsecond)
	}
	return true
}

// Explore enumerates schedules depth-first: run(choices) must execute one schedule,
// following the given choice prefix (first choice 0 beyond it), and return the widths of
// all choice points it met.  Exploration stops after max schedules (0 = unlimited).
// Returns the number of schedules run and whether the enumeration was exhaustive.
func Explore(max int, run func(choices []int) (widths []int)) (n int, exhaustive bool) {
	var stack []int
	for {
		widths := run(stack)
		n++
		for len(stack) < len(widths) {
			stack = append(stack, 0)
		}
		stack = stack[:len(widths)]
		k := len(stack) - 1
		for k >= 0 && stack[k]+1 >= widths[k] {
			k--
		}
		if k < 0 {
			return n, true
		}
		stack = append(stack[:k], stack[k]+1)
		if max > 0 && n >= max {
			return n, false
		}
	}
}

// Walks runs n schedules drawn from a PRNG: each is a list of large random numbers that Run
// reduces modulo the width of the choice point (Effective turns it into the replayable list).
func Walks(n int, seed int64, run func(choices []int) (widths []int)) int {
	r := rand.New(rand.NewSource(seed))
	for k := 0; k < n; k++ {
		choices := make([]int, 3000)
		for i := range choices {
			choices[i] = r.Intn(1 << 20)
		}
		run(choices)
	}
	return n
}

// Effective: the indices actually taken when choices was followed through the given widths.
func Effective(choices, widths []int) []int {
	out := make([]int, 0, len(widths))
	for i, w := range widths {
		c := 0
		if i < len(choices) && w > 0 {
			c = choices[i] % w
		}
		out = append(out, c)
	}
	return out
}

// PickFrom returns a pick function that follows choices and then always takes index 0.
func PickFrom(choices []int) func(int, []string) int {
	return func(step int, en []string) int {
		if step < len(choices) {
			return choices[step]
		}
		return 0
	}
}

// RenderTrace: who:event;...
func RenderTrace(tr []Step) string {
	parts := make([]string, len(tr))
	for i, st := range tr {
		parts[i] = st.Who + ":" + st.Ev
	}
	return strings.Join(parts, ";")
}
