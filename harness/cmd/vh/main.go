// vh runs one property harness against the real code in /repo (replace directive)
// and writes cases.tsv / meta.json for ./check.
package main

import (
	"flag"
	"fmt"
	"os"

	"verif/harness/core"
	"verif/harness/props"
)

func main() {
	if len(os.Args) < 2 {
		fmt.Fprintln(os.Stderr, "usage: vh <property> [-tier quick|thorough] [-seed N] [-out dir] [-only id]")
		os.Exit(2)
	}
	prop := os.Args[1]
	fs := flag.NewFlagSet("vh", flag.ExitOnError)
	tier := fs.String("tier", "quick", "")
	seed := fs.Int64("seed", 1, "")
	out := fs.String("out", ".", "")
	only := fs.Int("only", -1, "")
	fine := fs.Bool("fine", false, "fine-grained phase (binary built with the vsync overlay)")
	_ = fs.Parse(os.Args[2:])
	f, ok := props.All[prop]
	if !ok {
		fmt.Fprintln(os.Stderr, "unknown property", prop)
		os.Exit(2)
	}
	ctx, err := core.New(prop, *tier, *seed, *out, *only)
	if err != nil {
		fmt.Fprintln(os.Stderr, err)
		os.Exit(2)
	}
	ctx.Fine = *fine
	f(ctx)
	if err := ctx.Close(); err != nil {
		fmt.Fprintln(os.Stderr, err)
		os.Exit(2)
	}
}
