package props

import (
	"bytes"
	"fmt"
	"strings"
	"time"

	"github.com/IBM/fluent-forward-go/fluent/client"
	"github.com/IBM/fluent-forward-go/fluent/protocol"

	"verif/harness/core"
)

func init() { All["C08"] = C08 }

func concSend(cf ccfg, kind string, size int, chunk string, ackOK bool) concOp {
	m := sizedMessage(nil, kind, size, chunk)
	o := concOp{kind: "S", msg: m, ackOK: ackOK}
	probe := mkSend(cf, m, -1)
	o.enc, o.chunk, o.noChk = probe.enc, probe.chunk, probe.chunkErr
	return o
}

// concHelper: a send through SendPackedFromBytes / SendCompressedFromBytes (the helpers whose message is a
// function of their arguments alone): the bytes are the encoding of the message the helper is documented to build.
func concHelper(cf ccfg, compressed bool, n int) concOp {
	stream := sizedMessage(nil, "packed", n, "").(*protocol.PackedForwardMessage).EventStream
	var m protocol.ChunkEncoder
	var o concOp
	if compressed {
		m, _ = protocol.NewCompressedPackedForwardMessageFromBytes("helper.tag", stream)
		// the helper compresses again on every call: the same input gives the same bytes
		o.call = func(cl *client.Client) error { return cl.SendCompressedFromBytes("helper.tag", stream) }
	} else {
		m = protocol.NewPackedForwardMessageFromBytes("helper.tag", stream)
		o.call = func(cl *client.Client) error { return cl.SendPackedFromBytes("helper.tag", stream) }
	}
	o.kind, o.msg, o.ackOK = "S", m, true
	probe := mkSend(ccfg{host: cf.host}, m, -1)
	o.enc = probe.enc
	return o
}

// C08: concurrent sends never interleave; with acks each send waits for its own ack alone.
func C08(c *core.Ctx) {
	fine := setFine(c)
	type conf struct {
		name  string
		cf    ccfg
		progs func(cf ccfg) [][]concOp
	}
	big, small := 3000, 20
	confs := []conf{
		{"2 senders: 3 KB message + small message", ccfg{host: []byte("h")}, func(cf ccfg) [][]concOp {
			return [][]concOp{{concSend(cf, "message", big, "", true)}, {concSend(cf, "message", small, "", true)}}
		}},
		{"3 senders: 3 KB message, small message, SendRaw", ccfg{host: []byte("h")}, func(cf ccfg) [][]concOp {
			return [][]concOp{{concSend(cf, "message", big, "", true)}, {concSend(cf, "forward", small, "", true)}, {{kind: "W", raw: []byte("\x93\xa3RAW\x01\x80")}}}
		}},
		{"2 senders x 2 messages each (5 KB packed, small)", ccfg{host: []byte("h")}, func(cf ccfg) [][]concOp {
			return [][]concOp{{concSend(cf, "packed", 5000, "", true), concSend(cf, "message", small, "", true)},
				{concSend(cf, "message_ext", 2100, "", true), concSend(cf, "message", small, "", true)}}
		}},
		{"acks: 2 senders (3 KB, small) + SendRaw", ccfg{host: []byte("h"), ack: true, timeout: time.Second}, func(cf ccfg) [][]concOp {
			return [][]concOp{{concSend(cf, "message", big, "chunk-a", true)}, {concSend(cf, "message", small, "chunk-b", true)}, {{kind: "W", raw: []byte("\x93\xa3RAW\x01\x80")}}}
		}},
		{"acks: 3 senders, one ack for another chunk", ccfg{host: []byte("h"), ack: true, timeout: time.Second}, func(cf ccfg) [][]concOp {
			return [][]concOp{{concSend(cf, "message", 2500, "chunk-a", true)}, {concSend(cf, "packed", small, "chunk-b", false)}, {concSend(cf, "forward", small, "chunk-c", true)}}
		}},
		{"acks without timeout: 2 senders x 2", ccfg{host: []byte("h"), ack: true}, func(cf ccfg) [][]concOp {
			return [][]concOp{{concSend(cf, "message", big, "a1", true), concSend(cf, "message", small, "a2", true)},
				{concSend(cf, "raw", small, "b1", true), concSend(cf, "message", 2100, "b2", true)}}
		}},
	}
	confs = append(confs, conf{"70 KB message + small message + SendRaw", ccfg{host: []byte("h")}, func(cf ccfg) [][]concOp {
		return [][]concOp{{concSend(cf, "message", 70000, "", true)}, {concSend(cf, "message", small, "", true)}, {{kind: "W", raw: []byte("\x93\xa3RAW\x01\x80")}}}
	}}, conf{"acks: 70 KB packed message + SendRaw", ccfg{host: []byte("h"), ack: true, timeout: time.Second}, func(cf ccfg) [][]concOp {
		return [][]concOp{{concSend(cf, "packed", 70000, "big-1", true)}, {{kind: "W", raw: []byte("\x93\xa3RAW\x01\x80")}}}
	}})
	// the helpers that build their message from the caller's bytes (a helper is free to take another route to the
	// connection than Send does: whatever route, other senders' bytes stay outside its message)
	confs = append(confs, conf{"SendPackedFromBytes (5 KB stream) + small message + SendRaw", ccfg{host: []byte("h")}, func(cf ccfg) [][]concOp {
		return [][]concOp{{concHelper(cf, false, 5000)}, {concSend(cf, "message", small, "", true)}, {{kind: "W", raw: []byte("\x93\xa3RAW\x01\x80")}}}
	}}, conf{"SendCompressedFromBytes (20 KB stream) + SendPackedFromBytes (4 KB stream) + small message", ccfg{host: []byte("h")}, func(cf ccfg) [][]concOp {
		return [][]concOp{{concHelper(cf, true, 20000)}, {concHelper(cf, false, 4096)}, {concSend(cf, "message", small, "", true)}}
	}})
	confs = append(confs, conf{"3 KB record of nested arrays + small message", ccfg{host: []byte("h")}, func(cf ccfg) [][]concOp {
		return [][]concOp{{concSend(cf, "message_arr", big, "", true)}, {concSend(cf, "message", small, "", true)}}
	}})
	failing := func(o concOp, acc int) concOp { o.wfail, o.wacc = true, acc; return o }
	confs = append(confs,
		conf{"a Write that takes part of the message and fails (temporary error) + 2 other senders", ccfg{host: []byte("h")}, func(cf ccfg) [][]concOp {
			return [][]concOp{{failing(concSend(cf, "message", big, "", true), 1000)}, {concSend(cf, "message", small, "", true)}, {{kind: "W", raw: []byte("\x93\xa3RAW\x01\x80")}}}
		}},
		conf{"SendRaw whose Write takes 3 bytes and fails (temporary error) + sender", ccfg{host: []byte("h")}, func(cf ccfg) [][]concOp {
			return [][]concOp{{failing(concOp{kind: "W", raw: bytes.Repeat([]byte{0xc0}, 40)}, 3)}, {concSend(cf, "message", small, "", true)}}
		}},
		conf{"acks: two RawMessages through Send + SendRaw", ccfg{host: []byte("h"), ack: true, timeout: time.Second}, func(cf ccfg) [][]concOp {
			return [][]concOp{{concSend(cf, "raw", small, "raw-a", true)}, {concSend(cf, "raw", 300, "raw-b", true)}, {{kind: "W", raw: []byte("\x93\xa3RAW\x01\x80")}}}
		}},
	)
	if c.Thorough() {
		confs = append(confs, conf{"4 senders mixed sizes", ccfg{host: []byte("h")}, func(cf ccfg) [][]concOp {
			return [][]concOp{{concSend(cf, "message", 6500, "", true)}, {concSend(cf, "message", small, "", true)}, {concSend(cf, "packed", 2049, "", true)}, {{kind: "W", raw: bytes.Repeat([]byte{0xc0}, 5000)}}}
		}})
	}
	prefix := []concOp{{kind: "C", dialOK: true}}
	total, allEx := 0, true
	for _, cfn := range confs {
		cf := cfn.cf
		progs := cfn.progs(cf)
		budget := c.N(400, 20000)
		if fine {
			budget = c.N(25, 3000)
		}
		n, ex := concExplore(c, "c08", cf, prefix, progs, budget, cfn.name, func(run concRun, replay map[string]interface{}) {
			// (1) the byte stream of the connection is a concatenation of complete encodings,
			//     every message whose send succeeded appears exactly once
			var cands [][]byte
			var must []bool
			for w, p := range progs {
				for i, o := range p {
					e := o.enc
					if o.kind == "W" {
						e = o.raw
					}
					cands = append(cands, e)
					must = append(must, i < len(run.rets[w]) && run.rets[w][i] == "ok")
				}
			}
			for _, pb := range run.partial { // what a failed send left behind may lie between whole messages
				cands = append(cands, pb)
				must = append(must, false)
			}
			var wire []byte
			for _, b := range run.writes[0] {
				wire = append(wire, b...)
			}
			if !splitWhole(wire, cands, must) {
				c.Violation("judge-go", "c08-interleaved", "the bytes delivered to the connection are not a concatenation of whole messages ("+cfn.name+")", replay)
			}
			// (2) with acks and a timeout: after a Send's Write the next environment call of any
			//     Send is that same sender arming its read deadline (nobody else writes a message
			//     or waits for an ack in between)
			if cf.ack && cf.timeout != 0 {
				waiting := ""
				for _, ev := range run.events {
					f := strings.Split(ev, ":")
					isRaw := false
					for w, p := range progs {
						if fmt.Sprint(w) == f[0] && p[0].kind == "W" {
							isRaw = true
						}
					}
					if isRaw {
						continue
					}
					switch f[1] {
					case "0":
						if waiting != "" {
							c.Violation("judge-go", "c08-ack-overlap", "a second Send wrote its message while another Send was waiting for its ack ("+cfn.name+")", replay)
						}
						waiting = f[0]
					case "5":
						if waiting != f[0] {
							c.Violation("judge-go", "c08-ack-overlap", "read deadline armed by a sender other than the one that just wrote ("+cfn.name+")", replay)
						}
						waiting = ""
					}
				}
			}
			// (3) each send's result is the one its own ack script dictates
			for w, p := range progs {
				for i, o := range p {
					if o.kind != "S" || i >= len(run.rets[w]) {
						continue
					}
					want := "ok"
					if (cf.ack && !o.ackOK) || o.wfail {
						want = "err"
					}
					if run.rets[w][i] != want {
						c.Violation("judge-go", "c08-ack-mismatch", fmt.Sprintf("send %d of worker %d returned %s, its own ack script says %s (%s)", i, w, run.rets[w][i], want, cfn.name), replay)
					}
				}
			}
		})
		total += n
		allEx = allEx && ex
		if len(confs) > 0 {
			c.Sample(map[string]interface{}{"configuration": cfn.name, "schedules": n, "exhaustive": ex})
		}
	}
	// wall-clock: three senders queue for the ack slot behind a slow (but punctual) peer: every one of them is
	// matched with its own ack, however long it had to wait for its turn
	if !fine {
		cfq := ccfg{host: []byte("h"), ack: true, timeout: 750 * time.Millisecond}
		mk := func(id string) concOp {
			o := concSend(cfq, "message", 20, id, true)
			o.ackDelay = 400 * time.Millisecond
			return o
		}
		progs := [][]concOp{{mk("slow-a")}, {mk("slow-b")}, {mk("slow-c")}}
		run := runConcFree(cfq, []concOp{{kind: "C", dialOK: true}}, progs)
		c.Eval()
		c.Hist("three queued senders behind a slow peer")
		for w := range progs {
			if len(run.rets[w]) != 1 || run.rets[w][0] != "ok" {
				c.Violation("judge-go", "c08-ack-mismatch", fmt.Sprintf("sender %d of three queued senders: %v although the peer acknowledged its chunk 400 ms after its own write (timeout 750 ms)", w, run.rets[w]), map[string]interface{}{"results": renderRets(run.rets)})
			}
		}
	}
	c.Extra("exhaustive", allEx)
	c.Extra("schedules", total)
	_ = protocol.MsgTypeHelo
}
