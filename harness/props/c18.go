package props

import (
	"bytes"
	"fmt"
	"time"

	"github.com/IBM/fluent-forward-go/fluent/protocol"

	"verif/harness/core"
	"verif/harness/gen"
)

func init() { All["C18"] = C18 }

// C18: decoding into a receiver that already holds another message of the same mode
// must give what decoding into a fresh receiver gives.
func C18(c *core.Ctx) {
	r := c.Rng
	poolN := c.N(7, 14)
	for _, mode := range gen.Modes {
		// a pool of well-formed messages: with/without options, nil options, sizes, chunks,
		// different entry counts, shorter/longer event streams
		type item struct {
			m   *gen.Msg
			enc []byte
		}
		var pool []item
		for len(pool) < poolN {
			m := gen.GenMsg(r, mode, false, false)
			switch len(pool) % 4 {
			case 0:
				m.Opts = &gen.Opts{Absent: true}
			case 1:
				s := int64(len(pool) + 1)
				m.Opts = &gen.Opts{Size: &s, Chunk: []byte(fmt.Sprintf("chunk-%d", len(pool))), Comp: []byte("gzip")}
			case 2:
				m.Opts = &gen.Opts{}
			}
			// the zero instant is a special case of many time representations: make sure a message
			// with EventTime (0,0) follows (and precedes) messages with other instants
			if len(pool)%3 == 2 {
				m.Sec, m.Nsec = 0, 0
				for i := range m.Entries {
					if i%2 == 0 {
						m.Entries[i].Sec, m.Entries[i].Nsec = 0, 0
					}
				}
			} else if m.Sec == 0 && m.Nsec == 0 {
				m.Sec = 1700000000
			}
			var enc []byte
			switch r.Intn(3) {
			case 0:
				enc, _ = marshal(m.ToGo(r).(codecMsg))
			default:
				enc = gen.AltMsg(r, m, true, nil, nil) // also the short arity without option element
			}
			if m.Opts.Absent {
				// both spellings of "no options" are in every pool: the option element dropped (what the library's own
				// encoders write for some modes) and an explicit nil element (what other senders write)
				full := map[string]int{"message": 4, "message_ext": 4, "forward": 3, "packed": 3}[mode]
				wantNil := len(pool)%8 == 0
				for try := 0; try < 64 && (int(enc[0]&0x0f) == full) != wantNil; try++ {
					enc = gen.AltMsg(r, m, true, nil, nil)
				}
			}
			pool = append(pool, item{m, enc})
		}
		if mode == "packed" {
			// event streams beyond any chunked-read threshold (64 KiB and more), after and before short ones
			for _, n := range []int{70000, 140000} {
				m := gen.GenMsg(r, mode, false, false)
				m.Stream = make([]byte, n)
				r.Read(m.Stream)
				if n > 100000 {
					m.Opts = &gen.Opts{Absent: true}
				}
				enc, _ := marshal(m.ToGo(r).(codecMsg))
				pool = append(pool, item{m, enc})
			}
		}
		var sized []int // packed: streams of 5000, 40 and 2500 bytes, in every order (storage kept from the longest one)
		if mode == "packed" {
			for _, n := range []int{5000, 40, 2500} {
				m := gen.GenMsg(r, mode, false, false)
				m.Stream = make([]byte, n)
				r.Read(m.Stream)
				enc, _ := marshal(m.ToGo(r).(codecMsg))
				sized = append(sized, len(pool))
				pool = append(pool, item{m, enc})
			}
		}
		seqs := [][]int{}
		for _, x := range sized {
			for _, y := range sized {
				for _, z := range sized {
					if x != y && y != z {
						seqs = append(seqs, []int{x, y, z})
					}
				}
			}
		}
		for a := range pool {
			for b := range pool {
				seqs = append(seqs, []int{a, b})
			}
		}
		for t := 0; t < c.N(40, 2000); t++ { // triples
			seqs = append(seqs, []int{r.Intn(len(pool)), r.Intn(len(pool)), r.Intn(len(pool))})
		}
		for _, seq := range seqs {
			for _, path := range paths {
				recv := newReceiver(mode)
				ok := true
				for _, i := range seq[:len(seq)-1] {
					if cl, _ := decodeObs(path, recv, pool[i].enc); cl != "ok" {
						ok = false
					}
				}
				last := pool[seq[len(seq)-1]]
				obsReuse, _, _ := decodeMsgObs(mode, path, recv, last.enc)
				obsFresh, _, _ := decodeMsgObs(mode, path, newReceiver(mode), last.enc)
				c.Eval()
				c.Hist(fmt.Sprintf("%s %s len=%d prevopts=%v lastopts=%v", mode, path, len(seq), !pool[seq[len(seq)-2]].m.Opts.Absent, !last.m.Opts.Absent))
				if seq[0] != seq[len(seq)-1] {
					c.Distinct(fmt.Sprint(mode, path, seq))
				}
				if !ok {
					c.Violation("judge-go", "c18-setup", "a well-formed message was rejected", map[string]interface{}{"mode": mode, "path": path})
				}
				if obsReuse != obsFresh {
					c.Violation("judge-go", "c18-reuse", "decoding into a used "+mode+" differs from decoding into a fresh one ("+path+")",
						map[string]interface{}{"mode": mode, "path": path, "previous": hx(pool[seq[len(seq)-2]].enc), "bytes": hx(last.enc), "reused": trunc(obsReuse, 400), "fresh": trunc(obsFresh, 400)})
				}
				// the model (a function of the bytes alone) must predict the reused receiver's content
				c.Corr("c18-reuse", "U_"+mode, []string{path, hx(last.enc)}, obsReuse)
				if len(seq) == 2 && seq[0] == 1 && seq[1] == 0 && path == "slice" {
					c.Sample(map[string]string{"mode": mode, "first": trunc(hx(pool[1].enc), 120), "then": trunc(hx(last.enc), 120), "observed": trunc(obsReuse, 200)})
				}
			}
		}
		// receivers that were not filled by a decoder but built by the caller (constructors, literals): records
		// shared between entries, records of types that can decode themselves, long streams, option objects
		shared := map[string]interface{}{"shared": "record", "n": int64(1)}
		built := func() []codecMsg {
			opt := &protocol.MessageOptions{Chunk: "built-chunk", Compressed: "gzip"}
			switch mode {
			case "message":
				return []codecMsg{protocol.NewMessage("built", shared), protocol.NewMessage("built", &protocol.EventTime{Time: time.Unix(77, 5)}),
					&protocol.Message{Tag: "built", Timestamp: 9, Record: []interface{}{shared, shared}, Options: opt}}
			case "message_ext":
				return []codecMsg{protocol.NewMessageExt("built", shared), protocol.NewMessageExt("built", &protocol.EventTime{Time: time.Unix(77, 5)}),
					&protocol.MessageExt{Tag: "built", Timestamp: protocol.EventTime{Time: time.Unix(1<<33, 9)}, Record: &protocol.MessageOptions{Chunk: "as-record"}, Options: opt}}
			case "forward":
				es := make(protocol.EntryList, 6)
				for i := range es {
					es[i] = protocol.EntryExt{Timestamp: protocol.EventTime{Time: time.Unix((1<<32)+int64(i), 3)}, Record: shared}
				}
				return []codecMsg{protocol.NewForwardMessage("built", es), &protocol.ForwardMessage{Tag: "built", Entries: es[:2:2], Options: opt}}
			default:
				pm, _ := protocol.NewCompressedPackedForwardMessageFromBytes("built", bytes.Repeat([]byte{0x92, 0x01, 0x80}, 3000))
				return []codecMsg{pm, protocol.NewPackedForwardMessageFromBytes("built", bytes.Repeat([]byte{0xc0}, 9000)), &protocol.PackedForwardMessage{Tag: "built", EventStream: []byte{}, Options: opt}}
			}
		}
		for li := 0; li < len(pool) && li < c.N(30, 300); li++ {
			last := pool[li]
			for _, path := range paths {
				for bi, recv := range built() {
					obsReuse, _, _ := decodeMsgObs(mode, path, recv, last.enc)
					obsFresh, _, _ := decodeMsgObs(mode, path, newReceiver(mode), last.enc)
					c.Eval()
					c.Hist(fmt.Sprintf("%s %s into a receiver built by the caller", mode, path))
					if obsReuse != obsFresh {
						c.Violation("judge-go", "c18-reuse", fmt.Sprintf("decoding into a %s built by the caller (variant %d) differs from decoding into a fresh one (%s)", mode, bi, path),
							map[string]interface{}{"mode": mode, "path": path, "built_variant": bi, "bytes": hx(last.enc), "reused": trunc(obsReuse, 400), "fresh": trunc(obsFresh, 400)})
					}
					c.Corr("c18-reuse", "U_"+mode, []string{path, hx(last.enc)}, obsReuse)
				}
			}
		}
	}
}
