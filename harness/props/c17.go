package props

import (
	"errors"
	"fmt"
	"math/rand"
	"net"
	"strings"
	"sync"
	"time"

	"github.com/IBM/fluent-forward-go/fluent/client"
	"github.com/IBM/fluent-forward-go/fluent/client/ws"
	"github.com/IBM/fluent-forward-go/fluent/client/ws/ext"
	"github.com/IBM/fluent-forward-go/fluent/protocol"
	"github.com/gorilla/websocket"

	"verif/harness/core"
	"verif/harness/fakes"
	"verif/harness/sched"
)

func init() { All["C17"] = C17 }

// xOp: one call on the WSClient (coq/model/WsClient.v: xop).
type xOp struct {
	kind   string // S send | W sendraw | C connect | D disconnect | R reconnect
	msg    protocol.ChunkEncoder
	enc    []byte // nil: cannot be encoded
	raw    []byte
	wok    bool
	dialOK bool
}

func (o xOp) model() string {
	switch o.kind {
	case "S":
		en := "-"
		if o.enc != nil {
			en = "x" + hx(o.enc)
		}
		return fmt.Sprintf("S,%s,%s", en, b01(o.wok))
	case "W":
		return fmt.Sprintf("W,x%s,%s", hx(o.raw), b01(o.wok))
	case "C", "R":
		return o.kind + "," + b01(o.dialOK)
	}
	return "D"
}

type xConf struct {
	name  string
	progs [][]xOp
	plan  [][2]bool // per session: (reader ends although nobody closed, Listen returns an error)
	max   int       // schedules to explore at most (0: the tier's default)
}

func (cf xConf) modelProgs() string {
	ps := make([]string, len(cf.progs))
	for i, p := range cf.progs {
		os := make([]string, len(p))
		for j, o := range p {
			os[j] = o.model()
		}
		ps[i] = strings.Join(os, ";")
		if len(p) == 0 {
			ps[i] = "-"
		}
	}
	return strings.Join(ps, "/")
}
func (cf xConf) modelPlan() string {
	if len(cf.plan) == 0 {
		return "-"
	}
	s := make([]string, len(cf.plan))
	for i, p := range cf.plan {
		s[i] = b01(p[0]) + b01(p[1])
	}
	return strings.Join(s, ",")
}

// wsFactory hands WSClient scripted ws.Connection fakes through NewSession.
type wsFactory struct {
	mu       sync.Mutex
	s        *sched.Sched
	plan     [][2]bool
	sessions []*fakes.WsConn
	dialOK   map[string]bool
	log      func(ev string)
	wok      func() bool
	setupErr bool // the dial succeeds but the connection cannot be set up (its deadline calls fail)
}

var errListen = errors.New("fake: reader failed")

func (f *wsFactory) New() (ext.Conn, error) {
	name := f.s.Name()
	f.s.Yield("new")
	f.mu.Lock()
	ok := true
	if v, has := f.dialOK[name]; has {
		ok = v
	}
	f.mu.Unlock()
	f.log("n:" + b01(ok))
	if !ok {
		return nil, errors.New("fake: dial failed")
	}
	ec := fakes.NewExtConn()
	f.mu.Lock()
	if f.setupErr {
		ec.DeadlineErr = errors.New("fake: deadline cannot be set")
	}
	f.mu.Unlock()
	return ec, nil
}

func (f *wsFactory) NewSession(_ ws.Connection) *client.WSSession {
	f.mu.Lock()
	defer f.mu.Unlock()
	id := len(f.sessions)
	c := fakes.NewWsConn(id)
	if id < len(f.plan) {
		c.EndsAlone = f.plan[id][0]
		if f.plan[id][1] {
			c.ListenErr = errListen
		}
	}
	c.Hook = func(op string) { f.s.Yield(op) }
	c.Log = f.log
	c.WriteOK = func(b []byte) bool { return f.wok() }
	f.sessions = append(f.sessions, c)
	return &client.WSSession{Connection: c}
}

type xRun struct {
	picks   []int
	starved string
	events  []string
	rets    [][]string
	widths  []int
	stuck   bool
	panics  map[string]interface{}
	strace  []sched.Step
	conns   []*fakes.WsConn
}

func xRet(kind string, err error) string {
	if err == nil {
		return "0"
	}
	msg := err.Error()
	switch {
	case err == errListen:
		return "2"
	case strings.Contains(msg, "no active session"):
		return "1"
	case strings.Contains(msg, "already active"):
		return "5"
	case strings.Contains(msg, "dial failed"):
		if kind == "S" || kind == "W" {
			return "2" // the error a failed Reconnect left behind
		}
		return "6"
	case strings.Contains(msg, "write failed"):
		return "4"
	}
	if kind == "S" {
		return "3" // encode error
	}
	return "9"
}

func runX(cf xConf, choices []int, free bool) xRun {
	s := sched.New()
	if free {
		s.Release()
	}
	defer attachFine(s, free)()
	if fineMode && !free && fineStarve != "" {
		s.Starve, s.StarveBudget = fineStarve, 3*wsCloseDeadline
	}
	var mu sync.Mutex
	res := xRun{rets: make([][]string, len(cf.progs))}
	cur := map[string]*xOp{}
	f := &wsFactory{s: s, plan: cf.plan, dialOK: map[string]bool{}}
	stopLog := false
	f.log = func(ev string) {
		name := s.Name()
		mu.Lock()
		stop := stopLog
		mu.Unlock()
		if stop {
			return
		}
		who := "*"
		var i int
		if _, err := fmt.Sscanf(name, "w%d", &i); err == nil {
			who = fmt.Sprint(i)
		}
		mu.Lock()
		res.events = append(res.events, who+":"+ev)
		mu.Unlock()
	}
	f.wok = func() bool {
		mu.Lock()
		defer mu.Unlock()
		if o := cur[s.Name()]; o != nil {
			return o.wok
		}
		return true
	}
	cl := client.NewWS(client.WSConnectionOptions{Factory: f})
	for w := range cf.progs {
		w := w
		name := fmt.Sprintf("w%d", w)
		s.Go(name, func() {
			for i := range cf.progs[w] {
				o := &cf.progs[w][i]
				mu.Lock()
				cur[name] = o
				mu.Unlock()
				var err error
				switch o.kind {
				case "S":
					err = cl.Send(o.msg)
				case "W":
					err = cl.SendRaw(o.raw)
				case "C":
					f.mu.Lock()
					f.dialOK[name] = o.dialOK
					f.mu.Unlock()
					err = cl.Connect()
				case "D":
					_ = cl.Disconnect()
				case "R":
					f.mu.Lock()
					f.dialOK[name] = o.dialOK
					f.mu.Unlock()
					err = cl.Reconnect()
				}
				mu.Lock()
				res.rets[w] = append(res.rets[w], xRet(o.kind, err))
				mu.Unlock()
			}
		})
	}
	if free {
		res.stuck = !s.WaitDone(5 * time.Second)
	} else {
		res.widths, res.stuck = s.Run(sched.PickFrom(choices), 100*time.Millisecond)
		// the background readers of sessions that were closed run to their end
		for i := 0; i < 50; i++ {
			w2, _ := s.Run(sched.PickFrom(nil), 10*time.Millisecond)
			if len(w2) == 0 {
				break
			}
		}
	}
	// close what is still open so that the reader goroutines end
	f.mu.Lock()
	res.conns = append(res.conns, f.sessions...)
	f.mu.Unlock()
	mu.Lock()
	stopLog = true // the teardown below is not part of the observed run
	mu.Unlock()
	s.Release()
	for _, c := range res.conns {
		_ = c.Close()
	}
	time.Sleep(200 * time.Microsecond)
	mu.Lock()
	res.events = append([]string{}, res.events...)
	mu.Unlock()
	res.panics = s.Panics
	res.strace = s.Trace
	res.picks, res.starved = picksOf(s), s.Starve
	return res
}

func xSend(size int, wok bool) xOp {
	m := sizedMessage(nil, "message", size, "")
	b, _ := m.(*protocol.Message).MarshalMsg(nil)
	return xOp{kind: "S", msg: m, enc: b, wok: wok}
}

func xBad() xOp {
	return xOp{kind: "S", msg: &protocol.Message{Tag: "t", Timestamp: 1, Record: unencodableRecord(2100, 1)}, enc: nil, wok: true}
}

func xExplore(c *core.Ctx, cf xConf, max int, judge func(run xRun, replay map[string]interface{})) (int, bool) {
	distinct := map[string]bool{}
	readers := fmt.Sprint(len(cf.plan) + 4)
	n, ex := explore(c, max, func(choices []int) []int {
		c.InFlight(map[string]interface{}{"configuration": cf.name, "programs": cf.modelProgs(), "plan": cf.modelPlan(), "choices": fmt.Sprint(choices)})
		run := runX(cf, choices, false)
		choices = effective(choices, run.picks)
		c.Eval()
		tr := strings.Join(run.events, ";")
		if tr == "" {
			tr = "-"
		}
		distinct[tr] = true
		replay := map[string]interface{}{"configuration": cf.name, "programs": cf.modelProgs(), "plan": cf.modelPlan(), "choices": fmt.Sprint(choices),
			"schedule": trunc(sched.RenderTrace(run.strace), 600), "events": trunc(tr, 500), "results": renderRets(run.rets)}
		if run.starved != "" {
			replay["starved"] = run.starved + " is not resumed while parked at an I/O event (stalled underlying call), for up to 3 close deadlines"
		}
		for name, p := range run.panics {
			c.Violation("panic", "c17-panic", fmt.Sprintf("goroutine %s panicked: %v (%s)", name, p, cf.name), replay)
		}
		if run.stuck {
			c.Violation("deadlock", "c17-stuck", "a call did not return although no goroutine can move ("+cf.name+")", replay)
		}
		c.Corr("c17-trace", "wsc_check", []string{"0", cf.modelProgs(), cf.modelPlan(), readers, tr, renderRets(run.rets)}, "ok")
		// each successful Send = exactly one Write with the complete encoding; SendRaw = the caller's bytes
		for w, p := range cf.progs {
			writes := []string{}
			for _, ev := range run.events {
				f := strings.Split(ev, ":")
				if f[0] == fmt.Sprint(w) && f[1] == "w" {
					d := ""
					if len(f) > 3 {
						d = f[3]
					}
					writes = append(writes, d)
				}
			}
			k := 0
			for i, o := range p {
				if i >= len(run.rets[w]) || (o.kind != "S" && o.kind != "W") {
					continue
				}
				r := run.rets[w][i]
				want := hx(o.enc)
				if o.kind == "W" {
					want = hx(o.raw)
				}
				if r == "0" || r == "4" {
					if k >= len(writes) || writes[k] != want {
						c.Violation("judge-go", "c17-frame", fmt.Sprintf("send %d of worker %d (result %s) did not hand the connection exactly one write with the message's bytes (%s)", i, w, r, cf.name), replay)
					}
					k++
				}
			}
			if k != len(writes) {
				c.Violation("judge-go", "c17-frame", fmt.Sprintf("worker %d performed %d writes for %d sends that reached the connection (%s)", w, len(writes), k, cf.name), replay)
			}
		}
		if judge != nil {
			judge(run, replay)
		}
		return run.widths
	})
	c.Hist(fmt.Sprintf("%s: %d schedules, %d distinct traces, exhaustive=%v", cf.name, n, len(distinct), ex))
	for tr := range distinct {
		c.Distinct(cf.name + tr)
	}
	return n, ex
}

// C17: websocket client — one frame per message, sticky read errors, safe lifecycle.
func C17(c *core.Ctx) {
	fine := setFine(c)
	r := rand.New(rand.NewSource(c.Seed))
	C1, C0, D, R1, R0 := xOp{kind: "C", dialOK: true}, xOp{kind: "C", dialOK: false}, xOp{kind: "D"}, xOp{kind: "R", dialOK: true}, xOp{kind: "R", dialOK: false}
	raw := xOp{kind: "W", raw: []byte{0x93, 1, 2}, wok: true}
	// (a) histories: every call sequence of one goroutine up to a bound
	alphabet := []func() xOp{func() xOp { return C1 }, func() xOp { return C0 }, func() xOp { return D }, func() xOp { return R1 }, func() xOp { return R0 },
		func() xOp { return xSend(20, true) }, func() xOp { return xSend(3000, false) }, func() xOp { return raw }, xBad}
	names := []string{"C1", "C0", "D", "R1", "R0", "S", "Sfail", "W", "Sbad"}
	plans := [][][2]bool{nil, {{true, true}}, {{false, true}, {true, true}}, {{true, false}, {false, false}}}
	var seqs [][]int
	var rec func(prefix []int)
	maxLen := c.N(2, 4)
	rec = func(prefix []int) {
		if len(prefix) > 0 {
			seqs = append(seqs, append([]int{}, prefix...))
		}
		if len(prefix) == maxLen {
			return
		}
		for k := range alphabet {
			rec(append(prefix, k))
		}
	}
	rec(nil)
	for t := 0; t < c.N(60, 3000); t++ {
		n := maxLen + 1 + r.Intn(4)
		s := make([]int, n)
		for i := range s {
			s[i] = r.Intn(len(alphabet))
		}
		seqs = append(seqs, s)
	}
	if fine { // the fine-grained phase keeps a sample of the histories: pools are adversarial (LIFO), locks are yield points
		r.Shuffle(len(seqs), func(i, j int) { seqs[i], seqs[j] = seqs[j], seqs[i] })
		if len(seqs) > c.N(30, 600) {
			seqs = seqs[:c.N(30, 600)]
		}
	}
	for si, seq := range seqs {
		plan := plans[si%len(plans)]
		prog := make([]xOp, len(seq))
		nm := ""
		for i, k := range seq {
			prog[i] = alphabet[k]()
			nm += names[k] + " "
		}
		cf := xConf{name: "history " + nm, progs: [][]xOp{prog}, plan: plan}
		// a single worker: the only scheduling freedom is between it and the background readers
		xExplore(c, cf, c.N(3, 40), nil)
	}
	c.Extra("exhaustive_history_length", maxLen)
	// (b) concurrency: sends against Disconnect / Reconnect, readers ending with an error
	confs := []xConf{
		{name: "Send || Disconnect", progs: [][]xOp{{C1, xSend(20, true)}, {D}}},
		{name: "Send;Send || Reconnect", progs: [][]xOp{{C1, xSend(20, true), xSend(30, true)}, {R1}}},
		{name: "SendRaw || Reconnect(fail) || Send", progs: [][]xOp{{C1, raw}, {R0}, {xSend(20, true)}}},
		{name: "reader fails: Send;Send || Reconnect;Send", progs: [][]xOp{{C1, xSend(20, true), xSend(21, true)}, {R1, xSend(22, true)}}, plan: [][2]bool{{true, true}, {false, false}}},
		{name: "reader of a replaced session fails on close", progs: [][]xOp{{C1, R1, xSend(20, true), xSend(21, true)}}, plan: [][2]bool{{false, true}, {false, false}}},
		{name: "Connect || Connect || Send", progs: [][]xOp{{C1}, {C1}, {xSend(20, true)}}},
		{name: "Disconnect || Disconnect || Send", progs: [][]xOp{{C1, D}, {D}, {xSend(20, true)}}},
	}
	// a failed encode between successful sends, several times over (scratch buffers the
	// client may pool must not carry anything from the failed message into the next frame)
	bigBad := func(n int) xOp {
		return xOp{kind: "S", msg: &protocol.Message{Tag: "t", Timestamp: 1, Record: unencodableRecord(n, 0)}, enc: nil, wok: true}
	}
	for _, n := range []int{0, 100, 2100, 4096, 9000} {
		prog := []xOp{C1}
		for k := 0; k < 4; k++ {
			prog = append(prog, bigBad(n), xSend(20+k, true), xBad(), xSend(3000+k, k%2 == 0), raw)
		}
		confs = append(confs, xConf{name: fmt.Sprintf("failed encode (%d bytes before the bad value) then sends, repeated", n), progs: [][]xOp{prog}, max: 2})
	}
	if !fine {
		c17SelfClosed(c)
		c17SetupFails(c)
		c17RealConnection(c)
	}
	total, allEx := 0, true
	for _, cf := range confs {
		max := c.N(70, 10000)
		if fine {
			max = c.N(15, 2000)
		}
		if cf.max > 0 {
			max = cf.max
		}
		n, ex := xExplore(c, cf, max, nil)
		total += n
		allEx = allEx && ex
		c.Sample(map[string]interface{}{"configuration": cf.name, "schedules": n, "exhaustive": ex})
	}
	// (c) free running under the race detector
	for it := 0; it < c.N(100, 3000) && !fine; it++ {
		cf := confs[it%len(confs)]
		run := runX(cf, nil, true)
		c.Eval()
		c.Hist("free-running (race detector)")
		for name, p := range run.panics {
			c.Violation("panic", "c17-panic", fmt.Sprintf("goroutine %s panicked in the free-running mix: %v (%s)", name, p, cf.name), nil)
		}
		if run.stuck {
			c.Violation("deadlock", "c17-stuck", "free-running mix did not finish ("+cf.name+")", nil)
		}
	}
	c.Extra("exhaustive", allEx)
	c.Extra("schedules", total)
}

// c17SelfClosed: the session's connection closes by itself (reader error handled by the
// default handler, or peer close); then Reconnect fails: no session may be left behind, and a
// later Connect dials again.
// c17SetupFails: the dial of a Reconnect (or Connect) succeeds but the new connection cannot be set up
// (ws.NewConnection fails): it is a failed call like a failed dial -- no session is left behind, the next Connect dials.
func c17SetupFails(c *core.Ctx) {
	for _, first := range []string{"Reconnect", "Connect"} {
		s := sched.New()
		s.Release()
		f := &wsFactory{s: s, dialOK: map[string]bool{}, log: func(string) {}, wok: func() bool { return true }}
		cl := client.NewWS(client.WSConnectionOptions{Factory: f})
		replay := map[string]interface{}{"scenario": "Connect; " + first + " whose dial succeeds but whose connection set-up fails; Connect"}
		if first == "Reconnect" {
			if err := cl.Connect(); err != nil {
				c.Violation("judge-go", "c17-setup", "Connect failed: "+err.Error(), replay)
				continue
			}
		}
		f.mu.Lock()
		f.setupErr = true
		f.mu.Unlock()
		var err error
		if first == "Reconnect" {
			err = cl.Reconnect()
		} else {
			err = cl.Connect()
		}
		c.Eval()
		c.Hist("connection set-up fails after a successful dial (" + first + ")")
		if err == nil {
			c.Violation("judge-go", "c17-setup", first+" returned nil although the connection could not be set up", replay)
		}
		if ses := cl.Session(); ses != nil {
			c.Violation("judge-go", "c17-failed-reconnect-session", "a failed "+first+" (set-up failure after a successful dial) left a session behind", replay)
		}
		if err := cl.SendRaw([]byte{1}); err == nil {
			c.Violation("judge-go", "c17-setup", "SendRaw succeeded without a live session", replay)
		}
		f.mu.Lock()
		f.setupErr = false
		f.mu.Unlock()
		if err := cl.Connect(); err != nil {
			c.Violation("judge-go", "c17-failed-reconnect-session", "Connect after a failed "+first+": "+err.Error(), replay)
		}
		_ = cl.Disconnect()
		f.mu.Lock()
		for _, x := range f.sessions {
			_ = x.Close()
		}
		f.mu.Unlock()
	}
}

func c17SelfClosed(c *core.Ctx) {
	for _, withErr := range []bool{true, false} {
		s := sched.New()
		s.Release()
		f := &wsFactory{s: s, dialOK: map[string]bool{}, log: func(string) {}, wok: func() bool { return true }}
		if withErr {
			f.plan = [][2]bool{{false, true}}
		}
		dials := 0
		cl := client.NewWS(client.WSConnectionOptions{Factory: f})
		replay := map[string]interface{}{"scenario": "Connect; the connection closes by itself; Reconnect (dial fails); Connect", "reader_error": withErr}
		if err := cl.Connect(); err != nil {
			c.Violation("judge-go", "c17-selfclosed", "Connect failed: "+err.Error(), replay)
			continue
		}
		dials++
		f.mu.Lock()
		conn := f.sessions[0]
		f.mu.Unlock()
		conn.SelfClose()
		time.Sleep(2 * time.Millisecond)
		if withErr {
			// the reader ended with an error on a connection that reports Closed() by then (the default read
			// handler closes it first): that error is what sends return
			var serr error
			for dl := time.Now().Add(time.Second); time.Now().Before(dl); time.Sleep(time.Millisecond) {
				if serr = cl.SendRaw([]byte{1}); serr == errListen {
					break
				}
			}
			if serr != errListen {
				c.Violation("judge-go", "c17-sticky-error", fmt.Sprintf("the reader ended with an error on a connection that had closed by itself, but SendRaw returns %v", serr), replay)
			}
		}
		f.mu.Lock()
		f.dialOK[s.Name()] = false
		f.mu.Unlock()
		rerr := cl.Reconnect()
		c.Eval()
		c.Hist("self-closed connection, failed Reconnect")
		if rerr == nil {
			c.Violation("judge-go", "c17-selfclosed", "Reconnect returned nil although the dial failed", replay)
		}
		if ses := cl.Session(); ses != nil {
			c.Violation("judge-go", "c17-failed-reconnect-session", "a failed Reconnect left a session behind (the old connection had closed by itself)", replay)
		}
		if err := cl.SendRaw([]byte{1}); err == nil {
			c.Violation("judge-go", "c17-selfclosed", "SendRaw succeeded without a live session", replay)
		}
		f.mu.Lock()
		f.dialOK[s.Name()] = true
		f.mu.Unlock()
		if err := cl.Connect(); err != nil {
			c.Violation("judge-go", "c17-failed-reconnect-session", "Connect after a failed Reconnect: "+err.Error(), replay)
		}
		_ = cl.Disconnect()
		f.mu.Lock()
		for _, x := range f.sessions {
			_ = x.Close()
		}
		f.mu.Unlock()
	}
}

// realConnFactory keeps the library's own ws.Connection (over a scripted ext.Conn) in the session, instead of the
// stand-in the other phases use: the default read handler closes the connection when the reader fails, so the
// connection reports Closed() by the time Listen returns the error.
type realConnFactory struct {
	mu    sync.Mutex
	conns []*fakes.ExtConn
}

func (f *realConnFactory) New() (ext.Conn, error) {
	ec := fakes.NewExtConn()
	f.mu.Lock()
	f.conns = append(f.conns, ec)
	f.mu.Unlock()
	return ec, nil
}

func (f *realConnFactory) NewSession(conn ws.Connection) *client.WSSession {
	return &client.WSSession{Connection: conn}
}

// c17RealConnection: reader faults on the genuine connection object: the error the reader ended with is what later
// sends return, until a successful Reconnect.
func c17RealConnection(c *core.Ctx) {
	faults := []fakes.PeerItem{{Kind: "neterr"}, {Kind: "close", Code: 1011}, {Kind: "close", Code: 1008}, {Kind: "close", Code: 1001}}
	for fi, fault := range faults {
		for ri, raw := range []bool{false, true} {
			f := &realConnFactory{}
			// the application's own ReadHandler (a rarely used option): none (the default closes and returns the
			// error), one that passes the error on without closing, one that closes and passes it on
			copts := ws.ConnectionOptions{CloseDeadline: wsCloseDeadline}
			handler := []string{"default", "passes the error on", "closes and passes the error on"}[(fi+ri)%3]
			switch handler {
			case "passes the error on":
				copts.ReadHandler = func(_ ws.Connection, _ int, _ []byte, err error) error { return err }
			case "closes and passes the error on":
				copts.ReadHandler = func(cn ws.Connection, _ int, _ []byte, err error) error {
					if err != nil {
						_ = cn.Close()
					}
					return err
				}
			}
			cl := client.NewWS(client.WSConnectionOptions{Factory: f, ConnectionOptions: copts})
			replay := map[string]interface{}{"scenario": "Connect; send; the peer breaks the connection (reader ends with an error on the library's own ws.Connection); send; send; Reconnect; send", "fault": fault.Kind, "code": fault.Code, "raw": raw, "read_handler": handler}
			send := func() error {
				if raw {
					return cl.SendRaw([]byte{0x93, 0xa1, 't', 0x01, 0x80})
				}
				return cl.Send(&protocol.Message{Tag: "t", Timestamp: 1, Record: map[string]interface{}{}})
			}
			if err := cl.Connect(); err != nil {
				c.Violation("judge-go", "c17-real-connection", "Connect failed: "+err.Error(), replay)
				continue
			}
			if err := send(); err != nil {
				c.Violation("judge-go", "c17-real-connection", "send on a healthy connection failed: "+err.Error(), replay)
			}
			ec := f.conns[0]
			ec.Lock()
			ec.Script = append(ec.Script, fault)
			ec.Unlock()
			ec.Wake()
			// the reader's error, as the connection's Listen reports it: a close error with that code / a network error
			isReaderErr := func(err error) bool {
				if err == nil {
					return false
				}
				if fault.Kind == "close" {
					return websocket.IsCloseError(err, fault.Code)
				}
				var ne net.Error
				return errors.As(err, &ne)
			}
			var err1 error
			deadline := time.Now().Add(2 * time.Second)
			for {
				err1 = send()
				if isReaderErr(err1) || time.Now().After(deadline) {
					break
				}
				time.Sleep(2 * time.Millisecond)
			}
			err2 := send()
			c.Eval()
			c.Hist("reader fault on the library's own connection: " + fault.Kind)
			if !isReaderErr(err1) || !isReaderErr(err2) {
				c.Violation("judge-go", "c17-sticky-error", fmt.Sprintf("the reader of the session ended with an error (%s %d) but later sends return %v, then %v", fault.Kind, fault.Code, err1, err2), replay)
			}
			if err := cl.Reconnect(); err != nil {
				c.Violation("judge-go", "c17-real-connection", "Reconnect failed: "+err.Error(), replay)
			} else if err := send(); err != nil {
				c.Violation("judge-go", "c17-sticky-error", "a send after a successful Reconnect still fails: "+err.Error(), replay)
			}
			_ = cl.Disconnect()
		}
	}
}
