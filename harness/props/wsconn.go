package props

import (
	"fmt"
	"strings"
	"sync"
	"time"

	"github.com/IBM/fluent-forward-go/fluent/client/ws"

	"verif/harness/core"
	"verif/harness/fakes"
	"verif/harness/sched"
)

// wsOp: one call on a ws.Connection (coq/model/WsConn.v: wop).
type wsOp struct {
	kind string // K close | L listen | W write
	data []byte
	wok  bool
}

func (o wsOp) model() string {
	switch o.kind {
	case "K", "L":
		return o.kind
	default:
		return fmt.Sprintf("Wx%s,%s", hx(o.data), b01(o.wok))
	}
}

type wsConf struct {
	name   string
	progs  [][]wsOp
	script []fakes.PeerItem
	cfok   bool
}

func (cf wsConf) modelProgs() string {
	ps := make([]string, len(cf.progs))
	for i, p := range cf.progs {
		os := make([]string, len(p))
		for j, o := range p {
			os[j] = o.model()
		}
		ps[i] = strings.Join(os, ";")
		if len(p) == 0 {
			ps[i] = "-"
		}
	}
	return strings.Join(ps, "/")
}

func (cf wsConf) modelScript() string {
	if len(cf.script) == 0 {
		return "-"
	}
	s := make([]string, len(cf.script))
	for i, it := range cf.script {
		switch it.Kind {
		case "data":
			s[i] = "d"
		case "neterr":
			s[i] = "n"
		default:
			s[i] = fmt.Sprintf("c%d", it.Code)
		}
	}
	return strings.Join(s, ",")
}

type wsRun struct {
	picks     []int
	starved   string
	events    []string // "<tid|*>:r" ...
	rets      [][]string
	durs      [][]time.Duration
	widths    []int
	stuck     bool
	panics    map[string]interface{}
	strace    []sched.Step
	closes    int
	frames8   int
	closedEnd bool
	maxWrite  int
	maxRead   int
	twoInside string // set when the scheduler saw two goroutines parked inside the same underlying call
}

const wsCloseDeadline = 150 * time.Millisecond

func wsRetCode(kind string, err error, n int, want int) string {
	if err == nil {
		if kind == "W" && n != want {
			return "9"
		}
		return "0"
	}
	switch {
	case strings.Contains(err.Error(), "multiple close calls"):
		return "1"
	case strings.Contains(err.Error(), "close deadline expired"):
		return "2"
	case strings.Contains(err.Error(), "already listening"):
		return "4"
	}
	if kind == "L" {
		return "5"
	}
	return "3"
}

// runWs executes one schedule of the workers' programs on a fresh ws.connection over a
// scripted underlying connection.  free = run without the scheduler.
func runWs(cf wsConf, choices []int, free bool) wsRun {
	s := sched.New()
	if free {
		s.Release()
	}
	defer attachFine(s, free)()
	if fineMode && !free && fineStarve != "" {
		s.Starve, s.StarveBudget = fineStarve, 3*wsCloseDeadline
	}
	var mu sync.Mutex
	res := wsRun{rets: make([][]string, len(cf.progs)), durs: make([][]time.Duration, len(cf.progs))}
	ec := fakes.NewExtConn()
	ec.Script = append([]fakes.PeerItem{}, cf.script...)
	ec.CloseFrameOK = cf.cfok
	cur := map[string]*wsOp{}
	ec.WriteOK = func(d []byte) bool {
		mu.Lock()
		defer mu.Unlock()
		if o := cur[s.Name()]; o != nil && o.kind == "W" {
			return o.wok
		}
		return true
	}
	ec.Hook = func(op string) { s.Yield(op) }
	ec.Log = func(ev string) {
		name := s.Name()
		who := "*"
		var i int
		if _, err := fmt.Sscanf(name, "w%d", &i); err == nil {
			who = fmt.Sprint(i)
		}
		mu.Lock()
		res.events = append(res.events, who+":"+ev)
		mu.Unlock()
	}
	conn, err := ws.NewConnection(ec, ws.ConnectionOptions{CloseDeadline: wsCloseDeadline})
	if err != nil {
		panic(err)
	}
	for w := range cf.progs {
		w := w
		name := fmt.Sprintf("w%d", w)
		s.Go(name, func() {
			for i := range cf.progs[w] {
				o := &cf.progs[w][i]
				mu.Lock()
				cur[name] = o
				mu.Unlock()
				t0, h0 := time.Now(), s.Held()
				var r string
				switch o.kind {
				case "K":
					r = wsRetCode("K", conn.Close(), 0, 0)
				case "L":
					r = wsRetCode("L", conn.Listen(), 0, 0)
				case "W":
					n, err := conn.Write(o.data)
					r = wsRetCode("W", err, n, len(o.data))
				}
				mu.Lock()
				res.rets[w] = append(res.rets[w], r)
				// under the scheduler the call's wall-clock time includes the time goroutines were
				// held at yield points: not the library's time
				d := time.Since(t0) - (s.Held() - h0)
				res.durs[w] = append(res.durs[w], d)
				mu.Unlock()
			}
		})
	}
	if free {
		res.stuck = !s.WaitDone(5 * time.Second)
	} else {
		res.widths, res.stuck = s.Run(func(step int, en []string) int {
			if step < len(choices) {
				return choices[step]
			}
			return 0
		}, 4*wsCloseDeadline)
		// let the library's own goroutines (read loops) run to their end
		for i := 0; i < 50; i++ {
			w2, _ := s.Run(sched.PickFrom(nil), 20*time.Millisecond)
			if len(w2) == 0 {
				break
			}
		}
	}
	s.Release()
	res.panics = s.Panics
	res.strace = s.Trace
	res.picks, res.starved = picksOf(s), s.Starve
	for _, st := range s.Trace {
		seen := map[string]string{}
		for k, n := range st.Enabled {
			if k < len(st.Evs) && (st.Evs[k] == "write" || st.Evs[k] == "read") {
				if other, ok := seen[st.Evs[k]]; ok {
					res.twoInside = fmt.Sprintf("%s and %s both inside the underlying %s", other, n, st.Evs[k])
				}
				seen[st.Evs[k]] = n
			}
		}
	}
	res.closes = ec.NumCloses()
	res.frames8 = ec.CloseFrames()
	res.closedEnd = conn.Closed()
	res.maxWrite, res.maxRead = ec.MaxInside["write"], ec.MaxInside["read"]
	return res
}

func renderWsRets(rets [][]string) string { return renderRets(rets) }

// wsExplore enumerates the schedules of one configuration, compares each with the model
// (trace acceptance) and applies the judges.
func wsExplore(c *core.Ctx, sig string, cf wsConf, max int, judge func(run wsRun, replay map[string]interface{})) (int, bool) {
	distinct := map[string]bool{}
	n, ex := explore(c, max, func(choices []int) []int {
		c.InFlight(map[string]interface{}{"configuration": cf.name, "programs": cf.modelProgs(), "peer": cf.modelScript(), "close_frame_write_ok": cf.cfok, "choices": fmt.Sprint(choices)})
		run := runWs(cf, choices, false)
		choices = effective(choices, run.picks)
		c.Eval()
		tr := strings.Join(run.events, ";")
		if tr == "" {
			tr = "-"
		}
		distinct[tr] = true
		replay := map[string]interface{}{"configuration": cf.name, "programs": cf.modelProgs(), "peer": cf.modelScript(), "close_frame_write_ok": cf.cfok,
			"choices": fmt.Sprint(choices), "schedule": trunc(sched.RenderTrace(run.strace), 600), "events": trunc(tr, 400), "results": renderWsRets(run.rets)}
		if run.starved != "" {
			replay["starved"] = run.starved + " is not resumed while parked at an I/O event (stalled underlying call), for up to 3 close deadlines"
		}
		for name, p := range run.panics {
			c.Violation("panic", sig+"-panic", fmt.Sprintf("goroutine %s panicked: %v (%s)", name, p, cf.name), replay)
		}
		if run.stuck {
			c.Violation("deadlock", sig+"-stuck", "a call did not return although no goroutine can move ("+cf.name+")", replay)
		}
		c.Corr(sig+"-trace", "ws_check", []string{"0", cf.modelProgs(), cf.modelScript(), b01(cf.cfok), tr, renderWsRets(run.rets)}, "ok")
		if judge != nil {
			judge(run, replay)
		}
		return run.widths
	})
	c.Hist(fmt.Sprintf("%s: %d schedules, %d distinct traces, exhaustive=%v", cf.name, n, len(distinct), ex))
	for tr := range distinct {
		c.Distinct(cf.name + tr)
	}
	return n, ex
}
