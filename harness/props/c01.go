package props

import (
	"bytes"
	"fmt"
	"strings"

	"github.com/IBM/fluent-forward-go/fluent/protocol"
	"github.com/tinylib/msgp/msgp"

	"verif/harness/core"
	"verif/harness/gen"
)

func init() { All["C01"] = C01 }

var modelMode = map[string]string{"message": "message", "message_ext": "message_ext", "forward": "forward", "packed": "packed"}
var wireMode = map[string]string{"message": "message", "message_ext": "message", "forward": "forward", "packed": "packed"}

// lenient shapes: records may be any msgpack value (C01's input space)
var wireModeAny = map[string]string{"message": "message*", "message_ext": "message*", "forward": "forward*", "packed": "packed"}

// c01EncodeCases: both encoder paths against the model encoder (exact, or up to map
// order when Go's map iteration can reorder), and the append-only law of MarshalMsg.
func c01EncodeCases(c *core.Ctx, m *gen.Msg) (encM, encE []byte, ok bool) {
	g := m.ToGo(c.Rng).(codecMsg)
	encM, obsM := marshal(g)
	encE, obsE := encode(g)
	args := m.ModelArgs()
	if m.HasMultiKeyMap() && obsM != "err" && obsM != "panic" {
		c.Corr("c01-encode", "Mchk_"+m.Mode, append(append([]string{}, args...), hx(encM)), "ok")
		c.Corr("c01-encode", "Mchk_"+m.Mode, append(append([]string{}, args...), hx(encE)), "ok")
	} else {
		c.Corr("c01-encode", "M_"+m.Mode, args, obsM)
		c.Corr("c01-encode", "M_"+m.Mode, args, obsE)
	}
	if obsM == "panic" || obsE == "panic" {
		c.Violation("panic", "c01-encode-panic", "encoder panicked", map[string]interface{}{"mode": m.Mode, "args": args})
	}
	// append-only: prefix with spare capacity and sentinel bytes beyond len
	prefix := make([]byte, 7, 7+len(encM)+64)
	for i := range prefix {
		prefix[i] = byte(0xA0 + i)
	}
	out, err := g.MarshalMsg(prefix)
	if err == nil {
		if len(out) < 7 || !bytes.Equal(out[:7], []byte{0xA0, 0xA1, 0xA2, 0xA3, 0xA4, 0xA5, 0xA6}) {
			c.Violation("judge-go", "c01-append-only", "MarshalMsg changed the buffer it was given", map[string]interface{}{"mode": m.Mode, "args": args})
		} else if !m.HasMultiKeyMap() && !bytes.Equal(out[7:], encM) {
			c.Violation("judge-go", "c01-append-only", "MarshalMsg(prefix) is not prefix ++ MarshalMsg(nil)", map[string]interface{}{"mode": m.Mode, "args": args})
		}
	}
	return encM, encE, obsM != "err" && obsM != "panic" && obsE != "err" && obsE != "panic"
}

// c01DecodeCases: decode [in ++ rest] on both paths; model correspondence, spec judge,
// and (Go side) equality with the abstract message the bytes were made from.
func c01DecodeCases(c *core.Ctx, m *gen.Msg, in []byte, how string) {
	want := m.Norm().Render(true)
	for _, path := range paths {
		rest := []byte{}
		if c.Rng.Intn(2) == 0 {
			rest = gen.GenBytes(c.Rng, false)
		}
		full := append(append([]byte{}, in...), rest...)
		obs, dec, left := decodeMsgObs(m.Mode, path, newReceiver(m.Mode), full)
		c.Eval()
		c.Hist(fmt.Sprintf("%s %s %s class=%s", how, m.Mode, path, obs[:2]))
		c.Corr("c01-decode", "U_"+modelMode[m.Mode], []string{path, hx(full)}, obs)
		if dec == nil {
			c.Violation("judge-go", "c01-decode-rejected", "decoder rejected a well-formed "+m.Mode+" ("+how+", "+path+")",
				map[string]interface{}{"mode": m.Mode, "path": path, "bytes": hx(full), "class": obs})
			continue
		}
		if left != len(rest) {
			c.Violation("judge-go", "c01-leftover", fmt.Sprintf("decoder left %d bytes, %d were appended (%s %s %s)", left, len(rest), how, m.Mode, path),
				map[string]interface{}{"mode": m.Mode, "path": path, "bytes": hx(full)})
		}
		if got := dec.Render(true); got != want {
			c.Violation("judge-go", "c01-value", "decoded value differs from the original ("+how+", "+m.Mode+", "+path+")",
				map[string]interface{}{"mode": m.Mode, "path": path, "bytes": hx(full), "want": want, "got": got})
		}
		// independent judge: the decoded value is what the specification assigns to these bytes
		c.Judge("c01-spec-value", "judge_wire", []string{wireModeAny[m.Mode], hx(in), dec.Render(true)}, "decoded value vs specification parse ("+how+", "+path+")")
	}
}

func C01(c *core.Ctx) {
	n := c.N(60, 1500)
	for i := 0; i < n; i++ {
		for _, mode := range gen.Modes {
			m := gen.GenMsg(c.Rng, mode, false, c.Thorough() || i%10 == 0)
			encM, encE, ok := c01EncodeCases(c, m)
			c.Distinct(m.Mode + m.Render(false))
			if i < 2 {
				c.Sample(map[string]string{"mode": mode, "message": trunc(m.Render(false), 300), "encoding": trunc(hx(encM), 200)})
			}
			if !ok {
				continue
			}
			c01DecodeCases(c, m, encM, "marshal")
			if !bytes.Equal(encM, encE) {
				c01DecodeCases(c, m, encE, "encode")
			} else {
				c.Hist("encoders byte-identical")
			}
			// alternative encodings of the same abstract message
			for k := 0; k < 2; k++ {
				var extra [][]byte
				var extraVals []*gen.V
				if !m.Opts.Absent && c.Rng.Intn(3) == 0 {
					extra = [][]byte{[]byte(fmt.Sprintf("x%d", c.Rng.Intn(100)))}
					extraVals = []*gen.V{gen.GenValue(c.Rng, 1, false)}
				}
				alt := gen.AltMsg(c.Rng, m, true, extra, extraVals)
				c01DecodeCases(c, m, alt, "alt")
			}
		}
		c01Small(c)
		c01Constructed(c, i)
	}
	// an event stream of more than a megabyte (one in a run: whatever reads it in pieces must put them together again)
	{
		m := gen.GenMsg(c.Rng, "packed", false, false)
		m.Stream = make([]byte, 1<<20+4097+c.Rng.Intn(3000))
		c.Rng.Read(m.Stream)
		enc, _ := marshal(m.ToGo(c.Rng).(codecMsg))
		c01DecodeCases(c, m, enc, "megabyte stream")
	}
	// messages of every mode decoded one after the other from ONE stream reader that receives one message per Read
	// (a socket); every decoded message is kept and compared again after the last one: what a decoder returned is
	// the caller's, not a view into the reader
	for round := 0; round < c.N(30, 600); round++ {
		var msgs []*gen.Msg
		pr := &pieceReader{}
		for k := 0; k < 3+c.Rng.Intn(3); k++ {
			m := gen.GenMsg(c.Rng, gen.Modes[c.Rng.Intn(4)], false, false)
			enc, obs := marshal(m.ToGo(c.Rng).(codecMsg))
			if !strings.HasPrefix(obs, "ok") {
				continue
			}
			msgs = append(msgs, m)
			pr.pieces = append(pr.pieces, enc)
		}
		rd := msgp.NewReader(pr)
		var kept []codecMsg
		for j, m := range msgs {
			recv := newReceiver(m.Mode)
			var err error
			if p := safely(func() { err = recv.DecodeMsg(rd) }); p != nil || err != nil {
				c.Violation("judge-go", "c01-stream-kept", fmt.Sprintf("message %d of a stream was rejected: %v %v", j, p, err), nil)
				break
			}
			kept = append(kept, recv)
		}
		c.Eval()
		c.Hist("messages decoded from one stream reader, kept, compared after the last")
		for j, recv := range kept {
			if got := gen.MsgFromGo(recv).Render(true); got != msgs[j].Norm().Render(true) {
				c.Violation("judge-go", "c01-stream-kept", fmt.Sprintf("message %d (%s) decoded from a stream is not the message that was sent once the later messages have been read from the same reader", j, msgs[j].Mode),
					map[string]interface{}{"position": j, "mode": msgs[j].Mode, "now": trunc(got, 300), "sent": trunc(msgs[j].Norm().Render(true), 300)})
				break
			}
		}
	}
}

// c01Constructed: PackedForward and CompressedPackedForward messages as the constructors build them from an
// entry list -- in half of the cases right after a constructor call that FAILED on an unencodable record --
// encoded, decoded on both paths, unpacked: the entries are the caller's.
func c01Constructed(c *core.Ctx, i int) {
	r := c.Rng
	es := gen.GenEntries(r, false)
	if len(es) > 20 {
		es = es[:20]
	}
	for j := range es {
		es[j].Rec = gen.GenMap(r, 1, false)
	}
	want := make([]gen.Entry, len(es))
	for j, e := range es {
		want[j] = gen.Entry{Sec: e.Sec, Nsec: e.Nsec, Rec: e.Rec.Norm()}
	}
	for _, compressed := range []bool{false, true} {
		if i%2 == 1 { // a call that fails part-way through its list
			bad := gen.EntriesToGo(r, es)
			bad = append(bad, protocol.EntryExt{Timestamp: protocol.EventTimeNow(), Record: map[string]interface{}{"k": make(chan int)}}, protocol.EntryExt{Timestamp: protocol.EventTimeNow(), Record: map[string]interface{}{}})
			if _, err := protocol.NewPackedForwardMessage("bad", bad); err == nil {
				c.Violation("judge-go", "c01-constructed", "NewPackedForwardMessage succeeded on an unencodable record", nil)
			}
		}
		var msg *protocol.PackedForwardMessage
		var err error
		if compressed {
			msg, err = protocol.NewCompressedPackedForwardMessage("tag", gen.EntriesToGo(r, es))
		} else {
			msg, err = protocol.NewPackedForwardMessage("tag", gen.EntriesToGo(r, es))
		}
		c.Eval()
		c.Hist(fmt.Sprintf("constructed packed compressed=%v after-failed-call=%v", compressed, i%2 == 1))
		replay := map[string]interface{}{"compressed": compressed, "after_failed_call": i%2 == 1, "entries": len(es)}
		if err != nil {
			c.Violation("judge-go", "c01-constructed", "constructor failed on encodable entries", replay)
			continue
		}
		enc, obs := marshal(msg)
		if obs == "err" || obs == "panic" {
			c.Violation("judge-go", "c01-constructed", "a constructed message does not encode", replay)
			continue
		}
		for _, path := range paths {
			var d protocol.PackedForwardMessage
			if class, left := decodeObs(path, &d, enc); class != "ok" || left != 0 {
				c.Violation("judge-go", "c01-constructed", "a constructed message does not decode ("+path+")", replay)
				continue
			}
			stream := d.EventStream
			if compressed {
				raw, gerr := gunzipOne(stream)
				if gerr != nil {
					c.Violation("judge-go", "c01-constructed", "the compressed event stream is not one gzip stream: "+gerr.Error(), replay)
					continue
				}
				stream = raw
			}
			var back protocol.EntryList
			rest, uerr := back.UnmarshalPacked(stream)
			if uerr != nil || len(rest) != 0 || gen.RenderEntries(gen.EntriesFromGo(back), true) != gen.RenderEntries(want, true) {
				c.Violation("judge-go", "c01-constructed", fmt.Sprintf("%d entries went into the constructor, the decoded message (%s) unpacks to %d entries / other content", len(es), path, len(back)), replay)
			}
		}
	}
}

// c01Small: entries, entry lists, options and acks through all four path combinations.
func c01Small(c *core.Ctx) {
	r := c.Rng
	// EntryExt
	s, ns := gen.GenInstant(r)
	rec := gen.GenValue(r, 2, false)
	e := gen.EntriesToGo(r, []gen.Entry{{Sec: s, Nsec: ns, Rec: rec}})[0]
	em, obs := marshal(e)
	if !rec.HasMultiKeyMap() {
		c.Corr("c01-entry", "M_entry", []string{fmt.Sprint(s), fmt.Sprint(ns), rec.Desc()}, obs)
		_, obsE := encode(e)
		c.Corr("c01-entry", "M_entry", []string{fmt.Sprint(s), fmt.Sprint(ns), rec.Desc()}, obsE)
	}
	for _, path := range paths {
		var d protocol.EntryExt
		class, left := decodeObs(path, &d, em)
		o := class
		if class == "ok" {
			de := gen.EntriesFromGo(protocol.EntryList{d})[0]
			o = fmt.Sprintf("ok((%d.%d,%s);left=%d)", de.Sec, de.Nsec, de.Rec.Render(false), left)
			if de.Sec != s || de.Nsec != ns || de.Rec.Render(true) != rec.Render(true) || left != 0 {
				c.Violation("judge-go", "c01-entry-value", "EntryExt round trip changed the entry", map[string]string{"bytes": hx(em), "path": path})
			}
		} else {
			c.Violation("judge-go", "c01-entry-rejected", "EntryExt decoder rejected its own encoding", map[string]string{"bytes": hx(em), "path": path})
		}
		c.Corr("c01-entry", "U_entry", []string{path, hx(em)}, o)
		c.Eval()
	}
	// EntryList
	es := gen.GenEntries(r, false)
	el := gen.EntriesToGo(r, es)
	lm, obsL := marshal(el)
	multi := false
	for _, x := range es {
		multi = multi || x.Rec.HasMultiKeyMap()
	}
	if !multi {
		c.Corr("c01-entrylist", "M_entry_list", []string{gen.EntriesDesc(es)}, obsL)
	}
	for _, path := range paths {
		var d protocol.EntryList
		class, left := decodeObs(path, &d, lm)
		o := class
		if class == "ok" {
			de := gen.EntriesFromGo(d)
			o = fmt.Sprintf("ok(%s;left=%d)", gen.RenderEntries(de, false), left)
			if gen.RenderEntries(de, true) != gen.RenderEntries(es, true) || left != 0 {
				c.Violation("judge-go", "c01-entrylist-value", "EntryList round trip changed the list", map[string]string{"bytes": hx(lm), "path": path})
			}
		} else {
			c.Violation("judge-go", "c01-entrylist-rejected", "EntryList decoder rejected its own encoding", map[string]string{"bytes": hx(lm), "path": path})
		}
		c.Corr("c01-entrylist", "U_entry_list", []string{path, hx(lm)}, o)
		c.Eval()
	}
	// MessageOptions
	op := gen.GenOpts(r)
	if !op.Absent {
		g := op.ToGo()
		om, obsO := marshal(g)
		c.Corr("c01-options", "M_options", []string{op.Arg()}, obsO)
		_, obsOE := encode(g)
		c.Corr("c01-options", "M_options", []string{op.Arg()}, obsOE)
		for _, path := range paths {
			d := &protocol.MessageOptions{}
			class, left := decodeObs(path, d, om)
			o := class
			if class == "ok" {
				o = fmt.Sprintf("ok(%s;left=%d)", gen.OptsFromGo(d).Render(), left)
				if gen.OptsFromGo(d).Render() != op.Render() || left != 0 {
					c.Violation("judge-go", "c01-options-value", "MessageOptions round trip changed the options", map[string]string{"bytes": hx(om), "path": path})
				}
			} else {
				c.Violation("judge-go", "c01-options-rejected", "MessageOptions decoder rejected its own encoding", map[string]string{"bytes": hx(om), "path": path})
			}
			c.Corr("c01-options", "U_options", []string{path, hx(om)}, o)
			c.Eval()
		}
	}
	// AckMessage
	ack := protocol.AckMessage{Ack: string(gen.GenBytes(r, false))}
	am, obsA := marshal(ack)
	c.Corr("c01-ack", "M_ack", []string{hx([]byte(ack.Ack))}, obsA)
	_, obsAE := encode(ack)
	c.Corr("c01-ack", "M_ack", []string{hx([]byte(ack.Ack))}, obsAE)
	for _, path := range paths {
		var d protocol.AckMessage
		class, left := decodeObs(path, &d, am)
		o := class
		if class == "ok" {
			o = fmt.Sprintf("ok(%s;left=%d)", hx([]byte(d.Ack)), left)
			if d.Ack != ack.Ack || left != 0 {
				c.Violation("judge-go", "c01-ack-value", "AckMessage round trip changed the ack", map[string]string{"bytes": hx(am), "path": path})
			}
		} else {
			c.Violation("judge-go", "c01-ack-rejected", "AckMessage decoder rejected its own encoding", map[string]string{"bytes": hx(am), "path": path})
		}
		c.Corr("c01-ack", "U_ack", []string{path, hx(am)}, o)
		c.Eval()
	}
	_ = msgp.Require
}

func trunc(s string, n int) string {
	if len(s) > n {
		return s[:n] + "..."
	}
	return s
}
