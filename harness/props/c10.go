package props

import (
	"bufio"
	"bytes"
	"compress/gzip"
	"encoding/binary"
	"encoding/hex"
	"fmt"
	"math/rand"
	"os"
	"os/exec"
	"path/filepath"
	"runtime"
	"strconv"
	"strings"
	"syscall"
	"time"

	"github.com/IBM/fluent-forward-go/fluent/protocol"
	"github.com/tinylib/msgp/msgp"

	"verif/harness/core"
	"verif/harness/gen"
)

func init() {
	All["C10"] = C10
	All["C10child"] = C10child
}

// entry points exercised on every input: name, path, model entry
type c10Entry struct {
	name  string // model entry
	path  string // slice | stream | "" (single-argument entries)
	slice bool   // allocation is judged (decoding from a byte slice)
	run   func(in []byte) string
}

func c10MsgEntry(mode, path string) c10Entry {
	return c10Entry{"U_" + mode, path, path == "slice", func(in []byte) string {
		obs, _, _ := decodeMsgObs(mode, path, newReceiver(mode), in)
		return obs
	}}
}

func c10Entries() []c10Entry {
	var es []c10Entry
	for _, mode := range gen.Modes {
		for _, p := range paths {
			es = append(es, c10MsgEntry(mode, p))
		}
	}
	for _, p := range paths {
		p := p
		es = append(es, c10Entry{"U_entry", p, p == "slice", func(in []byte) string {
			var d protocol.EntryExt
			class, left := decodeObs(p, &d, in)
			if class != "ok" {
				return class
			}
			e := gen.EntriesFromGo(protocol.EntryList{d})[0]
			return fmt.Sprintf("ok((%d.%d,%s);left=%d)", e.Sec, e.Nsec, e.Rec.Render(false), left)
		}})
		es = append(es, c10Entry{"U_entry_list", p, p == "slice", func(in []byte) string {
			var d protocol.EntryList
			class, left := decodeObs(p, &d, in)
			if class != "ok" {
				return class
			}
			return fmt.Sprintf("ok(%s;left=%d)", gen.RenderEntries(gen.EntriesFromGo(d), false), left)
		}})
		es = append(es, c10Entry{"U_options", p, p == "slice", func(in []byte) string {
			d := &protocol.MessageOptions{}
			class, left := decodeObs(p, d, in)
			if class != "ok" {
				return class
			}
			return fmt.Sprintf("ok(%s;left=%d)", gen.OptsFromGo(d).Render(), left)
		}})
		es = append(es, c10Entry{"U_ack", p, p == "slice", func(in []byte) string {
			var d protocol.AckMessage
			class, left := decodeObs(p, &d, in)
			if class != "ok" {
				return class
			}
			return fmt.Sprintf("ok(%s;left=%d)", hx([]byte(d.Ack)), left)
		}})
		es = append(es, c10Entry{"rd_intf", p, p == "slice", func(in []byte) string {
			var v interface{}
			var err error
			left := 0
			if p == "slice" {
				var rest []byte
				if pn := safely(func() { v, rest, err = msgp.ReadIntfBytes(in) }); pn != nil {
					return "panic"
				}
				left = len(rest)
			} else {
				br := bytes.NewReader(in)
				rd := msgp.NewReader(onlyReader{br})
				if pn := safely(func() { v, err = rd.ReadIntf() }); pn != nil {
					return "panic"
				}
				left = rd.Buffered() + br.Len()
			}
			if err != nil {
				return "err"
			}
			return fmt.Sprintf("ok(%s;left=%d)", gen.FromGo(v).Render(false), left)
		}})
	}
	es = append(es, c10Entry{"unmarshal_packed", "", true, func(in []byte) string {
		var el protocol.EntryList
		var err error
		if pn := safely(func() { _, err = el.UnmarshalPacked(in) }); pn != nil {
			return "panic"
		}
		if err != nil {
			return "err"
		}
		return "ok(" + gen.RenderEntries(gen.EntriesFromGo(el), false) + ")"
	}})
	es = append(es, c10Entry{"get_chunk", "", true, func(in []byte) string {
		return chunkObs(func() (string, error) { return protocol.GetChunk(in) })
	}})
	es = append(es, c10Entry{"dec_eventtime", "", true, func(in []byte) string {
		var et protocol.EventTime
		var err error
		if pn := safely(func() { err = et.UnmarshalBinary(in) }); pn != nil {
			return "panic"
		}
		if err != nil {
			return "err"
		}
		return fmt.Sprintf("ok(%d.%d)", et.Unix(), et.Nanosecond())
	}})
	return es
}

// oversizedCount: does the input contain an array/map/str/bin/ext header declaring more
// elements or bytes than there are bytes after it?  (classifies an allocation finding, decides nothing else)
func oversizedCount(b []byte) bool {
	for i := range b {
		var n, rest int
		switch {
		case (b[i] == 0xdc || b[i] == 0xde || b[i] == 0xda || b[i] == 0xc5 || b[i] == 0xc8) && i+2 < len(b):
			n, rest = int(binary.BigEndian.Uint16(b[i+1:])), len(b)-i-3
		case (b[i] == 0xdd || b[i] == 0xdf || b[i] == 0xdb || b[i] == 0xc6 || b[i] == 0xc9) && i+4 < len(b):
			n, rest = int(binary.BigEndian.Uint32(b[i+1:])), len(b)-i-5
		default:
			continue
		}
		if n > rest {
			return true
		}
	}
	return false
}

type c10Input struct {
	kind string // mutated | random | prefix:<mode> | hostile | fragment
	b    []byte
}

func c10Inputs(c *core.Ctx) []c10Input {
	r := c.Rng
	var ins []c10Input
	n := c.N(70, 3000)
	for i := 0; i < n; i++ {
		mode := gen.Modes[i%4]
		m := gen.GenMsg(r, mode, false, false)
		var enc []byte
		if r.Intn(2) == 0 {
			enc, _ = marshal(m.ToGo(r).(codecMsg))
		} else {
			enc = gen.AltMsg(r, m, true, nil, nil)
		}
		if len(enc) > 3000 {
			continue
		}
		for k := 0; k < 4; k++ {
			mut, label := gen.Mutate(r, enc)
			if r.Intn(4) == 0 {
				mut, _ = gen.Mutate(r, mut)
				label += "+"
			}
			ins = append(ins, c10Input{"mutated:" + label, mut})
		}
		// strict prefixes of canonical and alternative encodings
		if i < c.N(16, 200) && len(enc) < 400 {
			for p := 0; p < len(enc); p++ {
				ins = append(ins, c10Input{"prefix:" + mode, enc[:p]})
			}
		} else if len(enc) > 0 {
			for k := 0; k < 3; k++ {
				ins = append(ins, c10Input{"prefix:" + mode, enc[:r.Intn(len(enc))]})
			}
		}
	}
	// the short arities (option element dropped) of every mode, entry lists, single entries, options and
	// acks: every strict prefix (the cut right after a nested header is the interesting one)
	for i := 0; i < c.N(24, 400); i++ {
		mode := gen.Modes[i%4]
		m := gen.GenMsg(r, mode, false, false)
		m.Opts = &gen.Opts{Absent: true}
		if len(m.Entries) > 3 {
			m.Entries = m.Entries[:1+r.Intn(3)]
		}
		var enc []byte
		for try := 0; try < 8; try++ {
			enc = gen.AltMsg(r, m, true, nil, nil)
			if len(enc) > 0 && int(enc[0]&0x0f) < map[string]int{"message": 4, "message_ext": 4, "forward": 3, "packed": 3}[mode] {
				break // the option element was dropped
			}
		}
		if len(enc) > 300 {
			continue
		}
		for p := 0; p < len(enc); p++ {
			ins = append(ins, c10Input{"prefix:" + mode, enc[:p]})
		}
	}
	for i := 0; i < c.N(8, 150); i++ {
		es := gen.GenEntries(r, false)
		if len(es) > 3 {
			es = es[:1+r.Intn(3)]
		}
		if len(es) == 0 {
			continue
		}
		el := gen.EntriesToGo(r, es)
		if b, obs := marshal(el); strings.HasPrefix(obs, "ok") && len(b) < 300 {
			for p := 0; p < len(b); p++ {
				ins = append(ins, c10Input{"prefix:entry_list", b[:p]})
			}
		}
		if b, obs := marshal(el[0]); strings.HasPrefix(obs, "ok") && len(b) < 300 {
			for p := 0; p < len(b); p++ {
				ins = append(ins, c10Input{"prefix:entry", b[:p]})
			}
		}
		if o := gen.GenOpts(r); !o.Absent {
			if b, obs := marshal(o.ToGo()); strings.HasPrefix(obs, "ok") {
				for p := 0; p < len(b); p++ {
					ins = append(ins, c10Input{"prefix:options", b[:p]})
				}
			}
		}
		if b, obs := marshal(protocol.AckMessage{Ack: string(gen.GenBytes(r, false))}); strings.HasPrefix(obs, "ok") && len(b) < 300 {
			for p := 0; p < len(b); p++ {
				ins = append(ins, c10Input{"prefix:ack", b[:p]})
			}
		}
	}
	// packed event streams (back-to-back entries): every truncation, and mutations
	for i := 0; i < c.N(6, 150); i++ {
		es := gen.GenEntries(r, false)
		for len(es) > 4 {
			es = es[:4]
		}
		if len(es) == 0 {
			continue
		}
		st, err := gen.EntriesToGo(r, es).MarshalPacked()
		if err != nil || len(st) > 600 {
			continue
		}
		for p := 0; p < len(st); p++ {
			ins = append(ins, c10Input{"prefix:packed-stream", st[:p]})
		}
		for k := 0; k < 6; k++ {
			mut, label := gen.Mutate(r, st)
			ins = append(ins, c10Input{"mutated-stream:" + label, mut})
		}
	}
	for i := 0; i < c.N(300, 20000); i++ {
		ins = append(ins, c10Input{"random", gen.RandomBytes(r)})
	}
	// hostile declared counts and lengths (D13 territory)
	hostile := [][]byte{
		{0xdd, 0xff, 0xff, 0xff, 0xff},
		{0x92, 0xa0, 0xdd, 0x00, 0x10, 0x00, 0x00, 0x00},
		{0x92, 0xa0, 0xdd, 0xff, 0xff, 0xff, 0xff},
		{0x94, 0xa0, 0x00, 0xdd, 0x00, 0x28, 0x00, 0x00},
		{0x94, 0xa0, 0x00, 0xdf, 0x00, 0x28, 0x00, 0x00},
		{0x94, 0xa0, 0x00, 0xdf, 0xff, 0xff, 0xff, 0xff},
		{0x93, 0xa0, 0xc6, 0xff, 0xff, 0xff, 0xff},
		{0x94, 0xdb, 0xff, 0xff, 0xff, 0xff},
		{0x81, 0xa3, 'a', 'c', 'k', 0xdb, 0x7f, 0xff, 0xff, 0xff},
		{0xdc, 0xff, 0xff},
		{0xde, 0xff, 0xff},
	}
	// deep nesting (fuel of the model's recursion = termination argument of the Go recursion)
	for _, depth := range []int{3, 4, 10, 40, 200} {
		a := bytes.Repeat([]byte{0x91}, depth)
		hostile = append(hostile, append(append([]byte{}, a...), 0x01), a)
		var m []byte
		for i := 0; i < depth; i++ {
			m = append(m, 0x81, 0xa1, 'k')
		}
		hostile = append(hostile, append(append([]byte{}, m...), 0xc0), m)
		hostile = append(hostile, append(append([]byte{0x94, 0xa1, 't', 0x05}, a...), 0x01, 0xc0))
		hostile = append(hostile, append(append([]byte{0x94, 0xa1, 't', 0x05}, m...), 0xc0, 0xc0))
	}
	for _, h := range hostile {
		ins = append(ins, c10Input{"hostile", h})
	}
	// packed messages whose event stream is as short as a stream can be, under every label: whatever a decoder does
	// with the label, zero, one or two bytes of stream must not take it beyond them
	for _, comp := range []string{"", "gzip", "text", "GZIP"} {
		var streams [][]byte
		streams = append(streams, []byte{})
		for _, b := range []byte{0x00, 0x1f, 0x8b, 0x92, 0xc0, 0xc4, 0xff} {
			streams = append(streams, []byte{b}, []byte{0x1f, b}, []byte{b, 0x8b})
		}
		for _, st := range streams {
			pm := &protocol.PackedForwardMessage{Tag: "t", EventStream: st}
			if comp != "" {
				pm.Options = &protocol.MessageOptions{Compressed: comp}
			}
			if b, err := pm.MarshalMsg(nil); err == nil {
				ins = append(ins, c10Input{"short-stream:" + comp, b})
			}
		}
	}
	// strict prefixes of honest encodings with 65536 (and 65537) minimal entries: a decoder that treats large declared
	// counts specially still has to notice that entries are missing
	for _, n := range []int{65536, 65537} {
		el := make([]byte, 0, 12*n+16)
		el = append(el, 0xdd, byte(n>>24), byte(n>>16), byte(n>>8), byte(n))
		for i := 0; i < n; i++ {
			el = append(el, 0x92, 0xd7, 0x00, 0, 0, 0, byte(i>>8), 0, 0, 0, byte(i), 0xc0)
		}
		fw := append([]byte{0x92, 0xa1, 't'}, el...)
		for _, cut := range []int{5, 6, 11, 16, 17} {
			ins = append(ins, c10Input{"prefix:entry_list", el[:cut]})
			ins = append(ins, c10Input{"prefix:forward", fw[:cut+3]})
		}
	}
	// amplifying containers: small well-formed gzip members whose content is thousands of times longer (zeros, or a
	// long run of one valid entry), bare and as the event stream of a packed message marked compressed=gzip.  Nothing
	// in the decoders may inflate them on its own account: memory stays proportionate to the bytes given.
	for _, content := range [][]byte{make([]byte, 8<<20), bytes.Repeat([]byte{0x92, 0x01, 0x80}, 2<<20)} {
		var zb bytes.Buffer
		zw := gzip.NewWriter(&zb)
		_, _ = zw.Write(content)
		_ = zw.Close()
		z := zb.Bytes()
		ins = append(ins, c10Input{"amplifying:gzip", z})
		pm := &protocol.PackedForwardMessage{Tag: "t", EventStream: z, Options: &protocol.MessageOptions{Compressed: "gzip"}}
		if b, err := pm.MarshalMsg(nil); err == nil {
			ins = append(ins, c10Input{"amplifying:packed-gzip", b})
		}
	}
	return ins
}

// c10ClientPaths: the client's own read paths towards an arbitrary peer — no HELO, PONG or
// ack byte sequence makes Handshake or Send panic, nor leaves the client in transport phase
// without a valid handshake.
func c10ClientPaths(c *core.Ctx) {
	r := c.Rng
	key, chost := []byte("k3y"), []byte("client")
	for i := 0; i < c.N(400, 8000); i++ {
		// the peer chooses the nonce (HELO) and the server hostname (PONG): any length
		shost, nonce := []byte("server"), []byte{1, 2, 3}
		if i%4 == 1 {
			nonce = bytes.Repeat([]byte{byte(i)}, []int{0, 300, 1000, 1100, 5000, 9000}[r.Intn(6)])
		}
		if i%4 == 2 {
			shost = bytes.Repeat([]byte{'h'}, []int{0, 300, 1000, 1100, 5000}[r.Intn(5)])
		}
		helo := mustMarshal(&protocol.Helo{MessageType: "HELO", Options: &protocol.HeloOpts{Nonce: nonce, Auth: []byte{}, Keepalive: true}})
		seed := r.Int63()
		salt := make([]byte, 16)
		rand.New(rand.NewSource(seed)).Read(salt)
		good := sha512hex(salt, shost, nonce, key)
		digest := good
		switch r.Intn(9) {
		case 8:
			// a digest a peer WITHOUT the key can compute: SHA-512 over a prefix of the public material
			pub := append(append(append([]byte{}, salt...), shost...), nonce...)
			cut := []int{64, 128, 256, 512, 1024, 2048, 4096, 8192}[r.Intn(8)]
			if cut > len(pub) {
				cut = len(pub)
			}
			digest = sha512hex(pub[:cut])
		case 0:
			digest = ""
		case 1:
			digest = good[:r.Intn(len(good))]
		case 2:
			digest = good + strings.Repeat("0", 1+r.Intn(300))
		case 3:
			digest = strings.Repeat("f", 128)
		case 4:
			b := []byte(good)
			b[r.Intn(len(b))] ^= 1
			digest = string(b)
		}
		long := len(nonce) > 100 || len(shost) > 100
		if long { // long peer-chosen fields: the honest peer, or the keyless prefix digest -- delivered unmutated
			if r.Intn(2) == 0 {
				digest = good
			} else {
				pub := append(append(append([]byte{}, salt...), shost...), nonce...)
				cut := []int{64, 128, 256, 512, 1024, 2048, 4096, 8192}[r.Intn(8)]
				if cut > len(pub) {
					cut = len(pub)
				}
				digest = sha512hex(pub[:cut])
			}
		}
		pong := mustMarshal(&protocol.Pong{MessageType: "PONG", AuthResult: long || r.Intn(6) != 0, ServerHostname: string(shost), SharedKeyHexDigest: digest})
		inp1, inp2 := helo, pong
		how := "well-formed HELO, PONG with digest variant"
		mut := r.Intn(4)
		if long {
			mut = 3
			how = "long nonce / server hostname, honest or keyless-prefix digest"
		}
		switch mut {
		case 0:
			inp2, _ = gen.Mutate(r, pong)
			how = "mutated PONG"
		case 1:
			inp1, _ = gen.Mutate(r, helo)
			how = "mutated HELO"
		case 2:
			inp2 = gen.RandomBytes(r)
			how = "random bytes for PONG"
		}
		hc := hsCase{key: key, chost: chost, shost: shost, nonce: nonce, script: "raw"}
		res := runHandshakeRaw(seed, hc, inp1, inp2)
		c.Eval()
		c.Hist("client read path: " + how + " -> " + res.class)
		replay := map[string]interface{}{"helo_bytes": hx(inp1), "pong_bytes": hx(inp2), "salt": hx(salt), "key": hx(key), "result": res.class, "transport": res.transport}
		if res.class == "panic" {
			c.Violation("panic", "c10-panic:Handshake", "Client.Handshake panicked on "+how, replay)
			continue
		}
		c.Corr("c10-handshake", "client_handshake", []string{hx(chost), hx(key), hx(salt), hx(inp1), hx(inp2)}, fmt.Sprintf("written=%s;res=%s", hx(res.written), res.class))
		if res.transport {
			// transport phase requires a PONG with auth_result = true and the digest of the formula
			var p protocol.Pong
			if _, err := p.UnmarshalMsg(inp2); err != nil || !p.AuthResult || p.SharedKeyHexDigest != sha512hex(salt, []byte(p.ServerHostname), nonceOf(inp1, nonce), key) {
				c.Violation("judge-go", "c10-transport-without-handshake", "the client is in transport phase although the peer's bytes are not a valid PONG for this handshake ("+how+")", replay)
			}
		}
	}
	// every total length of the public material (salt + server hostname + nonce) across several hash blocks and
	// buffer sizes: a peer without the key answers with the digest of the public material alone
	for _, shost := range [][]byte{{}, []byte("evil"), []byte("some.other.host.example")} {
		for nl := 0; nl <= c.N(600, 4200); nl++ {
			nonce := bytes.Repeat([]byte{byte(nl)}, nl)
			helo := mustMarshal(&protocol.Helo{MessageType: "HELO", Options: &protocol.HeloOpts{Nonce: nonce, Auth: []byte{}, Keepalive: true}})
			seed := int64(nl)*7 + int64(len(shost))
			salt := make([]byte, 16)
			rand.New(rand.NewSource(seed)).Read(salt)
			pub := append(append(append([]byte{}, salt...), shost...), nonce...)
			pong := mustMarshal(&protocol.Pong{MessageType: "PONG", AuthResult: true, ServerHostname: string(shost), SharedKeyHexDigest: sha512hex(pub)})
			res := runHandshakeRaw(seed, hsCase{key: []byte("sweep-key"), chost: []byte("client"), shost: shost, nonce: nonce, script: "raw"}, helo, pong)
			c.Eval()
			if res.transport || res.class == "panic" {
				c.Violation("judge-go", "c10-transport-without-handshake", fmt.Sprintf("a peer without the key (digest of salt + hostname + nonce alone; hostname of %d bytes, nonce of %d bytes) ends with result %s, transport phase %v", len(shost), nl, res.class, res.transport),
					map[string]interface{}{"helo_bytes": hx(helo), "pong_bytes": hx(pong), "salt": hx(salt), "key": hx([]byte("sweep-key"))})
				break
			}
		}
	}
	c.Hist("client read path: keyless digest, every nonce length")
	// acks: arbitrary peer bytes after a send never panic the client
	cf := ccfg{host: []byte("h"), ack: true, timeout: 50 * time.Millisecond}
	for i := 0; i < c.N(150, 3000); i++ {
		o := mkSend(cf, sizedMessage(r, "message", 10, "c10-chunk"), -1)
		o.resp = gen.RandomBytes(r)
		if r.Intn(2) == 0 {
			o.resp, _ = gen.Mutate(r, ackBytes(o.chunk))
		}
		if len(o.resp) > 0 && oversizedCount(o.resp) {
			continue
		}
		rs := runClientOps(cf, []cop{{kind: "C", dialOK: true, wfault: -1}, o})
		c.Eval()
		c.Hist("client read path: ack bytes -> " + rs[1].ret)
		if rs[1].ret == "hang" {
			c.Violation("hang", "c10-hang:Send", "Client.Send did not return while reading the peer's response", map[string]interface{}{"resp": hx(o.resp)})
		}
		if rs[1].ret == "panic" {
			c.Violation("panic", "c10-panic:Send", "Client.Send panicked while reading the peer's response", map[string]interface{}{"resp": hx(o.resp)})
		}
	}
}

func nonceOf(heloBytes, dflt []byte) []byte {
	var h protocol.Helo
	if _, err := h.UnmarshalMsg(heloBytes); err == nil && h.Options != nil {
		return h.Options.Nonce
	}
	return dflt
}

const c10MemLimit = 4 << 30

// C10child: runs the decoders on the inputs of <out>/inputs.txt under an address-space
// limit, logging each call before it is made so that the parent can attribute a crash.
func C10child(c *core.Ctx) {
	lim := syscall.Rlimit{Cur: c10MemLimit, Max: c10MemLimit}
	_ = syscall.Setrlimit(syscall.RLIMIT_AS, &lim)
	from, fromEntry := 0, 0
	if v := os.Getenv("C10_FROM"); v != "" {
		fmt.Sscanf(v, "%d:%d", &from, &fromEntry)
	}
	f, err := os.Open(os.Getenv("C10_INPUTS"))
	if err != nil {
		panic(err)
	}
	defer f.Close()
	es := c10Entries()
	w := bufio.NewWriter(os.Stdout)
	sc := bufio.NewScanner(f)
	sc.Buffer(make([]byte, 1<<20), 1<<26)
	idx := -1
	var ms runtime.MemStats
	for sc.Scan() {
		idx++
		if idx < from {
			continue
		}
		in, _ := hex.DecodeString(sc.Text())
		for k, e := range es {
			if idx == from && k < fromEntry {
				continue
			}
			fmt.Fprintf(w, "B %d %d\n", idx, k)
			w.Flush()
			runtime.ReadMemStats(&ms)
			before := ms.TotalAlloc
			obs := e.run(in)
			runtime.ReadMemStats(&ms)
			fmt.Fprintf(w, "E %d %d %d %s\n", idx, k, ms.TotalAlloc-before, obs)
		}
		w.Flush()
	}
	fmt.Fprintln(w, "DONE")
	w.Flush()
}

func C10(c *core.Ctx) {
	defer c10ClientPaths(c)
	ins := c10Inputs(c)
	es := c10Entries()
	f, err := os.Create(filepath.Join(c.OutDir, "inputs.txt"))
	if err != nil {
		panic(err)
	}
	for _, in := range ins {
		fmt.Fprintln(f, hx(in.b))
	}
	f.Close()
	type result struct {
		alloc uint64
		obs   string
	}
	results := make(map[[2]int]result)
	self, _ := os.Executable()
	from, fromEntry := 0, 0
	restarts := 0
	retried := map[[2]int]bool{}
	for {
		cmd := exec.Command(self, "C10child", "-out", filepath.Join(c.OutDir, "child"))
		cmd.Env = append(os.Environ(), fmt.Sprintf("C10_FROM=%d:%d", from, fromEntry), "C10_INPUTS="+filepath.Join(c.OutDir, "inputs.txt"))
		var stderr bytes.Buffer
		cmd.Stderr = &stderr
		out, _ := cmd.StdoutPipe()
		if err := cmd.Start(); err != nil {
			panic(err)
		}
		lines := make(chan string, 1024)
		go func() {
			sc := bufio.NewScanner(out)
			sc.Buffer(make([]byte, 1<<20), 1<<28)
			for sc.Scan() {
				lines <- sc.Text()
			}
			close(lines)
		}()
		cur := [2]int{-1, -1}
		done := false
		hang := false
	loop:
		for {
			select {
			case l, ok := <-lines:
				if !ok {
					break loop
				}
				switch {
				case l == "DONE":
					done = true
				case strings.HasPrefix(l, "B "):
					fmt.Sscanf(l, "B %d %d", &cur[0], &cur[1])
				case strings.HasPrefix(l, "E "):
					p := strings.SplitN(l, " ", 5)
					i, _ := strconv.Atoi(p[1])
					k, _ := strconv.Atoi(p[2])
					a, _ := strconv.ParseUint(p[3], 10, 64)
					results[[2]int{i, k}] = result{a, p[4]}
					cur = [2]int{-1, -1}
				}
			case <-time.After(15 * time.Second):
				hang = true
				_ = cmd.Process.Kill()
				break loop
			}
		}
		_ = cmd.Wait()
		if done {
			break
		}
		if cur[0] < 0 {
			// died between calls: should not happen; give up on restarts after a few
			restarts++
			if restarts > 5 {
				c.Violation("harness", "c10-child", "child process keeps dying outside decoder calls: "+trunc(stderr.String(), 500), nil)
				break
			}
			continue
		}
		obs := "crash"
		se := stderr.String()
		switch {
		case hang:
			obs = "hang"
		case strings.Contains(se, "out of memory") || strings.Contains(se, "cannot allocate memory"):
			obs = "oom"
		case strings.Contains(se, "panic"):
			obs = "fatal-panic"
		}
		if obs == "crash" && !retried[cur] {
			// the child died without any message (no Go panic, no out-of-memory report, not a hang): killed from
			// outside (a machine short of memory kills the largest process).  The call is repeated once in a fresh
			// child before anything is attributed to its input.
			retried[cur] = true
			c.Hist("child died without a message: call repeated in a fresh child")
			from, fromEntry = cur[0], cur[1]
			continue
		}
		results[cur] = result{0, obs}
		c.Hist("child killed: " + obs)
		from, fromEntry = cur[0], cur[1]+1
	}
	// judge and emit model cases
	for i, in := range ins {
		c.Eval()
		kindClass := strings.SplitN(in.kind, ":", 2)[0]
		c.Distinct(hx(in.b))
		if i%97 == 0 {
			c.Sample(map[string]string{"kind": in.kind, "bytes": trunc(hx(in.b), 160)})
		}
		for k, e := range es {
			res, ok := results[[2]int{i, k}]
			if !ok {
				continue
			}
			c.Hist(fmt.Sprintf("%s %s%s -> %s", kindClass, e.name, map[string]string{"slice": "/slice", "stream": "/stream", "": ""}[e.path], strings.SplitN(res.obs, "(", 2)[0]))
			replay := map[string]string{"entry": e.name, "path": e.path, "bytes": hx(in.b), "observed": trunc(res.obs, 300), "kind": in.kind}
			switch res.obs {
			case "panic", "fatal-panic", "crash":
				if res.obs == "crash" && oversizedCount(in.b) {
					// the child died without a Go panic message (killed at the memory limit) while
					// allocating for a hostile declared count
					c.Violation("alloc", "c10-alloc-declared-size", fmt.Sprintf("%s (%s): the process was killed while allocating for a declared count on a %d-byte input", e.name, e.path, len(in.b)), replay)
					continue
				}
				c.Violation("panic", "c10-panic:"+e.name, e.name+" panicked on a "+in.kind+" input", replay)
				continue
			case "hang":
				if oversizedCount(in.b) {
					// slice or stream path: the time goes into allocating (and zeroing) for the declared
					// count; whether that ends in an out-of-memory error or in a very long allocation
					// depends on the memory limits of the machine
					c.Violation("alloc", "c10-alloc-declared-size", fmt.Sprintf("%s (%s) was still allocating for a declared count after 15 s on a %d-byte input", e.name, e.path, len(in.b)), replay)
					continue
				}
				c.Violation("hang", "c10-hang:"+e.name, e.name+" did not return within 15 s", replay)
				continue
			case "oom":
				sig := "c10-alloc-other"
				if oversizedCount(in.b) {
					sig = "c10-alloc-declared-size"
				}
				if e.slice {
					c.Violation("alloc", sig, fmt.Sprintf("%s (%s) exhausted the %d GiB address-space limit on a %d-byte input", e.name, e.path, c10MemLimit>>30, len(in.b)), replay)
				} else {
					c.Hist("stream path out of memory on declared length (outside the property's memory clause)")
				}
				continue
			}
			if e.slice && res.alloc > uint64(256*len(in.b)+(64<<10)) {
				sig := "c10-alloc-other"
				if oversizedCount(in.b) {
					sig = "c10-alloc-declared-size"
				}
				replay["allocated_bytes"] = fmt.Sprint(res.alloc)
				c.Violation("alloc", sig, fmt.Sprintf("%s (%s) allocated %d bytes for a %d-byte input", e.name, e.path, res.alloc, len(in.b)), replay)
			}
			if strings.HasPrefix(in.kind, "prefix:") && strings.HasPrefix(res.obs, "ok") && e.name == "U_"+strings.TrimPrefix(in.kind, "prefix:") {
				c.Violation("judge-go", "c10-prefix-accepted", e.name+" ("+e.path+") accepted a strict prefix of a valid encoding", replay)
			}
			args := []string{hx(in.b)}
			if e.path != "" {
				args = []string{e.path, hx(in.b)}
			}
			c.Corr("c10-decode", e.name, args, res.obs)
		}
	}
	c.Extra("inputs", len(ins))
	c.Extra("entry_points", len(es))
}
