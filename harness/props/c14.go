package props

import (
	"bytes"
	"context"
	"errors"
	"fmt"
	"github.com/IBM/fluent-forward-go/fluent/client"
	"github.com/IBM/fluent-forward-go/fluent/protocol"
	"io"
	"math/rand"
	"net"
	"os"
	"path/filepath"
	"strings"
	"sync"
	"sync/atomic"
	"time"
	"verif/harness/fakes"

	"verif/harness/core"
)

func init() { All["C14"] = C14 }

var lifecycleAlphabet = func() []letter {
	var out []letter
	for _, l := range historyAlphabet {
		switch l.name {
		case "C1", "C0", "D", "R1", "R0", "T", "S", "Sfail", "Hgood", "Hbad":
			out = append(out, l)
		}
	}
	// Disconnect on a connection whose Close() reports an error: the connection is gone all the same
	out = append(out, letter{"Dfail", func(r *rand.Rand, cf ccfg) cop { return cop{kind: "D", closeErr: true, wfault: -1} }})
	return out
}()

// C14: TCP client lifecycle — histories (sequential, exhaustive) and interleavings.
func C14(c *core.Ctx) {
	fine := setFine(c)
	// (a) every call sequence up to a bound, with factories that fail on chosen calls
	if !fine {
		historySweep(c, "c14", lifecycleAlphabet, c.N(3, 4), c.N(1000, 20000), c.N(8, 12)) // 12 letters: 12^4 x 6 configurations exhaustively in the thorough tier
	}
	// (b) concurrent mixes under the deterministic scheduler (and the race detector)
	type conf struct {
		name   string
		cf     ccfg
		prefix []concOp
		progs  func(cf ccfg) [][]concOp
	}
	key := []byte("k3y")
	connect := []concOp{{kind: "C", dialOK: true}}
	confs := []conf{
		{"Send || Disconnect || TransportPhase", ccfg{host: []byte("h")}, connect, func(cf ccfg) [][]concOp {
			return [][]concOp{{concSend(cf, "message", 20, "", true)}, {{kind: "D"}}, {{kind: "T"}}}
		}},
		{"Send;Send || Reconnect", ccfg{host: []byte("h")}, connect, func(cf ccfg) [][]concOp {
			return [][]concOp{{concSend(cf, "message", 20, "", true), concSend(cf, "message", 30, "", true)}, {{kind: "R", dialOK: true}}}
		}},
		{"Connect || Connect || Send", ccfg{host: []byte("h")}, nil, func(cf ccfg) [][]concOp {
			return [][]concOp{{{kind: "C", dialOK: true}}, {{kind: "C", dialOK: true}}, {concSend(cf, "message", 20, "", true)}}
		}},
		{"Reconnect(fail) || Send || Disconnect", ccfg{host: []byte("h")}, connect, func(cf ccfg) [][]concOp {
			return [][]concOp{{{kind: "R", dialOK: false}}, {concSend(cf, "message", 20, "", true)}, {{kind: "D"}}}
		}},
		{"shared key: Handshake || TransportPhase;Send || TransportPhase", ccfg{host: []byte("h"), key: key}, connect, func(cf ccfg) [][]concOp {
			return [][]concOp{{{kind: "H", hsGood: true, ping: concPing(cf)}}, {{kind: "T"}, concSend(cf, "message", 20, "", true)}, {{kind: "T"}}}
		}},
		{"shared key: Handshake || Reconnect || Send", ccfg{host: []byte("h"), key: key}, connect, func(cf ccfg) [][]concOp {
			return [][]concOp{{{kind: "H", hsGood: true, ping: concPing(cf)}}, {{kind: "R", dialOK: true}}, {concSend(cf, "message", 20, "", true)}}
		}},
		{"shared key: Handshake(wrong key) || Disconnect", ccfg{host: []byte("h"), key: key}, connect, func(cf ccfg) [][]concOp {
			return [][]concOp{{{kind: "H", hsGood: false, ping: concPing(cf)}}, {{kind: "D"}}}
		}},
		{"acks: Send || Send || Disconnect", ccfg{host: []byte("h"), ack: true, timeout: time.Second}, connect, func(cf ccfg) [][]concOp {
			return [][]concOp{{concSend(cf, "message", 20, "c-a", true)}, {concSend(cf, "message", 20, "c-b", true)}, {{kind: "D"}}}
		}},
	}
	total, allEx := 0, true
	for _, cfn := range confs {
		progs := cfn.progs(cfn.cf)
		budget := c.N(300, 20000)
		if fine {
			budget = c.N(20, 3000)
		}
		n, ex := concExplore(c, "c14", cfn.cf, cfn.prefix, progs, budget, cfn.name, nil)
		total += n
		allEx = allEx && ex
		c.Sample(map[string]interface{}{"configuration": cfn.name, "schedules": n, "exhaustive": ex})
	}
	// random mixes
	r := rand.New(rand.NewSource(c.Seed))
	for t := 0; t < c.N(6, 200); t++ {
		cf := ccfg{host: []byte("h")}
		if r.Intn(2) == 0 {
			cf.ack, cf.timeout = true, time.Second
		}
		nw := 2 + r.Intn(2)
		progs := make([][]concOp, nw)
		for w := range progs {
			for k := 0; k < 1+r.Intn(2); k++ {
				switch r.Intn(6) {
				case 0:
					progs[w] = append(progs[w], concOp{kind: "D"})
				case 1:
					progs[w] = append(progs[w], concOp{kind: "R", dialOK: r.Intn(3) != 0})
				case 2:
					progs[w] = append(progs[w], concOp{kind: "T"})
				case 3:
					progs[w] = append(progs[w], concOp{kind: "C", dialOK: r.Intn(3) != 0})
				default:
					progs[w] = append(progs[w], concSend(cf, "message", 10+r.Intn(50), fmt.Sprintf("c-%d-%d", w, k), true))
				}
			}
		}
		budget := c.N(60, 2000)
		if fine {
			budget = c.N(8, 600)
		}
		n, _ := concExplore(c, "c14", cf, connect, progs, budget, fmt.Sprintf("random mix %d", t), nil)
		total += n
	}
	c.Extra("exhaustive", allEx)
	c.Extra("schedules", total)
	// (c) the same operations running freely under the race detector
	if !fine {
		raceStress(c, c.N(150, 3000))
		c14SlowDial(c)
		c14CapableConns(c)
		c14RealSockets(c)
	}
}

// raceStress runs the lifecycle operations from several goroutines WITHOUT the deterministic
// scheduler (whose hand-offs order everything and would hide unsynchronised accesses from
// the race detector).  Judged by the race detector (reports are collected by ./check).
func raceStress(c *core.Ctx, iters int) {
	key := []byte("k3y")
	for it := 0; it < iters; it++ {
		cf := ccfg{host: []byte("h"), key: key}
		if it%3 == 2 {
			cf.key = nil
		}
		// reuse runConc's environment with a scheduler nobody yields to: build it directly
		progs := [][]concOp{
			{{kind: "T"}, concSend(cf, "message", 20, "", true), {kind: "T"}},
			{{kind: "T"}, {kind: "T"}, concSend(cf, "message", 30, "", true)},
			{{kind: "D"}, {kind: "C", dialOK: true}, {kind: "T"}},
		}
		if cf.key != nil {
			progs[0] = append([]concOp{{kind: "H", hsGood: true, ping: concPing(cf)}}, progs[0]...)
			progs[2] = []concOp{{kind: "T"}, {kind: "R", dialOK: true}}
		}
		run := runConcFree(cf, []concOp{{kind: "C", dialOK: true}}, progs)
		c.Eval()
		c.Hist("free-running stress (race detector)")
		for name, p := range run.panics {
			c.Violation("panic", "c14-panic", fmt.Sprintf("worker %s panicked in the free-running stress: %v", name, p), nil)
		}
		if run.stuck {
			c.Violation("deadlock", "c14-stuck", "free-running stress did not finish within 5 s", nil)
		}
	}
}

// c14SlowDial: a factory whose New() takes several times the client's timeout and then succeeds (a slow TLS
// handshake, a proxy).  Whatever Connect / Reconnect answer, every connection the factory hands out has to be
// closed exactly once by the time the client has been disconnected, and no two may be open at once.
func c14SlowDial(c *core.Ctx) {
	for _, op := range []string{"Connect", "Connect;Connect", "Reconnect"} {
		f := &fakes.Factory{FailOn: map[int]bool{}}
		slow := int32(1)
		f.Hook = func(string) {
			if atomic.LoadInt32(&slow) == 1 {
				time.Sleep(120 * time.Millisecond)
			}
		}
		cl := client.New(client.ConnectionOptions{Factory: f, ConnectionTimeout: 30 * time.Millisecond})
		var errs []string
		for _, step := range strings.Split(op, ";") {
			var err error
			if step == "Connect" {
				err = cl.Connect()
			} else {
				err = cl.Reconnect()
			}
			errs = append(errs, fmt.Sprint(err))
		}
		time.Sleep(300 * time.Millisecond) // every dial that was started has returned by now
		atomic.StoreInt32(&slow, 0)
		open := 0
		for _, cn := range f.All() {
			if cn.NumCloses() == 0 {
				open++
			}
		}
		replay := map[string]interface{}{"calls": op, "results": errs, "dials": f.NumCalls()}
		if open > 1 {
			c.Violation("judge-go", "c14-two-open", fmt.Sprintf("%d connections obtained from the factory are open at the same time after %s against a slow factory", open, op), replay)
		}
		_ = cl.Disconnect()
		for i, cn := range f.All() {
			if n := cn.NumCloses(); n != 1 {
				c.Violation("judge-go", "c14-close-count", fmt.Sprintf("connection %d obtained from a slow factory was closed %d times after %s and a final Disconnect", i, n, op), replay)
			}
		}
		c.Eval()
		c.Hist("slow factory: " + op)
	}
}

// capableConn: a connection that offers the optional methods callers commonly probe for by type assertion (what a
// *tls.Conn or *net.TCPConn has beyond net.Conn); each may fail.  The lifecycle clauses do not depend on what a
// connection can do besides net.Conn.
type capableConn struct {
	*fakes.Conn
	fail bool
}

func (o *capableConn) opt() error {
	if o.fail {
		return errors.New("fake: optional operation failed")
	}
	return nil
}
func (o *capableConn) HandshakeContext(ctx context.Context) error { return o.opt() }
func (o *capableConn) Handshake() error                           { return o.opt() }
func (o *capableConn) CloseWrite() error                          { return o.opt() }
func (o *capableConn) CloseRead() error                           { return o.opt() }
func (o *capableConn) SetKeepAlive(bool) error                    { return o.opt() }
func (o *capableConn) SetNoDelay(bool) error                      { return o.opt() }
func (o *capableConn) SetLinger(int) error                        { return o.opt() }

type capableFactory struct {
	inner *fakes.Factory
	fail  func(k int) bool
}

func (f *capableFactory) New() (net.Conn, error) {
	k := f.inner.NumCalls()
	cn, err := f.inner.New()
	if err != nil {
		return nil, err
	}
	return &capableConn{Conn: cn.(*fakes.Conn), fail: f.fail(k)}, nil
}

func c14CapableConns(c *core.Ctx) {
	for _, hist := range []string{"C C D", "C S D", "C C R D", "C R R D C D", "C D D"} {
		for _, failing := range []string{"none", "all", "first", "odd"} {
			inner := &fakes.Factory{FailOn: map[int]bool{}}
			f := &capableFactory{inner: inner, fail: func(k int) bool {
				return failing == "all" || failing == "first" && k == 0 || failing == "odd" && k%2 == 1
			}}
			cl := client.New(client.ConnectionOptions{Factory: f})
			replay := map[string]interface{}{"calls": hist, "optional_methods_fail": failing}
			active := false
			for _, step := range strings.Fields(hist) {
				dials := inner.NumCalls()
				switch step {
				case "C":
					err := cl.Connect()
					if active && (err == nil || inner.NumCalls() != dials) {
						c.Violation("judge-go", "c14-connect-active", "Connect on an active session did not fail without dialing (connections with optional methods)", replay)
					}
					active = active || err == nil
				case "D":
					_ = cl.Disconnect()
					active = false
				case "R":
					active = cl.Reconnect() == nil
				case "S":
					_ = cl.SendMessage("t", map[string]interface{}{"k": "v"})
				}
				open := 0
				for _, cn := range inner.All() {
					if cn.NumCloses() == 0 {
						open++
					}
				}
				if open > 1 || (open == 1 && !active) {
					c.Violation("judge-go", "c14-two-open", fmt.Sprintf("after %q of [%s]: %d connections obtained from the factory are open, the last lifecycle call left a session: %v (connections offering optional methods, failing: %s)", step, hist, open, active, failing), replay)
				}
			}
			for i, cn := range inner.All() {
				if n := cn.NumCloses(); n != 1 {
					c.Violation("judge-go", "c14-close-count", fmt.Sprintf("connection %d was closed %d times after [%s] (connections offering optional methods, failing: %s)", i, n, hist, failing), replay)
				}
			}
			c.Eval()
			c.Hist("connections offering optional methods: " + hist)
		}
	}
}

// c14RealSockets: the library's own ConnFactory over loopback TCP and a unix socket (no fakes): Connect dials once,
// a Send arrives as the message's encoding, Connect on the active session fails without a second dial, Disconnect
// closes the connection (the peer reads EOF), Reconnect replaces it with exactly one new connection.
func c14RealSockets(c *core.Ctx) {
	dir, err := os.MkdirTemp("", "c14sock")
	if err != nil {
		c.Hist("real sockets unavailable: " + err.Error())
		return
	}
	defer os.RemoveAll(dir)
	for _, network := range []string{"tcp", "unix", ""} {
		addr := "127.0.0.1:0"
		lnet := network
		if network == "unix" {
			addr = filepath.Join(dir, "s.sock")
		}
		if network == "" {
			lnet = "tcp" // the factory's default network
		}
		ln, err := net.Listen(lnet, addr)
		if err != nil {
			c.Hist("real sockets unavailable: " + err.Error())
			continue
		}
		var mu sync.Mutex
		accepted, eofs := 0, 0
		var got [][]byte
		go func() {
			for {
				cn, err := ln.Accept()
				if err != nil {
					return
				}
				mu.Lock()
				accepted++
				mu.Unlock()
				go func() {
					b, _ := io.ReadAll(cn)
					mu.Lock()
					eofs++
					got = append(got, b)
					mu.Unlock()
					_ = cn.Close()
				}()
			}
		}()
		cl := client.New(client.ConnectionOptions{Factory: &client.ConnFactory{Network: network, Address: ln.Addr().String(), Timeout: 2 * time.Second}})
		m := &protocol.Message{Tag: "real", Timestamp: 7, Record: map[string]interface{}{"k": "v"}}
		enc, _ := m.MarshalMsg(nil)
		replay := map[string]interface{}{"network": network, "history": "Connect; Send; Connect; Reconnect; Send; Disconnect"}
		e1 := cl.Connect()
		e2 := cl.Send(m)
		e3 := cl.Connect()
		e4 := cl.Reconnect()
		e5 := cl.Send(m)
		e6 := cl.Disconnect()
		ok := false
		for i := 0; i < 200 && !ok; i++ { // the peer's side of the closes arrives asynchronously
			mu.Lock()
			ok = eofs == 2
			mu.Unlock()
			if !ok {
				time.Sleep(5 * time.Millisecond)
			}
		}
		_ = ln.Close()
		c.Eval()
		c.Hist("library's own ConnFactory over a real " + lnet + " socket")
		mu.Lock()
		if e1 != nil || e2 != nil || e3 == nil || e4 != nil || e5 != nil || e6 != nil {
			c.Violation("judge-go", "c14-real-sockets", fmt.Sprintf("Connect %v; Send %v; Connect (active session) %v; Reconnect %v; Send %v; Disconnect %v", e1, e2, e3, e4, e5, e6), replay)
		}
		if accepted != 2 || eofs != 2 {
			c.Violation("judge-go", "c14-real-sockets", fmt.Sprintf("the peer accepted %d connections and saw %d of them closed (2 and 2 expected: Connect, Reconnect; the refused Connect does not dial)", accepted, eofs), replay)
		} else if !bytes.Equal(got[0], enc) || !bytes.Equal(got[1], enc) {
			c.Violation("judge-go", "c14-real-sockets", "the bytes the peer received on a connection are not the encoding of the one message sent on it", replay)
		}
		mu.Unlock()
	}
}
