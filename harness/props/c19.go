package props

import (
	"bytes"
	"fmt"
	"github.com/tinylib/msgp/msgp"
	"time"

	"github.com/IBM/fluent-forward-go/fluent/protocol"

	"verif/harness/core"
)

func init() { All["C19"] = C19 }

func etEncode(t time.Time) ([]byte, string) {
	et := protocol.EventTime{Time: t}
	// the destination is whatever the caller (msgp.AppendExtension, a reused msgp.Writer
	// window) hands in: never assume it is zeroed
	etFill++
	b := bytes.Repeat([]byte{[]byte{0x00, 0xa5, 0xff, 0x5a}[etFill%4]}, 8)
	var err error
	if p := safely(func() { err = et.MarshalBinaryTo(b) }); p != nil {
		return nil, "panic"
	}
	if err != nil {
		return nil, "err"
	}
	if et.Time != t { // same wall/ext words and the same *Location: encoding must only read the caller's value
		etMutated++
	}
	return b, hx(b)
}

var etMutated int

var etFill int

func etDecode(b []byte) (time.Time, string) {
	var et protocol.EventTime
	var err error
	if p := safely(func() { err = et.UnmarshalBinary(b) }); p != nil {
		return time.Time{}, "panic"
	}
	if err != nil {
		return time.Time{}, "err"
	}
	return et.Time, fmt.Sprintf("ok(%d.%d)", et.Unix(), et.Nanosecond())
}

func C19(c *core.Ctx) {
	r := c.Rng
	locs := []*time.Location{time.UTC, time.FixedZone("east", 5*3600+1800), time.FixedZone("west", -11*3600), time.FixedZone("odd", 12345), time.Local}
	secs := []int64{0, 1, 59, 60, 86399, 86400, 1<<31 - 1, 1 << 31, 1<<32 - 2, 1<<32 - 1, 1700000000, 951782400 /* 2000-02-29 */, 4102444800}
	nss := []int64{0, 1, 999, 1000, 999999, 1000000, 499999999, 500000000, 999999998, 999999999}
	type pt struct {
		s, n int64
		b    []byte
	}
	var pts []pt
	one := func(s, n int64, how string) {
		c.Eval()
		base := time.Unix(s, n)
		var first []byte
		for i, l := range locs {
			b, obs := etEncode(base.In(l))
			if i == 0 {
				first = b
				c.Corr("c19-encode", "et_payload", []string{fmt.Sprint(s), fmt.Sprint(n)}, obs)
				c.Hist(how + " encode")
			} else if !bytes.Equal(b, first) {
				c.Violation("judge-go", "c19-zone", fmt.Sprintf("encoding of %d.%d depends on the time zone (%s)", s, n, l), map[string]interface{}{"sec": s, "nsec": n, "zone": l.String()})
			}
		}
		if first == nil {
			return
		}
		t, obs := etDecode(first)
		c.Corr("c19-decode", "dec_eventtime", []string{hx(first)}, obs)
		if obs[:2] != "ok" || !t.Equal(base) || t.UnixNano() != base.UnixNano() && s < 1<<31 {
			c.Violation("judge-go", "c19-roundtrip", fmt.Sprintf("EventTime %d.%d does not survive encode/decode", s, n), map[string]interface{}{"sec": s, "nsec": n, "payload": hx(first), "decoded": obs})
		}
		c.Distinct(fmt.Sprint(s, ".", n))
		pts = append(pts, pt{s, n, first})
	}
	for _, s := range secs {
		for _, n := range nss {
			one(s, n, "boundary")
		}
	}
	for i := 0; i < c.N(3000, 2000000); i++ {
		one(int64(r.Uint32()), int64(r.Intn(1000000000)), "random")
	}
	c.Sample(map[string]interface{}{"sec": 1700000000, "nsec": 999999999, "payload": hx(pts[len(nss)*10+9].b)})
	// order: bytewise order of the payloads = order of the instants
	for i := 0; i < c.N(4000, 2000000); i++ {
		a, b := pts[r.Intn(len(pts))], pts[r.Intn(len(pts))]
		if r.Intn(3) == 0 { // neighbours
			b = pt{a.s, a.n + 1, nil}
			if b.n > 999999999 {
				b = pt{a.s + 1, 0, nil}
			}
			if b.s >= 1<<32 {
				continue
			}
			b.b, _ = etEncode(time.Unix(b.s, b.n))
		}
		want := 0
		switch {
		case a.s < b.s || a.s == b.s && a.n < b.n:
			want = -1
		case a.s > b.s || a.s == b.s && a.n > b.n:
			want = 1
		}
		c.Eval()
		if got := bytes.Compare(a.b, b.b); got != want {
			c.Violation("judge-go", "c19-order", "payload order differs from instant order", map[string]interface{}{"a": hx(a.b), "b": hx(b.b)})
		}
	}
	c.Hist("order pairs")
	if etMutated > 0 {
		c.Violation("judge-go", "c19-receiver-written", fmt.Sprintf("MarshalBinaryTo changed the EventTime it encodes in %d calls (a value shared by goroutines that only encode it is written)", etMutated), nil)
	}
	// layouts of other binary time encodings (time.Time.MarshalBinary: 15 or 16 bytes) are not EventTime payloads
	for i := 0; i < 40; i++ {
		tb, _ := time.Unix(int64(r.Uint32()), int64(r.Intn(1000000000))).In(locs[i%len(locs)]).MarshalBinary()
		variants := [][]byte{tb, append(append([]byte{}, tb...), 0), append([]byte{2}, tb[1:]...)}
		for _, b := range variants {
			_, obs := etDecode(b)
			c.Eval()
			c.Corr("c19-decode", "dec_eventtime", []string{hx(b)}, obs)
			if obs != "err" {
				c.Violation("judge-go", "c19-length", fmt.Sprintf("a %d-byte payload (time.Time's own binary layout) was accepted: %s", len(b), obs), map[string]string{"payload": hx(b)})
			}
			// the same bytes as an ext8 type-0 timestamp inside an entry
			ent := append(append([]byte{0x92, 0xc7, byte(len(b)), 0x00}, b...), 0x80)
			var e protocol.EntryExt
			if _, err := e.UnmarshalMsg(ent); err == nil {
				c.Violation("judge-go", "c19-length", fmt.Sprintf("an entry whose EventTime payload has %d bytes was accepted", len(b)), map[string]string{"entry": hx(ent)})
			}
		}
		c.Hist("foreign binary time layouts rejected")
	}
	// the same instants through the paths that carry entries: a packed stream, the constructors, a Forward message --
	// what comes back is the instant that went in (the first second of the epoch and the zero time included)
	{
		var insts []time.Time
		for _, s0 := range []int64{0, 1, 59, 1<<32 - 1, 1700000000} {
			for _, n0 := range []int64{0, 1, 500000000, 999999999} {
				insts = append(insts, time.Unix(s0, n0).In(locs[(int(s0)+int(n0))%len(locs)]))
			}
		}
		el := make(protocol.EntryList, len(insts))
		for i, t := range insts {
			el[i] = protocol.EntryExt{Timestamp: protocol.EventTime{Time: t}, Record: map[string]interface{}{"i": int64(i)}}
		}
		check := func(how string, got protocol.EntryList, err error) {
			c.Eval()
			if err != nil || len(got) != len(insts) {
				c.Violation("judge-go", "c19-carried", fmt.Sprintf("%s: %d entries came back for %d (err %v)", how, len(got), len(insts), err), nil)
				return
			}
			for i, t := range insts {
				if got[i].Timestamp.Unix() != t.Unix() || got[i].Timestamp.Nanosecond() != t.Nanosecond() {
					c.Violation("judge-go", "c19-carried", fmt.Sprintf("%s: the instant %d.%09d came back as %d.%09d", how, t.Unix(), t.Nanosecond(), got[i].Timestamp.Unix(), got[i].Timestamp.Nanosecond()),
						map[string]interface{}{"sec": t.Unix(), "nsec": t.Nanosecond(), "zone": t.Location().String()})
					return
				}
			}
		}
		if st, err := el.MarshalPacked(); err == nil {
			var back protocol.EntryList
			_, e := back.UnmarshalPacked(st)
			check("MarshalPacked / UnmarshalPacked", back, e)
		} else {
			check("MarshalPacked", nil, err)
		}
		if pm, err := protocol.NewPackedForwardMessage("t", el); err == nil {
			var back protocol.EntryList
			_, e := back.UnmarshalPacked(pm.EventStream)
			check("NewPackedForwardMessage", back, e)
		}
		if pm, err := protocol.NewCompressedPackedForwardMessage("t", el); err == nil {
			raw, e := gunzipOne(pm.EventStream)
			var back protocol.EntryList
			if e == nil {
				_, e = back.UnmarshalPacked(raw)
			}
			check("NewCompressedPackedForwardMessage", back, e)
		}
		fm := protocol.NewForwardMessage("t", el)
		if b, err := fm.MarshalMsg(nil); err == nil {
			var back protocol.ForwardMessage
			_, e := back.UnmarshalMsg(b)
			check("NewForwardMessage / MarshalMsg / UnmarshalMsg", back.Entries, e)
		}
		for i, t := range insts { // the caller's list itself
			if el[i].Timestamp.Unix() != t.Unix() || el[i].Timestamp.Nanosecond() != t.Nanosecond() {
				c.Violation("judge-go", "c19-carried", "the caller's entry list was re-stamped", nil)
				break
			}
		}
		c.Hist("instants through packed streams, constructors and Forward messages")
	}
	// decoding into an EventTime that already holds a value (a reused entry slot, a message decoded twice): the result
	// is the payload's instant whatever the receiver held -- also when that value encodes to the same 8 bytes
	// (seconds 2^32 apart) or is the same instant in another zone
	for i := 0; i < c.N(300, 20000); i++ {
		s0, n0 := int64(r.Uint32()), int64(r.Intn(1000000000))
		payload, _ := etEncode(time.Unix(s0, n0))
		for _, prev := range []time.Time{time.Unix(s0+(1<<32), n0), time.Unix(s0-(1<<32), n0), time.Unix(s0+3*(1<<32), n0), time.Unix(s0, n0).In(locs[1]), time.Unix(s0+1, n0), {}} {
			et := protocol.EventTime{Time: prev}
			err := et.UnmarshalBinary(payload)
			c.Eval()
			if err != nil || et.Unix() != s0 || int64(et.Nanosecond()) != n0 {
				c.Violation("judge-go", "c19-dirty-receiver", fmt.Sprintf("decoding the payload of %d.%d into an EventTime that held %d.%d gives %d.%d (err %v)", s0, n0, prev.Unix(), prev.Nanosecond(), et.Unix(), et.Nanosecond(), err),
					map[string]interface{}{"payload": hx(payload), "receiver_sec": prev.Unix(), "receiver_nsec": prev.Nanosecond()})
				break
			}
		}
	}
	c.Hist("decode into receivers that already hold a value")
	// the same rule through every decoder that meets a timestamp extension (entries, MessageExt, Forward entries;
	// byte-slice and stream paths) and every framing msgpack has for an extension of that length
	// (fixext, ext8, ext16, ext32): a type-0 extension whose payload is not 8 bytes long is not an EventTime
	for _, ln := range []int{0, 1, 2, 4, 7, 8, 9, 12, 15, 16, 17, 255, 256, 264, 300, 520, 65536 + 8} {
		payload := make([]byte, ln)
		r.Read(payload)
		var framings [][]byte
		switch ln {
		case 1:
			framings = append(framings, []byte{0xd4, 0})
		case 2:
			framings = append(framings, []byte{0xd5, 0})
		case 4:
			framings = append(framings, []byte{0xd6, 0})
		case 8:
			framings = append(framings, []byte{0xd7, 0})
		case 16:
			framings = append(framings, []byte{0xd8, 0})
		}
		if ln < 256 {
			framings = append(framings, []byte{0xc7, byte(ln), 0})
		}
		if ln < 65536 {
			framings = append(framings, []byte{0xc8, byte(ln >> 8), byte(ln), 0})
		}
		framings = append(framings, []byte{0xc9, byte(ln >> 24), byte(ln >> 16), byte(ln >> 8), byte(ln), 0})
		for _, fr := range framings {
			ts := append(append([]byte{}, fr...), payload...)
			ent := append(append([]byte{0x92}, ts...), 0x80)
			carriers := []struct {
				name string
				b    []byte
				slc  func(b []byte) error
				str  func(b []byte) error
			}{
				{"EntryExt", ent,
					func(b []byte) error { var e protocol.EntryExt; _, err := e.UnmarshalMsg(b); return err },
					func(b []byte) error { var e protocol.EntryExt; return msgp.Decode(bytes.NewReader(b), &e) }},
				{"MessageExt", append(append([]byte{0x93, 0xa1, 't'}, ts...), 0x80),
					func(b []byte) error { var m protocol.MessageExt; _, err := m.UnmarshalMsg(b); return err },
					func(b []byte) error { var m protocol.MessageExt; return msgp.Decode(bytes.NewReader(b), &m) }},
				{"MessageExt with options", append(append([]byte{0x94, 0xa1, 't'}, ts...), 0x80, 0x80),
					func(b []byte) error { var m protocol.MessageExt; _, err := m.UnmarshalMsg(b); return err },
					func(b []byte) error { var m protocol.MessageExt; return msgp.Decode(bytes.NewReader(b), &m) }},
				{"ForwardMessage", append([]byte{0x92, 0xa1, 't', 0x91}, ent...),
					func(b []byte) error { var m protocol.ForwardMessage; _, err := m.UnmarshalMsg(b); return err },
					func(b []byte) error { var m protocol.ForwardMessage; return msgp.Decode(bytes.NewReader(b), &m) }},
				{"EntryList.UnmarshalPacked", ent,
					func(b []byte) error { var l protocol.EntryList; _, err := l.UnmarshalPacked(b); return err }, nil},
			}
			for _, mb := range []struct {
				mode string
				b    []byte
			}{{"message_ext", carriers[2].b}, {"forward", carriers[3].b}} {
				mode, b := mb.mode, mb.b
				for _, path := range paths {
					obs, _, _ := decodeMsgObs(mode, path, newReceiver(mode), b)
					c.Corr("c19-carrier", "U_"+mode, []string{path, hx(b)}, obs)
				}
			}
			for _, ca := range carriers {
				for k, f := range []func([]byte) error{ca.slc, ca.str} {
					if f == nil {
						continue
					}
					var err error
					p := safely(func() { err = f(ca.b) })
					c.Eval()
					if p == nil && (err == nil) != (ln == 8) {
						c.Violation("judge-go", "c19-length", fmt.Sprintf("%s (%s path): a type-0 timestamp extension of %d bytes (framing 0x%02x): %v", ca.name, []string{"byte-slice", "stream"}[k], ln, fr[0], err),
							map[string]string{"bytes": hx(ca.b)})
					}
				}
			}
		}
		c.Hist("timestamp extensions of other lengths rejected by every decoder")
	}
	// lengths other than 8 are rejected; any 8 bytes are accepted; re-encoding reproduces
	// payloads with a nanosecond field below 10^9
	for i := 0; i < c.N(2000, 300000); i++ {
		ln := r.Intn(17)
		if r.Intn(2) == 0 {
			ln = 8
		}
		b := make([]byte, ln)
		r.Read(b)
		if ln == 8 && r.Intn(2) == 0 { // keep the nanosecond field in range
			ns := uint32(r.Intn(1000000000))
			b[4], b[5], b[6], b[7] = byte(ns>>24), byte(ns>>16), byte(ns>>8), byte(ns)
		}
		t, obs := etDecode(b)
		c.Eval()
		c.Corr("c19-decode", "dec_eventtime", []string{hx(b)}, obs)
		if (ln == 8) != (obs[:2] == "ok") {
			c.Violation("judge-go", "c19-length", fmt.Sprintf("a %d-byte payload: %s", ln, obs), map[string]string{"payload": hx(b)})
		}
		if ln == 8 && obs[:2] == "ok" {
			nsField := uint32(b[4])<<24 | uint32(b[5])<<16 | uint32(b[6])<<8 | uint32(b[7])
			re, _ := etEncode(t)
			c.Hist(fmt.Sprintf("reencode nsfield<1e9=%v", nsField < 1000000000))
			if nsField < 1000000000 && !bytes.Equal(re, b) {
				c.Violation("judge-go", "c19-reencode", "decode then encode changed the payload", map[string]string{"payload": hx(b), "reencoded": hx(re)})
			}
		} else {
			c.Hist(fmt.Sprintf("len=%d rejected=%v", ln, obs == "err"))
		}
	}
}
