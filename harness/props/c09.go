package props

import (
	"bytes"
	"fmt"
	"github.com/IBM/fluent-forward-go/fluent/client"
	"io"
	"math/rand"
	"strings"
	"time"

	"github.com/IBM/fluent-forward-go/fluent/protocol"

	"verif/harness/core"
)

func init() { All["C09"] = C09 }

// sizedMessage builds a message of the given kind whose encoding is about `size` bytes.
// Records are array- or single-key shaped so that the encoding is deterministic.
func sizedMessage(r *rand.Rand, kind string, size int, chunk string) protocol.ChunkEncoder {
	pad := strings.Repeat("x", size)
	var opts *protocol.MessageOptions
	if chunk != "" {
		opts = &protocol.MessageOptions{Chunk: chunk}
	}
	switch kind {
	case "message":
		return &protocol.Message{Tag: "tag", Timestamp: 1700000000, Record: map[string]interface{}{"k": pad}, Options: opts}
	case "message_arr":
		// the bulk of the record sits in nested arrays and maps, not in one long string (size estimates that
		// only know strings exactly are far off for such records)
		var lines []interface{}
		for n := 0; n < size; n += 70 {
			lines = append(lines, strings.Repeat("s", 66))
		}
		lines = append(lines, map[string]interface{}{"a": []interface{}{int64(1), int64(2)}})
		return &protocol.Message{Tag: "tag", Timestamp: 1700000000, Record: map[string]interface{}{"stack": lines}, Options: opts}
	case "message_ext":
		return &protocol.MessageExt{Tag: "tag", Timestamp: protocol.EventTimeNow(), Record: map[string]interface{}{"k": pad}, Options: opts}
	case "forward":
		n := 1 + size/40
		es := make(protocol.EntryList, n)
		for i := range es {
			es[i] = protocol.EntryExt{Timestamp: protocol.EventTimeNow(), Record: map[string]interface{}{"i": int64(i), "p": "0123456789"}}
			es[i].Record = map[string]interface{}{"p": fmt.Sprintf("%020d", i)}
		}
		return &protocol.ForwardMessage{Tag: "tag", Entries: es, Options: opts}
	case "packed":
		b := make([]byte, size)
		if r != nil {
			r.Read(b)
		} else {
			for i := range b {
				b[i] = byte(i * 7)
			}
		}
		return &protocol.PackedForwardMessage{Tag: "tag", EventStream: b, Options: opts}
	case "raw":
		m := &protocol.Message{Tag: "tag", Timestamp: 5, Record: map[string]interface{}{"k": pad}, Options: opts}
		b, _ := m.MarshalMsg(nil)
		return protocol.RawMessage(b)
	}
	panic(kind)
}

var sendKinds = []string{"message", "message_ext", "forward", "packed", "raw"}

// unencodable: an array-shaped record with `before` bytes of encodable content, then a
// value msgpack cannot represent, nested `depth` levels deep, followed by more content.
func unencodableRecord(before, depth int) interface{} {
	var v interface{} = []interface{}{strings.Repeat("y", before), make(chan int), "after"}
	for i := 0; i < depth; i++ {
		v = []interface{}{int64(i), v, "tail"}
	}
	return map[string]interface{}{"rec": v}
}

// sendCase runs Connect + the given sends on a fresh client and emits the model
// correspondence and the per-send judgement.
func sendCase(c *core.Ctx, sig string, cf ccfg, ops []cop, note string) []copResult {
	all := append([]cop{{kind: "C", dialOK: true, wfault: -1}}, ops...)
	rs := runClientOps(cf, all)
	c.Eval()
	c.Corr(sig+"-history", "client_run", []string{cf.model(), renderOps(cf, all)}, renderResults(rs))
	for i, o := range all {
		if o.kind != "S" {
			continue
		}
		x := rs[i]
		if x.ret == "hang" {
			c.Violation("hang", sig+"-hang", "Send did not return within 10 s plus twice its timeout ("+note+")", map[string]interface{}{"cfg": cf.model(), "op": trunc(o.model(cf), 400)})
		}
		if x.ret == "panic" {
			c.Violation("panic", sig+"-panic", "Send panicked ("+note+")", map[string]interface{}{"cfg": cf.model(), "op": trunc(o.model(cf), 400)})
		}
		en := "-"
		if o.enc != nil {
			en = "x" + hx(o.enc)
		}
		c.Judge(sig+"-send", "judge_send", []string{en, b01(cf.ack), "x" + hx(o.chunk), "x" + hx(o.resp), strings.Join(x.events, ","), x.ret},
			fmt.Sprintf("send %d of [%s]: result and accepted bytes vs the encoding", i, note))
	}
	return rs
}

func mkSend(cf ccfg, m protocol.ChunkEncoder, wfault int) cop {
	o := cop{kind: "S", msg: m, wfault: wfault}
	if cf.ack {
		ch, err := m.Chunk()
		if err != nil {
			o.chunkErr = true
		}
		o.chunk = []byte(ch)
	}
	if rm, ok := m.(protocol.RawMessage); ok {
		// RawMessage.EncodeMsg writes the bytes verbatim (nil when empty)
		o.enc = append([]byte{}, rm...)
		if len(rm) == 0 {
			o.enc = []byte{0xc0}
		}
	} else if mm, ok := m.(interface {
		MarshalMsg([]byte) ([]byte, error)
	}); ok {
		if b, err := mm.MarshalMsg(nil); err == nil {
			o.enc = b
		}
	}
	return o
}

// C09: no false success, no torn messages.
func C09(c *core.Ctx) {
	setFine(c) // fine-grained phase: the same run with LIFO pools
	r := c.Rng
	sizes := []int{0, 40, 2000, 2040, 2049, 3000, 4090, 4100, 6200}
	for _, ack := range []bool{false, true} {
		cf := ccfg{host: []byte("h"), ack: ack}
		for _, kind := range sendKinds {
			for _, sz := range sizes {
				if !c.Thorough() && r.Intn(3) != 0 && sz != 2049 {
					continue
				}
				chunk := ""
				if ack {
					chunk = "chunk-1"
				}
				probe := mkSend(cf, sizedMessage(r, kind, sz, chunk), -1)
				L := len(probe.enc)
				// fault positions: every byte for short encodings, the buffer boundaries and samples otherwise
				var pos []int
				if L <= c.N(120, 700) {
					for n := 0; n < L; n++ {
						pos = append(pos, n)
					}
				} else {
					for _, n := range []int{0, 1, 2, 2046, 2047, 2048, 2049, 2050, 4095, 4096, 4097, 6143, 6144, 6145, L - 2, L - 1} {
						if n >= 0 && n < L {
							pos = append(pos, n)
						}
					}
					for k := 0; k < c.N(6, 150); k++ {
						pos = append(pos, r.Intn(L))
					}
				}
				for _, n := range pos {
					m := sizedMessage(r, kind, sz, chunk)
					o := mkSend(cf, m, n)
					if ack {
						o.resp = ackBytes(o.chunk)
					}
					c.Hist(fmt.Sprintf("write fault kind=%s ack=%v size-class=%dKiB", kind, ack, L/2048))
					c.Distinct(fmt.Sprint(kind, ack, L, n))
					rs := sendCase(c, "c09", cf, []cop{o}, fmt.Sprintf("%s len=%d fault after %d bytes", kind, L, n))
					if rs[1].ret == "ok" {
						c.Violation("judge-go", "c09-false-success", fmt.Sprintf("Send returned nil although the connection failed after %d of %d bytes (%s)", n, L, kind),
							map[string]interface{}{"kind": kind, "len": L, "fault_after": n, "ack": ack})
					}
				}
				// faults of the net.Error family (timeouts, temporary errors), met again by a caller that retries:
				// whatever the client does, it must not report success unless the connection took every byte once, in order
				for k := 0; k < c.N(4, 40) && L > 3; k++ {
					n1 := r.Intn(L - 1)
					o := mkSend(cf, sizedMessage(r, kind, sz, chunk), n1)
					o.werr = []error{netFault{timeout: true, temporary: true}, netFault{temporary: true}, netFault{timeout: true}, io.ErrShortWrite}[r.Intn(4)]
					switch r.Intn(3) {
					case 0:
						o.wmore = []int{}
					case 1:
						o.wmore = []int{r.Intn(L - n1)}
					default:
						o.wmore = []int{r.Intn(4), 0, 1 + r.Intn(3)}
					}
					if ack {
						o.resp = ackBytes(o.chunk)
					}
					note := fmt.Sprintf("%s len=%d: %v after %d bytes, then %v", kind, L, o.werr, n1, o.wmore)
					c.Hist("typed / repeated write fault")
					rs := runClientOps(cf, []cop{{kind: "C", dialOK: true, wfault: -1}, o})
					c.Eval()
					var got []byte
					for _, e := range rs[1].events {
						if strings.HasPrefix(e, "w:") {
							f := strings.Split(e, ":")
							b := unhx(f[2])
							var n int
							fmt.Sscan(f[3], &n)
							got = append(got, b[:n]...)
						}
					}
					replay := map[string]interface{}{"kind": kind, "len": L, "fault": note, "accepted": trunc(hx(got), 200), "encoding": trunc(hx(o.enc), 200), "ret": rs[1].ret}
					if rs[1].ret == "ok" && !bytes.Equal(got, o.enc) {
						c.Violation("judge-go", "c09-false-success", "Send returned nil but the connection did not take exactly the encoding ("+note+")", replay)
					}
					if !bytes.HasPrefix(o.enc, got) {
						c.Violation("judge-go", "c09-reordered", "the bytes the connection accepted are not a prefix of the encoding: lost, repeated or reordered ("+note+")", replay)
					}
				}
				// no fault: success, everything accepted
				o := mkSend(cf, sizedMessage(r, kind, sz, chunk), -1)
				if ack {
					o.resp = ackBytes(o.chunk)
				}
				rs := sendCase(c, "c09", cf, []cop{o}, fmt.Sprintf("%s len=%d healthy", kind, L))
				if rs[1].ret != "ok" {
					c.Violation("judge-go", "c09-healthy-failed", "Send failed on a healthy connection ("+kind+")", map[string]interface{}{"kind": kind, "len": L})
				}
				// failure while the ack is being read: the ack cut at every byte offset, then EOF
				if ack && sz <= 40 {
					full := ackBytes(o.chunk)
					for k := 0; k < len(full); k++ {
						o2 := mkSend(cf, sizedMessage(r, kind, sz, chunk), -1)
						o2.resp = full[:k]
						rs := sendCase(c, "c09", cf, []cop{o2}, fmt.Sprintf("%s ack cut after %d bytes", kind, k))
						c.Hist("ack read fault")
						if rs[1].ret == "ok" {
							c.Violation("judge-go", "c09-false-success", fmt.Sprintf("Send returned nil although the ack broke off after %d bytes", k), map[string]interface{}{"kind": kind, "cut": k})
						}
					}
				}
			}
		}
		// unencodable records: error, nothing on the wire, the next message correctly framed
		for _, before := range []int{0, 10, 2030, 2049, 3000, 4090, 5000, 1200000} {
			for depth := 0; depth < 3; depth++ {
				for _, ext := range []bool{false, true} {
					var bad protocol.ChunkEncoder
					if ext {
						bad = &protocol.MessageExt{Tag: "t", Timestamp: protocol.EventTimeNow(), Record: unencodableRecord(before, depth)}
					} else {
						bad = &protocol.Message{Tag: "t", Timestamp: 1, Record: unencodableRecord(before, depth)}
					}
					if ack {
						if ext {
							bad.(*protocol.MessageExt).Options = &protocol.MessageOptions{Chunk: "bad-1"}
						} else {
							bad.(*protocol.Message).Options = &protocol.MessageOptions{Chunk: "bad-1"}
						}
					}
					ob := mkSend(cf, bad, -1)
					ob.enc = nil
					good := mkSend(cf, sizedMessage(r, "message", 20, map[bool]string{true: "good-1", false: ""}[ack]), -1)
					if ack {
						good.resp = ackBytes(good.chunk)
						ob.resp = ackBytes(ob.chunk)
					}
					c.Hist(fmt.Sprintf("unencodable before=%d depth=%d ack=%v", before, depth, ack))
					c.Distinct(fmt.Sprint("bad", before, depth, ext, ack))
					rs := sendCase(c, "c09-unencodable", cf, []cop{ob, good}, fmt.Sprintf("unencodable record after %d bytes at depth %d, then a good message", before, depth))
					if rs[1].ret == "ok" {
						c.Violation("judge-go", "c09-unencodable-ok", "Send of an unencodable record returned nil", map[string]interface{}{"before": before, "depth": depth})
					}
					// the healthy connection must hold exactly the good message
					var wire []byte
					for _, x := range rs {
						for _, e := range x.events {
							if strings.HasPrefix(e, "w:") {
								f := strings.Split(e, ":")
								b := unhx(f[2])
								var n int
								fmt.Sscan(f[3], &n)
								wire = append(wire, b[:n]...)
							}
						}
					}
					if !bytes.Equal(wire, good.enc) {
						c.Violation("judge-go", "c09-unencodable-torn", fmt.Sprintf("after a send that failed to encode (%d bytes of content before the bad value) the connection holds %d bytes that are not the next message's %d", before, len(wire), len(good.enc)),
							map[string]interface{}{"before": before, "depth": depth, "ext": ext, "ack": ack, "wire_prefix": trunc(hx(wire), 120)})
					}
				}
			}
		}
	}
	c09BigBatch(c)
	c09SendBuf(c)
	c09ws(c)
	c09PackedHelpers(c)
}

// c09SendBuf: histories of Sends of one goroutine on one client (no acks) -- messages that encode, and
// messages that fail to encode after 0 .. several writer buffers of content -- against the pooled send
// buffer model (coq/model/SendBuf.v): the sequence of Write payloads must be the model's, whichever
// policy the pool follows (the theorem says the policy does not matter; the fine-grained phase runs this
// with LIFO pools, the ordinary one with the real sync.Pool).
func c09SendBuf(c *core.Ctx) {
	r := c.Rng
	cf := ccfg{host: []byte("h")}
	for h := 0; h < c.N(60, 1500); h++ {
		n := 2 + r.Intn(6)
		var ops []cop
		var reqs []string
		for i := 0; i < n; i++ {
			if r.Intn(3) == 0 {
				before := []int{0, 10, 2030, 2049, 3000, 4090, 5000, 9000}[r.Intn(8)]
				bad := &protocol.Message{Tag: "t", Timestamp: int64(i), Record: unencodableRecord(before, r.Intn(2))}
				o := mkSend(cf, bad, -1)
				o.enc = nil
				// what msgp.Encode leaves in a buffer for this message before it gives up
				left, obs := encode(bad)
				if obs != "err" {
					continue
				}
				ops = append(ops, o)
				reqs = append(reqs, "x"+hx(left)+",0")
			} else {
				o := mkSend(cf, sizedMessage(r, sendKinds[r.Intn(len(sendKinds))], []int{5, 20, 300, 2040, 2500, 7000}[r.Intn(6)], ""), -1)
				if o.enc == nil {
					continue
				}
				ops = append(ops, o)
				reqs = append(reqs, "x"+hx(o.enc)+",1")
			}
		}
		if len(ops) == 0 {
			continue
		}
		rs := runClientOps(cf, append([]cop{{kind: "C", dialOK: true, wfault: -1}}, ops...))
		var writes []string
		for _, x := range rs[1:] {
			for _, e := range x.events {
				if strings.HasPrefix(e, "w:") {
					writes = append(writes, "x"+strings.Split(e, ":")[2])
				}
			}
		}
		c.Eval()
		c.Hist(fmt.Sprintf("send-buffer history of %d sends", len(ops)))
		c.Distinct("sendbuf " + fmt.Sprint(h, len(ops)))
		obs := strings.Join(writes, ",")
		for _, pol := range []string{"lifo", "fifo", "never"} {
			c.Corr("c09-sendbuf", "sendbuf_seq", []string{pol, strings.Join(reqs, ";")}, obs)
		}
	}
}

// c09BigBatch: a Forward batch whose size estimate is in the megabytes, one of whose records cannot be
// encoded (at the start, in the middle, at the end): error, nothing on the connection, the next message framed.
func c09BigBatch(c *core.Ctx) {
	r := c.Rng
	for _, n := range []int{4, 1300} {
		for _, where := range []int{0, n / 2, n} {
			cf := ccfg{host: []byte("h")}
			var el protocol.EntryList
			for i := 0; i <= n; i++ {
				var rec interface{} = map[string]interface{}{"log": strings.Repeat("x", 1000)}
				if i == where {
					rec = map[string]interface{}{"bad": make(chan int)}
				}
				el = append(el, protocol.EntryExt{Timestamp: protocol.EventTime{Time: time.Unix(int64(i), 0)}, Record: rec})
			}
			bad := mkSend(cf, protocol.NewForwardMessage("batch", el), -1)
			bad.enc = nil
			good := mkSend(cf, sizedMessage(r, "message", 20, ""), -1)
			rs := runClientOps(cf, []cop{{kind: "C", dialOK: true, wfault: -1}, bad, good})
			c.Eval()
			c.Hist(fmt.Sprintf("unencodable record at %d of a batch of %d entries", where, n+1))
			var wire []byte
			for _, x := range rs[1:] {
				for _, e := range x.events {
					if strings.HasPrefix(e, "w:") {
						f := strings.Split(e, ":")
						b := unhx(f[2])
						var k int
						fmt.Sscan(f[3], &k)
						wire = append(wire, b[:k]...)
					}
				}
			}
			replay := map[string]interface{}{"entries": n + 1, "unencodable_at": where, "bytes_on_connection": len(wire), "first_bytes": trunc(hx(wire), 100)}
			if rs[1].ret == "ok" {
				c.Violation("judge-go", "c09-unencodable-ok", "Send of a batch holding an unencodable record returned nil", replay)
			}
			if !bytes.Equal(wire, good.enc) {
				c.Violation("judge-go", "c09-unencodable-torn", fmt.Sprintf("after a batch of %d entries that failed to encode the connection holds %d bytes that are not the next message's %d", n+1, len(wire), len(good.enc)), replay)
			}
		}
	}
}

// c09PackedHelpers: the helpers that pack an entry list before they send (SendPacked, SendCompressed, SendForward):
// a list holding a value msgpack cannot represent -- after any amount of encodable entries -- is reported as an
// error with nothing written, and whatever helper is used next puts exactly its own entries on the wire.
func c09PackedHelpers(c *core.Ctx) {
	good := func(n int, mark string) protocol.EntryList {
		el := make(protocol.EntryList, n)
		for i := range el {
			el[i] = protocol.EntryExt{Timestamp: protocol.EventTime{Time: time.Unix(int64(1000+i), 7)}, Record: map[string]interface{}{"m": fmt.Sprintf("%s-%d", mark, i)}}
		}
		return el
	}
	type helper struct {
		name string
		send func(cl *client.Client, el protocol.EntryList) error
	}
	helpers := []helper{
		{"SendPacked", func(cl *client.Client, el protocol.EntryList) error { return cl.SendPacked("t", el) }},
		{"SendCompressed", func(cl *client.Client, el protocol.EntryList) error { return cl.SendCompressed("t", el) }},
		{"SendForward", func(cl *client.Client, el protocol.EntryList) error { return cl.SendForward("t", el) }},
	}
	for _, before := range []int{0, 1, 30, 200} {
		for _, first := range helpers {
			for _, second := range helpers {
				cl, f := liveClient(false)
				bad := append(good(before, "LEAKED-FROM-FAILED-LIST"), protocol.EntryExt{Timestamp: protocol.EventTime{Time: time.Unix(5, 0)}, Record: map[string]interface{}{"bad": make(chan int)}})
				err1 := first.send(cl, bad)
				wrote1 := len(f.Conns[0].Accepted())
				want := good(3, "second")
				err2 := second.send(cl, want)
				wire := f.Conns[0].Accepted()[wrote1:]
				c.Eval()
				c.Hist("entry-list helper after a failed entry-list helper")
				replay := map[string]interface{}{"first": first.name, "second": second.name, "encodable_entries_before_the_bad_one": before, "wire": trunc(hx(wire), 300)}
				if err1 == nil || wrote1 != 0 {
					c.Violation("judge-go", "c09-unencodable-leak", fmt.Sprintf("%s of a list with an unencodable record returned %v and wrote %d bytes", first.name, err1, wrote1), replay)
				}
				var got protocol.EntryList
				ok := err2 == nil
				if ok {
					if second.name == "SendForward" {
						var fm protocol.ForwardMessage
						_, e := fm.UnmarshalMsg(wire)
						ok, got = e == nil, fm.Entries
					} else {
						var pm protocol.PackedForwardMessage
						_, e := pm.UnmarshalMsg(wire)
						st := pm.EventStream
						if e == nil && second.name == "SendCompressed" {
							st, e = gunzipOne(st)
						}
						if e == nil {
							_, e = got.UnmarshalPacked(st)
						}
						ok = e == nil
					}
				}
				if !ok || !got.Equal(want) {
					c.Violation("judge-go", "c09-unencodable-leak", fmt.Sprintf("%s after a failed %s: the wire does not carry exactly the entries of the second call (err %v, %d entries decoded)", second.name, first.name, err2, len(got)), replay)
				}
			}
		}
	}
}
