package props

import (
	crand "crypto/rand"
	"errors"
	"fmt"
	"math/rand"
	"strings"
	"sync"
	"time"

	"github.com/IBM/fluent-forward-go/fluent/client"
	"github.com/IBM/fluent-forward-go/fluent/protocol"

	"verif/harness/fakes"
)

// cop is one public method call on the TCP-style client together with the script of the
// environment for that call (coq/model/Client.v: op).
type cop struct {
	kind   string // C D R H S W T
	dialOK bool
	// H
	saltSeed   int64
	inp1, inp2 []byte
	// S
	msg      protocol.ChunkEncoder
	enc      []byte // expected encoding; nil = cannot be encoded
	chunk    []byte // what msg.Chunk() returns
	chunkErr bool
	wfault   int // -1: none; n: the connection accepts n more bytes during this call, then fails
	// how the failing Write reports itself, and what further Writes of the same call meet: a caller that
	// retries (it must not lose, repeat or reorder bytes, nor report success) sees wmore[0] bytes accepted by
	// the next Write before that fails the same way, and so on; after the list every Write succeeds
	werr   error
	wmore  []int
	resp   []byte
	silent bool          // after resp the peer stays silent (read deadline) instead of EOF
	delay  time.Duration // resp is delivered after this delay
	frag   int           // deliver resp in fragments of at most frag bytes
	// W
	raw []byte
	// D
	closeErr bool // the connection's Close() returns an error
	// S: the connection refuses to arm a read deadline during this call
	dlErr bool
	// T: the caller lets this much time pass before the call
	pause time.Duration
}

type ccfg struct {
	key     []byte // nil: no shared key
	host    []byte
	ack     bool
	timeout time.Duration // 0: none
	// the shared key reaches the client through its exported field after New (as Hostname always does), not
	// through ConnectionOptions
	keyByField bool
}

func (c ccfg) model() string {
	k := "-"
	if c.key != nil {
		k = "x" + hx(c.key)
	}
	return fmt.Sprintf("%s|x%s|%s|%s", k, hx(c.host), b01(c.ack), b01(c.timeout != 0))
}

func b01(b bool) string {
	if b {
		return "1"
	}
	return "0"
}

func (o cop) salt() []byte {
	s := make([]byte, 16)
	rand.New(rand.NewSource(o.saltSeed)).Read(s)
	return s
}

func optn(n int) string {
	if n < 0 {
		return "-"
	}
	return fmt.Sprint(n)
}

// model renders the op for the model entry client_run.
func (o cop) model(cf ccfg) string {
	switch o.kind {
	case "C", "R":
		return o.kind + "," + b01(o.dialOK)
	case "D", "T":
		return o.kind
	case "H":
		return fmt.Sprintf("H,x%s,x%s,x%s", hx(o.salt()), hx(o.inp1), hx(o.inp2))
	case "S":
		ch := "x" + hx(o.chunk)
		if o.chunkErr {
			ch = "-"
		}
		en := "-"
		if o.enc != nil {
			en = "x" + hx(o.enc)
		}
		return fmt.Sprintf("S,%s,%s,%s,x%s", ch, en, optn(o.wfault), hx(o.resp))
	case "W":
		return fmt.Sprintf("W,x%s,%s", hx(o.raw), optn(o.wfault))
	}
	panic("kind")
}

type copResult struct {
	ret    string
	events []string
	dur    time.Duration
}

func (r copResult) String() string { return r.ret + "|" + strings.Join(r.events, ",") }

var errFault = errors.New("injected write failure")

// runClientOps executes the calls against the real client and records, per call, the
// result class and the calls made on the factory and on the connections, in order.
func runClientOps(cf ccfg, ops []cop) []copResult {
	var (
		mu       sync.Mutex
		cur      []string
		tag      = 0
		budget   = -1
		more     []int
		moreSet  bool
		faultErr error = errFault
	)
	f := &fakes.Factory{FailOn: map[int]bool{}}
	f.Log = func(ev string) {
		mu.Lock()
		if strings.HasPrefix(ev, "w:") {
			ev += fmt.Sprintf(":%d", tag)
		}
		cur = append(cur, ev)
		mu.Unlock()
	}
	var pendingResp func(c *fakes.Conn)
	f.Setup = func(c *fakes.Conn) {
		c.Script = []fakes.ReadStep{{Block: true}}
		c.OnWrite = func(idx int, b []byte) (int, error) {
			n, err := len(b), error(nil)
			if budget >= 0 {
				if budget >= len(b) {
					budget -= len(b)
				} else {
					n, err = budget, faultErr
					if len(more) > 0 {
						budget, more = more[0], more[1:]
					} else if moreSet {
						budget = -1 // the list is used up: the connection is healthy again
					} else {
						budget = 0
					}
				}
			}
			if pendingResp != nil && err == nil {
				pendingResp(c)
				pendingResp = nil
			}
			if err == nil {
				stirPools()
			}
			return n, err
		}
	}
	cl := client.New(client.ConnectionOptions{Factory: f, RequireAck: cf.ack, AuthInfo: client.AuthInfo{SharedKey: cf.key}})
	if cf.keyByField {
		cl = client.New(client.ConnectionOptions{Factory: f, RequireAck: cf.ack})
		cl.AuthInfo.SharedKey = cf.key
	}
	cl.Hostname = string(cf.host)
	cl.Timeout = cf.timeout
	res := make([]copResult, 0, len(ops))
	old := crand.Reader
	defer func() { crand.Reader = old }()
	for _, o := range ops {
		mu.Lock()
		cur = nil
		tag = 0
		mu.Unlock()
		budget = o.wfault
		more, moreSet = append([]int{}, o.wmore...), o.wmore != nil
		faultErr = errFault
		if o.werr != nil {
			faultErr = o.werr
		}
		pendingResp = nil
		var err error
		var ret string
		t0 := time.Now()
		var p interface{}
		finished := make(chan struct{})
		go func() {
			defer close(finished)
			p = safely(func() {
				switch o.kind {
				case "C":
					f.FailOn[f.NumCalls()] = !o.dialOK
					err = cl.Connect()
				case "D":
					if cs := f.All(); len(cs) > 0 && o.closeErr {
						cs[len(cs)-1].OnClose = func() error { return errors.New("fake: close failed") }
					}
					err = cl.Disconnect()
					err = nil // the result of the connection's Close is passed through; the model reports ok
				case "R":
					if cs := f.All(); len(cs) > 0 && o.closeErr {
						cs[len(cs)-1].OnClose = func() error { return errors.New("fake: close failed") }
					}
					f.FailOn[f.NumCalls()] = !o.dialOK
					err = cl.Reconnect()
				case "H":
					crand.Reader = &detRand{rand.New(rand.NewSource(o.saltSeed))}
					mu.Lock()
					tag = 1
					mu.Unlock()
					if cs := f.All(); len(cs) > 0 {
						c := cs[len(cs)-1]
						c.SetScript([]fakes.ReadStep{{Data: o.inp1}})
						inp2 := o.inp2
						pendingResp = func(c *fakes.Conn) {
							if len(inp2) > 0 {
								c.Script = append(c.Script, fakes.ReadStep{Data: inp2})
							}
						}
					}
					err = cl.Handshake()
				case "S":
					o := o
					pendingResp = func(c *fakes.Conn) {
						steps := []fakes.ReadStep{}
						if len(o.resp) > 0 {
							steps = append(steps, fakes.ReadStep{Data: o.resp, Delay: o.delay})
						}
						if o.silent {
							steps = append(steps, fakes.ReadStep{Block: true})
						}
						c.FragMax = o.frag
						c.SetScriptInWrite(steps)
					}
					if cs := f.All(); len(cs) > 0 {
						cs[len(cs)-1].SetScript(nil)
						if o.dlErr {
							cs[len(cs)-1].SetDeadlineErr(errors.New("fake: deadline cannot be set"))
						}
					}
					err = cl.Send(o.msg)
				case "W":
					err = cl.SendRaw(o.raw)
				case "T":
					time.Sleep(o.pause)
					if cl.TransportPhase() {
						ret = "true"
					} else {
						ret = "false"
					}
				}
			})
		}()
		// watchdog: a call that is still running long after every timer it could be waiting
		// for (client timeout, scripted delay) has expired does not return at all
		limit := 10*time.Second + 2*cf.timeout + 2*o.delay
		select {
		case <-finished:
		case <-time.After(limit):
			mu.Lock()
			res = append(res, copResult{ret: "hang", events: append([]string{}, cur...), dur: time.Since(t0)})
			mu.Unlock()
			for len(res) < len(ops) {
				res = append(res, copResult{ret: "not-run"})
			}
			return res
		}
		switch {
		case p != nil:
			ret = "panic"
		case ret != "":
		case err != nil:
			ret = "err"
		default:
			ret = "ok"
		}
		mu.Lock()
		res = append(res, copResult{ret: ret, events: append([]string{}, cur...), dur: time.Since(t0)})
		mu.Unlock()
	}
	return res
}

func renderResults(rs []copResult) string {
	s := make([]string, len(rs))
	for i, r := range rs {
		s[i] = r.String()
	}
	return strings.Join(s, ";")
}

func renderOps(cf ccfg, ops []cop) string {
	s := make([]string, len(ops))
	for i, o := range ops {
		s[i] = o.model(cf)
	}
	return strings.Join(s, ";")
}

// historyFor renders the observed history for the judge: K|ret|events;...
func historyFor(ops []cop, rs []copResult) string {
	s := make([]string, len(ops))
	for i := range ops {
		s[i] = ops[i].kind + "|" + rs[i].String()
	}
	return strings.Join(s, ";")
}

// stirPools is what the rest of the process may be doing while a call on this client sits in
// Connection.Write or waits for its ack: other goroutines use the library, so every pooled
// scratch object (chunk readers, pack buffers, compressors, send buffers) changes hands and is
// overwritten.  Called by the fake connection inside Write, i.e. between the moment the message
// is handed to the connection and the moment the ack is read.
func stirPools() {
	stirMu.Lock()
	defer stirMu.Unlock()
	if stirring {
		return
	}
	stirring = true
	defer func() { stirring = false }()
	stirN++
	other := &protocol.Message{Tag: "stir", Timestamp: int64(stirN), Record: map[string]interface{}{"k": "v"},
		Options: &protocol.MessageOptions{Chunk: fmt.Sprintf("stirred-chunk-%d-%s", stirN, strings.Repeat("s", stirN%37))}}
	b, _ := other.MarshalMsg(nil)
	for i := 0; i < 3; i++ {
		_, _ = protocol.GetChunk(b)
		_, _ = protocol.RawMessage(b).Chunk()
	}
	el := protocol.EntryList{{Timestamp: protocol.EventTime{Time: time.Unix(int64(stirN), 0)}, Record: map[string]interface{}{"stir": int64(stirN)}}}
	_, _ = el.MarshalPacked()
	_, _ = protocol.NewCompressedPackedForwardMessage("stir", el)
	if stirCl == nil {
		f := &fakes.Factory{}
		stirCl = client.New(client.ConnectionOptions{Factory: f})
		_ = stirCl.Connect()
	}
	_ = stirCl.Send(other)
}

var (
	stirMu   sync.Mutex
	stirring bool
	stirN    int
	stirCl   *client.Client
)

// netFault: a write error of the net.Error family (what a deadline or a full socket buffer produces).
type netFault struct{ timeout, temporary bool }

func (e netFault) Error() string {
	return fmt.Sprintf("fake: write fault (timeout=%v temporary=%v)", e.timeout, e.temporary)
}
func (e netFault) Timeout() bool   { return e.timeout }
func (e netFault) Temporary() bool { return e.temporary }
