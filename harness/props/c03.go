package props

import (
	"bytes"
	"compress/gzip"
	"fmt"
	"io"
	"math/rand"
	"strings"
	"sync"

	"github.com/IBM/fluent-forward-go/fluent/client"
	"github.com/IBM/fluent-forward-go/fluent/protocol"

	"verif/harness/core"
	"verif/harness/gen"
)

func init() { All["C03"] = C03; All["C07"] = C07 }

// gunzipOne decompresses exactly one gzip member and requires the input to end with it.
func gunzipOne(b []byte) ([]byte, error) {
	br := bytes.NewReader(b)
	zr, err := gzip.NewReader(br)
	if err != nil {
		return nil, err
	}
	zr.Multistream(false)
	out, err := io.ReadAll(zr)
	if err != nil {
		return nil, err
	}
	if br.Len() != 0 {
		return nil, fmt.Errorf("%d bytes after the gzip member", br.Len())
	}
	return out, nil
}

// pcall is one constructor / packer call with its arguments and what came back.
type pcall struct {
	kind    string // packed | packed_bytes | compressed | compressed_bytes | marshal_packed
	tag     string
	es      []gen.Entry
	el      protocol.EntryList
	elSnap  string
	payload []byte
	paySnap []byte
	bad     bool // the entry list holds an unencodable record: the call must fail
	// results
	msg       *protocol.PackedForwardMessage
	bits      []byte
	err       error
	snapStr   []byte // deep copy of the stream / bytes at return time
	snapOpt   string
	chunk     string // get_chunk: the string GetChunk returned (kept, not copied)
	chunkSnap string // ... and a copy of its content at return time
}

func genPcall(r *rand.Rand, big bool) *pcall {
	p := &pcall{kind: []string{"packed", "packed_bytes", "compressed", "compressed_bytes", "marshal_packed"}[r.Intn(5)], tag: fmt.Sprintf("tag%d", r.Intn(100))}
	n := []int{0, 1, 2, 3, 15, 16, 17, 40}[r.Intn(8)]
	if big && r.Intn(6) == 0 {
		n = 1000 + r.Intn(3000)
	}
	mid := r.Intn(8) == 0 // a stream of 20-70 KiB made of a handful of entries (the buffer grows by doubling on the way)
	if mid {
		n = 3 + r.Intn(5)
	}
	p.es = make([]gen.Entry, n)
	for i := range p.es {
		s, ns := gen.GenInstant(r)
		var rec *gen.V
		if mid {
			rec = gen.Map([][]byte{[]byte("log")}, []*gen.V{gen.Str(bytes.Repeat([]byte{byte('a' + i)}, 6000+r.Intn(6000)))})
		} else if n > 50 {
			rec = gen.Map([][]byte{[]byte("k")}, []*gen.V{gen.Int(int64(i))})
		} else {
			rec = gen.GenMap(r, 1, false)
			for rec.HasMultiKeyMap() {
				rec = gen.GenMap(r, 1, false)
			}
		}
		p.es[i] = gen.Entry{Sec: s, Nsec: ns, Rec: rec}
	}
	// an entry without a record (nil interface): legal, encodes as nil
	if n > 0 && n <= 40 && r.Intn(6) == 0 {
		p.es[r.Intn(n)].Rec = gen.Nil()
	}
	p.el = gen.EntriesToGo(r, p.es)
	// a call that fails half way: an entry the encoder cannot represent after encodable ones
	if n >= 2 && n <= 40 && r.Intn(7) == 0 && (p.kind == "packed" || p.kind == "compressed" || p.kind == "marshal_packed") {
		p.bad = true
		p.el[1+r.Intn(n-1)].Record = map[string]interface{}{"k": make(chan int)}
	}
	p.elSnap = gen.RenderEntries(gen.EntriesFromGo(p.el), false)
	// payload sizes around the sizes at which buffers grow / might be treated specially
	sz := []int{0, 1, 100, 5000, 20000, 40960, 50000, 65536, 70000, 300000, 700000, 1000000}[r.Intn(12)]
	if sz >= 300000 && r.Intn(3) != 0 { // the large ones less often (they are incompressible: the compressed stream is as long)
		sz = 5000
	}
	if big && r.Intn(8) == 0 {
		sz = 1<<20 + r.Intn(3<<20)
	}
	p.payload = make([]byte, sz)
	r.Read(p.payload)
	if sz > 100000 {
		copy(p.payload[sz/2:], bytes.Repeat([]byte{'a'}, sz/4)) // partly compressible
	}
	switch r.Intn(12) {
	case 0: // the payload is itself a complete gzip stream (a relay feeding a compressed stream back in)
		var zb bytes.Buffer
		zw := gzip.NewWriter(&zb)
		_, _ = zw.Write(p.payload[:len(p.payload)%4096])
		_ = zw.Close()
		p.payload = zb.Bytes()
	case 1: // ... or merely starts like one
		hdr := []byte{0x1f, 0x8b, 0x08, 0, 0, 0, 0, 0, 0, 0xff}
		p.payload = append(hdr, p.payload[:len(p.payload)%2000]...)
	}
	p.paySnap = append([]byte{}, p.payload...)
	return p
}

func optRender(o *protocol.MessageOptions) string { return gen.OptsFromGo(o).Render() }

func (p *pcall) run() {
	switch p.kind {
	case "packed":
		p.msg, p.err = protocol.NewPackedForwardMessage(p.tag, p.el)
	case "packed_bytes":
		p.msg = protocol.NewPackedForwardMessageFromBytes(p.tag, p.payload)
	case "compressed":
		p.msg, p.err = protocol.NewCompressedPackedForwardMessage(p.tag, p.el)
	case "compressed_bytes":
		p.msg, p.err = protocol.NewCompressedPackedForwardMessageFromBytes(p.tag, p.payload)
	case "marshal_packed":
		p.bits, p.err = p.el.MarshalPacked()
	case "get_chunk":
		p.chunk, p.err = protocol.GetChunk(p.payload)
		p.chunkSnap = strings.Clone(p.chunk)
		return
	}
	if p.msg != nil {
		p.snapStr = append([]byte{}, p.msg.EventStream...)
		p.snapOpt = optRender(p.msg.Options)
	} else {
		p.snapStr = append([]byte{}, p.bits...)
	}
}

// judgeAtReturn: C03 — the value (as snapshotted at return time) carries exactly the entries.
func (p *pcall) judgeAtReturn(c *core.Ctx, how string) {
	replay := map[string]interface{}{"kind": p.kind, "entries": len(p.es), "payload_len": len(p.payload), "how": how}
	if p.bad {
		if p.err == nil {
			c.Violation("judge-go", "c03-error", "constructor succeeded on an entry list holding an unencodable record ("+p.kind+")", replay)
		}
		return
	}
	if p.err != nil {
		c.Violation("judge-go", "c03-error", "constructor failed on encodable input ("+p.kind+")", replay)
		return
	}
	norm := make([]gen.Entry, len(p.es))
	for i, e := range p.es {
		norm[i] = gen.Entry{Sec: e.Sec, Nsec: e.Nsec, Rec: e.Rec.Norm()}
	}
	small := len(p.es) <= 60
	checkStream := func(stream []byte) {
		// concatenation, in order, of the encodings of exactly those entries
		if small {
			c.Corr("c03-stream", "marshal_packed", []string{gen.EntriesDesc(p.es)}, "ok("+hx(stream)+")")
			c.Judge("c03-stream", "judge_stream", []string{hx(stream), gen.RenderEntries(norm, true)}, "event stream = the entries, in order ("+p.kind+", "+how+")")
		}
		var back protocol.EntryList
		rest, err := back.UnmarshalPacked(stream)
		if err != nil || len(rest) != 0 || gen.RenderEntries(gen.EntriesFromGo(back), true) != gen.RenderEntries(norm, true) {
			c.Violation("judge-go", "c03-unpack", "UnmarshalPacked of the event stream does not return the entries ("+p.kind+", "+how+")", replay)
		}
	}
	switch p.kind {
	case "marshal_packed":
		checkStream(p.snapStr)
	case "packed":
		checkStream(p.snapStr)
		if p.snapOpt != fmt.Sprintf("{size=%d,chunk=,comp=}", len(p.es)) {
			c.Violation("judge-go", "c03-options", "PackedForward options are not {size = number of entries}: "+p.snapOpt, replay)
		}
	case "packed_bytes":
		if !bytes.Equal(p.snapStr, p.paySnap) || p.snapOpt != "none" {
			c.Violation("judge-go", "c03-frombytes", "NewPackedForwardMessageFromBytes changed the bytes or set options", replay)
		}
	case "compressed":
		raw, err := gunzipOne(p.snapStr)
		if err != nil {
			c.Violation("judge-go", "c03-gzip", "compressed event stream is not exactly one gzip stream: "+err.Error()+" ("+how+")", replay)
			return
		}
		checkStream(raw)
		if p.snapOpt != fmt.Sprintf("{size=%d,chunk=,comp=%s}", len(p.es), hx([]byte("gzip"))) {
			c.Violation("judge-go", "c03-options", "compressed options are not {size, compressed=gzip}: "+p.snapOpt, replay)
		}
	case "compressed_bytes":
		raw, err := gunzipOne(p.snapStr)
		if err != nil {
			c.Violation("judge-go", "c03-gzip", "compressed event stream is not exactly one gzip stream: "+err.Error()+" ("+how+")", replay)
			return
		}
		if !bytes.Equal(raw, p.paySnap) {
			c.Violation("judge-go", "c03-gzip-payload", fmt.Sprintf("gunzip of the event stream is not the caller's %d bytes (%s)", len(p.paySnap), how), replay)
		}
		if p.snapOpt != fmt.Sprintf("{size=-,chunk=,comp=%s}", hx([]byte("gzip"))) {
			c.Violation("judge-go", "c03-options", "compressed-from-bytes options are not {compressed=gzip}: "+p.snapOpt, replay)
		}
	}
}

// stillIntact: C07 — the returned value and the caller's arguments are what they were.
// ownerEdits: the caller overwrites, in place, a value the library returned to it (a message it owns: the bytes of
// its event stream; or it reuses the message as the target of a decode).  The snapshot follows the edit; what must
// not follow it is anything the library builds afterwards.
func (p *pcall) ownerEdits(r *rand.Rand) { p.ownerEditsHow(r.Intn(2) == 0) }

func (p *pcall) ownerEditsHow(decodeInto bool) {
	if p.err != nil || p.bad || p.kind == "get_chunk" || p.kind == "packed_bytes" {
		return
	}
	switch {
	case p.msg != nil && decodeInto:
		// the message becomes the receiver of an incoming one
		two := 2
		in := &protocol.PackedForwardMessage{Tag: "incoming", EventStream: []byte{0x92, 0x05, 0x80, 0x92, 0x06, 0x80}, Options: &protocol.MessageOptions{Size: &two}}
		b, _ := in.MarshalMsg(nil)
		if _, err := p.msg.UnmarshalMsg(b); err != nil {
			return
		}
		p.tag = p.msg.Tag
		p.snapStr = append([]byte{}, p.msg.EventStream...)
		p.snapOpt = optRender(p.msg.Options)
	case p.msg != nil && p.msg.Options != nil && len(p.msg.EventStream)%3 == 0:
		// the exported decoder of the options object, called on the options of a message the caller owns
		if _, err := p.msg.Options.UnmarshalMsg([]byte{0x82, 0xa4, 's', 'i', 'z', 'e', 0xcd, 0x03, 0xe8, 0xa5, 'c', 'h', 'u', 'n', 'k', 0xa5, 'o', 'w', 'n', 'e', 'd'}); err != nil {
			return
		}
		p.snapOpt = optRender(p.msg.Options)
	case p.msg != nil:
		for i := range p.msg.EventStream {
			p.msg.EventStream[i] ^= 0xff
		}
		p.snapStr = append([]byte{}, p.msg.EventStream...)
	default:
		for i := range p.bits {
			p.bits[i] ^= 0xff
		}
		p.snapStr = append([]byte{}, p.bits...)
	}
}

func (p *pcall) stillIntact() (string, bool) {
	if p.kind == "get_chunk" {
		if p.chunk != p.chunkSnap {
			return fmt.Sprintf("the string returned by GetChunk changed from %q to %q", p.chunkSnap, p.chunk), false
		}
		if !bytes.Equal(p.payload, p.paySnap) {
			return "the caller's byte slice was modified", false
		}
		return "", true
	}
	if p.bad {
		if gen.RenderEntries(gen.EntriesFromGo(p.el), false) != p.elSnap {
			return "the caller's entry list was modified", false
		}
		return "", true
	}
	var cur []byte
	if p.msg != nil {
		cur = p.msg.EventStream
		if optRender(p.msg.Options) != p.snapOpt {
			return "options of a returned message changed", false
		}
	} else {
		cur = p.bits
	}
	if p.kind != "packed_bytes" && !bytes.Equal(cur, p.snapStr) {
		return "bytes of a value returned earlier (" + p.kind + ") changed", false
	}
	if !bytes.Equal(p.payload, p.paySnap) {
		return "the caller's byte slice was modified", false
	}
	if gen.RenderEntries(gen.EntriesFromGo(p.el), false) != p.elSnap {
		return "the caller's entry list was modified", false
	}
	return "", true
}

// C03: packed and gzip-compressed event streams carry exactly the given entries, whatever
// was built before (recycled buffers / compressors), on this or other goroutines.
func C03(c *core.Ctx) {
	setFine(c) // fine-grained phase: the same run with LIFO pools (every Get returns the object put back last)
	r := c.Rng
	for h := 0; h < c.N(60, 1500); h++ {
		n := 1 + r.Intn(8)
		for i := 0; i < n; i++ {
			p := genPcall(r, c.Thorough() || h%10 == 0)
			p.run()
			c.Eval()
			c.Hist(fmt.Sprintf("sequential %s entries=%d payload-class=%d", p.kind, len(p.es), len(p.payload)/1000))
			c.Distinct(fmt.Sprint(h, i, p.kind, len(p.es), len(p.payload)))
			p.judgeAtReturn(c, fmt.Sprintf("call %d of a history of %d", i+1, n))
			if r.Intn(3) == 0 {
				p.ownerEdits(r) // the caller does what it likes with a value it was given: nothing built later depends on it
			}
			if h < 2 && i == 0 {
				c.Sample(map[string]interface{}{"kind": p.kind, "entries": len(p.es), "stream": trunc(hx(p.snapStr), 120), "options": p.snapOpt})
			}
		}
	}
	// the smallest inputs (nothing to pack, nothing to compress: the place for a precomputed or shared result), each
	// built, handed to an owner who overwrites it or reuses it as a decode target, and built again
	for _, kind := range []string{"packed", "compressed", "compressed_bytes", "marshal_packed"} {
		for _, size := range []int{0, 1} {
			for _, decodeInto := range []bool{false, true} {
				mk := func() *pcall {
					p := genPcall(r, false)
					p.kind, p.bad = kind, false
					p.es = p.es[:0]
					p.payload = make([]byte, size)
					if size > 0 { // one entry / one byte
						p.es = []gen.Entry{{Sec: 5, Nsec: 6, Rec: &gen.V{K: 'M', MK: [][]byte{[]byte("k")}, A: []*gen.V{gen.Str([]byte("v"))}}}}
					}
					p.el = gen.EntriesToGo(r, p.es)
					p.elSnap = gen.RenderEntries(gen.EntriesFromGo(p.el), false)
					p.paySnap = append([]byte{}, p.payload...)
					return p
				}
				for round := 0; round < 3; round++ {
					p := mk()
					p.run()
					c.Eval()
					c.Hist("smallest inputs, owner edits between builds")
					p.judgeAtReturn(c, fmt.Sprintf("%s of %d entries / %d payload bytes, build %d (earlier results were overwritten by their owner)", kind, len(p.es), size, round+1))
					p.ownerEditsHow(decodeInto)
				}
			}
		}
	}
	// concurrently: every goroutine judges its own results right at return time
	for _, workers := range []int{2, 4, 16} {
		var wg sync.WaitGroup
		var mu sync.Mutex
		var all []*pcall
		for w := 0; w < workers; w++ {
			rr := rand.New(rand.NewSource(r.Int63()))
			wg.Add(1)
			go func() {
				defer wg.Done()
				for i := 0; i < c.N(12, 150); i++ {
					p := genPcall(rr, false)
					p.run()
					mu.Lock()
					all = append(all, p)
					mu.Unlock()
				}
			}()
		}
		wg.Wait()
		for _, p := range all {
			c.Eval()
			c.Hist(fmt.Sprintf("concurrent(%d) %s", workers, p.kind))
			p.judgeAtReturn(c, fmt.Sprintf("built while %d goroutines were building messages", workers))
		}
	}
}

// C07: returned messages and byte slices are independent values.
func C07(c *core.Ctx) {
	setFine(c) // fine-grained phase: the same run with LIFO pools
	r := c.Rng
	// (a) histories: every value returned so far is re-compared after every later call
	for h := 0; h < c.N(80, 2000); h++ {
		n := 2 + r.Intn(7)
		var held []*pcall
		names := ""
		for i := 0; i < n; i++ {
			p := genPcall(r, c.Thorough() && h%20 == 0)
			p.run()
			names += p.kind + " "
			// other library calls interleaved: GetChunk, MarshalMsg, a Send
			if p.msg != nil && len(gen.OptsFromGo(p.msg.Options).Chunk) != 0 {
				c.Violation("judge-go", "c07-born-with-chunk", "a newly built message ("+p.kind+") already carries a chunk id: "+optRender(p.msg.Options), map[string]interface{}{"history": names})
			}
			switch []int{0, 1, 2, 3, 3, 3, 4, 5}[r.Intn(8)] {
			case 0:
				if p.msg != nil {
					b, _ := p.msg.MarshalMsg(nil)
					_, _ = protocol.GetChunk(b)
				}
			case 1:
				if p.msg != nil {
					cl, _ := liveClient(false)
					_ = cl.Send(p.msg)
				}
			case 2:
				// the chunk id of a marshalled message, kept by the caller like any other returned value
				m := &protocol.Message{Tag: "t", Timestamp: 1, Record: map[string]interface{}{}, Options: &protocol.MessageOptions{Chunk: fmt.Sprintf("chunk-%d-%d-%s", h, i, strings.Repeat("x", r.Intn(40)))}}
				b, _ := m.MarshalMsg(nil)
				g := &pcall{kind: "get_chunk", payload: b, paySnap: append([]byte{}, b...)}
				g.run()
				if g.err != nil || g.chunk != m.Options.Chunk {
					c.Violation("judge-go", "c07-getchunk", "GetChunk did not return the chunk id of a message it was given", map[string]interface{}{"bytes": hx(b)})
				}
				held = append(held, g)
			case 3:
				// Chunk() on a message returned earlier: that message (alone) gets an id
				var ms []*pcall
				for _, q := range held {
					if q.msg != nil && !q.bad {
						ms = append(ms, q)
					}
				}
				if len(ms) > 0 {
					q := ms[r.Intn(len(ms))]
					before := gen.OptsFromGo(q.msg.Options)
					id, err := q.msg.Chunk()
					after := gen.OptsFromGo(q.msg.Options)
					wantChunk := string(before.Chunk)
					if before.Absent || len(before.Chunk) == 0 {
						wantChunk = id
					}
					before.Absent, before.Chunk = false, []byte(wantChunk)
					if err != nil || id == "" || after.Render() != before.Render() {
						c.Violation("judge-go", "c07-chunk-call", "Chunk() on a held message did not just set its id: "+after.Render(), map[string]interface{}{"history": names})
					}
					q.snapOpt = optRender(q.msg.Options)
				}
			}
			held = append(held, p)
			c.Eval()
			// the model's value of the stream at return time (the frame theorem says it stays that)
			if p.err == nil && !p.bad && len(p.es) <= 40 && (p.kind == "packed" || p.kind == "marshal_packed") {
				c.Corr("c07-value", "marshal_packed", []string{gen.EntriesDesc(p.es)}, "ok("+hx(p.snapStr)+")")
			}
			for j, q := range held {
				if what, ok := q.stillIntact(); !ok {
					c.Violation("judge-go", "c07-changed:"+q.kind, fmt.Sprintf("%s: value %d (%s) after call %d (%s) of the history [%s]", what, j, q.kind, i, p.kind, names),
						map[string]interface{}{"history": names, "held": j, "after": i})
				}
			}
			c.Hist(fmt.Sprintf("history step %s", p.kind))
			if r.Intn(4) == 0 {
				held[r.Intn(len(held))].ownerEdits(r)
			}
		}
		c.Distinct(fmt.Sprint(h, names))
		if h < 2 {
			c.Sample(map[string]string{"history": names})
		}
	}
	// (b) the client's helpers: the bytes received by the connection are the value passed in,
	//     and sending one message does not alter another
	for i := 0; i < c.N(40, 800); i++ {
		a, b := genPcall(r, false), genPcall(r, false)
		for a.bad || b.bad {
			a, b = genPcall(r, false), genPcall(r, false)
		}
		a.kind, b.kind = "packed", "compressed"
		a.run()
		b.run()
		cl, f := liveClient(false)
		_ = cl.SendPacked("x", b.el)
		_ = cl.SendCompressedFromBytes("y", a.payload)
		_ = cl.Send(a.msg)
		c.Eval()
		for _, q := range []*pcall{a, b} {
			if what, ok := q.stillIntact(); !ok {
				c.Violation("judge-go", "c07-changed:"+q.kind, what+" after Send* helper calls", nil)
			}
		}
		wire := f.Conns[0].Accepted()
		want, _ := a.msg.MarshalMsg(nil)
		if !bytes.HasSuffix(wire, want) {
			c.Violation("judge-go", "c07-send-altered", "the bytes received by the connection are not the encoding of the message that was passed to Send", nil)
		}
		c.Hist("send helpers")
	}
	// (c) concurrently (free running, race detector on): goroutines build and keep messages
	for _, workers := range []int{2, 8, 16} {
		var wg sync.WaitGroup
		var mu sync.Mutex
		var all []*pcall
		for w := 0; w < workers; w++ {
			rr := rand.New(rand.NewSource(r.Int63()))
			wg.Add(1)
			go func() {
				defer wg.Done()
				for i := 0; i < c.N(60, 400); i++ {
					p := genPcall(rr, false)
					if i%2 == 0 {
						p.kind, p.bad = "compressed_bytes", false // the compressor pool is the most contended object
					}
					p.run()
					// what was returned must be right the moment it is returned, also under contention
					mu.Lock()
					p.judgeAtReturn(c, fmt.Sprintf("built while %d goroutines were building and keeping messages", workers))
					mu.Unlock()
					if what, ok := p.stillIntact(); !ok {
						c.Violation("judge-go", "c07-changed:"+p.kind, what+" (checked right after return, under contention)", nil)
					}
					if p.kind == "compressed_bytes" && p.err == nil {
						if raw, err := gunzipOne(p.msg.EventStream); err != nil || !bytes.Equal(raw, p.paySnap) {
							c.Violation("judge-go", "c07-foreign-bytes", "a compressed message built under contention does not gunzip to its own payload", nil)
						}
					}
					mu.Lock()
					all = append(all, p)
					mu.Unlock()
				}
			}()
		}
		wg.Wait()
		bad := 0
		for _, p := range all {
			c.Eval()
			if what, ok := p.stillIntact(); !ok {
				bad++
				if bad <= 3 {
					c.Violation("judge-go", "c07-changed:"+p.kind, fmt.Sprintf("%s while %d goroutines were building messages", what, workers), nil)
				}
			}
		}
		c.Hist(fmt.Sprintf("concurrent(%d) held values re-compared", workers))
	}
	// (d) several goroutines send their own messages through ONE client (free running, race detector on): what the
	//     connection receives for a send is that message's encoding -- one sender's message is not altered by another's
	for _, workers := range []int{2, 6} {
		cl, f := liveClient(false)
		_ = cl.SendMessage("bad", unencodableRecord(10, 0)) // an earlier failed send: whatever it left in a pool is shared by nobody
		_ = cl.SendMessage("bad", unencodableRecord(3000, 1))
		want := map[string]int{}
		var wg sync.WaitGroup
		var mu sync.Mutex
		for w := 0; w < workers; w++ {
			wg.Add(1)
			go func(w int) {
				defer wg.Done()
				for i := 0; i < c.N(40, 300); i++ {
					m := &protocol.Message{Tag: fmt.Sprintf("w%d.i%d", w, i), Timestamp: int64(i), Record: map[string]interface{}{"k": strings.Repeat(string(rune('a'+w)), 50+(i*131+w*977)%5000)}}
					enc, _ := m.MarshalMsg(nil)
					if err := cl.Send(m); err == nil {
						mu.Lock()
						want[string(enc)]++
						mu.Unlock()
					}
				}
			}(w)
		}
		wg.Wait()
		c.Eval()
		c.Hist(fmt.Sprintf("concurrent(%d) senders on one client", workers))
		wire := f.Conns[0].Accepted()
		got := map[string]int{}
		for _, wv := range f.Conns[0].Writes {
			got[string(wv.Data)]++
		}
		okAll := true
		for k, n := range want {
			okAll = okAll && got[k] == n
		}
		if !okAll || len(got) != len(want) {
			c.Violation("judge-go", "c07-send-altered", fmt.Sprintf("%d goroutines sending through one client: the writes received by the connection are not exactly the encodings of the messages sent (%d bytes on the wire)", workers, len(wire)), nil)
		}
	}
	// (e) the handshake helpers take byte slices from the caller (key, salt, nonce): carved from one backing array with
	//     spare capacity behind each -- what a caller that slices one buffer hands over -- the whole array comes back unchanged
	for i := 0; i < c.N(60, 2000); i++ {
		block := make([]byte, 96)
		r.Read(block)
		snap := append([]byte{}, block...)
		salt, nonce, key := block[0:16], block[16:32+r.Intn(8)], block[48:56]
		host := fmt.Sprintf("host-%d", r.Intn(1000))
		ping, err := protocol.NewPing(host, key, salt, nonce)
		if err == nil {
			_ = protocol.ValidatePingDigest(ping, key, nonce)
			if pong, e := protocol.NewPong(true, "", "server-"+host, key, &protocol.Helo{MessageType: "HELO", Options: &protocol.HeloOpts{Nonce: nonce}}, ping); e == nil {
				_ = protocol.ValidatePongDigest(pong, key, nonce, salt)
			}
		}
		_, _ = protocol.NewPingWithAuth(host, key, salt, nonce, "u", "p")
		c.Eval()
		if !bytes.Equal(block, snap) {
			c.Violation("judge-go", "c07-caller-bytes", "a handshake helper wrote into the caller's memory (salt / nonce / key carved from one array with spare capacity)", map[string]interface{}{"before": hx(snap), "after": hx(block)})
			break
		}
	}
	c.Hist("handshake helpers leave the caller's bytes alone")
	_ = client.DefaultConnectionTimeout
}
