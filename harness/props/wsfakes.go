package props

import "verif/harness/core"

func c09ws(c *core.Ctx) {}
