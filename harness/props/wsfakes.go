package props

import (
	"fmt"
	"strings"

	"verif/harness/core"
)

// c09ws: the websocket client reports a failed frame write, and a message that cannot be
// encoded reaches the connection with no byte at all.
func c09ws(c *core.Ctx) {
	wsWriteErrors(c, "c09-ws")
	C1 := xOp{kind: "C", dialOK: true}
	// a send overtaken by a Disconnect / Reconnect after it has looked at the session: if the frame write then fails
	// (the connection was closed under it) the send reports an error -- every interleaving, against the model
	for _, cf := range []xConf{
		{name: "websocket: Send || Disconnect", progs: [][]xOp{{C1, xSend(20, true)}, {{kind: "D"}}}},
		{name: "websocket: SendRaw || Reconnect", progs: [][]xOp{{C1, {kind: "W", raw: []byte{1, 2, 3}, wok: true}}, {{kind: "R", dialOK: true}}}},
	} {
		xExplore(c, cf, c.N(60, 3000), func(run xRun, replay map[string]interface{}) {})
	}
	for _, size := range []int{10, 2049, 6000} {
		for _, wok := range []bool{true, false} {
			cf := xConf{name: fmt.Sprintf("ws send size=%d write-ok=%v", size, wok), progs: [][]xOp{{C1, xSend(size, wok), xBad(), {kind: "W", raw: []byte{1, 2, 3}, wok: wok}, xSend(12, true)}}}
			run := runX(cf, nil, false)
			c.Eval()
			c.Hist("websocket client: " + cf.name)
			tr := strings.Join(run.events, ";")
			c.Corr("c09-ws", "wsc_check", []string{"0", cf.modelProgs(), cf.modelPlan(), "4", tr, renderRets(run.rets)}, "ok")
			want := []string{"0", map[bool]string{true: "0", false: "4"}[wok], "3", map[bool]string{true: "0", false: "4"}[wok], "0"}
			if len(run.rets[0]) != 5 {
				c.Violation("judge-go", "c09-ws", "websocket client calls did not all return", nil)
				continue
			}
			for i := range want {
				if run.rets[0][i] != want[i] {
					c.Violation("judge-go", "c09-ws-result", fmt.Sprintf("websocket client call %d returned %s, want %s (%s)", i, run.rets[0][i], want[i], cf.name),
						map[string]interface{}{"events": trunc(tr, 300)})
				}
			}
			// the unencodable message produced no Write: exactly 3 writes, with the right bytes
			if n := run.conns[0].NumWrites(); n != 3 {
				c.Violation("judge-go", "c09-ws-writes", fmt.Sprintf("%d writes reached the websocket connection for 3 encodable sends and one unencodable one", n), nil)
			}
		}
	}
}
