package props

import (
	"bytes"
	"encoding/hex"
	"fmt"
	"io"

	"github.com/IBM/fluent-forward-go/fluent/protocol"
	"github.com/tinylib/msgp/msgp"

	"verif/harness/gen"
)

type codecMsg interface {
	msgp.Marshaler
	msgp.Unmarshaler
	msgp.Encodable
	msgp.Decodable
}

func newReceiver(mode string) codecMsg {
	switch mode {
	case "message":
		return &protocol.Message{}
	case "message_ext":
		return &protocol.MessageExt{}
	case "forward":
		return &protocol.ForwardMessage{}
	case "packed":
		return &protocol.PackedForwardMessage{}
	}
	panic("mode " + mode)
}

// safely runs f and reports a panic as a value.
func safely(f func()) (panicked interface{}) {
	defer func() {
		if r := recover(); r != nil {
			panicked = r
		}
	}()
	f()
	return nil
}

// marshal: MarshalMsg(nil)
func marshal(m msgp.Marshaler) (out []byte, obs string) {
	var err error
	if p := safely(func() { out, err = m.MarshalMsg(nil) }); p != nil {
		return nil, "panic"
	}
	if err != nil {
		return out, "err"
	}
	return out, "ok(" + hex.EncodeToString(out) + ")"
}

// encode: msgp.Encode into a buffer (stream writer path)
func encode(m msgp.Encodable) (out []byte, obs string) {
	var buf bytes.Buffer
	var err error
	if p := safely(func() { err = msgp.Encode(&buf, m) }); p != nil {
		return nil, "panic"
	}
	if err != nil {
		return buf.Bytes(), "err"
	}
	return buf.Bytes(), "ok(" + hex.EncodeToString(buf.Bytes()) + ")"
}

// decodeObs decodes in into recv on the given path and returns (class, bytes left).
// class is "ok", "err" or "panic".
func decodeObs(path string, recv interface{}, in []byte) (class string, left int) {
	var err error
	if path == "slice" {
		var rest []byte
		if p := safely(func() { rest, err = recv.(msgp.Unmarshaler).UnmarshalMsg(in) }); p != nil {
			return "panic", 0
		}
		if err != nil {
			return "err", 0
		}
		return "ok", len(rest)
	}
	br := bytes.NewReader(in)
	rd := msgp.NewReader(onlyReader{br})
	if p := safely(func() { err = recv.(msgp.Decodable).DecodeMsg(rd) }); p != nil {
		return "panic", 0
	}
	if err != nil {
		return "err", 0
	}
	return "ok", rd.Buffered() + br.Len()
}

// decodeMsgObs renders the observation of decoding a message of the given mode.
func decodeMsgObs(mode, path string, recv codecMsg, in []byte) (obs string, dec *gen.Msg, left int) {
	class, left := decodeObs(path, recv, in)
	if class != "ok" {
		return class, nil, 0
	}
	dec = gen.MsgFromGo(recv)
	scribble(recv)
	return fmt.Sprintf("ok(%s;left=%d)", dec.Render(false), left), dec, left
}

// scribble uses a decoded message the way a caller may: it edits every field in place (after the
// observation has been taken).  A decoder that hands out storage it shares with later results
// (a package-level empty-options value, a pooled buffer, a cached record) is exposed by the
// decodes that follow; so is a decoder that leaves part of a reused receiver as it found it.
func scribble(recv interface{}) {
	opts := func(o *protocol.MessageOptions) {
		if o == nil {
			return
		}
		if o.Size != nil {
			*o.Size = 987654
		}
		o.Chunk, o.Compressed = "scribbled-chunk", "scribbled"
	}
	rec := func(r interface{}) {
		switch t := r.(type) {
		case map[string]interface{}:
			if t != nil {
				t["~scribbled"] = int64(1)
			}
		case []interface{}:
			for i := range t {
				t[i] = "scribbled"
			}
		case []byte:
			for i := range t {
				t[i] = 0xEE
			}
		}
	}
	switch t := recv.(type) {
	case *protocol.Message:
		rec(t.Record)
		opts(t.Options)
		t.Tag, t.Timestamp = t.Tag+"~", t.Timestamp+1
	case *protocol.MessageExt:
		rec(t.Record)
		opts(t.Options)
		t.Tag = t.Tag + "~"
	case *protocol.ForwardMessage:
		for i := range t.Entries {
			rec(t.Entries[i].Record)
			t.Entries[i].Record = "scribbled"
		}
		opts(t.Options)
		t.Tag = t.Tag + "~"
	case *protocol.PackedForwardMessage:
		for i := range t.EventStream {
			t.EventStream[i] = 0xEE
		}
		opts(t.Options)
		t.Tag = t.Tag + "~"
	}
}

// onlyReader hides bytes.Reader's Seek method: stream sources are modelled as
// non-seekable (like a net.Conn).  With a seekable source fwd.Reader.Skip seeks past the
// end of the data without an error.
type onlyReader struct{ io.Reader }

var paths = []string{"slice", "stream"}

func hx(b []byte) string { return hex.EncodeToString(b) }

func unhx(s string) []byte {
	b, err := hex.DecodeString(s)
	if err != nil {
		panic(err)
	}
	return b
}
