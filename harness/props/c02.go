package props

import (
	"bytes"
	"fmt"
	"strings"
	"time"

	"github.com/IBM/fluent-forward-go/fluent/client"
	"github.com/IBM/fluent-forward-go/fluent/protocol"

	"verif/harness/core"
	"verif/harness/fakes"
	"verif/harness/gen"
	"verif/harness/sched"
)

func init() { All["C02"] = C02 }

// liveClient: a connected client in transport phase on a recording connection.
func liveClient(ack bool) (*client.Client, *fakes.Factory) {
	f := &fakes.Factory{}
	cl := client.New(client.ConnectionOptions{Factory: f, RequireAck: ack})
	if err := cl.Connect(); err != nil {
		panic(err)
	}
	return cl, f
}

// C02: the bytes the library emits are the Forward Protocol v1 wire format as judged by
// the specification parser of Spec.v (extracted), which shares no code with the library.
func C02(c *core.Ctx) {
	r := c.Rng
	n := c.N(50, 1500)
	for i := 0; i < n; i++ {
		// (a) every mode, both encoder paths, records being maps
		for _, mode := range gen.Modes {
			m := gen.GenMsg(r, mode, true, c.Thorough() || i%10 == 0)
			g := m.ToGo(r).(codecMsg)
			want := m.Norm().Render(true)
			for k, enc := range []func() ([]byte, string){func() ([]byte, string) { return marshal(g) }, func() ([]byte, string) { return encode(g) }} {
				b, obs := enc()
				c.Eval()
				c.Hist(fmt.Sprintf("encode %s path=%d %s", mode, k, obs[:2]))
				if obs == "err" || obs == "panic" {
					c.Violation("judge-go", "c02-encode-failed", "a constructible "+mode+" failed to encode", map[string]interface{}{"args": m.ModelArgs()})
					continue
				}
				c.Distinct(mode + hx(b))
				c.Judge("c02-wire", "judge_wire", []string{wireMode[mode], hx(b), want}, "wire bytes of "+mode+" vs Forward Protocol v1 shape")
				if i < 1 && k == 0 {
					c.Sample(map[string]string{"mode": mode, "wire": trunc(hx(b), 200), "spec_value": trunc(want, 300)})
				}
			}
		}
		// (b) handshake messages and acks
		nonce, auth := gen.GenBytes(r, false), gen.GenBytes(r, false)
		helo := protocol.NewHelo(&protocol.HeloOpts{Nonce: nonce, Auth: auth, Keepalive: r.Intn(2) == 0})
		hb, _ := marshal(helo)
		c.Judge("c02-helo", "judge_shape", []string{"helo", hx(hb), fmt.Sprintf("helo(nonce=%s,auth=%s,keepalive=%s)", hx(nonce), hx(auth), boolStr(helo.Options.Keepalive))}, "HELO shape")
		host, key, salt := gen.GenBytes(r, false), gen.GenBytes(r, false), gen.GenBytes(r, false)
		ping, _ := protocol.NewPing(string(host), key, salt, nonce)
		pb, _ := marshal(ping)
		dig := sha512hex(salt, host, nonce, key)
		c.Judge("c02-ping", "judge_shape", []string{"ping", hx(pb), fmt.Sprintf("ping(host=%s,salt=%s,digest=%s,user=,pass=)", hx(host), hx(salt), hx([]byte(dig)))}, "PING shape")
		shost := gen.GenBytes(r, false)
		pong, err := protocol.NewPong(r.Intn(2) == 0, "why", string(shost), key, helo, ping)
		if err == nil {
			qb, _ := encode(pong)
			c.Judge("c02-pong", "judge_shape", []string{"pong", hx(qb), fmt.Sprintf("pong(auth=%s,reason=%s,host=%s,digest=%s)", boolStr(pong.AuthResult), hx([]byte("why")), hx(shost), hx([]byte(sha512hex(salt, shost, nonce, key))))}, "PONG shape")
		} else {
			c.Violation("judge-go", "c02-pong", "NewPong failed", nil)
		}
		ackv := gen.GenBytes(r, false)
		ab, _ := encode(protocol.AckMessage{Ack: string(ackv)})
		c.Judge("c02-ack", "judge_shape", []string{"ack", hx(ab), "ack(" + hx(ackv) + ")"}, "ack shape")
		c.Eval()

		// (c) Send* helpers: the mode the helper names, stamped with the time of the call
		c02Helpers(c, i)
	}
	// (d) raw bytes reach the wire verbatim
	sizes := []int{1, 2, 31, 2047, 2048, 2049, 4095, 4096, 4097, 5*2048 + 3, 65531, 65532, 65536, 70000, 200016}
	for k := 0; k < c.N(6, 200); k++ {
		sizes = append(sizes, 1+r.Intn(7000))
	}
	for _, sz := range sizes {
		raw := make([]byte, sz)
		r.Read(raw)
		for _, ack := range []bool{false} {
			cl, f := liveClient(ack)
			if err := cl.SendRaw(raw); err != nil {
				c.Violation("judge-go", "c02-raw", "SendRaw failed on a healthy connection", map[string]interface{}{"size": sz})
			}
			if got := f.Conns[0].Accepted(); !bytes.Equal(got, raw) {
				c.Violation("judge-go", "c02-raw", "SendRaw did not deliver the caller's bytes verbatim", map[string]interface{}{"size": sz, "raw": trunc(hx(raw), 200), "wire": trunc(hx(got), 200)})
			}
			cl2, f2 := liveClient(ack)
			if err := cl2.Send(protocol.RawMessage(raw)); err != nil {
				c.Violation("judge-go", "c02-raw", "Send(RawMessage) failed on a healthy connection", map[string]interface{}{"size": sz})
			}
			if got := f2.Conns[0].Accepted(); !bytes.Equal(got, raw) {
				c.Violation("judge-go", "c02-raw", "Send(RawMessage) did not deliver the bytes verbatim", map[string]interface{}{"size": sz, "raw": trunc(hx(raw), 200), "wire": trunc(hx(got), 200)})
			}
			// the same bytes held by pointer (a relay that fills a RawMessage in place passes &rm), and through the
			// websocket client: SendRaw, Send by value, Send by pointer
			rm := protocol.RawMessage(raw)
			cl3, f3 := liveClient(ack)
			if err := cl3.Send(&rm); err != nil || !bytes.Equal(f3.Conns[0].Accepted(), raw) {
				c.Violation("judge-go", "c02-raw", fmt.Sprintf("Send(&RawMessage) did not deliver the bytes verbatim (err %v)", err), map[string]interface{}{"size": sz, "raw": trunc(hx(raw), 200), "wire": trunc(hx(f3.Conns[0].Accepted()), 200)})
			}
			for how, send := range []func(w *client.WSClient) error{
				func(w *client.WSClient) error { return w.SendRaw(raw) },
				func(w *client.WSClient) error { return w.Send(protocol.RawMessage(raw)) },
				func(w *client.WSClient) error { return w.Send(&rm) },
			} {
				w, wf := liveWS()
				err := send(w)
				var got [][]byte
				if len(wf.sessions) > 0 {
					got = wf.sessions[0].Writes
				}
				if err != nil || len(got) != 1 || !bytes.Equal(got[0], raw) {
					c.Violation("judge-go", "c02-raw", fmt.Sprintf("websocket client, %s: the connection did not receive exactly one write with the caller's bytes (err %v, %d writes)", []string{"SendRaw", "Send(RawMessage)", "Send(&RawMessage)"}[how], err, len(got)),
						map[string]interface{}{"size": sz, "raw": trunc(hx(raw), 200)})
				}
				_ = w.Disconnect()
			}
			c.Eval()
			c.Hist(fmt.Sprintf("raw size class %d KiB", sz/2048))
			c.Distinct(fmt.Sprint("raw", sz))
		}
	}
}

// liveWS: a connected websocket client over the stand-in connection that records every Write.
func liveWS() (*client.WSClient, *wsFactory) {
	s := sched.New()
	s.Release()
	f := &wsFactory{s: s, dialOK: map[string]bool{}, log: func(string) {}, wok: func() bool { return true }}
	w := client.NewWS(client.WSConnectionOptions{Factory: f})
	if err := w.Connect(); err != nil {
		panic(err)
	}
	return w, f
}

// failedEncode makes the client fail one Send half way through encoding (recycled encoders /
// buffers must not leak into what the next helper writes).
func failedEncode(cl *client.Client) {
	_ = cl.SendMessage("bad", unencodableRecord(2100, 1))
	_ = cl.SendMessage("bad", unencodableRecord(10, 0))
}

func c02Helpers(c *core.Ctx, i int) {
	r := c.Rng
	tag := gen.GenBytes(r, false)
	rec := gen.GenMap(r, 2, false)
	recR := rec.Norm().Render(true)
	// SendMessage / SendMessageExt
	for _, ext := range []bool{false, true} {
		cl, f := liveClient(false)
		if i%2 == 1 {
			failedEncode(cl)
		}
		lo := time.Now()
		var err error
		if ext {
			err = cl.SendMessageExt(string(tag), rec.ToGo(r))
		} else {
			err = cl.SendMessage(string(tag), rec.ToGo(r))
		}
		hi := time.Now()
		wire := f.Conns[0].Accepted()
		c.Eval()
		c.Hist(fmt.Sprintf("helper SendMessage ext=%v err=%v", ext, err != nil))
		if err != nil {
			c.Violation("judge-go", "c02-helper", "SendMessage[Ext] failed on a healthy connection", map[string]interface{}{"ext": ext})
			continue
		}
		want := fmt.Sprintf("message(tag=%s,ts=0,rec=%s,opt=none)", hx(tag), recR)
		// the helper model (coq/model/Helpers.v) with the clock reading the message carries: byte for byte
		if !rec.HasMultiKeyMap() {
			if ext {
				var d protocol.MessageExt
				if _, derr := d.UnmarshalMsg(wire); derr == nil {
					c.Corr("c02-helper-model", "H_wire", []string{"message_ext", fmt.Sprint(d.Timestamp.Unix()), fmt.Sprint(d.Timestamp.Nanosecond()), hx(tag), rec.Desc(), "-"}, "ok("+hx(wire)+")")
				}
			} else {
				var d protocol.Message
				if _, derr := d.UnmarshalMsg(wire); derr == nil {
					c.Corr("c02-helper-model", "H_wire", []string{"message", fmt.Sprint(d.Timestamp), "0", hx(tag), rec.Desc(), "-"}, "ok("+hx(wire)+")")
				}
			}
		}
		if ext {
			c.Judge("c02-stamp", "judge_stamped", []string{"event", hx(wire), want, fmt.Sprint(lo.UnixNano()), fmt.Sprint(hi.UnixNano())}, "SendMessageExt: EventTime stamped within the call, MessageExt mode")
		} else {
			c.Judge("c02-stamp", "judge_stamped", []string{"int", hx(wire), want, fmt.Sprint(lo.Unix()), fmt.Sprint(hi.Unix())}, "SendMessage: whole Unix seconds of the call, Message mode")
		}
	}
	// constructors alone
	{
		lo := time.Now()
		m := protocol.NewMessage(string(tag), rec.ToGo(r))
		mx := protocol.NewMessageExt(string(tag), rec.ToGo(r))
		hi := time.Now()
		b1, _ := marshal(m)
		b2, _ := marshal(mx)
		want := fmt.Sprintf("message(tag=%s,ts=0,rec=%s,opt=none)", hx(tag), recR)
		c.Judge("c02-stamp", "judge_stamped", []string{"int", hx(b1), want, fmt.Sprint(lo.Unix()), fmt.Sprint(hi.Unix())}, "NewMessage stamp")
		c.Judge("c02-stamp", "judge_stamped", []string{"event", hx(b2), want, fmt.Sprint(lo.UnixNano()), fmt.Sprint(hi.UnixNano())}, "NewMessageExt stamp")
	}
	// SendForward / SendPacked / SendPackedFromBytes / SendCompressed / SendCompressedFromBytes
	es := gen.GenEntries(r, false)
	for len(es) > 20 {
		es = es[:20]
	}
	for j := range es {
		es[j].Rec = gen.GenMap(r, 1, false)
	}
	multiEs := false
	for _, e := range es {
		multiEs = multiEs || e.Rec.HasMultiKeyMap()
	}
	norm := make([]gen.Entry, len(es))
	for j, e := range es {
		norm[j] = gen.Entry{Sec: e.Sec, Nsec: e.Nsec, Rec: e.Rec.Norm()}
	}
	{
		cl, f := liveClient(false)
		if i%2 == 1 {
			failedEncode(cl)
		}
		err := cl.SendForward(string(tag), gen.EntriesToGo(r, es))
		wire := f.Conns[0].Accepted()
		c.Eval()
		if err != nil {
			c.Violation("judge-go", "c02-helper", "SendForward failed", nil)
		} else {
			c.Judge("c02-helper-mode", "judge_wire", []string{"forward", hx(wire), fmt.Sprintf("forward(tag=%s,entries=%s,opt={size=%d,chunk=,comp=})", hx(tag), gen.RenderEntries(norm, true), len(es))}, "SendForward: Forward mode with exactly the entries, size option = number of entries")
			if !multiEs {
				c.Corr("c02-helper-model", "H_wire", []string{"forward", "0", "0", hx(tag), gen.EntriesDesc(es), "-"}, "ok("+hx(wire)+")")
			}
		}
	}
	type packedCase struct {
		name string
		send func(cl *client.Client) error
		opt  func(streamLen int) string
	}
	raw := gen.GenBytes(r, false)
	cases := []packedCase{
		{"SendPacked", func(cl *client.Client) error { return cl.SendPacked(string(tag), gen.EntriesToGo(r, es)) },
			func(int) string { return fmt.Sprintf("{size=%d,chunk=,comp=}", len(es)) }},
		{"SendPackedFromBytes", func(cl *client.Client) error { return cl.SendPackedFromBytes(string(tag), raw) },
			func(int) string { return "none" }},
		{"SendCompressed", func(cl *client.Client) error { return cl.SendCompressed(string(tag), gen.EntriesToGo(r, es)) },
			func(int) string { return fmt.Sprintf("{size=%d,chunk=,comp=%s}", len(es), hx([]byte("gzip"))) }},
		{"SendCompressedFromBytes", func(cl *client.Client) error { return cl.SendCompressedFromBytes(string(tag), raw) },
			func(int) string { return fmt.Sprintf("{size=-,chunk=,comp=%s}", hx([]byte("gzip"))) }},
	}
	// with acknowledgements required the helper adds a chunk id to the options and nothing else changes: the mode
	// and the other option keys stay what the helper's name says (the peer of this client never answers: the call
	// fails after the write, the bytes it wrote are judged)
	for _, pc := range cases {
		cl, f := liveClient(true)
		cl.Timeout = 20 * time.Millisecond
		_ = pc.send(cl)
		wire := f.Conns[0].Accepted()
		c.Eval()
		c.Hist("helper with acks " + pc.name)
		var d protocol.PackedForwardMessage
		if _, err := d.UnmarshalMsg(wire); err != nil || d.Options == nil || d.Options.Chunk == "" {
			c.Violation("judge-go", "c02-helper-mode", pc.name+" with acks required: wire bytes are not a PackedForward message carrying a chunk id", map[string]string{"wire": trunc(hx(wire), 300)})
			continue
		}
		opt := strings.Replace(pc.opt(len(d.EventStream)), "chunk=", "chunk="+hx([]byte(d.Options.Chunk)), 1)
		if opt == "none" {
			opt = "{size=-,chunk=" + hx([]byte(d.Options.Chunk)) + ",comp=}"
		}
		c.Judge("c02-helper-mode", "judge_wire", []string{"packed", hx(wire), fmt.Sprintf("packed(tag=%s,stream=%s,opt=%s)", hx(tag), hx(d.EventStream), opt)}, pc.name+" with acks required: PackedForward mode, documented options plus the chunk id")
	}
	for _, pc := range cases {
		cl, f := liveClient(false)
		if i%2 == 1 {
			failedEncode(cl)
			// a packing call that fails part-way through its list, before the helper packs its own
			_, _ = protocol.NewPackedForwardMessage("bad", protocol.EntryList{{Timestamp: protocol.EventTimeNow(), Record: map[string]interface{}{"a": int64(1)}},
				{Timestamp: protocol.EventTimeNow(), Record: map[string]interface{}{"k": make(chan int)}}})
		}
		err := pc.send(cl)
		wire := f.Conns[0].Accepted()
		c.Eval()
		c.Hist("helper " + pc.name)
		if err != nil {
			c.Violation("judge-go", "c02-helper", pc.name+" failed on a healthy connection", nil)
			continue
		}
		// the event stream as the library itself decodes it; the specification parse of the
		// wire bytes must show the same stream, tag and options in PackedForward shape
		var d protocol.PackedForwardMessage
		if _, err := d.UnmarshalMsg(wire); err != nil {
			c.Violation("judge-go", "c02-helper-mode", pc.name+": wire bytes are not a PackedForward message", map[string]string{"wire": trunc(hx(wire), 300)})
			continue
		}
		c.Judge("c02-helper-mode", "judge_wire", []string{"packed", hx(wire), fmt.Sprintf("packed(tag=%s,stream=%s,opt=%s)", hx(tag), hx(d.EventStream), pc.opt(len(d.EventStream)))}, pc.name+": PackedForward mode, options as documented")
		switch pc.name {
		case "SendPacked":
			if !multiEs {
				c.Corr("c02-helper-model", "H_wire", []string{"packed", "0", "0", hx(tag), gen.EntriesDesc(es), "-"}, "ok("+hx(wire)+")")
			}
		case "SendPackedFromBytes":
			c.Corr("c02-helper-model", "H_wire", []string{"packed_bytes", "0", "0", hx(tag), hx(raw), "-"}, "ok("+hx(wire)+")")
		case "SendCompressed":
			if !multiEs { // gzip is a parameter of the model: it is given the stream the real gzip produced (C03 judges that stream)
				c.Corr("c02-helper-model", "H_wire", []string{"compressed", "0", "0", hx(tag), gen.EntriesDesc(es), hx(d.EventStream)}, "ok("+hx(wire)+")")
			}
		case "SendCompressedFromBytes":
			c.Corr("c02-helper-model", "H_wire", []string{"compressed_bytes", "0", "0", hx(tag), hx(raw), hx(d.EventStream)}, "ok("+hx(wire)+")")
		}
		switch pc.name {
		case "SendPacked":
			// the stream is the concatenation of the entries: judged by the specification parser
			c.Judge("c02-helper-stream", "judge_stream", []string{hx(d.EventStream), gen.RenderEntries(norm, true)}, "SendPacked: event stream = the entries, in order")
		case "SendPackedFromBytes":
			if !bytes.Equal(d.EventStream, raw) {
				c.Violation("judge-go", "c02-helper-stream", "SendPackedFromBytes changed the caller's bytes", nil)
			}
		}
	}
	_ = i
}
