package props

import (
	"errors"
	"fmt"
	"io"
	"net"
	"runtime"
	"strings"
	"sync"
	"sync/atomic"
	"time"

	"github.com/gorilla/websocket"

	"github.com/IBM/fluent-forward-go/fluent/client/ws"

	"verif/harness/core"
	"verif/harness/fakes"
)

func init() { All["C15"] = C15; All["C16"] = C16 }

func peer(items ...string) []fakes.PeerItem {
	var out []fakes.PeerItem
	for _, it := range items {
		switch it {
		case "d":
			out = append(out, fakes.PeerItem{Kind: "data", Data: []byte{1, 2, 3}})
		case "n":
			out = append(out, fakes.PeerItem{Kind: "neterr"})
		default:
			var code int
			fmt.Sscanf(it, "c%d", &code)
			out = append(out, fakes.PeerItem{Kind: "close", Code: code})
		}
	}
	return out
}

func wsConfs(thorough bool) []wsConf {
	K, L := wsOp{kind: "K"}, wsOp{kind: "L"}
	W := func(b byte) wsOp { return wsOp{kind: "W", data: []byte{b, b}, wok: true} }
	var confs []wsConf
	peers := map[string][]fakes.PeerItem{
		"echoes the close":            peer("c1000"),
		"silent":                      nil,
		"closes first, normal":        peer("c1000"),
		"closes first, going away":    peer("c1001"),
		"abnormal closure 1006":       peer("c1006"),
		"transport failure":           peer("n"),
		"data then close":             peer("d", "c1000"),
		"data, data, network failure": peer("d", "d", "n"),
	}
	for pn, ps := range peers {
		confs = append(confs,
			wsConf{name: "1 closer + Listen, peer " + pn, progs: [][]wsOp{{K}, {L}}, script: ps, cfok: true},
			wsConf{name: "2 closers + Listen, peer " + pn, progs: [][]wsOp{{K}, {K}, {L}}, script: ps, cfok: true},
		)
		if thorough {
			confs = append(confs, wsConf{name: "3 closers + Listen, peer " + pn, progs: [][]wsOp{{K}, {K}, {K}, {L}}, script: ps, cfok: true})
		}
	}
	confs = append(confs,
		wsConf{name: "2 closers, nobody listening", progs: [][]wsOp{{K}, {K}}, cfok: true},
		wsConf{name: "4 closers, nobody listening", progs: [][]wsOp{{K}, {K}, {K}, {K}}, cfok: true},
		wsConf{name: "closer + Listen, close frame cannot be written", progs: [][]wsOp{{K}, {L}}, cfok: false},
		wsConf{name: "Listen twice + closer, silent peer", progs: [][]wsOp{{L, L}, {K}}, cfok: true},
		wsConf{name: "Listen twice + closer, peer closes", progs: [][]wsOp{{L, L}, {K}}, script: peer("c1000"), cfok: true},
		wsConf{name: "two listeners + closer", progs: [][]wsOp{{L}, {L}, {K}}, cfok: true},
		wsConf{name: "Listen;Close;Listen in one goroutine, peer fails", progs: [][]wsOp{{L, K, L}}, script: peer("n"), cfok: true},
		wsConf{name: "closer + writer + Listen, silent peer", progs: [][]wsOp{{K}, {W(7)}, {L}}, cfok: true},
	)
	return confs
}

// C15: websocket close protocol — single closer, single close frame, bounded time.
func C15(c *core.Ctx) {
	fine := setFine(c)
	slack := 250 * time.Millisecond
	base := runtime.NumGoroutine()
	total, allEx := 0, true
	secs := map[string]string{}
	for _, cf := range wsConfs(c.Thorough()) {
		cf := cf
		t0 := time.Now()
		judge := func(run wsRun, replay map[string]interface{}) {
			// exactly one close call proceeds, the rest report a multiple-close error
			closers, winners := 0, 0
			for w, p := range cf.progs {
				for i, o := range p {
					if o.kind != "K" || i >= len(run.rets[w]) {
						continue
					}
					closers++
					if run.rets[w][i] != "1" {
						winners++
					}
					if run.durs[w][i] > wsCloseDeadline+slack {
						c.Violation("judge-go", "c15-slow-close", fmt.Sprintf("Close took %v with a close deadline of %v (%s)", run.durs[w][i], wsCloseDeadline, cf.name), replay)
					}
				}
			}
			if winners > 1 {
				c.Violation("judge-go", "c15-two-closers", fmt.Sprintf("%d close calls proceeded (%s)", winners, cf.name), replay)
			}
			if run.frames8 > 1 {
				c.Violation("judge-go", "c15-close-frames", fmt.Sprintf("%d close frames were written (%s)", run.frames8, cf.name), replay)
			}
			if run.closes > 1 {
				c.Violation("judge-go", "c15-underlying-close", fmt.Sprintf("the underlying connection was closed %d times (%s)", run.closes, cf.name), replay)
			}
			if closers > 0 && !run.stuck && run.closes != 1 {
				c.Violation("judge-go", "c15-underlying-close", fmt.Sprintf("after %d close calls the underlying connection was closed %d times (%s)", closers, run.closes, cf.name), replay)
			}
			if (closers > 0 || run.closes > 0) && !run.closedEnd {
				c.Violation("judge-go", "c15-closed-reverted", "Closed() is false after the connection was closed ("+cf.name+")", replay)
			}
			// Listen: nil after a normal closing handshake or a local close, the error after any other closure
			for w, p := range cf.progs {
				for i, o := range p {
					if o.kind != "L" || i >= len(run.rets[w]) {
						continue
					}
					r := run.rets[w][i]
					abnormal := false
					for _, it := range cf.script {
						if it.Kind == "neterr" || (it.Kind == "close" && it.Code != 1000) {
							abnormal = true
						}
					}
					if r == "5" && !abnormal {
						c.Violation("judge-go", "c15-listen-result", "Listen returned an error although the peer only closed normally or stayed silent ("+cf.name+")", replay)
					}
				}
			}
		}
		budget := c.N(70, 6000)
		if fine {
			budget = c.N(8, 1500)
		}
		n, ex := wsExplore(c, "c15", cf, budget, judge)
		// free running: wall-clock durations are the library's own
		for k := 0; k < c.N(2, 30) && !fine; k++ {
			run := runWs(cf, nil, true)
			c.Eval()
			c.Hist("free-running " + cf.name)
			replay := map[string]interface{}{"configuration": cf.name, "programs": cf.modelProgs(), "peer": cf.modelScript(), "close_frame_write_ok": cf.cfok, "schedule": "free running", "results": renderWsRets(run.rets)}
			for name, p := range run.panics {
				c.Violation("panic", "c15-panic", fmt.Sprintf("goroutine %s panicked: %v (%s, free running)", name, p, cf.name), replay)
			}
			if run.stuck {
				c.Violation("deadlock", "c15-stuck", "a call did not return within 5 s ("+cf.name+", free running)", replay)
				continue
			}
			judge(run, replay)
		}
		total += n
		allEx = allEx && ex
		c.Sample(map[string]interface{}{"configuration": cf.name, "schedules": n, "exhaustive": ex})
		secs[cf.name] = fmt.Sprintf("%.1fs/%d", time.Since(t0).Seconds(), n)
	}
	c.Extra("seconds_per_configuration", secs)
	if fine {
		c.Extra("schedules", total)
		return
	}
	// truly parallel closers (the gate's test-and-clear has no yield point inside: only real
	// parallelism can split it): many rounds of 4 goroutines released at once
	tPhase := time.Now()
	c15ParallelClosers(c, c.N(20000, 400000))
	c.Extra("seconds_parallel_closers", time.Since(tPhase).Seconds())
	// the close frame cannot be written while the read side is healthy and silent: the
	// connection must be closed all the same and Listen must return
	c15CloseFrameFails(c)
	// the same judges on a real gorilla loopback pair (control-frame handlers, real closing handshake)
	wsRealPeer(c, "c15")
	// a custom ReadHandler that rejects a healthy message while the peer keeps talking: Listen goes on
	// (or returns) but the reader must still end, the connection must still close promptly
	c15HandlerRejects(c)
	c15HandlerCloses(c)
	c15CloseReasons(c)
	// no reader goroutine is left behind
	time.Sleep(50 * time.Millisecond)
	if left := runtime.NumGoroutine() - base; left > 2 {
		c.Violation("judge-go", "c15-goroutine-leak", fmt.Sprintf("%d goroutines are still alive after all connections were closed", left), nil)
	}
	c.Extra("exhaustive", allEx)
	c.Extra("schedules", total)
	c.Extra("close_deadline_ms", wsCloseDeadline.Milliseconds())
}

// C16: websocket I/O exclusivity — one writer and one reader at a time.
func C16(c *core.Ctx) {
	fine := setFine(c)
	K, L := wsOp{kind: "K"}, wsOp{kind: "L"}
	W := func(b byte, n int) wsOp {
		d := make([]byte, n)
		for i := range d {
			d[i] = b
		}
		return wsOp{kind: "W", data: d, wok: true}
	}
	confs := []wsConf{
		{name: "2 writers", progs: [][]wsOp{{W(1, 3), W(2, 3)}, {W(3, 5)}}, cfok: true},
		{name: "3 writers", progs: [][]wsOp{{W(1, 3)}, {W(2, 4)}, {W(3, 5)}}, cfok: true},
		{name: "2 writers + closer", progs: [][]wsOp{{W(1, 3)}, {W(2, 3)}, {K}}, cfok: true},
		{name: "writer + closer + Listen, peer sends data then closes", progs: [][]wsOp{{W(1, 3)}, {K}, {L}}, script: peer("d", "c1000"), cfok: true},
		{name: "2 listeners + writer + closer", progs: [][]wsOp{{L}, {L}, {W(9, 2)}, {K}}, cfok: true},
		{name: "Listen twice + writer, peer fails", progs: [][]wsOp{{L, L}, {W(4, 2)}, {K}}, script: peer("n"), cfok: true},
		{name: "a write that fails", progs: [][]wsOp{{{kind: "W", data: []byte{5, 5}, wok: false}, W(6, 2)}, {W(7, 2)}}, cfok: true},
	}
	total, allEx := 0, true
	for _, cf := range confs {
		cf := cf
		budget := c.N(90, 8000)
		if fine {
			budget = c.N(12, 2500)
		}
		n, ex := wsExplore(c, "c16", cf, budget, func(run wsRun, replay map[string]interface{}) {
			if run.twoInside != "" {
				c.Violation("judge-go", "c16-overlap", run.twoInside+" ("+cf.name+")", replay)
			}
			if run.maxWrite > 1 || run.maxRead > 1 {
				c.Violation("judge-go", "c16-overlap", fmt.Sprintf("%d goroutines inside WriteMessage / %d inside ReadMessage at the same time (%s)", run.maxWrite, run.maxRead, cf.name), replay)
			}
			// each Write delivers its argument as exactly one binary frame and reports the full length
			for w, p := range cf.progs {
				for i, o := range p {
					if o.kind != "W" || i >= len(run.rets[w]) {
						continue
					}
					frames := 0
					for _, ev := range run.events {
						if ev == fmt.Sprintf("%d:f:2:%x", w, o.data) {
							frames++
						}
					}
					if frames != 1 {
						c.Violation("judge-go", "c16-frames", fmt.Sprintf("a Write produced %d frames with its payload (%s)", frames, cf.name), replay)
					}
					if run.rets[w][i] == "9" {
						c.Violation("judge-go", "c16-length", "Write reported success with a length other than len(data) ("+cf.name+")", replay)
					}
				}
			}
		})
		total += n
		allEx = allEx && ex
		c.Sample(map[string]interface{}{"configuration": cf.name, "schedules": n, "exhaustive": ex})
	}
	if fine {
		c.Extra("schedules", total)
		return
	}
	// a custom ReadHandler that returns an error for a HEALTHY message: Listen returns the error;
	// a second Listen must still not put a second reader on the connection
	c16HandlerError(c)
	// every failure of the underlying write is reported by Write (whatever the error value)
	wsWriteErrors(c, "c16")
	// the same judges on a real gorilla loopback pair: frames of concurrent writers, a ping that arrives
	// while a data frame is inside the underlying write, closing handshakes
	wsRealPeer(c, "c16")
	// free running under the race detector: the canary fields of the fake connection are plain
	// variables touched by every underlying write / read
	for it := 0; it < c.N(200, 5000); it++ {
		cf := confs[it%len(confs)]
		run := runWs(cf, nil, true)
		c.Eval()
		c.Hist("free-running (race detector on the canary fields)")
		if run.stuck {
			c.Violation("deadlock", "c16-stuck", "free-running mix did not finish ("+cf.name+")", nil)
		}
		for name, p := range run.panics {
			c.Violation("panic", "c16-panic", fmt.Sprintf("goroutine %s panicked: %v", name, p), nil)
		}
		if run.maxWrite > 1 || run.maxRead > 1 {
			c.Violation("judge-go", "c16-overlap", fmt.Sprintf("%d goroutines inside WriteMessage / %d inside ReadMessage at the same time (%s, free running)", run.maxWrite, run.maxRead, cf.name), nil)
		}
	}
	c.Extra("exhaustive", allEx)
	c.Extra("schedules", total)
}

func c15ParallelClosers(c *core.Ctx, rounds int) {
	bad := 0
	for i := 0; i < rounds && bad < 3; i++ {
		ec := fakes.NewExtConn()
		conn, err := ws.NewConnection(ec, ws.ConnectionOptions{CloseDeadline: wsCloseDeadline})
		if err != nil {
			panic(err)
		}
		const n = 4
		var wg sync.WaitGroup
		start := make(chan struct{})
		var winners int32
		for k := 0; k < n; k++ {
			wg.Add(1)
			go func() {
				defer wg.Done()
				<-start
				if err := conn.Close(); err == nil || !strings.Contains(err.Error(), "multiple close calls") {
					atomic.AddInt32(&winners, 1)
				}
			}()
		}
		close(start)
		wg.Wait()
		if winners != 1 || ec.NumCloses() != 1 || ec.CloseFrames() > 1 {
			bad++
			c.Violation("judge-go", "c15-two-closers", fmt.Sprintf("4 parallel Close calls: %d proceeded, %d close frames, underlying connection closed %d times (round %d, free running)", winners, ec.CloseFrames(), ec.NumCloses(), i),
				map[string]interface{}{"round": i})
		}
	}
	c.Eval()
	c.Hist(fmt.Sprintf("free-running: %d rounds of 4 parallel closers", rounds))
}

// c15HandlerRejects: the application's ReadHandler returns an error of its own for a healthy message (legal
// under the documented contract); the peer then sends more messages and finally closes (or fails).
func c15HandlerRejects(c *core.Ctx) {
	scripts := [][]string{{"d", "d", "c1000"}, {"d", "c1000"}, {"d", "d", "d", "n"}, {"d", "d", "c1001"}, {"d", "d"}}
	for si, sc := range scripts {
		for rejectAt := int32(1); rejectAt <= 2 && int(rejectAt) <= len(sc)-1; rejectAt++ {
			ec := fakes.NewExtConn()
			ec.Script = peer(sc...)
			ec.CloseFrameOK = true
			var seen int32
			conn, err := ws.NewConnection(ec, ws.ConnectionOptions{CloseDeadline: wsCloseDeadline,
				ReadHandler: func(cn ws.Connection, _ int, _ []byte, err error) error {
					if err != nil {
						_ = cn.Close()
						return err
					}
					if atomic.AddInt32(&seen, 1) == rejectAt {
						return errors.New("handler rejects this message")
					}
					return nil
				}})
			if err != nil {
				panic(err)
			}
			res := make(chan error, 1)
			go func() { res <- conn.Listen() }()
			replay := map[string]interface{}{"peer": strings.Join(sc, ","), "handler_rejects_message": rejectAt}
			silentTail := sc[len(sc)-1] == "d" // the peer goes silent after its data: Listen keeps waiting, which is right
			var lerr error
			returned := false
			select {
			case lerr = <-res:
				returned = true
			case <-time.After(300 * time.Millisecond):
			}
			if !returned && !silentTail {
				c.Violation("judge-go", "c15-listen-hangs", "Listen did not return although the peer closed / failed after the handler rejected a message", replay)
			}
			if returned && lerr == nil {
				c.Violation("judge-go", "c15-listen-result", "Listen returned nil although the handler returned an error for a message", replay)
			}
			t0 := time.Now()
			cerr := conn.Close()
			dur := time.Since(t0)
			if !returned {
				select {
				case <-res:
				case <-time.After(2 * time.Second):
					c.Violation("judge-go", "c15-listen-hangs", "Listen did not return within 2 s after Close (the handler had rejected a message)", replay)
				}
			}
			c.Eval()
			c.Hist(fmt.Sprintf("handler rejects healthy message %d, peer script %d", rejectAt, si))
			if cerr != nil && strings.Contains(cerr.Error(), "close deadline expired") && !silentTail {
				c.Violation("judge-go", "c15-slow-close", fmt.Sprintf("Close waited for the whole close deadline (%v) although the peer had already closed / failed", dur), replay)
			}
			if dur > wsCloseDeadline+250*time.Millisecond {
				c.Violation("judge-go", "c15-slow-close", fmt.Sprintf("Close took %v", dur), replay)
			}
			if ec.NumCloses() != 1 {
				c.Violation("judge-go", "c15-underlying-close", fmt.Sprintf("the underlying connection was closed %d times", ec.NumCloses()), replay)
			}
			// the reader has ended: the listening flag is cleared and another Listen is not refused as "already listening"
			cleared := false
			for i := 0; i < 200; i++ {
				if conn.ConnState()&ws.ConnStateListening == 0 {
					cleared = true
					break
				}
				time.Sleep(time.Millisecond)
			}
			if !cleared {
				c.Violation("judge-go", "c15-reader-leak", "the connection is closed and Listen has returned, but it still counts as listening (the read loop never ended)", replay)
			} else {
				again := make(chan error, 1)
				go func() { again <- conn.Listen() }()
				select {
				case e := <-again:
					if e != nil && strings.Contains(e.Error(), "already listening") {
						c.Violation("judge-go", "c15-reader-leak", "Listen after closure is refused as already listening", replay)
					}
				case <-time.After(2 * time.Second):
					c.Violation("judge-go", "c15-listen-hangs", "a Listen after closure did not return within 2 s", replay)
				}
			}
		}
	}
}

// c15HandlerCloses: the application's ReadHandler calls Close() while handling a HEALTHY message (a "quit" command
// in the payload); meanwhile the peer's own close frame (or a failure) has already been read by the read loop,
// which is waiting to hand it over.  Close must return within the close deadline, Listen must return.
func c15HandlerCloses(c *core.Ctx) {
	for si, sc := range [][]string{{"d", "c1000"}, {"d", "c1001"}, {"d", "n"}, {"d", "d", "c1000"}, {"d"}} {
		ec := fakes.NewExtConn()
		ec.Script = peer(sc...)
		ec.CloseFrameOK = true
		closeRes := make(chan error, 1)
		var closeDur time.Duration
		var once sync.Once
		conn, err := ws.NewConnection(ec, ws.ConnectionOptions{CloseDeadline: wsCloseDeadline,
			ReadHandler: func(cn ws.Connection, _ int, _ []byte, err error) error {
				if err != nil {
					_ = cn.Close()
					return err
				}
				once.Do(func() {
					time.Sleep(30 * time.Millisecond) // the read loop has read what the peer sent next and waits to hand it over
					t0 := time.Now()
					e := cn.Close()
					closeDur = time.Since(t0)
					closeRes <- e
				})
				return nil
			}})
		if err != nil {
			panic(err)
		}
		res := make(chan error, 1)
		go func() { res <- conn.Listen() }()
		replay := map[string]interface{}{"peer": strings.Join(sc, ","), "handler": "calls Close() while handling the first data message"}
		select {
		case <-res:
		case <-time.After(wsCloseDeadline + 2*time.Second):
			c.Violation("judge-go", "c15-listen-hangs", "Listen did not return although its handler closed the connection", replay)
			_ = ec.Close()
		}
		select {
		case <-closeRes:
			if closeDur > wsCloseDeadline+250*time.Millisecond {
				c.Violation("judge-go", "c15-slow-close", fmt.Sprintf("Close (called from the ReadHandler) took %v with a close deadline of %v", closeDur, wsCloseDeadline), replay)
			}
		case <-time.After(time.Second):
			c.Violation("judge-go", "c15-slow-close", "Close called from the ReadHandler did not return", replay)
		}
		if n := ec.NumCloses(); n != 1 {
			c.Violation("judge-go", "c15-underlying-close", fmt.Sprintf("the underlying connection was closed %d times", n), replay)
		}
		c.Eval()
		c.Hist(fmt.Sprintf("handler closes on a data message, peer script %d", si))
	}
}

func c15CloseFrameFails(c *core.Ctx) {
	for _, listening := range []bool{true, false} {
		ec := fakes.NewExtConn()
		ec.CloseFrameOK = false
		conn, err := ws.NewConnection(ec, ws.ConnectionOptions{CloseDeadline: wsCloseDeadline})
		if err != nil {
			panic(err)
		}
		done := make(chan error, 1)
		if listening {
			go func() { done <- conn.Listen() }()
			for i := 0; i < 200 && conn.ConnState()&ws.ConnStateListening == 0; i++ {
				time.Sleep(time.Millisecond)
			}
		}
		t0 := time.Now()
		cerr := conn.Close()
		dur := time.Since(t0)
		c.Eval()
		c.Hist(fmt.Sprintf("close frame write fails, listening=%v", listening))
		replay := map[string]interface{}{"listening": listening, "close_error": fmt.Sprint(cerr)}
		if ec.NumCloses() != 1 {
			c.Violation("judge-go", "c15-underlying-close", fmt.Sprintf("the close frame could not be written: the underlying connection was closed %d times", ec.NumCloses()), replay)
		}
		if !conn.Closed() || conn.ConnState()&ws.ConnStateClosed == 0 {
			c.Violation("judge-go", "c15-closed-reverted", "the close frame could not be written: the connection is not marked closed afterwards", replay)
		}
		if dur > wsCloseDeadline+250*time.Millisecond {
			c.Violation("judge-go", "c15-slow-close", fmt.Sprintf("Close took %v", dur), replay)
		}
		if listening {
			select {
			case <-done:
			case <-time.After(2 * time.Second):
				c.Violation("judge-go", "c15-listen-hangs", "Listen did not return within 2 s after Close (close frame write failed)", replay)
				_ = ec.Close()
			}
		}
	}
}

func c16HandlerError(c *core.Ctx) {
	for round := 0; round < 12; round++ {
		panics := round >= 6 // the handler panics on the message instead of returning an error; the application recovers
		ec := fakes.NewExtConn()
		ec.Script = peer([]string{"d", "d", "d"}[:1+round%3]...)
		failAt := int32(1 + round%3) // the handler rejects the last healthy message
		var seen int32
		conn, err := ws.NewConnection(ec, ws.ConnectionOptions{CloseDeadline: wsCloseDeadline,
			ReadHandler: func(cn ws.Connection, _ int, _ []byte, err error) error {
				if err != nil {
					_ = cn.Close()
					return err
				}
				if atomic.AddInt32(&seen, 1) == failAt {
					if panics {
						panic("handler cannot cope with this message")
					}
					return errors.New("handler does not like this message")
				}
				return nil
			}})
		if err != nil {
			panic(err)
		}
		first := make(chan error, 1)
		rest := make(chan error, 4)
		go func() {
			defer func() {
				if r := recover(); r != nil {
					first <- fmt.Errorf("recovered: %v", r)
				}
			}()
			first <- conn.Listen()
		}()
		select { // on the pinned code Listen keeps listening; a change may make it return here
		case <-first:
		case <-time.After(30 * time.Millisecond):
		}
		// whatever the first Listen did, further Listen calls must not add a second reader
		for k := 0; k < 2; k++ {
			go func() { rest <- conn.Listen() }()
			time.Sleep(5 * time.Millisecond)
		}
		ec.Lock()
		max := ec.MaxInside["read"]
		ec.Unlock()
		_ = conn.Close()
		c.Eval()
		c.Hist("custom handler erroring on a healthy message, repeated Listen")
		if max > 1 {
			c.Violation("judge-go", "c16-overlap", fmt.Sprintf("%d goroutines were inside the underlying ReadMessage at the same time (the handler returned an error for healthy message %d, then Listen was called again)", max, failAt), map[string]interface{}{"peer_messages": 1 + round%3})
			return
		}
	}
}

func wsWriteErrors(c *core.Ctx, sig string) {
	errs := []error{websocket.ErrCloseSent, net.ErrClosed, io.ErrShortWrite, io.EOF, errors.New("some write failure"), &net.OpError{Op: "write", Err: errors.New("broken pipe")}}
	for _, we := range errs {
		ec := fakes.NewExtConn()
		ec.WriteErr = we
		conn, err := ws.NewConnection(ec, ws.ConnectionOptions{CloseDeadline: wsCloseDeadline})
		if err != nil {
			panic(err)
		}
		n, werr := conn.Write([]byte{1, 2, 3})
		c.Eval()
		c.Hist("underlying write fails with " + we.Error())
		if werr == nil || n != 0 {
			c.Violation("judge-go", sig+"-write-error-swallowed", fmt.Sprintf("the underlying WriteMessage failed with %q but Write returned (%d, %v)", we.Error(), n, werr), map[string]interface{}{"error": we.Error()})
		}
		_ = conn.Close()
	}
}

// c15CloseReasons: CloseWithMsg with close codes and reason texts of any length (a control frame carries at most
// 125 bytes: whatever the connection does about a reason that does not fit, the call is the one close call, the
// underlying connection is closed once, Closed() is true, a running Listen returns, later calls are multiple-close).
func c15CloseReasons(c *core.Ctx) {
	for _, code := range []int{websocket.CloseNormalClosure, websocket.CloseGoingAway, websocket.CloseNoStatusReceived} {
		for _, n := range []int{0, 1, 122, 123, 124, 125, 126, 4096, 70000} {
			for _, listening := range []bool{true, false} {
				ec := fakes.NewExtConn()
				ec.FrameLimit = true
				conn, err := ws.NewConnection(ec, ws.ConnectionOptions{CloseDeadline: wsCloseDeadline})
				if err != nil {
					panic(err)
				}
				lres := make(chan error, 1)
				if listening {
					go func() { lres <- conn.Listen() }()
					time.Sleep(2 * time.Millisecond)
				}
				replay := map[string]interface{}{"code": code, "reason_bytes": n, "listening": listening}
				t0 := time.Now()
				done := make(chan error, 1)
				go func() { done <- conn.CloseWithMsg(code, strings.Repeat("r", n)) }()
				select {
				case <-done:
				case <-time.After(wsCloseDeadline + 2*time.Second):
					c.Violation("judge-go", "c15-slow-close", "CloseWithMsg did not return within the close deadline plus 2 s", replay)
				}
				dur := time.Since(t0)
				c.Eval()
				c.Hist(fmt.Sprintf("CloseWithMsg reason of %d bytes", n))
				if dur > wsCloseDeadline+250*time.Millisecond {
					c.Violation("judge-go", "c15-slow-close", fmt.Sprintf("CloseWithMsg took %v", dur), replay)
				}
				if !conn.Closed() {
					c.Violation("judge-go", "c15-closed-reverts", "Closed() is false after CloseWithMsg returned", replay)
				}
				if k := ec.NumCloses(); k != 1 {
					c.Violation("judge-go", "c15-underlying-close", fmt.Sprintf("the underlying connection was closed %d times by the one close call (reason of %d bytes)", k, n), replay)
				}
				if k := ec.CloseFrames(); k > 1 {
					c.Violation("judge-go", "c15-close-frames", fmt.Sprintf("%d close frames were written", k), replay)
				}
				if listening {
					select {
					case <-lres:
					case <-time.After(2 * time.Second):
						c.Violation("judge-go", "c15-listen-hangs", fmt.Sprintf("Listen did not return within 2 s after CloseWithMsg (reason of %d bytes)", n), replay)
					}
				}
				if err := conn.Close(); err == nil || !strings.Contains(err.Error(), "multiple close") {
					c.Violation("judge-go", "c15-multiple-close", fmt.Sprintf("a close call after CloseWithMsg returned %v", err), replay)
				}
				if k := ec.NumCloses(); k != 1 {
					c.Violation("judge-go", "c15-underlying-close", fmt.Sprintf("the underlying connection was closed %d times after a second close call", k), replay)
				}
			}
		}
	}
}
