package props

import (
	"fmt"
	"math/rand"
	"strings"
	"time"

	"github.com/IBM/fluent-forward-go/fluent/protocol"

	"verif/harness/core"
)

func init() { All["C06"] = C06 }

// letter builds one operation of the history alphabet.
type letter struct {
	name string
	mk   func(r *rand.Rand, cf ccfg) cop
}

func smallMessage(r *rand.Rand, cf ccfg, chunk string) (protocol.ChunkEncoder, []byte, []byte) {
	m := &protocol.Message{Tag: "t", Timestamp: int64(r.Intn(1000)), Record: map[string]interface{}{"k": int64(r.Intn(100))}}
	if cf.ack {
		m.Options = &protocol.MessageOptions{Chunk: chunk}
	}
	enc, err := m.MarshalMsg(nil)
	if err != nil {
		panic(err)
	}
	return m, enc, []byte(chunk)
}

func ackBytes(chunk []byte) []byte {
	b, _ := protocol.AckMessage{Ack: string(chunk)}.MarshalMsg(nil)
	return b
}

func handshakeOp(r *rand.Rand, cf ccfg, good bool) cop {
	o := cop{kind: "H", saltSeed: r.Int63(), wfault: -1}
	nonce := []byte{byte(r.Intn(256)), 2, 3}
	shost := []byte("srv")
	o.inp1 = mustMarshal(&protocol.Helo{MessageType: "HELO", Options: &protocol.HeloOpts{Nonce: nonce, Auth: []byte{}, Keepalive: true}})
	key := cf.key
	if !good {
		key = append(append([]byte{}, cf.key...), 'x')
	}
	o.inp2 = mustMarshal(&protocol.Pong{MessageType: "PONG", AuthResult: true, ServerHostname: string(shost), SharedKeyHexDigest: sha512hex(o.salt(), shost, nonce, key)})
	return o
}

var historyAlphabet = []letter{
	{"C1", func(r *rand.Rand, cf ccfg) cop { return cop{kind: "C", dialOK: true, wfault: -1} }},
	{"C0", func(r *rand.Rand, cf ccfg) cop { return cop{kind: "C", dialOK: false, wfault: -1} }},
	{"D", func(r *rand.Rand, cf ccfg) cop { return cop{kind: "D", wfault: -1} }},
	{"R1", func(r *rand.Rand, cf ccfg) cop { return cop{kind: "R", dialOK: true, wfault: -1} }},
	{"R0", func(r *rand.Rand, cf ccfg) cop { return cop{kind: "R", dialOK: false, wfault: -1} }},
	{"Hgood", func(r *rand.Rand, cf ccfg) cop { return handshakeOp(r, cf, true) }},
	{"Hbad", func(r *rand.Rand, cf ccfg) cop { return handshakeOp(r, cf, false) }},
	{"S", func(r *rand.Rand, cf ccfg) cop {
		m, enc, ch := smallMessage(r, cf, "c1")
		o := cop{kind: "S", msg: m, enc: enc, chunk: ch, wfault: -1}
		if cf.ack {
			o.resp = ackBytes(ch)
			if r.Intn(4) == 0 {
				o.resp = ackBytes([]byte("other"))
			}
		}
		return o
	}},
	// a send that fails at one of the points a send can fail: the write, the peer's response
	// (EOF, garbage, wrong chunk) or -- with a timeout configured -- the peer's silence
	{"Sfail", func(r *rand.Rand, cf ccfg) cop {
		m, enc, ch := smallMessage(r, cf, "c2")
		o := cop{kind: "S", msg: m, enc: enc, chunk: ch, wfault: -1}
		switch k := r.Intn(4); {
		case k == 0 || !cf.ack:
			o.wfault = r.Intn(len(enc))
		case k == 1:
			o.resp = nil // EOF instead of an ack
		case k == 2:
			o.resp = []byte{0x81, 0xa3, 'a', 'c'} // truncated, then EOF
		default:
			if cf.timeout > 0 {
				o.silent = true
			} else {
				o.resp = ackBytes([]byte("other"))
			}
		}
		return o
	}},
	{"W", func(r *rand.Rand, cf ccfg) cop {
		return cop{kind: "W", raw: []byte{0x93, byte(r.Intn(128)), 0xc0}, wfault: -1}
	}},
	{"T", func(r *rand.Rand, cf ccfg) cop { return cop{kind: "T", wfault: -1} }},
}

// historySweep runs operation sequences on the real client, compares every history with
// the model's prediction and judges it with the extracted reference monitors.
func historySweep(c *core.Ctx, sig string, alphabet []letter, exhaustLen, randomN, randomMax int) {
	r := c.Rng
	cfgs := []ccfg{
		{key: nil, host: []byte("h"), ack: false},
		{key: []byte("k3y"), host: []byte("h"), ack: false},
		{key: []byte{}, host: []byte("h"), ack: false}, // configured (non-nil) but empty: a handshake is still required
		{key: []byte("k3y"), host: []byte("h"), ack: true},
		{key: []byte("k3y"), host: []byte("h"), ack: false, keyByField: true},
		{key: nil, host: []byte("h"), ack: true},
		{key: nil, host: []byte("h"), ack: true, timeout: 15 * time.Millisecond},
	}
	runSeq := func(cf ccfg, idx []int) {
		ops := make([]cop, len(idx))
		name := ""
		for i, k := range idx {
			ops[i] = alphabet[k].mk(r, cf)
			name += alphabet[k].name + " "
		}
		rs := runClientOps(cf, ops)
		c.Eval()
		c.Hist(fmt.Sprintf("len=%d key=%v ack=%v", len(idx), cf.key != nil, cf.ack))
		c.Distinct(fmt.Sprint(cf.model(), idx))
		for i, x := range rs {
			if x.ret == "hang" {
				c.Violation("hang", sig+"-hang", "client method did not return in history "+name, map[string]interface{}{"cfg": cf.model(), "ops": name, "at": i})
			}
			if x.ret == "panic" {
				c.Violation("panic", sig+"-panic", "client method panicked in history "+name, map[string]interface{}{"cfg": cf.model(), "ops": name, "at": i})
			}
		}
		c.Corr(sig+"-history", "client_run", []string{cf.model(), renderOps(cf, ops)}, renderResults(rs))
		c.Judge(sig+"-monitor", "judge_history", []string{b01(cf.key != nil), historyFor(ops, rs)},
			"observed history vs reference session monitor and connection discipline: "+name+"("+cf.model()+")")
		if len(idx) == 3 && idx[0] == 0 && idx[1] == 7 {
			c.Sample(map[string]string{"cfg": cf.model(), "ops": name, "observed": trunc(renderResults(rs), 300)})
		}
	}
	for _, cf := range cfgs {
		// exhaustive: all sequences up to exhaustLen
		var rec func(prefix []int)
		rec = func(prefix []int) {
			if len(prefix) > 0 {
				runSeq(cf, prefix)
			}
			if len(prefix) == exhaustLen {
				return
			}
			for k := range alphabet {
				rec(append(append([]int{}, prefix...), k))
			}
		}
		rec(nil)
		for t := 0; t < randomN; t++ {
			n := exhaustLen + 1 + r.Intn(randomMax-exhaustLen)
			idx := make([]int, n)
			for i := range idx {
				idx[i] = r.Intn(len(alphabet))
			}
			runSeq(cf, idx)
		}
	}
	c.Extra("exhaustive", true)
	c.Extra("exhaustive_up_to_length", exhaustLen)
	c.Extra("alphabet", func() []string {
		var s []string
		for _, l := range alphabet {
			s = append(s, l.name)
		}
		return s
	}())
}

// C06: no event bytes leave the client outside a live, authenticated session.
func C06(c *core.Ctx) {
	fine := setFine(c)
	if !fine {
		alphabet := append(append([]letter{}, historyAlphabet...),
			// the connection's Close() reports an error: the connection is gone all the same
			letter{"Dfail", func(r *rand.Rand, cf ccfg) cop { return cop{kind: "D", closeErr: true, wfault: -1} }},
			letter{"R1closefail", func(r *rand.Rand, cf ccfg) cop { return cop{kind: "R", dialOK: true, closeErr: true, wfault: -1} }},
			letter{"R0closefail", func(r *rand.Rand, cf ccfg) cop { return cop{kind: "R", dialOK: false, closeErr: true, wfault: -1} }})
		historySweep(c, "c06", alphabet, c.N(3, 4), c.N(300, 6000), c.N(7, 9))
		c06PingWriteFails(c)
	}
	// concurrent callers: a send racing the calls that end or replace the session, a handshake racing a
	// Reconnect (the flag must belong to the session the handshake ran on)
	type conf struct {
		name   string
		cf     ccfg
		prefix []concOp
		progs  func(cf ccfg) [][]concOp
	}
	key := []byte("k3y")
	connect := []concOp{{kind: "C", dialOK: true}}
	confs := []conf{
		{"shared key: Handshake || Reconnect;Send", ccfg{host: []byte("h"), key: key}, connect, func(cf ccfg) [][]concOp {
			return [][]concOp{{{kind: "H", hsGood: true, ping: concPing(cf)}}, {{kind: "R", dialOK: true}, concSend(cf, "message", 20, "", true)}}
		}},
		{"shared key: Handshake;Send || Reconnect || Send", ccfg{host: []byte("h"), key: key}, connect, func(cf ccfg) [][]concOp {
			return [][]concOp{{{kind: "H", hsGood: true, ping: concPing(cf)}, concSend(cf, "message", 21, "", true)}, {{kind: "R", dialOK: true}}, {concSend(cf, "message", 20, "", true)}}
		}},
		{"shared key: Handshake || Disconnect;Connect;SendRaw", ccfg{host: []byte("h"), key: key}, connect, func(cf ccfg) [][]concOp {
			return [][]concOp{{{kind: "H", hsGood: true, ping: concPing(cf)}}, {{kind: "D"}, {kind: "C", dialOK: true}, {kind: "W", raw: []byte{0x93, 1, 0xc0}}}}
		}},
		{"shared key: Handshake(wrong key) || Send || Reconnect", ccfg{host: []byte("h"), key: key}, connect, func(cf ccfg) [][]concOp {
			return [][]concOp{{{kind: "H", hsGood: false, ping: concPing(cf)}}, {concSend(cf, "message", 20, "", true)}, {{kind: "R", dialOK: true}}}
		}},
		{"shared key, acks, after a completed handshake: Send || Send || Reconnect", ccfg{host: []byte("h"), key: key, ack: true, timeout: time.Second},
			[]concOp{{kind: "C", dialOK: true}, {kind: "H", hsGood: true, ping: concPing(ccfg{host: []byte("h"), key: key, ack: true, timeout: time.Second})}}, func(cf ccfg) [][]concOp {
				return [][]concOp{{concSend(cf, "message", 20, "qa", true)}, {concSend(cf, "message", 21, "qb", true)}, {{kind: "R", dialOK: true}}}
			}},
		{"shared key, acks, after a completed handshake: Send || Send;Send || Disconnect;Connect", ccfg{host: []byte("h"), key: key, ack: true, timeout: time.Second},
			[]concOp{{kind: "C", dialOK: true}, {kind: "H", hsGood: true, ping: concPing(ccfg{host: []byte("h"), key: key, ack: true, timeout: time.Second})}}, func(cf ccfg) [][]concOp {
				return [][]concOp{{concSend(cf, "message", 20, "qa", true)}, {concSend(cf, "message", 21, "qb", true), concSend(cf, "message", 22, "qc", true)}, {{kind: "D"}, {kind: "C", dialOK: true}}}
			}},
		{"no key: Send;Send || Disconnect || Reconnect(fail)", ccfg{host: []byte("h")}, connect, func(cf ccfg) [][]concOp {
			return [][]concOp{{concSend(cf, "message", 20, "", true), concSend(cf, "message", 22, "", true)}, {{kind: "D"}}, {{kind: "R", dialOK: false}}}
		}},
	}
	total := 0
	for _, cfn := range confs {
		cfn := cfn
		progs := cfn.progs(cfn.cf)
		budget := c.N(250, 20000)
		if fine {
			budget = c.N(25, 3000)
		}
		n, _ := concExplore(c, "c06", cfn.cf, cfn.prefix, progs, budget, cfn.name, func(run concRun, replay map[string]interface{}) {
			// with a shared key, event bytes only go to a connection on which this client has written a
			// PING (a handshake ran on it) -- and only after that; never to a connection it has closed
			pinged, closed := map[string]bool{}, map[string]bool{}
			for _, ev := range append(append([]string{}, run.pre...), run.events...) {
				f := strings.Split(ev, ":")
				if len(f) < 3 {
					continue
				}
				switch f[1] {
				case "1":
					pinged[f[2]] = true
				case "4":
					closed[f[2]] = true
				case "0":
					if cfn.cf.key != nil && !pinged[f[2]] {
						c.Violation("judge-go", "c06-unauthenticated-write", "event bytes were written to connection "+f[2]+" on which no handshake ran ("+cfn.name+")", replay)
					}
					if closed[f[2]] {
						c.Violation("judge-go", "c06-write-after-close", "event bytes were written to connection "+f[2]+" after the client closed it ("+cfn.name+")", replay)
					}
				}
			}
		})
		total += n
		c.Sample(map[string]interface{}{"configuration": cfn.name, "schedules": n})
	}
	c.Extra("concurrent_schedules", total)
}

// c06PingWriteFails: the handshake's own write (the PING) meets a connection fault after n bytes, for every n: the
// handshake fails, the session stays outside the transport phase, and no event data is written afterwards --
// whatever the peer would have answered (the scripted PONG is the honest one).
func c06PingWriteFails(c *core.Ctx) {
	r := c.Rng
	cf := ccfg{key: []byte("k3y"), host: []byte("h")}
	probe := runClientOps(cf, []cop{{kind: "C", dialOK: true, wfault: -1}, handshakeOp(rand.New(rand.NewSource(1)), cf, true)})
	pingLen := 0
	for _, ev := range probe[1].events {
		if f := strings.Split(ev, ":"); f[0] == "w" && len(f) > 2 {
			pingLen = len(f[2]) / 2
		}
	}
	if probe[1].ret != "ok" || pingLen == 0 {
		c.Violation("judge-go", "c06-ping-write", "an honest handshake without faults did not succeed", nil)
		return
	}
	for n := 0; n < pingLen; n += 1 + r.Intn(3) {
		h := handshakeOp(rand.New(rand.NewSource(1)), cf, true)
		h.wfault = n
		m, enc, ch := smallMessage(r, cf, "c1")
		ops := []cop{{kind: "C", dialOK: true, wfault: -1}, h, {kind: "T", wfault: -1}, {kind: "S", msg: m, enc: enc, chunk: ch, wfault: -1}, {kind: "W", raw: []byte{0x93, 1, 0xc0}, wfault: -1}}
		rs := runClientOps(cf, ops)
		c.Eval()
		c.Hist("PING write fails after n bytes")
		replay := map[string]interface{}{"ping_bytes_accepted": n, "ping_length": pingLen, "results": renderResults(rs)}
		if rs[1].ret == "ok" || rs[2].ret != "false" {
			c.Violation("judge-go", "c06-ping-write", fmt.Sprintf("the PING write failed after %d of %d bytes: Handshake returned %s, TransportPhase %s", n, pingLen, rs[1].ret, rs[2].ret), replay)
		}
		for i := 3; i <= 4; i++ {
			wrote := false
			for _, ev := range rs[i].events {
				wrote = wrote || strings.HasPrefix(ev, "w:")
			}
			if rs[i].ret == "ok" || wrote {
				c.Violation("judge-go", "c06-unauthenticated-write", fmt.Sprintf("after a handshake whose PING write failed (%d of %d bytes) a send returned %s and wrote: %v", n, pingLen, rs[i].ret, wrote), replay)
			}
		}
	}
}
