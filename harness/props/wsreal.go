package props

import (
	"bytes"
	"fmt"
	"net/http"
	"net/http/httptest"
	"strings"
	"sync"
	"sync/atomic"
	"time"

	"github.com/IBM/fluent-forward-go/fluent/client/ws"
	"github.com/gorilla/websocket"

	"verif/harness/core"
)

// spyConn is a REAL gorilla connection (loopback) whose data-path calls are counted: how many
// goroutines are inside WriteMessage / ReadMessage at the same moment (gorilla forbids more than one
// each; a close frame sent through WriteControl counts as a write, pings and pongs do not).  A frame whose payload starts
// with "HOLD" is held inside WriteMessage until release is closed, so that whatever else the library
// writes meanwhile (a pong answering a ping, a close frame) has to wait for it -- or overlaps it.
type spyConn struct {
	*websocket.Conn
	inW, inR, maxW, maxR int32
	release              chan struct{}
	held                 chan struct{}
	heldOnce             sync.Once
}

func (s *spyConn) enter(in, max *int32) {
	n := atomic.AddInt32(in, 1)
	for {
		m := atomic.LoadInt32(max)
		if n <= m || atomic.CompareAndSwapInt32(max, m, n) {
			break
		}
	}
}

func (s *spyConn) WriteMessage(mt int, data []byte) error {
	s.enter(&s.inW, &s.maxW)
	defer atomic.AddInt32(&s.inW, -1)
	if bytes.HasPrefix(data, []byte("HOLD")) && s.release != nil {
		s.heldOnce.Do(func() { close(s.held) })
		select {
		case <-s.release:
		case <-time.After(2 * time.Second):
		}
	}
	return s.Conn.WriteMessage(mt, data)
}

// a close frame sent through WriteControl is a frame of the property all the same (pings / pongs are not)
func (s *spyConn) WriteControl(mt int, data []byte, deadline time.Time) error {
	if mt == websocket.CloseMessage {
		s.enter(&s.inW, &s.maxW)
		defer atomic.AddInt32(&s.inW, -1)
	}
	return s.Conn.WriteControl(mt, data, deadline)
}

func (s *spyConn) ReadMessage() (int, []byte, error) {
	s.enter(&s.inR, &s.maxR)
	defer atomic.AddInt32(&s.inR, -1)
	return s.Conn.ReadMessage()
}

// realPair: an httptest server upgrading to websocket and handing its side to serve; the client side
// wrapped in a spy and in the library's connection.
func realPair(serve func(sc *websocket.Conn), opts ws.ConnectionOptions, hold bool) (ws.Connection, *spyConn, func(), error) {
	up := websocket.Upgrader{}
	done := make(chan struct{})
	srv := httptest.NewServer(http.HandlerFunc(func(w http.ResponseWriter, r *http.Request) {
		sc, err := up.Upgrade(w, r, nil)
		if err != nil {
			return
		}
		defer close(done)
		defer sc.Close()
		serve(sc)
	}))
	cc, _, err := websocket.DefaultDialer.Dial("ws"+strings.TrimPrefix(srv.URL, "http"), nil)
	if err != nil {
		srv.Close()
		return nil, nil, nil, err
	}
	spy := &spyConn{Conn: cc, held: make(chan struct{})}
	if hold {
		spy.release = make(chan struct{})
	}
	conn, err := ws.NewConnection(spy, opts)
	if err != nil {
		srv.Close()
		return nil, nil, nil, err
	}
	return conn, spy, func() {
		_ = cc.Close()
		select {
		case <-done:
		case <-time.After(time.Second):
		}
		srv.Close()
	}, nil
}

// wsRealPeer: the scripted ext.Conn of the other phases never runs gorilla's own machinery (control-frame
// handlers, close handshake, sticky read errors).  Here the same judges look at a real loopback pair.
func wsRealPeer(c *core.Ctx, sig string) {
	opts := ws.ConnectionOptions{CloseDeadline: wsCloseDeadline}
	fail := func(what string, replay map[string]interface{}) {
		c.Violation("judge-go", sig+"-real:"+strings.Fields(what)[0], what+" (real gorilla loopback pair)", replay)
	}
	// (1) several writers, a reading server: every payload arrives once, as one binary frame
	{
		var got [][]byte
		var mu sync.Mutex
		conn, spy, stop, err := realPair(func(sc *websocket.Conn) {
			for {
				mt, p, err := sc.ReadMessage()
				if err != nil {
					return
				}
				if mt == websocket.BinaryMessage {
					mu.Lock()
					got = append(got, p)
					mu.Unlock()
				}
			}
		}, opts, false)
		if err != nil {
			c.Hist("real peer unavailable: " + err.Error())
			return
		}
		lres := make(chan error, 1)
		go func() { lres <- conn.Listen() }()
		var wg sync.WaitGroup
		for w := 0; w < 4; w++ {
			wg.Add(1)
			go func(w int) {
				defer wg.Done()
				for k := 0; k < 25; k++ {
					p := []byte(fmt.Sprintf("w%d-%d-%s", w, k, strings.Repeat("x", k*40)))
					if n, err := conn.Write(p); err != nil || n != len(p) {
						fail(fmt.Sprintf("write: Write returned (%d, %v) for %d bytes on a healthy connection", n, err, len(p)), nil)
					}
				}
			}(w)
		}
		wg.Wait()
		t0 := time.Now()
		cerr := conn.Close()
		dur := time.Since(t0)
		var lerr error
		select {
		case lerr = <-lres:
		case <-time.After(2 * time.Second):
			fail("listen: Listen did not return within 2 s after the closing handshake", nil)
		}
		stop()
		c.Eval()
		c.Hist("real peer: 4 writers x 25 frames, close handshake")
		mu.Lock()
		n := len(got)
		seen := map[string]int{}
		for _, p := range got {
			seen[string(p)]++
		}
		mu.Unlock()
		dup := 0
		for _, k := range seen {
			if k != 1 {
				dup++
			}
		}
		replay := map[string]interface{}{"frames_received": n, "max_in_write": spy.maxW, "max_in_read": spy.maxR, "close_error": fmt.Sprint(cerr), "listen_error": fmt.Sprint(lerr)}
		if n != 100 || dup != 0 {
			fail(fmt.Sprintf("frames: the peer received %d binary frames (%d payloads not exactly once) for 100 Write calls", n, dup), replay)
		}
		if spy.maxW > 1 || spy.maxR > 1 {
			fail(fmt.Sprintf("overlap: %d goroutines inside WriteMessage / %d inside ReadMessage at the same time", spy.maxW, spy.maxR), replay)
		}
		if cerr != nil || lerr != nil {
			fail(fmt.Sprintf("close: normal closing handshake with an echoing peer: Close returned %v, Listen returned %v", cerr, lerr), replay)
		}
		if dur > wsCloseDeadline+250*time.Millisecond {
			fail(fmt.Sprintf("slow: Close took %v", dur), replay)
		}
	}
	// (2) the peer pings while a data frame is inside the underlying write: whatever answers the ping must
	//     not enter the data path beside it; afterwards a close: still one frame at a time
	{
		pinged := make(chan struct{})
		conn, spy, stop, err := realPair(func(sc *websocket.Conn) {
			sc.SetPongHandler(func(string) error { return nil })
			// wait for the first (held) frame to be on its way, then ping
			<-pinged
			_ = sc.WriteControl(websocket.PingMessage, []byte("are-you-there"), time.Now().Add(time.Second))
			for {
				if _, _, err := sc.ReadMessage(); err != nil {
					return
				}
			}
		}, opts, true)
		if err != nil {
			return
		}
		lres := make(chan error, 1)
		go func() { lres <- conn.Listen() }()
		wres := make(chan error, 1)
		go func() { _, err := conn.Write([]byte("HOLD-this-frame")); wres <- err }()
		select {
		case <-spy.held:
		case <-time.After(2 * time.Second):
		}
		close(pinged)
		time.Sleep(150 * time.Millisecond) // the ping arrives and is handled while the data frame is held
		cres := make(chan error, 1)
		go func() { cres <- conn.Close() }() // the close frame has to wait for the held frame as well
		time.Sleep(50 * time.Millisecond)
		close(spy.release)
		werr := <-wres
		var cerr error
		select {
		case cerr = <-cres:
		case <-time.After(3 * time.Second):
			fail("hang: Close did not return within 3 s", nil)
		}
		select {
		case <-lres:
		case <-time.After(2 * time.Second):
			fail("listen: Listen did not return within 2 s after Close", nil)
		}
		stop()
		c.Eval()
		c.Hist("real peer: ping while a data frame is inside the underlying write, then close")
		replay := map[string]interface{}{"max_in_write": spy.maxW, "max_in_read": spy.maxR, "write_error": fmt.Sprint(werr), "close_error": fmt.Sprint(cerr)}
		if spy.maxW > 1 || spy.maxR > 1 {
			fail(fmt.Sprintf("overlap: %d goroutines inside WriteMessage / %d inside ReadMessage at the same time while the peer pinged during a write", spy.maxW, spy.maxR), replay)
		}
		if werr != nil {
			fail(fmt.Sprintf("write: the held Write failed: %v", werr), replay)
		}
	}
	// (3) the peer closes first (going away): Listen reports it, Close afterwards is a multiple-close or clean
	for _, code := range []int{websocket.CloseNormalClosure, websocket.CloseGoingAway} {
		conn, spy, stop, err := realPair(func(sc *websocket.Conn) {
			_ = sc.WriteControl(websocket.CloseMessage, websocket.FormatCloseMessage(code, "bye"), time.Now().Add(time.Second))
			for {
				if _, _, err := sc.ReadMessage(); err != nil {
					return
				}
			}
		}, opts, false)
		if err != nil {
			return
		}
		lres := make(chan error, 1)
		go func() { lres <- conn.Listen() }()
		var lerr error
		select {
		case lerr = <-lres:
		case <-time.After(2 * time.Second):
			fail("listen: Listen did not return within 2 s after the peer closed", map[string]interface{}{"code": code})
		}
		_ = conn.Close()
		stop()
		c.Eval()
		c.Hist(fmt.Sprintf("real peer closes first with code %d", code))
		if (lerr == nil) != (code == websocket.CloseNormalClosure) {
			fail(fmt.Sprintf("listen: the peer closed with code %d, Listen returned %v", code, lerr), map[string]interface{}{"code": code})
		}
		if !conn.Closed() {
			fail("closed: the connection does not report closed after the peer's close", map[string]interface{}{"code": code})
		}
		if spy.maxW > 1 || spy.maxR > 1 {
			fail(fmt.Sprintf("overlap: %d goroutines inside WriteMessage / %d inside ReadMessage at the same time", spy.maxW, spy.maxR), nil)
		}
	}
	// (4) the socket is torn down while a close is pending (close frame sent, the peer silent, the close deadline not
	//     yet over): a transport failure -- Listen returns an error, the close call returns within its deadline
	{
		sawClose := make(chan struct{})
		var once sync.Once
		conn, spy, stop, err := realPair(func(sc *websocket.Conn) {
			sc.SetCloseHandler(func(int, string) error { once.Do(func() { close(sawClose) }); return nil }) // no echo
			for {
				if _, _, err := sc.ReadMessage(); err != nil {
					return
				}
			}
		}, ws.ConnectionOptions{CloseDeadline: 2 * time.Second}, false)
		if err != nil {
			return
		}
		lres := make(chan error, 1)
		go func() { lres <- conn.Listen() }()
		time.Sleep(20 * time.Millisecond)
		cres := make(chan error, 1)
		t0 := time.Now()
		go func() { cres <- conn.Close() }()
		select {
		case <-sawClose:
		case <-time.After(time.Second):
		}
		_ = spy.Conn.UnderlyingConn().Close()
		var lerr error
		gotL := false
		select {
		case lerr = <-lres:
			gotL = true
		case <-time.After(3 * time.Second):
			fail("listen: Listen did not return within 3 s after the socket was torn down during a pending close", nil)
		}
		select {
		case <-cres:
		case <-time.After(3 * time.Second):
			fail("hang: Close did not return within its 2 s deadline plus slack after the socket was torn down", nil)
		}
		dur := time.Since(t0)
		stop()
		c.Eval()
		c.Hist("real peer: socket torn down while a close is pending")
		if gotL && lerr == nil {
			fail("transport: Listen returned nil although the socket was torn down while the close was pending (no closing handshake took place)", map[string]interface{}{"close_took_ms": dur.Milliseconds()})
		}
	}
}
