package props

import (
	"crypto/sha256"
	"encoding/hex"
	"fmt"
	"reflect"
	"strings"
	"time"

	"github.com/IBM/fluent-forward-go/fluent/protocol"

	"verif/harness/canon"
	"verif/harness/core"
)

func init() { All["C20"] = C20 }

// c20Alphabet: entries that are pairwise different as (instant, record) classes, each in
// two presentations that are the same entry (other time zone, rebuilt but deeply equal record).
func c20Alphabet() [][2]protocol.EntryExt {
	east := time.FixedZone("east", 5*3600+1800)
	west := time.FixedZone("west", -8*3600)
	t1 := time.Unix(1700000000, 123456789)
	t2 := time.Unix(1700000000, 123456790)
	t3 := time.Unix(0, 0)
	mk := func(t time.Time, r interface{}) protocol.EntryExt {
		return protocol.EntryExt{Timestamp: protocol.EventTime{Time: t}, Record: r}
	}
	rec := func() interface{} {
		return map[string]interface{}{"k": "v", "n": int64(7), "nested": map[string]interface{}{"a": []interface{}{int64(1), "x"}}}
	}
	return [][2]protocol.EntryExt{
		{mk(t1.UTC(), rec()), mk(t1.In(east), rec())},
		{mk(t2.UTC(), rec()), mk(t2.In(west), rec())}, // other instant, same record
		{mk(t1.UTC(), map[string]interface{}{"k": "v", "n": int(7)}), mk(t1.In(west), map[string]interface{}{"n": int(7), "k": "v"})}, // same instant, other record
		{mk(t3.UTC(), nil), mk(t3.In(east), nil)},
		{mk(t3.UTC(), map[string]interface{}{}), mk(t3.In(east), map[string]interface{}{})},
		{mk(t1.UTC(), "plain"), mk(t1.In(east), "plain")},
	}
}

func c20Render(l protocol.EntryList) string {
	parts := make([]string, len(l))
	for i, e := range l {
		parts[i] = fmt.Sprintf("%d:%d:%s", e.Timestamp.Unix(), e.Timestamp.Nanosecond(), recClass(e.Record))
	}
	return strings.Join(parts, ",")
}

// recClass names the DeepEqual class of a record: 8 bytes of the SHA-256 of its
// type-preserving canonical rendering (keeps model inputs short).
func recClass(r interface{}) string {
	h := sha256.Sum256([]byte(canon.Typed(r)))
	return hex.EncodeToString(h[:8])
}

func boolStr(b bool) string {
	if b {
		return "t"
	}
	return "f"
}

func C20(c *core.Ctx) {
	alpha := c20Alphabet()
	// sanity of the alphabet itself (harness self-check, not a property check)
	for i := range alpha {
		for j := range alpha {
			same := alpha[i][0].Timestamp.Equal(alpha[j][1].Timestamp.Time) && reflect.DeepEqual(alpha[i][0].Record, alpha[j][1].Record)
			if same != (i == j) {
				panic("c20: alphabet classes are not distinct")
			}
		}
	}
	one := func(a, b protocol.EntryList, how string) {
		// the caller's lists must not be modified either
		ra, rb := c20Render(a), c20Render(b)
		got := a.Equal(b)
		c.Eval()
		c.Hist(fmt.Sprintf("len=%d/%d %s result=%v", len(a), len(b), how, got))
		if len(a) == len(b) && len(a) > 1 {
			c.Distinct(ra + "|" + rb)
		}
		if ra != c20Render(a) || rb != c20Render(b) {
			c.Violation("judge-go", "c20-mutated-args", "Equal modified its arguments", map[string]string{"a": ra, "b": rb})
		}
		c.Corr("c20-equal", "equal", []string{ra, rb}, boolStr(got))
		c.Judge("c20-equal", "judge_equal", []string{ra, rb, boolStr(got)}, "EntryList.Equal result vs multiset equality")
		if len(a) == 2 && len(b) == 2 {
			c.Sample(map[string]interface{}{"a": ra, "b": rb, "equal": got})
		}
	}
	k := c.N(3, 4) // alphabet size for the exhaustive part
	maxLen := 4
	var lists [][]int
	var gen func(cur []int)
	gen = func(cur []int) {
		lists = append(lists, append([]int(nil), cur...))
		if len(cur) == maxLen {
			return
		}
		for x := 0; x < k; x++ {
			gen(append(cur, x))
		}
	}
	gen(nil)
	build := func(ix []int, pres int) protocol.EntryList {
		l := make(protocol.EntryList, len(ix))
		for i, x := range ix {
			l[i] = alpha[x][(pres+i)%2]
		}
		return l
	}
	for _, a := range lists {
		for _, b := range lists {
			if len(a) != len(b) && c.Rng.Intn(8) != 0 { // unequal lengths are the trivial branch: sample them
				continue
			}
			one(build(a, 0), build(b, 1), "exhaustive")
		}
	}
	c.Extra("exhaustive_alphabet", k)
	c.Extra("exhaustive_max_len", maxLen)
	// random longer lists, their shuffles and single-entry perturbations
	n := c.N(400, 20000)
	for i := 0; i < n; i++ {
		ln := 5 + c.Rng.Intn(12)
		a := make([]int, ln)
		for j := range a {
			a[j] = c.Rng.Intn(len(alpha))
		}
		b := append([]int(nil), a...)
		c.Rng.Shuffle(len(b), func(x, y int) { b[x], b[y] = b[y], b[x] })
		how := "shuffle"
		switch c.Rng.Intn(3) {
		case 1: // replace one entry by another class
			p := c.Rng.Intn(ln)
			b[p] = (b[p] + 1 + c.Rng.Intn(len(alpha)-1)) % len(alpha)
			how = "perturb"
		case 2: // replace one entry by a duplicate of another position (same support, other multiplicities)
			p, q := c.Rng.Intn(ln), c.Rng.Intn(ln)
			b[p] = b[q]
			how = "dup"
		}
		one(build(a, 0), build(b, 1), how)
	}
}
