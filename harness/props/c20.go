package props

import (
	"crypto/sha256"
	"encoding/hex"
	"fmt"
	"reflect"
	"sort"
	"strings"
	"time"

	"github.com/IBM/fluent-forward-go/fluent/protocol"

	"verif/harness/canon"
	"verif/harness/core"
	"verif/harness/gen"
)

// deepCopy: a structurally equal copy sharing no storage (maps, slices, byte slices).
func deepCopy(x interface{}) interface{} {
	switch t := x.(type) {
	case map[string]interface{}:
		if t == nil {
			return t
		}
		m := make(map[string]interface{}, len(t))
		for k, v := range t {
			m[k] = deepCopy(v)
		}
		return m
	case map[string]string:
		m := make(map[string]string, len(t))
		for k, v := range t {
			m[k] = v
		}
		return m
	case []interface{}:
		if t == nil {
			return t
		}
		a := make([]interface{}, len(t))
		for i, v := range t {
			a[i] = deepCopy(v)
		}
		return a
	case []string:
		return append([]string{}, t...)
	case []byte:
		if t == nil {
			return t
		}
		return append([]byte{}, t...)
	}
	return x
}

// perturbRecord returns a record that differs from r in one place (or r's copy when nothing can be changed).
func perturbRecord(c *core.Ctx, r interface{}) (interface{}, string) {
	m, ok := r.(map[string]interface{})
	if !ok || len(m) == 0 {
		return map[string]interface{}{"only": r}, "wrapped"
	}
	keys := make([]string, 0, len(m))
	for k := range m {
		keys = append(keys, k)
	}
	sort.Strings(keys)
	k := keys[c.Rng.Intn(len(keys))]
	out := deepCopy(m).(map[string]interface{})
	switch c.Rng.Intn(7) {
	case 0: // same size: one key renamed, value kept
		delete(out, k)
		out[k+"'"] = deepCopy(m[k])
		return out, "key renamed"
	case 1: // same size, same shared keys: a nil-valued key under another name
		out2 := deepCopy(m).(map[string]interface{})
		out["u~"] = nil
		out2["h~"] = nil
		return []interface{}{out, out2}, "nil under different keys" // caller unpacks the pair
	case 6: // same size, same shared keys: nil under a key of the first, a VALUE under another key of the second (either order)
		out2 := deepCopy(m).(map[string]interface{})
		out["u~"] = nil
		out2["h~"] = int64(7)
		if c.Rng.Intn(2) == 0 {
			out, out2 = out2, out
		}
		return []interface{}{out, out2}, "nil under different keys"
	case 2: // a key present with nil vs absent
		out["n~"] = nil
		return out, "extra nil-valued key"
	case 3: // leaf changed
		out[k] = []interface{}{m[k]}
		return out, "value wrapped in a list"
	case 4: // nested: value replaced by a string rendering
		out[k] = fmt.Sprint(m[k]) + "#"
		return out, "value replaced"
	default: // dynamic type changed, same number
		switch t := m[k].(type) {
		case int64:
			out[k] = int(t)
		case int:
			out[k] = int64(t)
		case string:
			out[k] = []byte(t)
		case []byte:
			out[k] = string(t)
		default:
			out[k] = nil
			if m[k] == nil {
				out[k] = false
			}
		}
		return out, "dynamic type changed"
	}
}

func init() { All["C20"] = C20 }

// c20Alphabet: entries that are pairwise different as (instant, record) classes, each in
// two presentations that are the same entry (other time zone, rebuilt but deeply equal record).
func c20Alphabet() [][2]protocol.EntryExt {
	east := time.FixedZone("east", 5*3600+1800)
	west := time.FixedZone("west", -8*3600)
	t1 := time.Unix(1700000000, 123456789)
	t2 := time.Unix(1700000000, 123456790)
	t3 := time.Unix(0, 0)
	mk := func(t time.Time, r interface{}) protocol.EntryExt {
		return protocol.EntryExt{Timestamp: protocol.EventTime{Time: t}, Record: r}
	}
	rec := func() interface{} {
		return map[string]interface{}{"k": "v", "n": int64(7), "nested": map[string]interface{}{"a": []interface{}{int64(1), "x"}}}
	}
	return [][2]protocol.EntryExt{
		{mk(t1.UTC(), rec()), mk(t1.In(east), rec())},
		{mk(t2.UTC(), rec()), mk(t2.In(west), rec())}, // other instant, same record
		{mk(t1.UTC(), map[string]interface{}{"k": "v", "n": int(7)}), mk(t1.In(west), map[string]interface{}{"n": int(7), "k": "v"})}, // same instant, other record
		{mk(t3.UTC(), nil), mk(t3.In(east), nil)},
		{mk(t3.UTC(), map[string]interface{}{}), mk(t3.In(east), map[string]interface{}{})},
		{mk(t1.UTC(), "plain"), mk(t1.In(east), "plain")},
		// instants that coincide in a narrower representation of the seconds (32 bits on the wire) or differ only
		// in the seconds: different instants, the same record
		{mk(time.Unix(5, 7).UTC(), rec()), mk(time.Unix(5, 7).In(west), rec())},
		{mk(time.Unix(5+(1<<32), 7).UTC(), rec()), mk(time.Unix(5+(1<<32), 7).In(east), rec())},
		{mk(time.Unix(-1, 0).UTC(), rec()), mk(time.Unix(-1, 0).In(east), rec())},
		{mk(time.Unix((1<<32)-1, 0).UTC(), rec()), mk(time.Unix((1<<32)-1, 0).In(west), rec())},
		{mk(t1.Add(time.Second).UTC(), rec()), mk(t1.Add(time.Second).In(west), rec())},
		// ... or in a 64-bit count of nanoseconds (2^64 ns = 18446744073.709551616 s), or of milliseconds / microseconds
		// truncated to 32 / 64 bits
		{mk(time.Unix(5+18446744073, 7+709551616).UTC(), rec()), mk(time.Unix(5+18446744073, 7+709551616).In(east), rec())},
		{mk(time.Unix(5-18446744073, 7-709551616+1000000000-1000000000).UTC(), rec()), mk(time.Unix(5-18446744073, 7-709551616).In(west), rec())},
		{mk(time.Unix(5+4294967, 7+296000000).UTC(), rec()), mk(time.Unix(5+4294967, 7+296000000).In(west), rec())},
		{mk(time.Unix(5, 7+1000).UTC(), rec()), mk(time.Unix(5, 7+1000).In(east), rec())},
	}
}

func c20Render(l protocol.EntryList) string {
	parts := make([]string, len(l))
	for i, e := range l {
		parts[i] = fmt.Sprintf("%d:%d:%s", e.Timestamp.Unix(), e.Timestamp.Nanosecond(), recClass(e.Record))
	}
	return strings.Join(parts, ",")
}

// recClass names the DeepEqual class of a record: 8 bytes of the SHA-256 of its
// type-preserving canonical rendering (keeps model inputs short).
func recClass(r interface{}) string {
	h := sha256.Sum256([]byte(canon.Typed(r)))
	return hex.EncodeToString(h[:8])
}

func boolStr(b bool) string {
	if b {
		return "t"
	}
	return "f"
}

func C20(c *core.Ctx) {
	alpha := c20Alphabet()
	// sanity of the alphabet itself (harness self-check, not a property check)
	for i := range alpha {
		for j := range alpha {
			same := alpha[i][0].Timestamp.Equal(alpha[j][1].Timestamp.Time) && reflect.DeepEqual(alpha[i][0].Record, alpha[j][1].Record)
			if same != (i == j) {
				panic("c20: alphabet classes are not distinct")
			}
		}
	}
	one := func(a, b protocol.EntryList, how string) {
		// the caller's lists must not be modified either
		ra, rb := c20Render(a), c20Render(b)
		got := a.Equal(b)
		c.Eval()
		c.Hist(fmt.Sprintf("len=%d/%d %s result=%v", len(a), len(b), how, got))
		if len(a) == len(b) && len(a) > 1 {
			c.Distinct(ra + "|" + rb)
		}
		if ra != c20Render(a) || rb != c20Render(b) {
			c.Violation("judge-go", "c20-mutated-args", "Equal modified its arguments", map[string]string{"a": ra, "b": rb})
		}
		if back := b.Equal(a); back != got {
			c.Violation("judge-go", "c20-asymmetric", fmt.Sprintf("a.Equal(b) = %v but b.Equal(a) = %v (%s)", got, back, how), map[string]string{"a": trunc(ra, 300), "b": trunc(rb, 300)})
		}
		c.Corr("c20-equal", "equal", []string{ra, rb}, boolStr(got))
		c.Judge("c20-equal", "judge_equal", []string{ra, rb, boolStr(got)}, "EntryList.Equal result vs multiset equality")
		if len(a) == 2 && len(b) == 2 {
			c.Sample(map[string]interface{}{"a": ra, "b": rb, "equal": got})
		}
	}
	k := c.N(3, 4) // alphabet size for the exhaustive part
	maxLen := 4
	var lists [][]int
	var genl func(cur []int)
	genl = func(cur []int) {
		lists = append(lists, append([]int(nil), cur...))
		if len(cur) == maxLen {
			return
		}
		for x := 0; x < k; x++ {
			genl(append(cur, x))
		}
	}
	genl(nil)
	build := func(ix []int, pres int) protocol.EntryList {
		l := make(protocol.EntryList, len(ix))
		for i, x := range ix {
			l[i] = alpha[x][(pres+i)%2]
		}
		return l
	}
	for _, a := range lists {
		for _, b := range lists {
			if len(a) != len(b) && c.Rng.Intn(8) != 0 { // unequal lengths are the trivial branch: sample them
				continue
			}
			one(build(a, 0), build(b, 1), "exhaustive")
		}
	}
	c.Extra("exhaustive_alphabet", k)
	c.Extra("exhaustive_max_len", maxLen)
	// random longer lists, their shuffles and single-entry perturbations
	n := c.N(400, 20000)
	for i := 0; i < n; i++ {
		ln := 5 + c.Rng.Intn(12)
		if i%5 == 0 { // an implementation may switch algorithm with the length (index, sort): long lists too
			ln = 60 + c.Rng.Intn(90)
		}
		a := make([]int, ln)
		for j := range a {
			a[j] = c.Rng.Intn(len(alpha))
		}
		b := append([]int(nil), a...)
		c.Rng.Shuffle(len(b), func(x, y int) { b[x], b[y] = b[y], b[x] })
		how := "shuffle"
		switch c.Rng.Intn(3) {
		case 1: // replace one entry by another class
			p := c.Rng.Intn(ln)
			b[p] = (b[p] + 1 + c.Rng.Intn(len(alpha)-1)) % len(alpha)
			how = "perturb"
		case 2: // replace one entry by a duplicate of another position (same support, other multiplicities)
			p, q := c.Rng.Intn(ln), c.Rng.Intn(ln)
			b[p] = b[q]
			how = "dup"
		}
		one(build(a, 0), build(b, 1), how)
	}
	// records: generated records against their copies and single-place perturbations, inside lists of
	// 1-3 entries; "deeply equal" is reflect.DeepEqual (the Go-side oracle), the model sees the classes
	t0 := time.Unix(1700000000, 5)
	mk := func(r interface{}) protocol.EntryExt {
		return protocol.EntryExt{Timestamp: protocol.EventTime{Time: t0}, Record: r}
	}
	for i := 0; i < c.N(1500, 60000); i++ {
		var r1 interface{}
		for {
			r1 = gen.GenMap(c.Rng, 2, false).ToGo(c.Rng)
			if reflect.DeepEqual(r1, deepCopy(r1)) { // NaN-free
				break
			}
		}
		r2, how := deepCopy(r1), "copy"
		if c.Rng.Intn(4) != 0 {
			r2, how = perturbRecord(c, r1)
			if pair, ok := r2.([]interface{}); ok && how == "nil under different keys" {
				r1, r2 = pair[0], pair[1]
			}
		}
		filler := alpha[c.Rng.Intn(len(alpha))]
		a, b := protocol.EntryList{mk(r1)}, protocol.EntryList{mk(r2)}
		switch c.Rng.Intn(3) {
		case 1:
			a, b = protocol.EntryList{filler[0], mk(r1)}, protocol.EntryList{mk(r2), filler[1]}
		case 2:
			a, b = protocol.EntryList{mk(r1), filler[0], mk(r1)}, protocol.EntryList{filler[1], mk(r2), mk(r1)}
		}
		want := reflect.DeepEqual(r1, r2)
		got := a.Equal(b)
		if got != want {
			c.Violation("judge-go", "c20-record-equality", fmt.Sprintf("lists that differ only in one record (%s; DeepEqual=%v) compare %v", how, want, got),
				map[string]string{"record_a": trunc(canon.Typed(r1), 400), "record_b": trunc(canon.Typed(r2), 400), "how": how})
		}
		one(a, b, "records: "+how)
	}
}
