package props

import (
	"bytes"
	crand "crypto/rand"
	"fmt"
	"math/rand"
	"strings"
	"sync"
	"time"

	"github.com/IBM/fluent-forward-go/fluent/client"
	"github.com/IBM/fluent-forward-go/fluent/protocol"

	"verif/harness/core"
	"verif/harness/fakes"
	"verif/harness/sched"
)

// concOp: one call of a worker goroutine on the shared client (coq/model/ClientConc.v: cop).
type concOp struct {
	kind   string // S W C D R T H
	dialOK bool
	msg    protocol.ChunkEncoder
	enc    []byte
	chunk  []byte
	noChk  bool // Chunk() fails
	ackOK  bool // the peer acknowledges this chunk (else another one)
	raw    []byte
	hsGood bool
	ping   []byte // H: the PING the client is going to write
	// S / W: the Write of this call fails: the connection takes wacc bytes and returns a net.Error of the
	// temporary kind (a caller that retried would write again, outside anything that orders it with other senders)
	wfail bool
	wacc  int
	// S with acks: the peer delivers the ack this long after it received the message
	ackDelay time.Duration
	// S through a convenience helper of the client (SendPackedFromBytes, ...): what to call instead of Send(msg);
	// msg/enc describe the message the helper is documented to build
	call func(cl *client.Client) error
}

func (o concOp) model(cf ccfg) string {
	switch o.kind {
	case "S":
		en, ch := "-", "-"
		if o.enc != nil {
			en = "x" + hx(o.enc)
		}
		if cf.ack && !o.noChk {
			ch = "x" + hx(o.chunk)
		}
		return fmt.Sprintf("S,%s,%s,%s,%s", en, ch, b01(!o.wfail), b01(o.ackOK))
	case "W":
		return fmt.Sprintf("W,x%s,%s", hx(o.raw), b01(!o.wfail))
	case "C", "R":
		return o.kind + "," + b01(o.dialOK)
	case "D", "T":
		return o.kind
	case "H":
		return fmt.Sprintf("H,x%s,%s", hx(o.ping), b01(o.hsGood))
	}
	panic("kind")
}

type concRun struct {
	picks   []int
	starved string
	events  []string   // tid:kind:conn:hex in order
	rets    [][]string // per worker
	widths  []int
	stuck   bool
	panics  map[string]interface{}
	strace  []sched.Step
	writes  map[int][][]byte // per connection: accepted bytes of every Write, in order
	partial [][]byte         // accepted parts of Writes that failed (what a failed send may leave on the wire)
	pre     []string         // events of the sequential prefix
	elapsed time.Duration
}

const hsSaltSeed = 4242

// runConc executes one schedule (given by the choice list) of the workers' programs on a
// fresh client, after the controller has run the prefix calls sequentially.
func runConc(cf ccfg, prefix []concOp, progs [][]concOp, choices []int, timerWait time.Duration) concRun {
	return runConcMode(cf, prefix, progs, choices, timerWait, false)
}

// runConcFree: the same workers running freely (no yields, no controller).
func runConcFree(cf ccfg, prefix []concOp, progs [][]concOp) concRun {
	return runConcMode(cf, prefix, progs, nil, 0, true)
}

func runConcMode(cf ccfg, prefix []concOp, progs [][]concOp, choices []int, timerWait time.Duration, free bool) concRun {
	s := sched.New()
	if free {
		s.Release()
	}
	defer attachFine(s, free)()
	var mu sync.Mutex
	res := concRun{rets: make([][]string, len(progs)), writes: map[int][][]byte{}}
	cur := map[string]*concOp{}
	wfailed := map[*concOp]bool{}
	tidOf := func(name string) int {
		var i int
		if _, err := fmt.Sscanf(name, "w%d", &i); err != nil {
			return 99
		}
		return i
	}
	nonce := []byte{9, 8, 7}
	shost := []byte("srv")
	hsSalt := make([]byte, 16)
	rand.New(rand.NewSource(hsSaltSeed)).Read(hsSalt)
	f := &fakes.Factory{FailOn: map[int]bool{}}
	var dialMu sync.Mutex
	dialPlan := map[string]bool{} // per worker: does its next dial succeed
	f.Hook = func(op string) {
		name := s.Name()
		s.Yield("new")
		dialMu.Lock()
		ok, has := dialPlan[name]
		dialMu.Unlock()
		if has {
			f.FailOn[f.NumCalls()] = !ok
		}
	}
	f.Log = func(ev string) {
		name := s.Name()
		mu.Lock()
		defer mu.Unlock()
		tid := tidOf(name)
		parts := strings.Split(ev, ":")
		switch parts[0] {
		case "w":
			kind := 0
			if o := cur[name]; o != nil && o.kind == "H" {
				kind = 1
			}
			b := unhx(parts[2])
			var n, id int
			fmt.Sscan(parts[3], &n)
			fmt.Sscan(parts[1], &id)
			res.writes[id] = append(res.writes[id], b[:n])
			if n < len(b) {
				res.partial = append(res.partial, b[:n])
			}
			res.events = append(res.events, fmt.Sprintf("%d:%d:%s:%s", tid, kind, parts[1], parts[2]))
		case "n1":
			res.events = append(res.events, fmt.Sprintf("%d:2:%s", tid, parts[1]))
		case "n0":
			res.events = append(res.events, fmt.Sprintf("%d:3:%s", tid, parts[1]))
		case "c":
			res.events = append(res.events, fmt.Sprintf("%d:4:%s", tid, parts[1]))
		case "d":
			res.events = append(res.events, fmt.Sprintf("%d:5:%s", tid, parts[1]))
		}
	}
	f.Setup = func(c *fakes.Conn) {
		if cf.key != nil {
			c.Script = []fakes.ReadStep{{Data: mustMarshal(&protocol.Helo{MessageType: "HELO", Options: &protocol.HeloOpts{Nonce: nonce, Auth: []byte{}, Keepalive: true}})}}
		}
		c.Hook = func(c *fakes.Conn, op string) {
			if op == "write" || op == "close" || op == "setreaddeadline" {
				s.Yield(op)
			}
		}
		c.OnWrite = func(idx int, b []byte) (int, error) {
			name := s.Name()
			mu.Lock()
			o := cur[name]
			mu.Unlock()
			if o != nil && o.kind == "S" && cf.ack {
				ch := o.chunk
				if !o.ackOK {
					ch = append(append([]byte{}, o.chunk...), '!')
				}
				c.SetScriptInWrite([]fakes.ReadStep{{Data: ackBytes(ch), Delay: o.ackDelay}})
			}
			if o != nil && (o.kind == "S" || o.kind == "W") && o.wfail {
				mu.Lock()
				first := !wfailed[o]
				wfailed[o] = true // only the first Write of the call meets the fault
				mu.Unlock()
				if first {
					return o.wacc, netFault{temporary: true}
				}
			}
			if o != nil && o.kind == "H" {
				key := cf.key
				if !o.hsGood {
					key = append(append([]byte{}, cf.key...), 'x')
				}
				c.SetScriptInWrite([]fakes.ReadStep{{Data: mustMarshal(&protocol.Pong{MessageType: "PONG", AuthResult: true, ServerHostname: string(shost),
					SharedKeyHexDigest: sha512hex(hsSalt, shost, nonce, key)})}})
			}
			return len(b), nil
		}
	}
	cl := client.New(client.ConnectionOptions{Factory: f, RequireAck: cf.ack, AuthInfo: client.AuthInfo{SharedKey: cf.key}})
	cl.Hostname = string(cf.host)
	cl.Timeout = cf.timeout
	old := crand.Reader
	defer func() { crand.Reader = old }()
	call := func(name string, o *concOp) string {
		mu.Lock()
		cur[name] = o
		mu.Unlock()
		var err error
		switch o.kind {
		case "S":
			if o.call != nil {
				err = o.call(cl)
			} else {
				err = cl.Send(o.msg)
			}
		case "W":
			err = cl.SendRaw(o.raw)
		case "C":
			dialMu.Lock()
			dialPlan[name] = o.dialOK
			dialMu.Unlock()
			err = cl.Connect()
		case "D":
			_ = cl.Disconnect()
		case "R":
			dialMu.Lock()
			dialPlan[name] = o.dialOK
			dialMu.Unlock()
			err = cl.Reconnect()
		case "T":
			if cl.TransportPhase() {
				return "true"
			}
			return "false"
		case "H":
			crand.Reader = &detRand{rand.New(rand.NewSource(hsSaltSeed))}
			err = cl.Handshake()
		}
		if err != nil {
			return "err"
		}
		return "ok"
	}
	for i := range prefix {
		call("", &prefix[i])
	}
	// the prefix is not part of the observed trace
	mu.Lock()
	res.pre = res.events
	res.events = nil
	res.writes = map[int][][]byte{}
	mu.Unlock()
	for w := range progs {
		w := w
		name := fmt.Sprintf("w%d", w)
		s.Go(name, func() {
			for i := range progs[w] {
				r := call(name, &progs[w][i])
				mu.Lock()
				res.rets[w] = append(res.rets[w], r)
				mu.Unlock()
			}
		})
	}
	t0 := time.Now()
	if free {
		res.stuck = !s.WaitDone(5 * time.Second)
	} else {
		res.widths, res.stuck = s.Run(sched.PickFrom(choices), timerWait)
	}
	res.elapsed = time.Since(t0)
	s.Release()
	res.panics = s.Panics
	res.strace = s.Trace
	res.picks, res.starved = picksOf(s), s.Starve
	return res
}

func concPing(cf ccfg) []byte {
	salt := make([]byte, 16)
	rand.New(rand.NewSource(hsSaltSeed)).Read(salt)
	p, _ := protocol.NewPing(string(cf.host), cf.key, salt, []byte{9, 8, 7})
	return mustMarshal(p)
}

func renderProgs(cf ccfg, progs [][]concOp) string {
	ps := make([]string, len(progs))
	for i, p := range progs {
		os := make([]string, len(p))
		for j, o := range p {
			os[j] = o.model(cf)
		}
		ps[i] = strings.Join(os, ";")
		if len(p) == 0 {
			ps[i] = "-"
		}
	}
	return strings.Join(ps, "/")
}

func renderRets(rets [][]string) string {
	ps := make([]string, len(rets))
	for i, r := range rets {
		ps[i] = strings.Join(r, ",")
		if len(r) == 0 {
			ps[i] = "-"
		}
	}
	return strings.Join(ps, "/")
}

// splitWhole: can wire be written as a concatenation of messages drawn (each at most
// once) from cands, using every message of must exactly once?  Backtracking.
func splitWhole(wire []byte, cands [][]byte, must []bool) bool {
	if len(wire) == 0 {
		for _, m := range must {
			if m {
				return false
			}
		}
		return true
	}
	for i, c := range cands {
		if c == nil || len(c) == 0 || !bytes.HasPrefix(wire, c) {
			continue
		}
		saved, sm := cands[i], must[i]
		cands[i], must[i] = nil, false
		ok := splitWhole(wire[len(c):], cands, must)
		cands[i], must[i] = saved, sm
		if ok {
			return true
		}
	}
	return false
}

// concExplore enumerates the schedules of one configuration, compares each with the model
// and applies the Go-side judges.  judge is called per schedule.
func concExplore(c *core.Ctx, sig string, cf ccfg, prefix []concOp, progs [][]concOp, max int, note string,
	judge func(run concRun, replay map[string]interface{})) (n int, exhaustive bool) {
	prefixModel := "-"
	if len(prefix) > 0 {
		ps := make([]string, len(prefix))
		for i, o := range prefix {
			ps[i] = o.model(cf)
		}
		prefixModel = strings.Join(ps, ";")
	}
	distinct := map[string]bool{}
	n, exhaustive = explore(c, max, func(choices []int) []int {
		c.InFlight(map[string]interface{}{"cfg": cf.model(), "prefix": prefixModel, "programs": renderProgs(cf, progs), "choices": fmt.Sprint(choices), "note": note})
		run := runConc(cf, prefix, progs, choices, 300*time.Millisecond)
		choices = effective(choices, run.picks)
		c.Eval()
		tr := strings.Join(run.events, ";")
		distinct[tr] = true
		replay := map[string]interface{}{"cfg": cf.model(), "prefix": prefixModel, "programs": renderProgs(cf, progs), "choices": fmt.Sprint(choices),
			"schedule": trunc(sched.RenderTrace(run.strace), 600), "events": trunc(tr, 600), "results": renderRets(run.rets), "note": note}
		if run.starved != "" {
			replay["starved"] = run.starved + " is not resumed while parked at an I/O event (stalled underlying call), for up to 3 close deadlines"
		}
		for name, p := range run.panics {
			c.Violation("panic", sig+"-panic", fmt.Sprintf("worker %s panicked: %v (%s)", name, p, note), replay)
		}
		if run.stuck {
			c.Violation("deadlock", sig+"-stuck", "no goroutine can move although calls are pending ("+note+")", replay)
		}
		c.Corr(sig+"-trace", "conc_check", []string{cf.model(), prefixModel, renderProgs(cf, progs), tr, renderRets(run.rets)}, "ok")
		c.Judge(sig+"-discipline", "judge_ctrace", []string{"x" + strings.Join(append(append([]string{}, run.pre...), run.events...), ";")}, "connection discipline of the observed concurrent trace ("+note+")")
		if judge != nil {
			judge(run, replay)
		}
		return run.widths
	})
	c.Hist(fmt.Sprintf("%s: %d schedules, %d distinct traces, exhaustive=%v", note, n, len(distinct), exhaustive))
	for tr := range distinct {
		c.Distinct(note + tr)
	}
	return n, exhaustive
}
