package props

import (
	"bytes"
	"encoding/base64"
	"errors"
	"fmt"
	"math/rand"
	"sort"
	"strings"
	"sync"

	"github.com/google/uuid"

	"github.com/IBM/fluent-forward-go/fluent/protocol"

	"verif/harness/core"
)

func init() { All["C12"] = C12 }

// countingRand is the deterministic random source installed with uuid.SetRand.
type countingRand struct {
	mu   sync.Mutex
	r    *rand.Rand
	read int
	log  []byte
}

func (d *countingRand) Read(b []byte) (int, error) {
	d.mu.Lock()
	defer d.mu.Unlock()
	d.r.Read(b)
	d.read += len(b)
	d.log = append(d.log, b...)
	return len(b), nil
}

// alignPool draws ids until uuid's 256-byte pool has just been refilled from src: the id
// that triggered the refill used window 0 of src's stream; returns how many windows of the
// stream have been consumed (1).
func alignPool(src *countingRand) {
	for src.read == 0 {
		uuid.New()
	}
}

func expectedID(window []byte) string {
	b := append([]byte{}, window...)
	b[6] = b[6]&0x0f | 0x40
	b[8] = b[8]&0x3f | 0x80
	return base64.StdEncoding.EncodeToString(b)
}

func chunkable(mode string, opts *protocol.MessageOptions) protocol.ChunkEncoder {
	switch mode {
	case "message":
		return &protocol.Message{Tag: "t", Timestamp: 1, Record: map[string]interface{}{"k": "v"}, Options: opts}
	case "message_ext":
		return &protocol.MessageExt{Tag: "t", Timestamp: protocol.EventTimeNow(), Record: map[string]interface{}{"k": "v"}, Options: opts}
	case "forward":
		return &protocol.ForwardMessage{Tag: "t", Entries: protocol.EntryList{{Timestamp: protocol.EventTimeNow(), Record: map[string]interface{}{"k": "v"}}}, Options: opts}
	case "packed":
		return &protocol.PackedForwardMessage{Tag: "t", EventStream: []byte{0x92, 0xd7, 0, 0, 0, 0, 1, 0, 0, 0, 0, 0x80}, Options: opts}
	}
	panic(mode)
}

func optsOf(m protocol.ChunkEncoder) *protocol.MessageOptions {
	switch t := m.(type) {
	case *protocol.Message:
		return t.Options
	case *protocol.MessageExt:
		return t.Options
	case *protocol.ForwardMessage:
		return t.Options
	case *protocol.PackedForwardMessage:
		return t.Options
	}
	return nil
}

// C12: chunk ids are fresh per message, stable once assigned, carried on the wire.
func C12(c *core.Ctx) {
	r := c.Rng
	defer uuid.SetRand(nil)
	src := &countingRand{r: rand.New(rand.NewSource(c.Seed))}
	uuid.SetRand(src)
	alignPool(src)
	next := 1 // windows of src.log consumed so far
	window := func(k int) []byte { return src.log[16*k : 16*k+16] }
	modes := []string{"message", "message_ext", "forward", "packed"}
	// (a) sequential: exact ids, stability, preservation, on the wire
	for i := 0; i < c.N(150, 5000); i++ {
		mode := modes[r.Intn(4)]
		var opts *protocol.MessageOptions
		preset := ""
		switch r.Intn(4) {
		case 1:
			opts = &protocol.MessageOptions{}
		case 2:
			sz := r.Intn(100)
			opts = &protocol.MessageOptions{Size: &sz, Compressed: "gzip"}
		case 3:
			preset = fmt.Sprintf("preset-%d", r.Intn(1000))
			switch r.Intn(6) { // ids relayed from other senders: base64 with a trailing newline, padded, blank
			case 0:
				preset += "\n"
			case 1:
				preset = " " + preset + "\t"
			case 2:
				preset = []string{" ", "\n", "\t \r\n"}[r.Intn(3)]
			}
			opts = &protocol.MessageOptions{Chunk: preset}
		}
		m := chunkable(mode, opts)
		id, err := m.Chunk()
		c.Eval()
		c.Hist(fmt.Sprintf("%s preset=%v optsnil=%v", mode, preset != "", opts == nil))
		replay := map[string]interface{}{"mode": mode, "preset": preset, "id": id}
		if err != nil {
			c.Violation("judge-go", "c12-chunk-error", "Chunk() failed", replay)
			continue
		}
		if preset != "" {
			if id != preset {
				c.Violation("judge-go", "c12-preset", "a caller-supplied chunk id was not preserved", replay)
			}
		} else {
			for len(src.log) < 16*(next+1) { // the pool refills in 256-byte batches
				break
			}
			w := window(next)
			next++
			c.Distinct(id)
			c.Corr("c12-id", "chunk_id", []string{hx(w)}, id)
			if id != expectedID(w) {
				c.Violation("judge-go", "c12-id", "generated id is not base64(v4-masked next 16 random bytes)", replay)
			}
		}
		// stability: repeated calls agree, interleaved with encodings; every encoding carries the id
		for k := 0; k < 3; k++ {
			id2, _ := m.Chunk()
			if id2 != id {
				c.Violation("judge-go", "c12-unstable", "a second Chunk() call returned another id", replay)
			}
			var enc []byte
			if k%2 == 0 {
				enc, _ = marshal(m.(codecMsg))
			} else {
				enc, _ = encode(m.(codecMsg))
			}
			c.Judge("c12-on-wire", "judge_chunk", []string{hx(enc), "ok(" + hx([]byte(id)) + ")"}, "chunk option found by the specification parser in an encoding made after Chunk() ("+mode+")")
		}
		if o := optsOf(m); o == nil || o.Chunk != id {
			c.Violation("judge-go", "c12-field", "Options.Chunk does not hold the id Chunk() returned", replay)
		}
		if i < 3 {
			c.Sample(replay)
		}
	}
	// (b) concurrent generation against the deterministic stream: the ids handed out are
	//     exactly the ids of the next windows, each once
	for _, workers := range []int{2, 4, 16} {
		per := c.N(64, 2000)
		ids := make([][]string, workers)
		var wg sync.WaitGroup
		for w := 0; w < workers; w++ {
			w := w
			wg.Add(1)
			go func() {
				defer wg.Done()
				for k := 0; k < per; k++ {
					m := chunkable(modes[(w+k)%4], nil)
					id, _ := m.Chunk()
					ids[w] = append(ids[w], id)
				}
			}()
		}
		wg.Wait()
		var got, want []string
		for _, l := range ids {
			got = append(got, l...)
		}
		for k := 0; k < workers*per; k++ {
			want = append(want, expectedID(window(next+k)))
		}
		next += workers * per
		sort.Strings(got)
		sort.Strings(want)
		c.Eval()
		c.Hist(fmt.Sprintf("concurrent %d goroutines x %d ids", workers, per))
		same := len(got) == len(want)
		for i := 0; same && i < len(got); i++ {
			same = got[i] == want[i]
		}
		if !same {
			c.Violation("judge-go", "c12-concurrent-windows", fmt.Sprintf("%d goroutines: the ids handed out are not exactly the ids of the next %d windows of the random stream", workers, workers*per), nil)
		}
		for i := 1; i < len(got); i++ {
			if got[i] == got[i-1] {
				c.Violation("judge-go", "c12-duplicate", "two messages received the same chunk id", map[string]string{"id": got[i]})
				break
			}
		}
	}
	// (a') messages as the CONSTRUCTORS build them, several of each kind alive at once: every one gets its own id, a
	// new one has none before it is asked, an id supplied by the caller on one is not seen on the others, and each
	// encoding carries the id of its own message
	{
		el := protocol.EntryList{{Timestamp: protocol.EventTimeNow(), Record: map[string]interface{}{"k": "v"}}}
		ctors := map[string]func() protocol.ChunkEncoder{
			"NewMessage":              func() protocol.ChunkEncoder { return protocol.NewMessage("t", map[string]interface{}{"k": "v"}) },
			"NewMessageExt":           func() protocol.ChunkEncoder { return protocol.NewMessageExt("t", map[string]interface{}{"k": "v"}) },
			"NewForwardMessage":       func() protocol.ChunkEncoder { return protocol.NewForwardMessage("t", el) },
			"NewPackedForwardMessage": func() protocol.ChunkEncoder { m, _ := protocol.NewPackedForwardMessage("t", el); return m },
			"NewPackedForwardMessageFromBytes": func() protocol.ChunkEncoder {
				return protocol.NewPackedForwardMessageFromBytes("t", []byte{0x92, 0xd7, 0, 0, 0, 0, 1, 0, 0, 0, 0, 0x80})
			},
			"NewCompressedPackedForwardMessage": func() protocol.ChunkEncoder { m, _ := protocol.NewCompressedPackedForwardMessage("t", el); return m },
			"NewCompressedPackedForwardMessageFromBytes": func() protocol.ChunkEncoder {
				m, _ := protocol.NewCompressedPackedForwardMessageFromBytes("t", []byte{0x92, 0xd7, 0, 0, 0, 0, 1, 0, 0, 0, 0, 0x80})
				return m
			},
		}
		names := make([]string, 0, len(ctors))
		for n := range ctors {
			names = append(names, n)
		}
		sort.Strings(names)
		for _, name := range names {
			mk := ctors[name]
			a, b := mk(), mk()
			ida, erra := a.Chunk()
			idb, errb := b.Chunk()
			third := mk()
			c.Eval()
			c.Hist("constructed " + name)
			replay := map[string]interface{}{"constructor": name, "id_a": ida, "id_b": idb}
			if erra != nil || errb != nil || ida == "" || idb == "" {
				c.Violation("judge-go", "c12-constructed", "Chunk() failed on a constructed message ("+name+")", replay)
				continue
			}
			if ida == idb {
				c.Violation("judge-go", "c12-duplicate", "two messages built by "+name+" received the same chunk id", replay)
			}
			if o := optsOf(third); o != nil && o.Chunk != "" {
				c.Violation("judge-go", "c12-born-with-chunk", "a message just built by "+name+" already carries the chunk id "+o.Chunk, replay)
			}
			if o := optsOf(third); o == nil {
				setOpts(third, &protocol.MessageOptions{Chunk: "caller-supplied-id"})
			} else {
				o.Chunk = "caller-supplied-id"
			}
			if id, _ := third.Chunk(); id != "caller-supplied-id" {
				c.Violation("judge-go", "c12-caller-id", "a caller-supplied chunk id was not kept ("+name+")", replay)
			}
			for _, x := range []struct {
				m    protocol.ChunkEncoder
				want string
			}{{a, ida}, {b, idb}} {
				if again, _ := x.m.Chunk(); again != x.want {
					c.Violation("judge-go", "c12-stable", "the chunk id of a message changed after another message of the same kind got its own ("+name+")", replay)
				}
				enc, _ := x.m.(interface{ MarshalMsg([]byte) ([]byte, error) }).MarshalMsg(nil)
				if got, err := protocol.GetChunk(enc); err != nil || got != x.want {
					c.Violation("judge-go", "c12-wire", "the encoding of a constructed message does not carry its own chunk id ("+name+")", replay)
				}
			}
		}
	}
	c12OptionHistories(c)
	c12ReceiveLoop(c)
	// (b') the random source fails for a while (the process is out of file descriptors, the entropy device errors):
	// a Chunk() call during the outage fails one way or another (uuid.New panics), but no message may end up with
	// an id that was not drawn from the source: when the source is back every message gets its own fresh id, and
	// messages that went through the outage do not share one
	for _, mode := range []string{"message", "message_ext", "forward", "packed"} {
		fr := &failingRand{}
		uuid.SetRand(fr)
		// drain the pool uuid still holds from the previous source
		for i := 0; i < 20; i++ {
			safely(func() { uuid.New() })
		}
		fr.fail = true
		var through []protocol.ChunkEncoder
		for k := 0; k < 3; k++ {
			m := chunkable(mode, nil)
			safely(func() { _, _ = m.Chunk() })
			through = append(through, m)
		}
		fr.fail = false
		ids := map[string]bool{}
		for _, m := range append(through, chunkable(mode, nil), chunkable(mode, nil)) {
			var id string
			var err error
			if p := safely(func() { id, err = m.Chunk() }); p != nil || err != nil || id == "" {
				c.Violation("judge-go", "c12-after-outage", fmt.Sprintf("Chunk() fails once the random source works again (%s): %v %v", mode, p, err), nil)
				continue
			}
			if ids[id] {
				c.Violation("judge-go", "c12-duplicate", "two messages carry the same chunk id after an outage of the random source ("+mode+")", map[string]string{"id": id})
			}
			ids[id] = true
			if raw, derr := base64.StdEncoding.DecodeString(id); derr != nil || len(raw) != 16 || bytes.Equal(raw, make([]byte, 16)) || !fr.handedOut(raw) {
				c.Violation("judge-go", "c12-not-drawn", "a chunk id that was not drawn from the random source ("+mode+")", map[string]string{"id": id})
			}
		}
		c.Eval()
		c.Hist("random source outage " + mode)
	}
	// (c) the real random source: no duplicates among many ids from 16 goroutines
	uuid.SetRand(nil)
	{
		workers, per := 16, c.N(4000, 60000)
		seen := make([]map[string]bool, workers)
		var wg sync.WaitGroup
		for w := 0; w < workers; w++ {
			w := w
			seen[w] = map[string]bool{}
			wg.Add(1)
			go func() {
				defer wg.Done()
				for k := 0; k < per; k++ {
					m := &protocol.Message{Tag: "t"}
					id, _ := m.Chunk()
					seen[w][id] = true
				}
			}()
		}
		wg.Wait()
		all := map[string]bool{}
		n := 0
		for _, s := range seen {
			for id := range s {
				all[id] = true
				n++
				if len(id) != 24 {
					c.Violation("judge-go", "c12-shape", "id is not 24 base64 characters", map[string]string{"id": id})
				}
			}
		}
		c.Eval()
		c.Extra("ids_from_real_random_source", workers*per)
		if len(all) != workers*per {
			c.Violation("judge-go", "c12-duplicate", fmt.Sprintf("%d ids from 16 goroutines contain duplicates (%d distinct)", workers*per, len(all)), nil)
		}
	}
}

// failingRand: a random source that can be switched to failing; it remembers every 16-byte window it handed out.
type failingRand struct {
	fail bool
	n    uint64
	out  [][]byte
	mu   sync.Mutex
}

func (f *failingRand) Read(b []byte) (int, error) {
	f.mu.Lock()
	defer f.mu.Unlock()
	if f.fail {
		return 0, errors.New("fake: random source unavailable")
	}
	for i := range b {
		f.n = f.n*6364136223846793005 + 1442695040888963407
		b[i] = byte(f.n >> 56)
	}
	f.out = append(f.out, append([]byte{}, b...))
	return len(b), nil
}

// handedOut: is id (with the version/variant bits masked) a 16-byte window of what the source produced?
func (f *failingRand) handedOut(id []byte) bool {
	f.mu.Lock()
	defer f.mu.Unlock()
	mask := func(w []byte) []byte {
		x := append([]byte{}, w...)
		x[6] = x[6]&0x0f | 0x40
		x[8] = x[8]&0x3f | 0x80
		return x
	}
	for _, chunk := range f.out {
		for off := 0; off+16 <= len(chunk); off += 16 {
			if bytes.Equal(mask(chunk[off:off+16]), id) {
				return true
			}
		}
	}
	return false
}

func setOpts(m protocol.ChunkEncoder, o *protocol.MessageOptions) {
	switch t := m.(type) {
	case *protocol.Message:
		t.Options = o
	case *protocol.MessageExt:
		t.Options = o
	case *protocol.ForwardMessage:
		t.Options = o
	case *protocol.PackedForwardMessage:
		t.Options = o
	}
}

// c12OptionHistories: histories of constructor calls, Chunk() calls, caller-supplied ids and edits of the size
// option over several live messages, against the option-object model (coq/model/OptCells.v): what a caller
// sees of EVERY message's options after the history must be the model's (ids numbered in order of generation).
func c12OptionHistories(c *core.Ctx) {
	r := c.Rng
	uuid.SetRand(nil)
	el := protocol.EntryList{{Timestamp: protocol.EventTimeNow(), Record: map[string]interface{}{"k": "v"}}}
	raw := []byte{0x92, 0xd7, 0, 0, 0, 0, 1, 0, 0, 0, 0, 0x80}
	type ctor struct {
		kind string
		mk   func() protocol.ChunkEncoder
	}
	ctors := []ctor{
		{"p", func() protocol.ChunkEncoder { return protocol.NewMessage("t", map[string]interface{}{"k": "v"}) }},
		{"p", func() protocol.ChunkEncoder { return protocol.NewMessageExt("t", map[string]interface{}{"k": "v"}) }},
		{"p", func() protocol.ChunkEncoder { return protocol.NewPackedForwardMessageFromBytes("t", raw) }},
		{"s", func() protocol.ChunkEncoder { return protocol.NewForwardMessage("t", el) }},
		{"s", func() protocol.ChunkEncoder { m, _ := protocol.NewPackedForwardMessage("t", el); return m }},
		{"g", func() protocol.ChunkEncoder {
			m, _ := protocol.NewCompressedPackedForwardMessageFromBytes("t", raw)
			return m
		}},
		{"b", func() protocol.ChunkEncoder { m, _ := protocol.NewCompressedPackedForwardMessage("t", el); return m }},
	}
	for h := 0; h < c.N(120, 4000); h++ {
		var msgs []protocol.ChunkEncoder
		var ops []string
		gen := map[string]int{}     // generated id -> its number
		caller := map[string]bool{} // ids the caller supplied
		n := 3 + r.Intn(9)
		for i := 0; i < n; i++ {
			switch k := r.Intn(6); {
			case k <= 1 || len(msgs) == 0:
				ct := ctors[r.Intn(len(ctors))]
				if h%3 == 0 { // histories dominated by one constructor: several messages of the same kind alive
					ct = ctors[(h/3)%len(ctors)]
				}
				msgs = append(msgs, ct.mk())
				ops = append(ops, "N"+ct.kind)
			case k <= 3:
				m := r.Intn(len(msgs))
				id, err := msgs[m].Chunk()
				if err != nil || id == "" {
					c.Violation("judge-go", "c12-constructed", "Chunk() failed on a constructed message", nil)
					continue
				}
				if _, seen := gen[id]; !seen && !caller[id] {
					gen[id] = len(gen)
				}
				ops = append(ops, fmt.Sprintf("C%d", m))
			case k == 4:
				m := r.Intn(len(msgs))
				id := fmt.Sprintf("caller-%d-%d", h, i)
				caller[id] = true
				if o := optsOf(msgs[m]); o == nil {
					setOpts(msgs[m], &protocol.MessageOptions{Chunk: id})
				} else {
					o.Chunk = id
				}
				ops = append(ops, fmt.Sprintf("S%d,x%s", m, hx([]byte(id))))
			default:
				m := r.Intn(len(msgs))
				if o := optsOf(msgs[m]); o != nil {
					o.Size = nil
				}
				ops = append(ops, fmt.Sprintf("Z%d", m))
			}
		}
		view := make([]string, len(msgs))
		for i, m := range msgs {
			o := optsOf(m)
			if o == nil {
				view[i] = "-"
				continue
			}
			id := "-"
			if o.Chunk != "" {
				if k, ok := gen[o.Chunk]; ok {
					id = fmt.Sprintf("#%d", k)
				} else {
					id = "x" + hx([]byte(o.Chunk))
				}
			}
			view[i] = b01(o.Size != nil) + b01(o.Compressed == "gzip") + ":" + id
		}
		c.Eval()
		c.Hist(fmt.Sprintf("option history of %d operations over %d messages", len(ops), len(msgs)))
		c.Distinct("opt " + strings.Join(ops, ";"))
		c.Corr("c12-options", "optcells_run", []string{strings.Join(ops, ";")}, strings.Join(view, ","))
	}
}

// c12ReceiveLoop: messages that arrive through the decoders (a relay): one receiver is decoded into again and again,
// each decoded message is kept BY VALUE (queue = append(queue, *m)); afterwards every kept message still has the id
// it arrived with (or, if it arrived without one, gets a fresh one of its own) and encodes with it.
func c12ReceiveLoop(c *core.Ctx) {
	r := c.Rng
	for _, mode := range []string{"message", "message_ext", "forward", "packed"} {
		for _, path := range paths {
			recv := newReceiver(mode)
			var kept []protocol.ChunkEncoder
			var ids []string
			for k := 0; k < 6; k++ {
				id := ""
				var opts *protocol.MessageOptions
				switch k % 3 {
				case 0:
					id = fmt.Sprintf("arrived-%s-%d-%d", mode, k, r.Intn(1000))
					opts = &protocol.MessageOptions{Chunk: id}
				case 1:
					opts = &protocol.MessageOptions{Compressed: "gzip"} // options, but no id yet
				}
				src := chunkable(mode, opts)
				b, _ := src.(codecMsg).MarshalMsg(nil)
				if cl, _ := decodeObs(path, recv, b); cl != "ok" {
					c.Violation("judge-go", "c12-receive-loop", "a well-formed message was rejected", map[string]interface{}{"mode": mode, "path": path})
					continue
				}
				// keep the decoded message by value
				var cp protocol.ChunkEncoder
				switch t := recv.(type) {
				case *protocol.Message:
					v := *t
					cp = &v
				case *protocol.MessageExt:
					v := *t
					cp = &v
				case *protocol.ForwardMessage:
					v := *t
					cp = &v
				case *protocol.PackedForwardMessage:
					v := *t
					cp = &v
				}
				kept = append(kept, cp)
				ids = append(ids, id)
			}
			seen := map[string]int{}
			for k, m := range kept {
				got, err := m.Chunk()
				again, _ := m.Chunk()
				c.Eval()
				replay := map[string]interface{}{"mode": mode, "path": path, "position": k, "arrived_with": ids[k], "chunk": got}
				if err != nil || got == "" || got != again || (ids[k] != "" && got != ids[k]) {
					c.Violation("judge-go", "c12-receive-loop", fmt.Sprintf("message %d kept by value from a receive loop (%s, %s) arrived with chunk %q; Chunk() now returns %q, then %q (err %v)", k, mode, path, ids[k], got, again, err), replay)
				}
				if prev, dup := seen[got]; dup {
					c.Violation("judge-go", "c12-duplicate", fmt.Sprintf("messages %d and %d kept from a receive loop have the same chunk id %q", prev, k, got), replay)
				}
				seen[got] = k
				if enc, e := m.(codecMsg).MarshalMsg(nil); e == nil {
					if onWire, _ := protocol.GetChunk(enc); onWire != got {
						c.Violation("judge-go", "c12-wire", fmt.Sprintf("message %d kept from a receive loop encodes with chunk %q, Chunk() said %q", k, onWire, got), replay)
					}
				}
			}
			c.Hist("receive loop, messages kept by value")
		}
	}
}
