package props

import (
	"fmt"
	"strings"
	"time"

	"github.com/IBM/fluent-forward-go/fluent/protocol"
	"github.com/tinylib/msgp/msgp"

	"verif/harness/core"
)

func init() { All["C04"] = C04 }

// ackScript is one behaviour of the peer after it received the message.
type ackScript struct {
	name   string
	resp   func(chunk []byte) []byte
	silent bool
	delay  time.Duration
	frag   int
	wantOK bool
}

func mapMsg(kv ...interface{}) []byte {
	b := msgp.AppendMapHeader(nil, uint32(len(kv)/2))
	for i := 0; i < len(kv); i += 2 {
		b = msgp.AppendString(b, kv[i].(string))
		b, _ = msgp.AppendIntf(b, kv[i+1])
	}
	return b
}

func ackScripts(timeout time.Duration) []ackScript {
	s := []ackScript{
		{name: "matching", resp: ackBytes, wantOK: true},
		{name: "matching-bytewise", resp: ackBytes, frag: 1, wantOK: true},
		{name: "matching-frag3", resp: ackBytes, frag: 3, wantOK: true},
		{name: "matching-late", resp: ackBytes, delay: timeout / 3, wantOK: true},
		{name: "matching-then-silent", resp: ackBytes, silent: true, wantOK: true},
		{name: "matching-str8-encoded", resp: func(c []byte) []byte {
			b := []byte{0x81, 0xd9, 3, 'a', 'c', 'k', 0xda, byte(len(c) >> 8), byte(len(c))}
			return append(b, c...)
		}, wantOK: true},
		{name: "matching-extra-key-before", resp: func(c []byte) []byte { return mapMsg("x", int64(1), "ack", string(c)) }, wantOK: true},
		{name: "matching-extra-key-after", resp: func(c []byte) []byte { return mapMsg("ack", string(c), "y", []interface{}{int64(1), "z"}) }, wantOK: true},
		{name: "other-chunk", resp: func(c []byte) []byte { return ackBytes(append(append([]byte{}, c...), 'x')) }},
		{name: "prefix-chunk", resp: func(c []byte) []byte { return ackBytes(c[:len(c)-1]) }},
		{name: "empty-ack", resp: func(c []byte) []byte { return ackBytes(nil) }},
		{name: "no-ack-key", resp: func(c []byte) []byte { return mapMsg("x", int64(1)) }},
		{name: "empty-map", resp: func(c []byte) []byte { return []byte{0x80} }},
		{name: "ack-not-string", resp: func(c []byte) []byte { return mapMsg("ack", int64(7)) }},
		{name: "nil", resp: func(c []byte) []byte { return []byte{0xc0} }},
		{name: "array", resp: func(c []byte) []byte {
			return append([]byte{0x92, 0xa3, 'a', 'c', 'k'}, msgp.AppendString(nil, string(c))...)
		}},
		{name: "garbage", resp: func(c []byte) []byte { return []byte{0xc1, 0xff, 0x00, 0x81} }},
		{name: "eof", resp: func(c []byte) []byte { return nil }},
		{name: "silence", resp: func(c []byte) []byte { return nil }, silent: true},
	}
	return s
}

// C04: with acknowledgements required, Send succeeds exactly when the peer acknowledges
// this message's chunk.
func C04(c *core.Ctx) {
	r := c.Rng
	timeout := 150 * time.Millisecond
	slack := 250 * time.Millisecond
	cf := ccfg{host: []byte("h"), ack: true, timeout: timeout}
	scripts := ackScripts(timeout)
	kinds := append([]string{}, sendKinds...)
	run := func(kind string, preset bool, sc ackScript, extra string) {
		chunk := ""
		if preset {
			chunk = fmt.Sprintf("chunk-%d", r.Intn(1000))
		}
		m := sizedMessage(r, kind, []int{10, 300, 2500}[r.Intn(3)], chunk)
		o := mkSend(cf, m, -1)
		if o.chunkErr {
			return
		}
		o.resp = sc.resp(o.chunk)
		o.silent, o.delay, o.frag = sc.silent, sc.delay, sc.frag
		note := fmt.Sprintf("%s preset=%v peer=%s%s", kind, preset, sc.name, extra)
		rs := sendCase(c, "c04", cf, []cop{o}, note)
		x := rs[1]
		c.Hist(fmt.Sprintf("peer=%s -> %s", sc.name, x.ret))
		c.Distinct(note)
		replay := map[string]interface{}{"kind": kind, "peer": sc.name, "chunk": string(o.chunk), "resp": hx(o.resp), "ret": x.ret, "events": trunc(strings.Join(x.events, ","), 300)}
		if sc.wantOK && x.ret != "ok" {
			c.Violation("judge-go", "c04-matching-rejected", "a conforming matching ack was not accepted ("+note+")", replay)
		}
		if !sc.wantOK && x.ret == "ok" {
			c.Violation("judge-go", "c04-false-success:"+sc.name, "Send succeeded although the peer did not acknowledge this chunk ("+note+")", replay)
		}
		if x.ret == "ok" {
			// independent judgement: the wire carries chunk c and the response is an ack map with ack = c
			c.Judge("c04-ack-success", "judge_ack_success", []string{hx(o.enc), hx(o.resp)}, "success: spec chunk of the wire bytes = ack value of the response ("+note+")")
		}
		if x.dur > timeout+slack {
			c.Violation("judge-go", "c04-slow", fmt.Sprintf("Send took %v with a %v timeout (%s)", x.dur, timeout, note), replay)
		}
		if sc.silent && !sc.wantOK && x.dur < timeout-20*time.Millisecond {
			c.Hist("silence returned early")
		}
	}
	// long chunk ids (caller-supplied ids may be any string): the ack is then longer than any
	// small fixed read buffer
	for _, n := range []int{30, 57, 58, 64, 100, 300, 3000} {
		id := strings.Repeat("k", n)
		for _, sc := range scripts {
			if sc.silent || sc.delay > 0 || !(sc.name == "matching" || sc.name == "matching-bytewise" || sc.name == "other-chunk" || sc.name == "matching-extra-key-before") {
				continue
			}
			m := sizedMessage(r, "message", 10, id)
			o := mkSend(cf, m, -1)
			o.resp = sc.resp(o.chunk)
			o.frag = sc.frag
			note := fmt.Sprintf("chunk id of %d bytes, peer=%s", n, sc.name)
			rs := sendCase(c, "c04", cf, []cop{o}, note)
			c.Hist("long chunk id peer=" + sc.name + " -> " + rs[1].ret)
			if (rs[1].ret == "ok") != sc.wantOK {
				c.Violation("judge-go", "c04-long-chunk", fmt.Sprintf("Send returned %s (%s)", rs[1].ret, note), map[string]interface{}{"chunk_len": n, "peer": sc.name})
			}
			if rs[1].dur > timeout+slack {
				c.Violation("judge-go", "c04-slow", fmt.Sprintf("Send took %v with a %v timeout (%s)", rs[1].dur, timeout, note), nil)
			}
		}
	}
	// the same chunk id again: an ack seen for an EARLIER send must not count for a later one
	for _, kind := range kinds {
		id := "again-" + kind
		var ops []cop
		plan := []string{"matching", "no-ack-key", "empty-map", "matching", "nil", "eof"}
		for _, name := range plan {
			var sc ackScript
			for _, x := range scripts {
				if x.name == name {
					sc = x
				}
			}
			o := mkSend(cf, sizedMessage(r, kind, 10, id), -1)
			o.resp = sc.resp(o.chunk)
			ops = append(ops, o)
		}
		rs := sendCase(c, "c04", cf, ops, "six sends carrying the SAME chunk id ("+kind+"): ack, no ack key, {}, ack, nil, EOF")
		c.Hist("same chunk id resent")
		for i, name := range plan {
			if (rs[i+1].ret == "ok") != (name == "matching") {
				c.Violation("judge-go", "c04-stale-ack", fmt.Sprintf("send %d (peer=%s) of a sequence reusing one chunk id returned %s", i, name, rs[i+1].ret), map[string]interface{}{"kind": kind})
			}
		}
	}
	reps := c.N(1, 6)
	for rep := 0; rep < reps; rep++ {
		for _, kind := range kinds {
			for _, sc := range scripts {
				if (sc.silent || sc.delay > 0) && !c.Thorough() && kind != "message" && kind != "raw" {
					continue // wall-clock scripts on two kinds only in the quick tier
				}
				run(kind, true, sc, "")
				if kind != "raw" && (sc.name == "matching" || sc.name == "other-chunk" || sc.name == "no-ack-key") {
					run(kind, false, sc, " generated-id")
				}
			}
		}
	}
	// every split point of the ack (delivered as two fragments with a pause in between)
	{
		m := sizedMessage(r, "message", 10, "split-chunk")
		probe := mkSend(cf, m, -1)
		full := ackBytes(probe.chunk)
		for k := 0; k <= len(full); k++ {
			// truncated at k then EOF: error (k < len), success (k = len)
			o := mkSend(cf, sizedMessage(r, "message", 10, "split-chunk"), -1)
			o.resp = full[:k]
			rs := sendCase(c, "c04", cf, []cop{o}, fmt.Sprintf("ack truncated after %d of %d bytes then EOF", k, len(full)))
			if (rs[1].ret == "ok") != (k == len(full)) {
				c.Violation("judge-go", "c04-truncated", fmt.Sprintf("ack truncated after %d of %d bytes: Send returned %s", k, len(full), rs[1].ret), nil)
			}
			c.Hist("truncated ack")
		}
	}
	// RawMessage corner cases: chunk "" in the options; no options at all
	{
		raw := func(opts *protocol.MessageOptions) protocol.RawMessage {
			m := &protocol.Message{Tag: "t", Timestamp: 1, Record: map[string]interface{}{"k": "v"}, Options: opts}
			b, _ := m.MarshalMsg(nil)
			return protocol.RawMessage(b)
		}
		emptyChunk := []byte{0x94, 0xa1, 't', 0x01, 0x81, 0xa1, 'k', 0xa1, 'v', 0x81, 0xa5, 'c', 'h', 'u', 'n', 'k', 0xa0}
		for _, sc := range scripts {
			if sc.silent || sc.delay > 0 {
				continue
			}
			o := mkSend(cf, protocol.RawMessage(emptyChunk), -1)
			resp := sc.resp([]byte("c"))
			if sc.name == "empty-ack" || sc.name == "matching" {
				resp = ackBytes(nil)
			}
			o.resp = resp
			rs := sendCase(c, "c04", cf, []cop{o}, "RawMessage whose chunk option is the empty string, peer="+sc.name)
			c.Hist("raw empty chunk peer=" + sc.name + " -> " + rs[1].ret)
			if rs[1].ret == "ok" {
				c.Violation("judge-go", "c04-empty-chunk", "Send of a RawMessage with chunk \"\" succeeded (peer="+sc.name+"): no ack can match an empty chunk id",
					map[string]interface{}{"bytes": hx(emptyChunk), "resp": hx(resp)})
			}
		}
		o := mkSend(cf, raw(nil), -1)
		o.resp = ackBytes([]byte("x"))
		rs := sendCase(c, "c04", cf, []cop{o}, "RawMessage without options")
		if rs[1].ret == "ok" {
			c.Violation("judge-go", "c04-no-chunk", "Send of a RawMessage without a chunk succeeded with acks required", nil)
		}
	}
	// a connection that cannot arm the read deadline, and a silent peer: nothing bounds the wait for the ack, so the
	// send has to fail (the failure of SetReadDeadline is its error), not sit in a read that no timer will end
	{
		o := mkSend(cf, sizedMessage(r, "message", 10, "no-deadline"), -1)
		o.silent, o.dlErr = true, true
		rs := sendCase(c, "c04", cf, []cop{o}, "silent peer on a connection whose SetReadDeadline fails")
		c.Hist("deadline cannot be armed, silent peer -> " + rs[1].ret)
		if rs[1].ret != "err" || rs[1].dur > timeout+slack {
			c.Violation("judge-go", "c04-unarmed-deadline", fmt.Sprintf("Send returned %s after %v on a connection whose SetReadDeadline failed, with a silent peer and a %v timeout", rs[1].ret, rs[1].dur, timeout),
				map[string]interface{}{"ret": rs[1].ret, "events": trunc(strings.Join(rs[1].events, ","), 300)})
		}
	}
	// a ChunkEncoder of the caller's own (the interface is exported) whose Chunk() reports an empty id, or an id that
	// is not in its encoding: no response acknowledges an empty id; success needs the id on the wire
	{
		body, _ := (&protocol.Message{Tag: "own", Timestamp: 3, Record: map[string]interface{}{"k": "v"}}).MarshalMsg(nil)
		for _, sc := range scripts {
			if sc.silent || sc.delay > 0 {
				continue
			}
			o := mkSend(cf, ownEncoder{chunk: "", enc: body}, -1)
			resp := sc.resp([]byte("x"))
			if sc.name == "empty-ack" || sc.name == "matching" {
				resp = ackBytes(nil)
			}
			o.resp = resp
			rs := sendCase(c, "c04", cf, []cop{o}, "caller's own ChunkEncoder reporting an empty chunk id, peer="+sc.name)
			c.Hist("own encoder, empty chunk, peer=" + sc.name + " -> " + rs[1].ret)
			if rs[1].ret == "ok" {
				c.Violation("judge-go", "c04-empty-chunk", "Send of a caller-implemented ChunkEncoder with an empty chunk id succeeded (peer="+sc.name+")", map[string]interface{}{"resp": hx(resp)})
			}
		}
	}
	// several sends on one connection with pauses: the deadline of each wait is armed for THAT wait -- an ack that
	// arrives inside the timeout of its own send is accepted although the previous send's deadline has passed by then
	for round := 0; round < c.N(1, 3); round++ {
		cfl := ccfg{host: []byte("h"), ack: true, timeout: time.Second}
		o1 := mkSend(cfl, sizedMessage(r, "message", 10, fmt.Sprintf("lazy-%d-a", round)), -1)
		o1.resp = ackBytes(o1.chunk)
		o2 := mkSend(cfl, sizedMessage(r, "message", 10, fmt.Sprintf("lazy-%d-b", round)), -1)
		o2.resp, o2.delay = ackBytes(o2.chunk), 750*time.Millisecond
		rs1 := runClientOps(cfl, []cop{{kind: "C", dialOK: true, wfault: -1}, o1, {kind: "T", wfault: -1, pause: 400 * time.Millisecond}, o2})
		c.Eval()
		c.Hist("second send 400 ms after the first, its ack 750 ms after its write, timeout 1 s")
		if rs1[1].ret != "ok" || rs1[3].ret != "ok" {
			c.Violation("judge-go", "c04-late-ack", fmt.Sprintf("two sends on one connection (timeout 1 s): the first returned %s; the second, started 400 ms later and acknowledged 750 ms after its own write, returned %s", rs1[1].ret, rs1[3].ret),
				map[string]interface{}{"gap_ms": 400, "ack_delay_ms": 750, "timeout_ms": 1000})
		}
	}
	// sequences of several sends on one connection
	for t := 0; t < c.N(20, 600); t++ {
		n := 2 + r.Intn(3)
		var ops []cop
		var want []bool
		note := ""
		for i := 0; i < n; i++ {
			sc := scripts[r.Intn(len(scripts))]
			for sc.silent || sc.delay > 0 {
				sc = scripts[r.Intn(len(scripts))]
			}
			kind := kinds[r.Intn(len(kinds))]
			o := mkSend(cf, sizedMessage(r, kind, 10+r.Intn(3000), fmt.Sprintf("seq-%d-%d", t, i)), -1)
			o.resp, o.frag = sc.resp(o.chunk), sc.frag
			ops = append(ops, o)
			want = append(want, sc.wantOK)
			note += kind + "/" + sc.name + " "
		}
		rs := sendCase(c, "c04", cf, ops, "sequence: "+note)
		c.Hist(fmt.Sprintf("sequence of %d sends", n))
		c.Distinct("seq " + note)
		for i := range ops {
			if (rs[i+1].ret == "ok") != want[i] {
				c.Violation("judge-go", "c04-sequence", fmt.Sprintf("send %d of a sequence returned %s, expected ok=%v (%s)", i, rs[i+1].ret, want[i], note), nil)
			}
		}
	}
	// several senders on one client, a peer that is slow but inside the timeout for every message: each Send's
	// timeout runs from ITS OWN write, not from the moment it started to wait for the sender before it
	for round := 0; round < c.N(2, 10); round++ {
		cfq := ccfg{host: []byte("h"), ack: true, timeout: 750 * time.Millisecond}
		mk := func(id string) concOp {
			o := concSend(cfq, "message", 20, id, true)
			o.ackDelay = 400 * time.Millisecond
			return o
		}
		progs := [][]concOp{{mk(fmt.Sprintf("q%d-a", round))}, {mk(fmt.Sprintf("q%d-b", round))}}
		if round%2 == 1 { // three: the last one queues for longer than the timeout before its own write
			progs = append(progs, []concOp{mk(fmt.Sprintf("q%d-c", round))})
		}
		run := runConcFree(cfq, []concOp{{kind: "C", dialOK: true}}, progs)
		c.Eval()
		c.Hist(fmt.Sprintf("%d queued senders, acks after 400 ms with a 750 ms timeout", len(progs)))
		for w := range progs {
			if len(run.rets[w]) != 1 || run.rets[w][0] != "ok" {
				c.Violation("judge-go", "c04-queued-timeout", fmt.Sprintf("sender %d of %d queued senders: %v although its ack arrived 400 ms after its own write (timeout 750 ms)", w, len(progs), run.rets[w]),
					map[string]interface{}{"timeout_ms": 750, "ack_delay_ms": 400, "results": renderRets(run.rets)})
			}
		}
	}
	c.Extra("timeout_ms", timeout.Milliseconds())
	c.Extra("slack_ms", slack.Milliseconds())
}

// ownEncoder: a ChunkEncoder implemented outside the library.
type ownEncoder struct {
	chunk string
	enc   []byte
}

func (o ownEncoder) Chunk() (string, error) { return o.chunk, nil }
func (o ownEncoder) EncodeMsg(w *msgp.Writer) error {
	_, err := w.Write(o.enc)
	return err
}
