package props

import (
	"bytes"
	"fmt"
	"github.com/IBM/fluent-forward-go/fluent/protocol"
	"io"

	"github.com/tinylib/msgp/msgp"

	"verif/harness/core"
	"verif/harness/gen"
)

func init() { All["C13"] = C13 }

// c13One: decode `in` as `mode` on both paths; whenever the decoder reports success the
// bytes it consumed must be exactly the first complete msgpack value of `in`.
func c13One(c *core.Ctx, mode string, in []byte, how string) { c13Do(c, mode, in, how, true) }

// c13Do: hostileCheck = false for inputs the harness built itself (their counts are honest however large)
func c13Do(c *core.Ctx, mode string, in []byte, how string, hostileCheck bool) {
	if hostileCheck && gen.Hostile(in) {
		c.Hist("skipped hostile count (explored by C10)")
		return
	}
	for _, path := range paths {
		obs, _, left := decodeMsgObs(mode, path, newReceiver(mode), in)
		c.Eval()
		c.Hist(fmt.Sprintf("%s %s %s class=%s", how, mode, path, obs[:2]))
		c.Corr("c13-decode", "U_"+mode, []string{path, hx(in)}, obs)
		if obs == "panic" {
			c.Violation("panic", "c13-panic", "decoder panicked", map[string]string{"mode": mode, "path": path, "bytes": hx(in)})
		}
		if obs[:2] == "ok" {
			c.Distinct(mode + path + hx(in))
			c.Judge("c13-consumed", "judge_consumed", []string{hx(in), fmt.Sprint(len(in) - left)},
				fmt.Sprintf("bytes consumed by a successful %s decode (%s, %s) vs boundary of the first msgpack value", mode, path, how))
		}
	}
}

func C13(c *core.Ctx) {
	r := c.Rng
	n := c.N(150, 4000)
	for i := 0; i < n; i++ {
		// 1. concatenations of 1..N encoded messages of mixed modes
		k := 1 + r.Intn(4)
		var msgs []*gen.Msg
		var encs [][]byte
		var cat []byte
		for j := 0; j < k; j++ {
			m := gen.GenMsg(r, gen.Modes[r.Intn(4)], false, false)
			var e []byte
			if r.Intn(2) == 0 {
				e, _ = marshal(m.ToGo(r).(codecMsg))
			} else {
				e = gen.AltMsg(r, m, true, nil, nil)
			}
			msgs = append(msgs, m)
			encs = append(encs, e)
			cat = append(cat, e...)
		}
		// slice path: successive UnmarshalMsg calls
		rest := cat
		okAll := true
		for j, m := range msgs {
			recv := newReceiver(m.Mode)
			before := len(rest)
			var err error
			var nr []byte
			if p := safely(func() { nr, err = recv.UnmarshalMsg(rest) }); p != nil || err != nil {
				c.Violation("judge-go", "c13-concat", fmt.Sprintf("message %d of a concatenation was rejected (slice)", j), map[string]string{"bytes": hx(cat)})
				okAll = false
				break
			}
			c.Judge("c13-consumed", "judge_consumed", []string{hx(rest), fmt.Sprint(before - len(nr))}, "concatenation, slice path, message "+fmt.Sprint(j))
			if got := gen.MsgFromGo(recv).Render(true); got != m.Norm().Render(true) {
				c.Violation("judge-go", "c13-concat", fmt.Sprintf("message %d of a concatenation decoded to another value (slice)", j), map[string]string{"bytes": hx(cat), "got": got})
			}
			rest = nr
		}
		if okAll && len(rest) != 0 {
			c.Violation("judge-go", "c13-concat", "bytes left after decoding a concatenation (slice)", map[string]string{"bytes": hx(cat)})
		}
		// stream path: one reader, successive DecodeMsg calls
		// (every other round the stream hands over one message per Read, as a socket does; the decoded messages are
		// kept and looked at again after the LAST one was read: what a decoder returned does not live in the reader)
		br := bytes.NewReader(cat)
		var src io.Reader = onlyReader{br}
		pieces := &pieceReader{}
		if i%2 == 1 {
			for _, e := range encs {
				pieces.pieces = append(pieces.pieces, append([]byte{}, e...))
			}
			src = pieces
		}
		rd := msgp.NewReader(src)
		var keptMsgs []codecMsg
		for j, m := range msgs {
			recv := newReceiver(m.Mode)
			var err error
			if p := safely(func() { err = recv.DecodeMsg(rd) }); p != nil || err != nil {
				c.Violation("judge-go", "c13-concat", fmt.Sprintf("message %d of a concatenation was rejected (stream)", j), map[string]string{"bytes": hx(cat)})
				break
			}
			if got := gen.MsgFromGo(recv).Render(true); got != m.Norm().Render(true) {
				c.Violation("judge-go", "c13-concat", fmt.Sprintf("message %d of a concatenation decoded to another value (stream)", j), map[string]string{"bytes": hx(cat), "got": got})
			}
			keptMsgs = append(keptMsgs, recv)
			if j == len(msgs)-1 && rd.Buffered()+br.Len()*(1-i%2)+pieces.left() != 0 {
				c.Violation("judge-go", "c13-concat", "bytes left after decoding a concatenation (stream)", map[string]string{"bytes": hx(cat)})
			}
		}
		for j, recv := range keptMsgs {
			if got := gen.MsgFromGo(recv).Render(true); got != msgs[j].Norm().Render(true) {
				c.Violation("judge-go", "c13-concat", fmt.Sprintf("message %d decoded from a stream changed after later messages were read from the same reader", j), map[string]string{"bytes": hx(cat), "now": trunc(got, 300)})
				break
			}
		}
		c.Eval()
		c.Hist(fmt.Sprintf("concat k=%d", k))
		if i < 2 {
			c.Sample(map[string]interface{}{"concatenation_of": k, "bytes": trunc(hx(cat), 200)})
		}
		// 2. arity tampering and other edits of single messages, followed by a sentinel value
		for j, m := range msgs {
			if len(encs[j]) > 4096 {
				continue
			}
			follow := []byte{0xa3, 'e', 'n', 'd'}
			base := append(append([]byte{}, encs[j]...), follow...)
			c13One(c, m.Mode, base, "valid+follow")
			// another complete value in front of the message (a heartbeat nil, a stray integer, an empty container):
			// the first value of the input is then that value, not a message
			for _, v := range [][]byte{{0xc0}, {0x01}, {0xa1, 'x'}, {0x90}, {0x80}, {0xc0, 0xc0}} {
				c13One(c, m.Mode, append(append([]byte{}, v...), base...), "value-before")
			}
			if m.Mode == "forward" {
				// the arity of an ENTRY (not of the message): one element too many in the last entry
				for _, extra := range [][]byte{{0xc0}, {0x80}, {0x81, 0xa5, 'c', 'h', 'u', 'n', 'k', 0xa1, 'X'}} {
					if mut, ok := gen.EntryExtra(encs[j], extra); ok {
						c13One(c, "forward", append(mut, follow...), "entry-arity+elem")
					}
				}
			}
			for t := 0; t < 3; t++ {
				mut, label := gen.Mutate(r, encs[j])
				if t == 0 && encs[j][0] >= 0x90 && encs[j][0] <= 0x9f {
					mut = append([]byte{}, encs[j]...)
					mut[0] = 0x90 + byte(r.Intn(8))
					label = "arity"
				}
				if t == 1 && encs[j][0] >= 0x90 && encs[j][0] <= 0x9f {
					// one more / one fewer element than the header says
					mut = append(append([]byte{}, encs[j]...), 0xc0)
					mut[0]++
					label = "arity+elem"
				}
				if t == 2 && r.Intn(2) == 0 {
					mut, label = gen.NestedArity(r, encs[j])
				}
				c13One(c, m.Mode, append(mut, follow...), label)
				// also feed it to a decoder of another mode
				c13One(c, gen.Modes[r.Intn(4)], append(append([]byte{}, mut...), follow...), label+"/othermode")
			}
		}
	}
	// 2b. fields of a type the mode does not use, in the short and the long arity: a PackedForward whose event
	//     stream is a str (other implementations write it so), a Forward whose entries are a bin, a Message whose
	//     time is a str: rejected, or consumed to the boundary, never read short
	for _, L := range []int{0, 3, 31, 32, 40, 255, 256, 70000} {
		body := bytes.Repeat([]byte{0x80}, L)
		for _, arity := range []int{2, 3} {
			enc := []byte{byte(0x90 + arity), 0xa1, 't'}
			enc = gen.AltStr(r, enc, body, r.Intn(2) == 0)
			if arity == 3 {
				enc = append(enc, 0x81, 0xa5, 'c', 'h', 'u', 'n', 'k', 0xa1, 'c')
			}
			follow, _ := marshal(&protocol.PackedForwardMessage{Tag: "next", EventStream: []byte{0x01}})
			for _, mode := range gen.Modes {
				c13One(c, mode, append(append([]byte{}, enc...), follow...), "str-where-bin")
			}
			encB := []byte{byte(0x90 + arity), 0xa1, 't'}
			encB = gen.AltBin(r, encB, body, false)
			if arity == 3 {
				encB = append(encB, 0xc0)
			}
			c13One(c, "forward", append(append([]byte{}, encB...), follow...), "bin-where-array")
		}
	}
	// 2c. an entry list far beyond the header-class boundaries (an implementation may cap what it allocates up
	//     front): Forward without options, followed by another message
	for _, n := range c13BigCounts(c) {
		enc := []byte{0x92, 0xa1, 't'}
		enc = gen.AltArrHdr(r, enc, n, false)
		for i := 0; i < n; i++ {
			enc = append(enc, 0x92, 0xd7, 0x00, byte(i>>24), byte(i>>16), byte(i>>8), byte(i), 0, 0, 0, 5, 0x80)
		}
		follow, _ := marshal(&protocol.Message{Tag: "next", Timestamp: 1, Record: map[string]interface{}{}})
		c13Do(c, "forward", append(enc, follow...), fmt.Sprintf("forward with %d entries + follow", n), false)
	}
	// 3. random byte strings
	for i := 0; i < c.N(1500, 60000); i++ {
		b := gen.RandomBytes(r)
		if len(b) > 0 && r.Intn(2) == 0 {
			b[0] = 0x90 + byte(r.Intn(6))
		}
		c13One(c, gen.Modes[r.Intn(4)], b, "random")
	}
}

// c13BigCounts: entry counts well past 2^16 (one per quick run, chosen by the seed; all of them in the thorough tier).
func c13BigCounts(c *core.Ctx) []int {
	all := []int{1<<17 + 1, 1<<18 + 1, 1<<19 + 1}
	if c.Thorough() {
		return append(all, 1<<20+1)
	}
	return []int{1<<18 + 1}
}

// pieceReader hands over one prepared piece per Read call (a socket delivering one message at a time).
type pieceReader struct{ pieces [][]byte }

func (p *pieceReader) Read(b []byte) (int, error) {
	for len(p.pieces) > 0 && len(p.pieces[0]) == 0 {
		p.pieces = p.pieces[1:]
	}
	if len(p.pieces) == 0 {
		return 0, io.EOF
	}
	n := copy(b, p.pieces[0])
	p.pieces[0] = p.pieces[0][n:]
	return n, nil
}

func (p *pieceReader) left() int {
	n := 0
	for _, x := range p.pieces {
		n += len(x)
	}
	return n
}
