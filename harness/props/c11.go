package props

import (
	"bytes"
	"fmt"
	"strings"
	"time"

	"github.com/IBM/fluent-forward-go/fluent/protocol"

	"verif/harness/core"
	"verif/harness/gen"
)

func init() { All["C11"] = C11 }

func chunkObs(f func() (string, error)) string {
	var s string
	var err error
	if p := safely(func() { s, err = f() }); p != nil {
		return "panic"
	}
	if err != nil {
		return "err"
	}
	return "ok(" + hx([]byte(s)) + ")"
}

// C11: GetChunk / RawMessage.Chunk against the option map the specification parse finds.
type keptChunk struct{ got, snap string }

// sweepOne: a message of the given mode whose content before the option map is about L bytes, with a chunk.
func sweepOne(c *core.Ctx, mode string, L int, kept *[]keptChunk) {
	var enc []byte
	id := fmt.Sprintf("sweep-%s-%d", mode, L)
	opts := &protocol.MessageOptions{Chunk: id}
	if mode == "message" {
		m := &protocol.Message{Tag: "t", Timestamp: 5, Record: map[string]interface{}{"a": strings.Repeat("x", L/2), "b": strings.Repeat("y", L-L/2)}, Options: opts}
		enc, _ = m.MarshalMsg(nil)
	} else {
		var el protocol.EntryList
		for left := L; left > 0; left -= 100 {
			k := left
			if k > 100 {
				k = 100
			}
			el = append(el, protocol.EntryExt{Timestamp: protocol.EventTime{Time: time.Unix(1, 0)}, Record: map[string]interface{}{"k": strings.Repeat("z", k)}})
		}
		m := &protocol.ForwardMessage{Tag: "t", Entries: el, Options: opts}
		enc, _ = m.MarshalMsg(nil)
	}
	obs := chunkObs(func() (string, error) {
		s, err := protocol.GetChunk(enc)
		if err == nil {
			*kept = append(*kept, keptChunk{s, strings.Clone(s)})
		}
		return s, err
	})
	c.Eval()
	c.Hist("size sweep " + mode + " -> " + obs[:2])
	if obs != "ok("+hx([]byte(id))+")" {
		c.Violation("judge-go", "c11-sweep", fmt.Sprintf("GetChunk on a %s message of %d bytes with chunk %q: %s", mode, len(enc), id, trunc(obs, 80)), map[string]interface{}{"mode": mode, "bytes": len(enc), "content": L})
	}
}

func C11(c *core.Ctx) {
	r := c.Rng
	var kept []keptChunk
	defer func() {
		for _, k := range kept {
			if k.got != k.snap {
				c.Violation("judge-go", "c11-result-changed", fmt.Sprintf("a chunk id returned by GetChunk changed from %q to %q through later calls", k.snap, k.got), nil)
				return
			}
		}
	}()
	// corpus: values encoded with an ext32 header (0xc9) before the chunk key.  msgp's stream
	// Skip reports such a header as truncated (known finding D18): unknown option value,
	// value inside the record, ext32-encoded EventTime.
	for _, h := range []string{
		"94a174058082a178c90000000105aaa56368756e6ba163",
		"94a1740581a178c90000000109aa81a56368756e6ba163",
		"94a174c90000000800000000050000000180" + "81a56368756e6ba163",
	} {
		enc := unhx(h)
		obs := chunkObs(func() (string, error) { return protocol.GetChunk(enc) })
		c.Eval()
		c.Hist("corpus ext32 -> " + obs[:2])
		if strings.HasPrefix(obs, "ok") {
			// the quirk is gone (an implementation that skips ext32 values correctly): the theorem C11_agrees does not
			// speak about these inputs and the model's refutation witness no longer describes the code; what remains
			// to be decided is whether the answer is the specification's
			c.Judge("c11-ext32-answer", "judge_chunk", []string{hx(enc), obs}, "GetChunk answers on a message holding an ext32-encoded value before the chunk key: the chunk must be the specification's")
			continue
		}
		c.Corr("c11-getchunk", "get_chunk", []string{hx(enc)}, obs)
		c.Judge("c11-ext32-skip", "judge_chunk", []string{hx(enc), obs}, "GetChunk on a well-formed message holding an ext32-encoded value before the chunk key")
	}
	// every total size across several multiples of the stream reader's buffer (the walker reads through a 2 KiB
	// buffered reader: whatever it decides must not depend on where in the buffer the option map happens to lie)
	for _, mode := range []string{"message", "forward"} {
		for L := 1980; L <= 2120; L++ {
			sweepOne(c, mode, L, &kept)
		}
		for _, base := range []int{4040, 6090, 8140} {
			for L := base; L <= base+c.N(70, 140); L++ {
				sweepOne(c, mode, L, &kept)
			}
		}
	}
	// the caller's own buffer reused for successive messages of the same length (a template re-stamped in place, an
	// encode into buf[:0]): the answer is a function of the bytes now in the slice, not of what was there before
	{
		buf := make([]byte, 0, 4096)
		for i := 0; i < c.N(300, 5000); i++ {
			id := fmt.Sprintf("id-%06d-%c", i*7919%1000000, 'a'+byte(i%26))
			var err error
			if (i/8)%2 == 0 { // runs of one mode: successive messages of exactly the same length at the same address
				m := &protocol.Message{Tag: "t", Timestamp: 5, Record: map[string]interface{}{"k": "v"}, Options: &protocol.MessageOptions{Chunk: id}}
				buf, err = m.MarshalMsg(buf[:0])
			} else {
				m := &protocol.PackedForwardMessage{Tag: "t", EventStream: []byte{0x92, 0x01, 0x80}, Options: &protocol.MessageOptions{Chunk: id}}
				buf, err = m.MarshalMsg(buf[:0])
			}
			if err != nil {
				panic(err)
			}
			obs := chunkObs(func() (string, error) { return protocol.GetChunk(buf) })
			obsRaw := chunkObs(func() (string, error) { return protocol.RawMessage(buf).Chunk() })
			c.Eval()
			if want := "ok(" + hx([]byte(id)) + ")"; obs != want || obsRaw != want {
				c.Violation("judge-go", "c11-reused-buffer", fmt.Sprintf("message %d encoded into the caller's reused buffer carries chunk %q: GetChunk %s, RawMessage.Chunk %s", i, id, trunc(obs, 60), trunc(obsRaw, 60)), map[string]interface{}{"bytes": hx(buf)})
				break
			}
		}
		c.Hist("caller's buffer reused for successive messages")
	}
	// nesting far beyond anything a size estimate or a recursion guard would expect (the full decoders have no such
	// limit: a message they decode has the chunk they see)
	for _, depth := range []int{1000, 100001, 250000} {
		for _, where := range []string{"record", "unknown option before chunk"} {
			deep := append(bytes.Repeat([]byte{0x91}, depth), 0xc0)
			var enc []byte
			if where == "record" {
				enc = append([]byte{0x94, 0xa1, 't', 0x05, 0x81, 0xa1, 'k'}, deep...)
				enc = append(enc, 0x81, 0xa5, 'c', 'h', 'u', 'n', 'k', 0xa4, 'd', 'e', 'e', 'p')
			} else {
				enc = append([]byte{0x94, 0xa1, 't', 0x05, 0x80, 0x82, 0xa1, 'x'}, deep...)
				enc = append(enc, 0xa5, 'c', 'h', 'u', 'n', 'k', 0xa4, 'd', 'e', 'e', 'p')
			}
			var full protocol.Message
			_, ferr := full.UnmarshalMsg(enc)
			obs := chunkObs(func() (string, error) { return protocol.GetChunk(enc) })
			c.Eval()
			c.Hist("deeply nested value before the chunk")
			if ferr == nil && full.Options != nil && full.Options.Chunk == "deep" && obs != "ok("+hx([]byte("deep"))+")" {
				c.Violation("judge-go", "c11-deep", fmt.Sprintf("a message whose %s is nested %d levels deep decodes with chunk \"deep\", GetChunk: %s", where, depth, trunc(obs, 80)), map[string]interface{}{"depth": depth, "where": where})
			}
		}
	}
	n := c.N(400, 20000)
	for i := 0; i < n; i++ {
		mode := gen.Modes[r.Intn(4)]
		m := gen.GenMsg(r, mode, true, false)
		// decoy chunk keys inside records / entries
		decoy := func(v *gen.V) {
			if v != nil && v.K == 'M' && r.Intn(2) == 0 {
				has := false
				for _, k := range v.MK {
					has = has || string(k) == "chunk"
				}
				if !has {
					v.MK = append(v.MK, []byte("chunk"))
					v.A = append(v.A, gen.Str([]byte("decoy")))
				}
			}
		}
		decoy(m.Rec)
		for _, e := range m.Entries {
			decoy(e.Rec)
		}
		// option maps: chunk present/absent, among known and unknown keys
		if r.Intn(5) != 0 {
			m.Opts = &gen.Opts{}
			if r.Intn(3) != 0 {
				m.Opts.Chunk = []byte(fmt.Sprintf("id-%d", r.Intn(1000)))
				if r.Intn(4) == 0 {
					m.Opts.Chunk = gen.GenBytes(r, false)
				}
			}
			if r.Intn(2) == 0 {
				s := gen.GenInt(r)
				m.Opts.Size = &s
			}
			if r.Intn(3) == 0 {
				m.Opts.Comp = []byte("gzip")
			}
		}
		var extra [][]byte
		var extraVals []*gen.V
		if !m.Opts.Absent {
			for k := r.Intn(3); k > 0; k-- {
				name := []byte(fmt.Sprintf("x%d", len(extra)))
				if r.Intn(6) == 0 {
					name = []byte{} // an empty unknown key is a legal msgpack string
				}
				dup := false
				for _, e := range extra {
					dup = dup || string(e) == string(name)
				}
				if dup {
					continue
				}
				extra = append(extra, name)
				extraVals = append(extraVals, gen.GenValue(r, 2, false))
			}
		}
		// a chunk entry that is present and holds the empty string (an id all the same: the entry exists)
		if !m.Opts.Absent && len(m.Opts.Chunk) == 0 && r.Intn(4) == 0 {
			extra = append(extra, []byte("chunk"))
			extraVals = append(extraVals, gen.Str([]byte{}))
		}
		var enc []byte
		how := "alt"
		if r.Intn(4) == 0 && len(extra) == 0 {
			enc, _ = marshal(m.ToGo(r).(codecMsg))
			how = "marshal"
		} else {
			enc = gen.AltMsg(r, m, true, extra, extraVals)
		}
		obs := chunkObs(func() (string, error) {
			s, err := protocol.GetChunk(enc)
			if err == nil {
				kept = append(kept, keptChunk{s, strings.Clone(s)})
			}
			return s, err
		})
		obsRaw := chunkObs(func() (string, error) { return protocol.RawMessage(enc).Chunk() })
		c.Eval()
		hasChunk := !m.Opts.Absent && len(m.Opts.Chunk) > 0
		c.Hist(fmt.Sprintf("%s %s opts=%v chunk=%v extra=%d -> %s", how, mode, !m.Opts.Absent, hasChunk, len(extra), obs[:2]))
		c.Distinct(hx(enc))
		c.Corr("c11-getchunk", "get_chunk", []string{hx(enc)}, obs)
		c.Judge("c11-getchunk", "judge_chunk", []string{hx(enc), obs}, "GetChunk vs the chunk entry of the option map found by the specification parse ("+mode+")")
		if obsRaw != obs {
			c.Violation("judge-go", "c11-rawmessage", "RawMessage.Chunk disagrees with GetChunk", map[string]string{"bytes": hx(enc), "getchunk": obs, "raw": obsRaw})
		}
		if i < 3 {
			c.Sample(map[string]string{"mode": mode, "bytes": trunc(hx(enc), 200), "getchunk": obs})
		}
	}
}
