package props

import (
	"bytes"
	crand "crypto/rand"
	"crypto/sha512"
	"encoding/hex"
	"errors"
	"fmt"
	"io"
	"math/rand"

	"github.com/IBM/fluent-forward-go/fluent/client"
	"github.com/IBM/fluent-forward-go/fluent/protocol"

	"verif/harness/core"
	"verif/harness/fakes"
	"verif/harness/gen"
)

func init() { All["C05"] = C05 }

// detRand is the deterministic stream installed as crypto/rand.Reader.
type detRand struct{ r *rand.Rand }

func (d *detRand) Read(b []byte) (int, error) { return d.r.Read(b) }

func sha512hex(parts ...[]byte) string {
	h := sha512.New()
	for _, p := range parts {
		h.Write(p)
	}
	return hex.EncodeToString(h.Sum(nil))
}

type hsCase struct {
	key, chost, shost, nonce []byte
	script                   string
}

// runHandshake performs Connect+Handshake against a scripted peer. Returns observation,
// the PONG fields the peer sent (for the judge), the salt, the written bytes.
type hsResult struct {
	class     string // ok | err | panic
	transport bool
	written   []byte
	salt      []byte
	inp1      []byte
	inp2      []byte
	pongAuth  bool
	pongHost  []byte
	pongDig   []byte
	hasPong   bool
}

func mustMarshal(m interface {
	MarshalMsg([]byte) ([]byte, error)
}) []byte {
	b, err := m.MarshalMsg(nil)
	if err != nil {
		panic(err)
	}
	return b
}

func runHandshake(r *rand.Rand, hc hsCase, prev *hsResult) hsResult {
	// the salt the client is going to draw
	seed := r.Int63()
	salt := make([]byte, 16)
	rand.New(rand.NewSource(seed)).Read(salt)
	crand.Reader = &detRand{rand.New(rand.NewSource(seed))}
	res := hsResult{salt: salt}
	helo := mustMarshal(&protocol.Helo{MessageType: "HELO", Options: &protocol.HeloOpts{Nonce: hc.nonce, Auth: []byte{}, Keepalive: true}})
	pingDigest := sha512hex(salt, hc.chost, hc.nonce, hc.key)
	pong := func(auth bool, host []byte, digest string) []byte {
		res.hasPong, res.pongAuth, res.pongHost, res.pongDig = true, auth, host, []byte(digest)
		return mustMarshal(&protocol.Pong{MessageType: "PONG", AuthResult: auth, Reason: "", ServerHostname: string(host), SharedKeyHexDigest: digest})
	}
	otherKey := append(append([]byte{}, hc.key...), 'x')
	res.inp1 = helo
	switch hc.script {
	case "honest":
		res.inp2 = pong(true, hc.shost, sha512hex(salt, hc.shost, hc.nonce, hc.key))
	case "auth-false": // knows the key but refuses
		res.inp2 = pong(false, hc.shost, sha512hex(salt, hc.shost, hc.nonce, hc.key))
	case "other-key":
		res.inp2 = pong(true, hc.shost, sha512hex(salt, hc.shost, hc.nonce, otherKey))
	case "other-salt":
		s2 := append([]byte{}, salt...)
		s2[0] ^= 1
		res.inp2 = pong(true, hc.shost, sha512hex(s2, hc.shost, hc.nonce, otherKey))
	case "no-key": // digest of everything the adversary knows
		res.inp2 = pong(true, hc.shost, sha512hex(salt, hc.shost, hc.nonce))
	case "reflect": // the client's own PING digest and hostname, no key needed
		res.inp2 = pong(true, hc.chost, pingDigest)
	case "reflect-digest-other-host":
		res.inp2 = pong(true, hc.shost, pingDigest)
	case "replay": // PONG observed in an earlier (successful) handshake with this client
		if prev != nil && prev.hasPong {
			res.inp2 = pong(prev.pongAuth, prev.pongHost, string(prev.pongDig))
		} else {
			res.inp2 = pong(true, hc.shost, sha512hex([]byte("old-salt-16bytes"), hc.shost, hc.nonce, otherKey))
		}
	case "replay-presend": // the replayed PONG is already on the wire before the PING
		p := pong(true, hc.shost, sha512hex([]byte("old-salt-16bytes"), hc.shost, hc.nonce, otherKey))
		if prev != nil && prev.hasPong {
			p = pong(prev.pongAuth, prev.pongHost, string(prev.pongDig))
		}
		res.inp1 = append(append([]byte{}, helo...), p...)
	case "empty-digest":
		res.inp2 = pong(true, hc.shost, "")
	case "truncated-digest":
		res.inp2 = pong(true, hc.shost, sha512hex(salt, hc.shost, hc.nonce, hc.key)[:64])
	case "upper-digest":
		d := sha512hex(salt, hc.shost, hc.nonce, hc.key)
		up := []byte(d)
		for i := range up {
			if up[i] >= 'a' {
				up[i] -= 32
			}
		}
		res.inp2 = pong(true, hc.shost, string(up))
	case "nil-options-helo":
		res.inp1 = mustMarshal(&protocol.Helo{MessageType: "HELO"})
		res.inp2 = pong(true, hc.shost, sha512hex(salt, hc.shost, nil, hc.key))
	case "helo-arity":
		res.inp1 = append([]byte{0x93}, helo[1:]...)
		res.inp2 = pong(true, hc.shost, sha512hex(salt, hc.shost, hc.nonce, hc.key))
	case "garbage-helo":
		res.inp1, _ = gen.Mutate(r, helo)
		if string(res.inp1) == string(helo) {
			res.inp1 = helo[:len(helo)-1]
		}
		res.inp2 = pong(true, hc.shost, sha512hex(salt, hc.shost, hc.nonce, otherKey))
	case "garbage-pong":
		p := pong(true, hc.shost, sha512hex(salt, hc.shost, hc.nonce, otherKey))
		res.inp2, _ = gen.Mutate(r, p)
		res.hasPong = false
	case "silent-eof":
		res.inp2 = nil
	}
	f := &fakes.Factory{}
	f.Setup = func(c *fakes.Conn) {
		c.Script = []fakes.ReadStep{{Data: res.inp1}}
		inp2 := res.inp2
		c.OnWrite = func(idx int, b []byte) (int, error) {
			if idx == 0 && len(inp2) > 0 {
				c.Script = append(c.Script, fakes.ReadStep{Data: inp2})
			}
			return len(b), nil
		}
		if r.Intn(2) == 0 {
			c.FragMax = 1 + r.Intn(7)
		}
	}
	cl := client.New(client.ConnectionOptions{Factory: f, AuthInfo: client.AuthInfo{SharedKey: hc.key}})
	cl.Hostname = string(hc.chost)
	if err := cl.Connect(); err != nil {
		panic(err)
	}
	var err error
	if p := safely(func() { err = cl.Handshake() }); p != nil {
		res.class = "panic"
	} else if err != nil {
		res.class = "err"
	} else {
		res.class = "ok"
	}
	res.transport = cl.TransportPhase()
	res.written = f.Conns[0].Accepted()
	return res
}

var hsScripts = []string{"honest", "auth-false", "other-key", "other-salt", "no-key", "reflect", "reflect-digest-other-host", "replay", "replay-presend",
	"empty-digest", "truncated-digest", "upper-digest", "nil-options-helo", "helo-arity", "garbage-helo", "garbage-pong", "silent-eof"}

func C05(c *core.Ctx) {
	r := c.Rng
	defer func(old io.Reader) { crand.Reader = old }(crand.Reader)
	gb := func() []byte {
		switch r.Intn(5) {
		case 0:
			return []byte{}
		case 1:
			return []byte(fmt.Sprintf("host-%d.example", r.Intn(50)))
		case 2:
			// long values: digest inputs that span several hash blocks / exceed any fixed buffer
			if r.Intn(4) == 0 {
				b := make([]byte, []int{200, 500, 520, 1100, 2100}[r.Intn(5)])
				r.Read(b)
				return b
			}
			fallthrough
		default:
			b := gen.GenBytes(r, false)
			if len(b) > 32 {
				b = b[:r.Intn(33)]
			}
			return b
		}
	}
	n := c.N(30, 1500)
	for i := 0; i < n; i++ {
		key := gb()
		if len(key) == 0 && r.Intn(2) == 0 {
			key = []byte("k")
		}
		hc := hsCase{key: key, chost: gb(), shost: gb(), nonce: gb()}
		if string(hc.chost) == string(hc.shost) {
			hc.shost = append(hc.shost, 's')
		}
		// an earlier successful handshake whose messages the adversary has observed
		hc.script = "honest"
		first := runHandshake(r, hc, nil)
		var prev *hsResult = &first
		for _, sc := range hsScripts {
			if sc == "no-key" && len(hc.key) == 0 {
				// with an empty key the digest over everything the adversary knows IS the honest digest
				c.Hist("no-key skipped: empty key")
				continue
			}
			hc.script = sc
			res := runHandshake(r, hc, prev)
			c.Eval()
			c.Hist(fmt.Sprintf("%s -> %s transport=%v", sc, res.class, res.transport))
			c.Distinct(sc + hx(res.inp1) + hx(res.inp2))
			replay := map[string]interface{}{"script": sc, "key": hx(hc.key), "client_host": hx(hc.chost), "server_host": hx(hc.shost), "nonce": hx(hc.nonce),
				"salt": hx(res.salt), "helo_and_presend": hx(res.inp1), "after_ping": hx(res.inp2), "result": res.class, "transport": res.transport}
			if res.class == "panic" {
				c.Violation("panic", "c05-panic:"+sc, "Handshake panicked ("+sc+")", replay)
			}
			// model correspondence: written bytes and result class
			obs := fmt.Sprintf("written=%s;res=%s", hx(res.written), res.class)
			c.Corr("c05-handshake", "client_handshake", []string{hx(hc.chost), hx(hc.key), hx(res.salt), hx(res.inp1), hx(res.inp2)}, obs)
			if (res.class == "ok") != res.transport {
				c.Violation("judge-go", "c05-phase", "Handshake result and TransportPhase() disagree ("+sc+")", replay)
			}
			// clause 1: transport phase only with auth_result=true and the digest of the formula
			if res.transport {
				auth := "f"
				if res.pongAuth {
					auth = "t"
				}
				if !res.hasPong {
					c.Violation("judge-go", "c05-accept-without-pong", "transport phase without a well-formed PONG ("+sc+")", replay)
				} else {
					nonce := hc.nonce
					if sc == "nil-options-helo" {
						nonce = nil
					}
					c.Judge("c05-accept-formula", "judge_accept", []string{hx(hc.key), hx(res.salt), hx(nonce), auth, hx(res.pongHost), hx(res.pongDig)},
						"transport phase entered: PONG must say auth_result=true and carry SHA-512-hex(salt+server_hostname+nonce+key) ("+sc+")")
				}
			}
			// clause 2: every script but "honest" is played by a peer that does not use the key to
			// answer THIS handshake (auth-false does know it but refuses): none may succeed
			if sc != "honest" && res.transport {
				c.Violation("judge-go", "c05-accepted:"+sc, "client entered transport phase against peer script '"+sc+"'", replay)
			}
			if sc == "honest" && !res.transport {
				c.Violation("judge-go", "c05-honest-rejected", "an honest peer holding the key was rejected", replay)
			}
			// clause 3: the PING carries a fresh 16-byte salt and the digest of the formula
			if len(res.written) > 0 {
				pnonce := hc.nonce
				if sc == "nil-options-helo" {
					pnonce = nil
				}
				if sc == "garbage-helo" {
					// the mutation may have changed the nonce the client reads
					var h protocol.Helo
					if _, err := h.UnmarshalMsg(res.inp1); err == nil && h.Options != nil {
						pnonce = h.Options.Nonce
					}
				}
				want := fmt.Sprintf("ping(host=%s,salt=%s,digest=%s,user=,pass=)", hx(hc.chost), hx(res.salt),
					hx([]byte(sha512hex(res.salt, hc.chost, pnonce, hc.key))))
				c.Judge("c05-ping", "judge_shape", []string{"ping", hx(res.written), want}, "bytes written during the handshake must be exactly one PING with the salt drawn and the digest of the formula ("+sc+")")
			}
			if sc == "honest" {
				prev = &res
				if i < 2 {
					c.Sample(replay)
				}
			}
		}
		// one client, two handshakes: the salt must be fresh, and a peer replaying everything it
		// observed in the first handshake (HELO and PONG bytes) must be rejected in the second
		c05SameClient(c, r, hc)
		// server-side helpers accept exactly the digests of the formula
		salt := gen.GenBytes(r, false)
		ping, _ := protocol.NewPing(string(hc.chost), hc.key, salt, hc.nonce)
		c.Corr("c05-helpers", "digest", []string{hx(salt), hx(hc.chost), hx(hc.nonce), hx(hc.key)}, ping.SharedKeyHexDigest)
		if ping.SharedKeyHexDigest != sha512hex(salt, hc.chost, hc.nonce, hc.key) {
			c.Violation("judge-go", "c05-newping", "NewPing digest is not SHA-512-hex(salt+hostname+nonce+key)", map[string]string{"key": hx(hc.key)})
		}
		// the PING carrying a user name and password: the same digest and salt, the credentials as given, and a
		// server validates it like any other
		if pa, err := protocol.NewPingWithAuth(string(hc.chost), hc.key, salt, hc.nonce, "user-"+string(hc.chost), "pass word"); err != nil || pa == nil {
			c.Violation("judge-go", "c05-newping", fmt.Sprintf("NewPingWithAuth failed: %v", err), nil)
		} else {
			wire, _ := pa.MarshalMsg(nil)
			var back protocol.Ping
			_, uerr := back.UnmarshalMsg(wire)
			c.Eval()
			if pa.SharedKeyHexDigest != ping.SharedKeyHexDigest || !bytes.Equal(pa.SharedKeySalt, salt) || pa.ClientHostname != string(hc.chost) || pa.Username != "user-"+string(hc.chost) || pa.Password != "pass word" ||
				uerr != nil || back.Username != pa.Username || back.Password != pa.Password || back.SharedKeyHexDigest != pa.SharedKeyHexDigest ||
				protocol.ValidatePingDigest(pa, hc.key, hc.nonce) != nil {
				c.Violation("judge-go", "c05-newping", "NewPingWithAuth: digest, salt, hostname or credentials are not the ones given / the formula's, or the PING does not survive the wire", map[string]string{"key": hx(hc.key), "salt": hx(salt)})
			}
		}
		for k := 0; k < 4; k++ {
			p2 := *ping
			key2, nonce2 := hc.key, hc.nonce
			want := true
			switch k {
			case 1:
				key2 = append(append([]byte{}, hc.key...), 0)
				want = false
			case 2:
				nonce2 = append(append([]byte{}, hc.nonce...), 0)
				want = false
			case 3:
				p2.SharedKeyHexDigest = p2.SharedKeyHexDigest[:127] + map[bool]string{true: "0", false: "1"}[p2.SharedKeyHexDigest[127] != '0']
				want = false
			}
			got := protocol.ValidatePingDigest(&p2, key2, nonce2) == nil
			c.Eval()
			c.Corr("c05-helpers", "validate_ping", []string{hx(hc.chost), hx(salt), hx([]byte(p2.SharedKeyHexDigest)), hx(key2), hx(nonce2), ""}, boolStr(got))
			if got != want {
				c.Violation("judge-go", "c05-validate-ping", fmt.Sprintf("ValidatePingDigest = %v, want %v (variant %d)", got, want, k), map[string]string{"key": hx(hc.key)})
			}
		}
		helo := &protocol.Helo{MessageType: "HELO", Options: &protocol.HeloOpts{Nonce: hc.nonce}}
		pong, err := protocol.NewPong(true, "", string(hc.shost), hc.key, helo, ping)
		if err != nil || pong.SharedKeyHexDigest != sha512hex(salt, hc.shost, hc.nonce, hc.key) {
			c.Violation("judge-go", "c05-newpong", "NewPong digest is not SHA-512-hex(salt+hostname+nonce+key)", map[string]string{"key": hx(hc.key)})
		} else {
			for k := 0; k < 3; k++ {
				key2, salt2 := hc.key, salt
				want := true
				switch k {
				case 1:
					key2 = append(append([]byte{}, hc.key...), 1)
					want = false
				case 2:
					salt2 = append(append([]byte{}, salt...), 1)
					want = false
				}
				got := protocol.ValidatePongDigest(pong, key2, hc.nonce, salt2) == nil
				c.Corr("c05-helpers", "validate_pong", []string{hx(hc.shost), hx([]byte(pong.SharedKeyHexDigest)), hx(key2), hx(hc.nonce), hx(salt2), ""}, boolStr(got))
				if got != want {
					c.Violation("judge-go", "c05-validate-pong", fmt.Sprintf("ValidatePongDigest = %v, want %v (variant %d)", got, want, k), map[string]string{"key": hx(hc.key)})
				}
			}
		}
		// the helpers only READ what they are given: salt, nonce and key carved out of one backing array (with
		// live data behind each of them, as a caller that parses a packet in place has it) come back unchanged
		// and give the digest of the formula
		{
			block := make([]byte, 0, 4096)
			block = append(block, salt...)
			sl := block[:len(salt)]
			block = append(block, hc.nonce...)
			nl := block[len(salt) : len(salt)+len(hc.nonce)]
			block = append(block, hc.key...)
			kl := block[len(salt)+len(hc.nonce):]
			block = append(block, bytes.Repeat([]byte{0x5a}, 600)...)
			snap := append([]byte{}, block...)
			p3, e3 := protocol.NewPing(string(hc.chost), kl, sl, nl)
			okFormula := e3 == nil && p3.SharedKeyHexDigest == sha512hex(salt, hc.chost, hc.nonce, hc.key)
			v3 := e3 == nil && protocol.ValidatePingDigest(p3, kl, nl) == nil
			var okPong bool
			if e3 == nil {
				p3.SharedKeySalt = sl
				if pg, e := protocol.NewPong(true, "", string(hc.shost), kl, &protocol.Helo{MessageType: "HELO", Options: &protocol.HeloOpts{Nonce: nl}}, p3); e == nil {
					okPong = pg.SharedKeyHexDigest == sha512hex(salt, hc.shost, hc.nonce, hc.key) && protocol.ValidatePongDigest(pg, kl, nl, sl) == nil
				}
			}
			c.Eval()
			c.Hist("helpers on arguments carved from one backing array")
			if !bytes.Equal(block[:len(snap)], snap) {
				c.Violation("judge-go", "c05-args-written", "a handshake helper wrote into the memory of its arguments (salt / nonce / key share a backing array with spare capacity)", map[string]string{"key": hx(hc.key), "salt": hx(salt)})
			} else if !okFormula || !v3 || !okPong {
				c.Violation("judge-go", "c05-newping", fmt.Sprintf("with salt, nonce and key carved from one backing array: NewPing formula ok=%v, ValidatePingDigest ok=%v, NewPong/ValidatePongDigest ok=%v", okFormula, v3, okPong), map[string]string{"key": hx(hc.key)})
			}
		}
		if _, err := protocol.NewPong(true, "", "h", hc.key, &protocol.Helo{MessageType: "HELO"}, ping); err == nil {
			c.Violation("judge-go", "c05-newpong-nil", "NewPong accepted a HELO without options", nil)
		}
		if pg, err := protocol.NewPong(true, "", "h", hc.key, nil, ping); err == nil || pg != nil {
			c.Violation("judge-go", "c05-newpong-nil", "NewPong accepted a nil HELO", nil)
		}
		if pg, err := protocol.NewPong(true, "", "h", hc.key, protocol.NewHelo(&protocol.HeloOpts{Nonce: hc.nonce}), nil); err == nil || pg != nil {
			c.Violation("judge-go", "c05-newpong-nil", "NewPong accepted a nil PING", nil)
		}
		// the HELO a server builds with the helper (default options when none are given) is what the client decodes
		for _, ho := range []*protocol.HeloOpts{nil, {Nonce: hc.nonce, Auth: []byte{}, Keepalive: false}} {
			h := protocol.NewHelo(ho)
			hb, herr := h.MarshalMsg(nil)
			var back protocol.Helo
			_, uerr := back.UnmarshalMsg(hb)
			if h.MessageType != "HELO" || h.Options == nil || (ho == nil && !h.Options.Keepalive) || herr != nil || uerr != nil || back.Options == nil || !bytes.Equal(back.Options.Nonce, h.Options.Nonce) || back.Options.Keepalive != h.Options.Keepalive {
				c.Violation("judge-go", "c05-newhelo", "NewHelo does not build a HELO (with options) that survives the wire", nil)
			}
		}
	}
}

// c05SameClient: Connect, honest Handshake, Reconnect, Handshake against a peer that replays
// the HELO and PONG of the first one.  crypto/rand is one continuing deterministic stream.
func c05SameClient(c *core.Ctx, r *rand.Rand, hc hsCase) {
	for _, first := range []string{"honest", "interrupted", "wrong-digest", "auth-false", "garbage-pong"} {
		c05SameClientVariant(c, r, hc, first)
	}
	c05EntropyOutage(c, hc)
}

// outageRand: a random source that fails (optionally after delivering some bytes of the request)
type outageRand struct{ partial int }

func (o *outageRand) Read(b []byte) (int, error) {
	n := o.partial
	if n > len(b) {
		n = len(b)
	}
	for i := 0; i < n; i++ {
		b[i] = 0xa5
	}
	return n, errors.New("fake: random source unavailable")
}

// c05EntropyOutage: while the random source fails no fresh salt can be had: two handshakes during the outage must
// not put the same salt on the wire (the replay clause rests on salts never repeating) -- refusing to handshake is
// the answer the unchanged code gives.
func c05EntropyOutage(c *core.Ctx, hc hsCase) {
	if len(hc.key) == 0 {
		return
	}
	old := crand.Reader
	defer func() { crand.Reader = old }()
	for _, partial := range []int{0, 7} {
		crand.Reader = &outageRand{partial: partial}
		helo := mustMarshal(&protocol.Helo{MessageType: "HELO", Options: &protocol.HeloOpts{Nonce: hc.nonce, Auth: []byte{}, Keepalive: true}})
		var salts [][]byte
		entered := false
		for k := 0; k < 2; k++ {
			f := &fakes.Factory{}
			f.Setup = func(cn *fakes.Conn) { cn.Script = []fakes.ReadStep{{Data: helo}} }
			cl := client.New(client.ConnectionOptions{Factory: f, AuthInfo: client.AuthInfo{SharedKey: hc.key}})
			cl.Hostname = string(hc.chost)
			if err := cl.Connect(); err != nil {
				continue
			}
			_ = cl.Handshake()
			entered = entered || cl.TransportPhase()
			if conns := f.All(); len(conns) > 0 {
				var ping protocol.Ping
				if w := conns[0].Accepted(); len(w) > 0 {
					if _, err := ping.UnmarshalMsg(w); err == nil {
						salts = append(salts, append([]byte{}, ping.SharedKeySalt...))
					}
				}
			}
			_ = cl.Disconnect()
		}
		c.Eval()
		c.Hist("two handshakes while the random source fails")
		if len(salts) == 2 && bytes.Equal(salts[0], salts[1]) {
			c.Violation("judge-go", "c05-salt-not-fresh", fmt.Sprintf("two handshakes during an outage of the random source (it delivers %d bytes and an error) put the same salt %x on the wire", partial, salts[0]),
				map[string]interface{}{"partial_bytes": partial, "salt": hx(salts[0])})
		}
		if entered {
			c.Violation("judge-go", "c05-salt-not-fresh", "transport phase entered although no PONG was delivered", nil)
		}
	}
}

// first: how the FIRST handshake of the client ends — honest: completed; interrupted: the connection ends
// after the PING was written (the honest server's PONG for it, which the adversary has seen, is never
// delivered); wrong-digest / auth-false / garbage-pong: the PONG is rejected.  In every variant the second
// handshake (after Reconnect) is answered with the PONG an honest server produced for the FIRST one.
func c05SameClientVariant(c *core.Ctx, r *rand.Rand, hc hsCase, first string) {
	if len(hc.key) == 0 {
		return
	}
	old := crand.Reader
	defer func() { crand.Reader = old }()
	seed := r.Int63()
	stream := &detRand{rand.New(rand.NewSource(seed))}
	mirror := rand.New(rand.NewSource(seed)) // same seed: predicts the bytes the client will draw
	salt1 := make([]byte, 16)
	salt2 := make([]byte, 16)
	mirror.Read(salt1)
	mirror.Read(salt2)
	crand.Reader = stream
	helo := mustMarshal(&protocol.Helo{MessageType: "HELO", Options: &protocol.HeloOpts{Nonce: hc.nonce, Auth: []byte{}, Keepalive: true}})
	pong1 := mustMarshal(&protocol.Pong{MessageType: "PONG", AuthResult: true, ServerHostname: string(hc.shost), SharedKeyHexDigest: sha512hex(salt1, hc.shost, hc.nonce, hc.key)})
	f := &fakes.Factory{}
	f.Setup = func(cn *fakes.Conn) {
		cn.Script = []fakes.ReadStep{{Data: helo}}
		cn.OnWrite = func(idx int, b []byte) (int, error) {
			if idx != 0 {
				return len(b), nil
			}
			answer := pong1 // the PONG of handshake 1 (replayed when this is the second connection)
			if cn.ID == 0 {
				switch first {
				case "interrupted":
					answer = nil // EOF
				case "wrong-digest":
					answer = mustMarshal(&protocol.Pong{MessageType: "PONG", AuthResult: true, ServerHostname: string(hc.shost), SharedKeyHexDigest: sha512hex(salt1, hc.shost, hc.nonce, append(append([]byte{}, hc.key...), 'x'))})
				case "auth-false":
					answer = mustMarshal(&protocol.Pong{MessageType: "PONG", AuthResult: false, Reason: "no", ServerHostname: string(hc.shost), SharedKeyHexDigest: sha512hex(salt1, hc.shost, hc.nonce, hc.key)})
				case "garbage-pong":
					answer = []byte{0x95, 0xa4, 'P', 'O', 'N', 'G', 0xc1}
				}
			}
			if answer != nil {
				cn.Script = append(cn.Script, fakes.ReadStep{Data: answer})
			}
			return len(b), nil
		}
	}
	cl := client.New(client.ConnectionOptions{Factory: f, AuthInfo: client.AuthInfo{SharedKey: hc.key}})
	cl.Hostname = string(hc.chost)
	if err := cl.Connect(); err != nil {
		return
	}
	var err1 error
	if p := safely(func() { err1 = cl.Handshake() }); p != nil {
		c.Violation("panic", "c05-panic:same-client", "Handshake panicked in the first handshake of one client ("+first+")", nil)
		return
	}
	tp1 := cl.TransportPhase()
	_ = cl.Reconnect()
	var err2 error
	p := safely(func() { err2 = cl.Handshake() })
	tp2 := cl.TransportPhase()
	c.Eval()
	c.Hist(fmt.Sprintf("same client: first (%s) ok=%v, replayed second ok=%v", first, err1 == nil, err2 == nil))
	replay := map[string]interface{}{"key": hx(hc.key), "client_host": hx(hc.chost), "server_host": hx(hc.shost), "nonce": trunc(hx(hc.nonce), 80),
		"sequence": "Connect; Handshake(" + first + "); Reconnect; Handshake(peer repeats the HELO and answers with the PONG an honest server made for the first handshake)"}
	if p != nil {
		c.Violation("panic", "c05-panic:same-client", "Handshake panicked in the second handshake of one client", replay)
		return
	}
	if first == "honest" && (err1 != nil || !tp1) {
		c.Violation("judge-go", "c05-honest-rejected", "an honest peer holding the key was rejected (first handshake of the client)", replay)
		return
	}
	if first != "honest" && (err1 == nil || tp1) {
		c.Violation("judge-go", "c05-accepted:"+first, "the first handshake of the client ("+first+") brought it into transport phase", replay)
		return
	}
	if tp2 || err2 == nil {
		c.Violation("judge-go", "c05-accepted:replay-after-reconnect", "after Reconnect the client entered transport phase against a peer that replayed the PONG of the earlier handshake", replay)
	}
	// the two PINGs carry different (fresh) salts: the next 16 bytes of the random stream each
	if len(f.Conns) == 2 {
		p1, p2 := f.Conns[0].Accepted(), f.Conns[1].Accepted()
		want1 := fmt.Sprintf("ping(host=%s,salt=%s,digest=%s,user=,pass=)", hx(hc.chost), hx(salt1), hx([]byte(sha512hex(salt1, hc.chost, hc.nonce, hc.key))))
		want2 := fmt.Sprintf("ping(host=%s,salt=%s,digest=%s,user=,pass=)", hx(hc.chost), hx(salt2), hx([]byte(sha512hex(salt2, hc.chost, hc.nonce, hc.key))))
		c.Judge("c05-ping-fresh", "judge_shape", []string{"ping", hx(p1), want1}, "first PING of the client: salt = next 16 random bytes")
		if len(p2) > 0 {
			c.Judge("c05-ping-fresh", "judge_shape", []string{"ping", hx(p2), want2}, "second PING of the same client (after Reconnect): a FRESH salt = the next 16 random bytes")
		}
	}
}

// runHandshakeRaw: Connect + Handshake against a peer that delivers inp1 before and inp2
// after the first write; the client's salt is drawn from the deterministic stream of seed.
func runHandshakeRaw(seed int64, hc hsCase, inp1, inp2 []byte) hsResult {
	old := crand.Reader
	defer func() { crand.Reader = old }()
	crand.Reader = &detRand{rand.New(rand.NewSource(seed))}
	res := hsResult{inp1: inp1, inp2: inp2}
	f := &fakes.Factory{}
	f.Setup = func(cn *fakes.Conn) {
		cn.Script = []fakes.ReadStep{{Data: inp1}}
		cn.OnWrite = func(idx int, b []byte) (int, error) {
			if idx == 0 && len(inp2) > 0 {
				cn.Script = append(cn.Script, fakes.ReadStep{Data: inp2})
			}
			return len(b), nil
		}
	}
	cl := client.New(client.ConnectionOptions{Factory: f, AuthInfo: client.AuthInfo{SharedKey: hc.key}})
	cl.Hostname = string(hc.chost)
	if err := cl.Connect(); err != nil {
		panic(err)
	}
	var err error
	if p := safely(func() { err = cl.Handshake() }); p != nil {
		res.class = "panic"
	} else if err != nil {
		res.class = "err"
	} else {
		res.class = "ok"
	}
	res.transport = cl.TransportPhase()
	res.written = f.Conns[0].Accepted()
	return res
}
