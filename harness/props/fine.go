package props

import (
	"verif/harness/core"
	"verif/harness/sched"
	"verif/harness/vsync"
)

// Fine-grained phase (vh-fine, see harness/vsync): the library is compiled against vsync, every
// lock operation is a yield point.  The choice tree is far too large for depth-first
// enumeration, so this phase draws schedules from the PRNG (replayable: the effective choice
// list is recorded like a DFS path).
var fineMode bool

func setFine(c *core.Ctx) bool {
	fineMode = c.Fine
	if fineMode {
		vsync.SetPoolPolicy(vsync.PoolLIFO)
	}
	return fineMode
}

// attachFine makes the scheduler the yielder of vsync for the duration of one run.
func attachFine(s *sched.Sched, free bool) func() {
	if !fineMode || free {
		return func() {}
	}
	vsync.Attach(s.YieldIf)
	return func() { vsync.Attach(nil) }
}

func explore(c *core.Ctx, max int, run func(choices []int) []int) (int, bool) {
	if fineMode {
		fineWalkSeed++
		return sched.Walks(max, c.Seed*1000003+fineWalkSeed, run), false
	}
	return sched.Explore(max, run)
}

var fineWalkSeed int64

func effective(choices, widths []int) []int {
	if fineMode {
		return sched.Effective(choices, widths)
	}
	return choices
}
