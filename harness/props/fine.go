package props

import (
	"fmt"
	"verif/harness/core"
	"verif/harness/sched"
	"verif/harness/vsync"
)

// Fine-grained phase (vh-fine, see harness/vsync): the library is compiled against vsync, every
// lock operation is a yield point.  The choice tree is far too large for depth-first
// enumeration, so this phase draws schedules from the PRNG (replayable: the effective choice
// list is recorded like a DFS path).
var fineMode bool

func setFine(c *core.Ctx) bool {
	fineMode = c.Fine
	if fineMode {
		vsync.SetPoolPolicy(vsync.PoolLIFO)
	}
	return fineMode
}

// attachFine makes the scheduler the yielder of vsync for the duration of one run.
func attachFine(s *sched.Sched, free bool) func() {
	if !fineMode || free {
		return func() {}
	}
	vsync.Attach(s.YieldIf)
	return func() { vsync.Attach(nil) }
}

func explore(c *core.Ctx, max int, run func(choices []int) []int) (int, bool) {
	if fineMode {
		fineWalkSeed++
		k := 0
		n := sched.Walks(max, c.Seed*1000003+fineWalkSeed, func(choices []int) []int {
			if c.Expired() {
				return nil
			}
			// every fourth walk starves one worker at its I/O events (an underlying call that stalls)
			fineStarve = ""
			if k%4 == 3 {
				fineStarve = fmt.Sprintf("w%d", (k/4)%3)
			}
			k++
			defer func() { fineStarve = "" }()
			return run(choices)
		})
		return n, false
	}
	cut := false
	n, ex := sched.Explore(max, func(choices []int) []int {
		if c.Expired() {
			cut = true
			return nil
		}
		return run(choices)
	})
	return n, ex && !cut
}

// fineStarve: the worker the scheduler starves in the current walk ("" = none); runners that support it
// hand it to the scheduler, every runner records it in the replay.
var fineStarve string

// picksOf: the replayable choice list of a run (the controller's waits are not choices).
func picksOf(s *sched.Sched) []int {
	out := []int{}
	for _, p := range s.Picks {
		if p >= 0 {
			out = append(out, p)
		}
	}
	return out
}

var fineWalkSeed int64

func effective(choices, picks []int) []int {
	if fineMode {
		return picks
	}
	return choices
}
