package props

import "verif/harness/core"

// All maps a property id to its harness.
var All = map[string]func(*core.Ctx){}
