// Package canon renders Go observations in the canonical grammar shared with the
// Coq model (coq/model/Render.v, Show.v).
package canon

import (
	"encoding/hex"
	"fmt"
	"reflect"
	"sort"
	"strings"
)

// Typed renders a record so that two renderings are equal iff reflect.DeepEqual holds
// on the NaN-free, pointer-free value domain the harness generates: dynamic types are
// kept, map entries are sorted by key.
func Typed(v interface{}) string {
	var sb strings.Builder
	typed(&sb, reflect.ValueOf(v))
	return sb.String()
}

func typed(sb *strings.Builder, v reflect.Value) {
	if !v.IsValid() {
		sb.WriteString("nil")
		return
	}
	switch v.Kind() {
	case reflect.Interface:
		if v.IsNil() {
			sb.WriteString("nil")
			return
		}
		typed(sb, v.Elem())
	case reflect.Map:
		fmt.Fprintf(sb, "%s{", v.Type())
		if v.IsNil() {
			sb.WriteString("<nil>")
		}
		keys := v.MapKeys()
		sort.Slice(keys, func(i, j int) bool { return fmt.Sprint(keys[i]) < fmt.Sprint(keys[j]) })
		for _, k := range keys {
			fmt.Fprintf(sb, "%q=", fmt.Sprint(k))
			typed(sb, v.MapIndex(k))
			sb.WriteByte(',')
		}
		sb.WriteByte('}')
	case reflect.Slice:
		if v.Type().Elem().Kind() == reflect.Uint8 {
			fmt.Fprintf(sb, "%s<%v>(%s)", v.Type(), v.IsNil(), hex.EncodeToString(v.Bytes()))
			return
		}
		fmt.Fprintf(sb, "%s<%v>[", v.Type(), v.IsNil())
		for i := 0; i < v.Len(); i++ {
			typed(sb, v.Index(i))
			sb.WriteByte(',')
		}
		sb.WriteByte(']')
	case reflect.String:
		fmt.Fprintf(sb, "%s(%s)", v.Type(), hex.EncodeToString([]byte(v.String())))
	default:
		fmt.Fprintf(sb, "%s(%v)", v.Type(), v.Interface())
	}
}
