// Package core is the plumbing shared by all property harnesses: case emission in the
// line protocol of the extracted model driver, histograms, samples, direct violations.
package core

import (
	"bufio"
	"encoding/json"
	"fmt"
	"math/rand"
	"os"
	"path/filepath"
	"sort"
	"strings"
	"sync"
	"time"
)

// Ctx collects everything one run of one property harness produces.
type Ctx struct {
	Prop   string
	Tier   string
	Seed   int64
	Rng    *rand.Rand
	OutDir string
	Only   int // replay: only this case id is emitted (-1 = all)
	Start  time.Time
	Fine   bool // fine-grained phase: the library is compiled against harness/vsync (lock operations are yield points, adversarial pools)
	Input  json.RawMessage

	mu         sync.Mutex
	cases      *bufio.Writer
	casesF     *os.File
	next       int
	hist       map[string]int
	nontrivial map[string]struct{}
	samples    []interface{}
	violations []Violation
	perSig     map[string]int
	evals      int
	extra      map[string]interface{}
}

type Violation struct {
	Kind      string      `json:"kind"`      // e.g. "panic", "race", "judge-go"
	Signature string      `json:"signature"` // stable id used by known_findings.json
	What      string      `json:"what"`
	Replay    interface{} `json:"replay"`
}

func New(prop, tier string, seed int64, out string, only int) (*Ctx, error) {
	if err := os.MkdirAll(out, 0o755); err != nil {
		return nil, err
	}
	f, err := os.Create(filepath.Join(out, "cases.tsv"))
	if err != nil {
		return nil, err
	}
	return &Ctx{Start: time.Now(), Prop: prop, Tier: tier, Seed: seed, Rng: rand.New(rand.NewSource(seed)), OutDir: out, Only: only,
		casesF: f, cases: bufio.NewWriterSize(f, 1<<20), hist: map[string]int{}, nontrivial: map[string]struct{}{},
		extra: map[string]interface{}{}}, nil
}

func (c *Ctx) Thorough() bool { return c.Tier == "thorough" }

// Expired: the schedule explorations of the thorough tier stop starting new schedules once the harness has run
// for VERIF_EXPLORE_SECONDS (default 1500): the tier is "as deep as the time allows", the evidence records how
// far it got (exhaustive = false for an exploration that was cut).
func (c *Ctx) Expired() bool {
	limit := 1500.0
	if v := os.Getenv("VERIF_EXPLORE_SECONDS"); v != "" {
		fmt.Sscan(v, &limit)
	}
	if time.Since(c.Start).Seconds() > limit {
		c.mu.Lock()
		c.extra["exploration_cut_by_time_budget"] = true
		c.mu.Unlock()
		return true
	}
	return false
}

// N picks the quick or thorough size.
func (c *Ctx) N(quick, thorough int) int {
	if c.Thorough() {
		return thorough
	}
	return quick
}

// Case emits one model evaluation: kind "corr" (model must predict `expected`, the
// implementation's observation) or "judge" (extracted property predicate applied to the
// implementation's observation; expected is always "ok"). sig is a stable signature
// used for known findings; note is free text that ends up in the replay.
func (c *Ctx) Case(kind, sig, entry string, args []string, expected string, note string) int {
	c.mu.Lock()
	defer c.mu.Unlock()
	id := c.next
	c.next++
	if c.Only >= 0 && id != c.Only {
		return id
	}
	for _, a := range append([]string{entry, expected, sig, note}, args...) {
		if strings.ContainsAny(a, "\t\n") {
			panic("core: tab/newline in case field: " + a)
		}
	}
	fmt.Fprintf(c.cases, "%d\t%s\t%s\t%s\t%s\t%s", id, kind, sig, note, expected, entry)
	for _, a := range args {
		c.cases.WriteByte('\t')
		c.cases.WriteString(a)
	}
	c.cases.WriteByte('\n')
	return id
}

func (c *Ctx) Corr(sig, entry string, args []string, expected string) int {
	return c.Case("corr", sig, entry, args, expected, "")
}
func (c *Ctx) Judge(sig, entry string, args []string, note string) int {
	return c.Case("judge", sig, entry, args, "ok", note)
}

func (c *Ctx) Eval()           { c.mu.Lock(); c.evals++; c.mu.Unlock() }
func (c *Ctx) Hist(key string) { c.mu.Lock(); c.hist[key]++; c.mu.Unlock() }
func (c *Ctx) Distinct(key string) {
	c.mu.Lock()
	c.nontrivial[key] = struct{}{}
	c.mu.Unlock()
}
func (c *Ctx) Sample(v interface{}) {
	c.mu.Lock()
	if len(c.samples) < 6 {
		c.samples = append(c.samples, v)
	}
	c.mu.Unlock()
}
func (c *Ctx) Extra(k string, v interface{}) { c.mu.Lock(); c.extra[k] = v; c.mu.Unlock() }
func (c *Ctx) Violation(kind, sig, what string, replay interface{}) {
	c.mu.Lock()
	// a bound per signature, not one for the whole run: many reports of one (possibly known) finding must not crowd
	// out the first report of another
	if c.perSig == nil {
		c.perSig = map[string]int{}
	}
	if c.perSig[sig] < 8 && len(c.violations) < 400 {
		c.perSig[sig]++
		c.violations = append(c.violations, Violation{kind, sig, what, replay})
	}
	c.mu.Unlock()
}

// InFlight records what is about to be executed, so that a crash of the whole process (a
// panic in a goroutine the library spawned cannot be recovered) can be attributed to it.
func (c *Ctx) InFlight(v interface{}) {
	b, err := json.Marshal(v)
	if err == nil {
		_ = os.WriteFile(filepath.Join(c.OutDir, "inflight.json"), b, 0o644)
	}
}

func (c *Ctx) Close() error {
	_ = os.Remove(filepath.Join(c.OutDir, "inflight.json"))
	if err := c.cases.Flush(); err != nil {
		return err
	}
	c.casesF.Close()
	keys := make([]string, 0, len(c.hist))
	for k := range c.hist {
		keys = append(keys, k)
	}
	sort.Strings(keys)
	meta := map[string]interface{}{
		"property": c.Prop, "tier": c.Tier, "seed": c.Seed,
		"evaluations": c.evals, "distinct_nontrivial": len(c.nontrivial),
		"histogram": c.hist, "samples": c.samples, "violations": c.violations, "cases": c.next,
		"extra": c.extra,
	}
	b, err := json.MarshalIndent(meta, "", " ")
	if err != nil {
		return err
	}
	return os.WriteFile(filepath.Join(c.OutDir, "meta.json"), b, 0o644)
}
