module verif/harness

go 1.18

require (
	github.com/IBM/fluent-forward-go v0.0.0
	github.com/google/uuid v1.3.0
	github.com/gorilla/websocket v1.4.2
	github.com/tinylib/msgp v1.1.9
)

require github.com/philhofer/fwd v1.1.2 // indirect

replace github.com/IBM/fluent-forward-go => /repo
