// Package fakes: instrumented environment objects (net.Conn, connection factories, ...).
package fakes

import (
	"encoding/hex"
	"errors"
	"fmt"
	"io"
	"net"
	"os"
	"sync"
	"time"
)

// ReadStep is one scripted behaviour of the peer as seen by Read.
type ReadStep struct {
	Data  []byte        // bytes delivered (possibly over several Read calls if the buffer is small)
	Delay time.Duration // wait before delivering (a read deadline can expire meanwhile)
	EOF   bool          // deliver io.EOF
	Err   error         // deliver this error
	Block bool          // block until the read deadline expires or the conn is closed
}

// WriteEvent records one Write call.
type WriteEvent struct {
	Data     []byte // the bytes offered
	Accepted int    // how many were accepted
	Err      error
	Who      string // label of the calling worker, if the harness set one
}

// Conn is a scripted, recording net.Conn.
type Conn struct {
	mu        sync.Mutex
	ID        int
	Writes    []WriteEvent
	Closes    int
	Script    []ReadStep
	pending   []byte
	deadline  time.Time
	closedCh  chan struct{}
	OnWrite   func(idx int, b []byte) (int, error) // nil: accept everything
	OnClose   func() error
	Hook      func(c *Conn, op string) // yield point for the deterministic scheduler (called before each operation)
	AfterHook func(c *Conn, op string)
	Deadlines []time.Time
	Canary    int             // plain variable touched by every Write/Read (race detector judges happens-before)
	FragMax   int             // >0: deliver at most FragMax bytes per Read call
	Log       func(ev string) // ordered log of environment calls (w:<id>:<offered hex>:<accepted>, c:<id>, d:<id>)
	// DeadlineErr: what SetReadDeadline returns (a connection that cannot arm a deadline: nothing bounds a read on it)
	DeadlineErr error
}

func NewConn(id int) *Conn { return &Conn{ID: id, closedCh: make(chan struct{})} }

func (c *Conn) hook(op string) {
	if c.Hook != nil {
		c.Hook(c, op)
	}
}

func (c *Conn) Write(b []byte) (int, error) {
	c.hook("write")
	c.mu.Lock()
	defer c.mu.Unlock()
	c.Canary++
	idx := len(c.Writes)
	n, err := len(b), error(nil)
	if c.Closes > 0 {
		n, err = 0, net.ErrClosed
	} else if c.OnWrite != nil {
		n, err = c.OnWrite(idx, b)
	}
	c.Writes = append(c.Writes, WriteEvent{Data: append([]byte{}, b...), Accepted: n, Err: err})
	if c.Log != nil {
		c.Log(fmt.Sprintf("w:%d:%s:%d", c.ID, hex.EncodeToString(b), n))
	}
	return n, err
}

// Accepted returns the concatenation of all accepted bytes.
func (c *Conn) Accepted() []byte {
	c.mu.Lock()
	defer c.mu.Unlock()
	var out []byte
	for _, w := range c.Writes {
		out = append(out, w.Data[:w.Accepted]...)
	}
	return out
}

func (c *Conn) NumWrites() int {
	c.mu.Lock()
	defer c.mu.Unlock()
	return len(c.Writes)
}

type timeoutErr struct{}

func (timeoutErr) Error() string   { return "i/o timeout" }
func (timeoutErr) Timeout() bool   { return true }
func (timeoutErr) Temporary() bool { return true }
func (timeoutErr) Unwrap() error   { return os.ErrDeadlineExceeded }

func (c *Conn) Read(b []byte) (int, error) {
	c.hook("read")
	for {
		c.mu.Lock()
		c.Canary++
		if c.Closes > 0 {
			c.mu.Unlock()
			return 0, net.ErrClosed
		}
		if len(c.pending) > 0 {
			n := len(b)
			if c.FragMax > 0 && n > c.FragMax {
				n = c.FragMax
			}
			n = copy(b[:n], c.pending)
			c.pending = c.pending[n:]
			c.mu.Unlock()
			return n, nil
		}
		if len(c.Script) == 0 {
			c.mu.Unlock()
			return 0, io.EOF
		}
		st := c.Script[0]
		dl := c.deadline
		c.mu.Unlock()
		wait := func(d time.Duration) bool { // false: deadline or close interrupted the wait
			var dlCh <-chan time.Time
			if !dl.IsZero() {
				dlCh = time.After(time.Until(dl))
			}
			var tm <-chan time.Time
			if d >= 0 {
				tm = time.After(d)
			}
			select {
			case <-tm:
				return true
			case <-dlCh:
				return false
			case <-c.closedCh:
				return false
			}
		}
		if st.Block {
			wait(-1)
			c.mu.Lock()
			closed := c.Closes > 0
			c.mu.Unlock()
			if closed {
				return 0, net.ErrClosed
			}
			return 0, timeoutErr{}
		}
		if st.Delay > 0 {
			if !wait(st.Delay) {
				c.mu.Lock()
				closed := c.Closes > 0
				c.mu.Unlock()
				if closed {
					return 0, net.ErrClosed
				}
				return 0, timeoutErr{}
			}
		}
		c.mu.Lock()
		c.Script = c.Script[1:]
		switch {
		case st.Err != nil:
			c.mu.Unlock()
			return 0, st.Err
		case st.EOF:
			c.mu.Unlock()
			return 0, io.EOF
		default:
			c.pending = append(c.pending, st.Data...)
			c.mu.Unlock()
		}
	}
}

func (c *Conn) Close() error {
	c.hook("close")
	c.mu.Lock()
	c.Closes++
	first := c.Closes == 1
	f := c.OnClose
	lg := c.Log
	c.mu.Unlock()
	if lg != nil {
		lg(fmt.Sprintf("c:%d", c.ID))
	}
	if first {
		close(c.closedCh)
	}
	if f != nil {
		return f()
	}
	return nil
}

func (c *Conn) NumCloses() int {
	c.mu.Lock()
	defer c.mu.Unlock()
	return c.Closes
}

type addr struct{}

func (addr) Network() string { return "fake" }
func (addr) String() string  { return "fake" }

func (c *Conn) LocalAddr() net.Addr  { return addr{} }
func (c *Conn) RemoteAddr() net.Addr { return addr{} }
func (c *Conn) SetDeadline(t time.Time) error {
	return c.SetReadDeadline(t)
}
func (c *Conn) SetReadDeadline(t time.Time) error {
	c.hook("setreaddeadline")
	c.mu.Lock()
	derr := c.DeadlineErr
	if derr == nil {
		c.deadline = t
	}
	c.Deadlines = append(c.Deadlines, t)
	lg := c.Log
	c.mu.Unlock()
	if lg != nil {
		lg(fmt.Sprintf("d:%d", c.ID))
	}
	return derr
}
func (c *Conn) SetWriteDeadline(t time.Time) error { return nil }

func (c *Conn) SetDeadlineErr(err error) {
	c.mu.Lock()
	c.DeadlineErr = err
	c.mu.Unlock()
}

// Factory hands out scripted connections; FailOn lists the (0-based) calls that fail.
type Factory struct {
	mu     sync.Mutex
	Calls  int
	FailOn map[int]bool
	Conns  []*Conn
	Setup  func(c *Conn) // customise each new connection
	Hook   func(op string)
	Log    func(ev string) // n1:<id> / n0:<id>
}

var ErrDial = errors.New("fake dial error")

func (f *Factory) New() (net.Conn, error) {
	if f.Hook != nil {
		f.Hook("new")
	}
	f.mu.Lock()
	defer f.mu.Unlock()
	k := f.Calls
	f.Calls++
	if f.FailOn[k] {
		if f.Log != nil {
			f.Log(fmt.Sprintf("n0:%d", len(f.Conns)))
		}
		return nil, ErrDial
	}
	c := NewConn(len(f.Conns))
	c.Log = f.Log
	if f.Log != nil {
		f.Log(fmt.Sprintf("n1:%d", c.ID))
	}
	if f.Setup != nil {
		f.Setup(c)
	}
	f.Conns = append(f.Conns, c)
	return c, nil
}

func (f *Factory) NumCalls() int {
	f.mu.Lock()
	defer f.mu.Unlock()
	return f.Calls
}

func (f *Factory) All() []*Conn {
	f.mu.Lock()
	defer f.mu.Unlock()
	return append([]*Conn{}, f.Conns...)
}

// SetScript replaces the peer script (and drops bytes not yet read).
func (c *Conn) SetScript(s []ReadStep) {
	c.mu.Lock()
	c.Script = append([]ReadStep{}, s...)
	c.pending = nil
	c.mu.Unlock()
}

// AppendScript adds steps to the peer script.
func (c *Conn) AppendScript(s ...ReadStep) {
	c.mu.Lock()
	c.Script = append(c.Script, s...)
	c.mu.Unlock()
}

// SetScriptInWrite is SetScript for use inside an OnWrite callback (the connection's
// mutex is already held there).
func (c *Conn) SetScriptInWrite(s []ReadStep) {
	c.Script = append([]ReadStep{}, s...)
	c.pending = nil
}
