package fakes

import (
	"errors"
	"fmt"
	"net"
	"sync"
	"time"

	"github.com/gorilla/websocket"

	"github.com/IBM/fluent-forward-go/fluent/client/ws"
	"github.com/IBM/fluent-forward-go/fluent/client/ws/ext"
)

// PeerItem is what one ReadMessage call returns while the connection is open.
type PeerItem struct {
	Kind string // data | close | neterr
	Code int    // close code
	Data []byte
}

// ExtConn is a scripted, recording stand-in for the gorilla connection behind
// ws.connection.  Only the methods ws.connection uses are implemented; the embedded nil
// interface makes any other call crash loudly.
//
// Behaviour mirrored from gorilla/websocket v1.4.2: ReadMessage invokes the close handler
// synchronously before returning a *CloseError; a read that is blocked (or issued) after a
// local Close returns an error wrapping net.ErrClosed; writes after Close fail.
type ExtConn struct {
	FrameLimit  bool  // control frames (close) whose payload exceeds 125 bytes are refused, as gorilla does
	DeadlineErr error // what SetReadDeadline / SetWriteDeadline return (ws.NewConnection fails on it after a successful dial)
	ext.Conn
	mu           sync.Mutex
	closeHandler func(code int, text string) error
	Script       []PeerItem
	closedCh     chan struct{}
	wake         chan struct{}
	Closes       int
	Frames       [][2]interface{} // (type, payload)
	CloseFrameOK bool
	WriteOK      func(data []byte) bool
	WriteErr     error           // data writes fail with exactly this error
	Hook         func(op string) // yield point (called on entry)
	Log          func(ev string)
	// plain variables touched by every underlying write / read: the race detector judges
	// whether two writes (two reads) can happen without a happens-before edge between them
	WriteCanary int
	ReadCanary  int
	Inside      map[string]int // how many goroutines are inside WriteMessage / ReadMessage right now
	MaxInside   map[string]int
}

func NewExtConn() *ExtConn {
	return &ExtConn{closedCh: make(chan struct{}), wake: make(chan struct{}, 1), CloseFrameOK: true, Inside: map[string]int{}, MaxInside: map[string]int{}}
}

func (c *ExtConn) enter(op string) {
	c.mu.Lock()
	c.Inside[op]++
	if c.Inside[op] > c.MaxInside[op] {
		c.MaxInside[op] = c.Inside[op]
	}
	c.mu.Unlock()
}
func (c *ExtConn) leave(op string) {
	c.mu.Lock()
	c.Inside[op]--
	c.mu.Unlock()
}

func (c *ExtConn) hook(op string) {
	if c.Hook != nil {
		c.Hook(op)
	}
}
func (c *ExtConn) log(ev string) {
	if c.Log != nil {
		c.Log(ev)
	}
}

func (c *ExtConn) SetCloseHandler(h func(code int, text string) error) { c.closeHandler = h }
func (c *ExtConn) SetPingHandler(h func(appData string) error)         {}
func (c *ExtConn) SetPongHandler(h func(appData string) error)         {}
func (c *ExtConn) SetReadDeadline(t time.Time) error                   { return c.DeadlineErr }
func (c *ExtConn) SetWriteDeadline(t time.Time) error                  { return c.DeadlineErr }

func (c *ExtConn) closedErr() error { return &net.OpError{Op: "read", Net: "fake", Err: net.ErrClosed} }

func (c *ExtConn) ReadMessage() (int, []byte, error) {
	c.enter("read")
	defer c.leave("read")
	c.ReadCanary++
	c.hook("read")
	c.log("r")
	c.mu.Lock()
	if c.Closes > 0 {
		c.mu.Unlock()
		return 0, nil, c.closedErr()
	}
	for len(c.Script) == 0 {
		c.mu.Unlock()
		select {
		case <-c.closedCh: // the peer is silent: block until the connection is closed locally
			c.ReadCanary++
			return 0, nil, c.closedErr()
		case <-c.wake: // the harness appended to the script meanwhile
		}
		c.mu.Lock()
	}
	it := c.Script[0]
	c.Script = c.Script[1:]
	h := c.closeHandler
	c.mu.Unlock()
	c.ReadCanary++
	switch it.Kind {
	case "data":
		return websocket.BinaryMessage, it.Data, nil
	case "close":
		if h != nil {
			_ = h(it.Code, "")
		}
		return 0, nil, &websocket.CloseError{Code: it.Code}
	default:
		return 0, nil, &net.OpError{Op: "read", Net: "fake", Err: errors.New("connection reset by peer")}
	}
}

func (c *ExtConn) WriteMessage(messageType int, data []byte) error {
	c.enter("write")
	defer c.leave("write")
	c.WriteCanary++
	c.hook("write")
	c.mu.Lock()
	c.Frames = append(c.Frames, [2]interface{}{messageType, append([]byte{}, data...)})
	ok := c.Closes == 0
	if messageType == websocket.CloseMessage {
		ok = ok && c.CloseFrameOK
	} else if c.WriteOK != nil {
		ok = ok && c.WriteOK(data)
	}
	c.mu.Unlock()
	if messageType == websocket.CloseMessage {
		c.log("f:8")
	} else {
		c.log(fmt.Sprintf("f:2:%x", data))
	}
	c.WriteCanary++
	if messageType == websocket.CloseMessage && c.FrameLimit && len(data) > 125 {
		return errors.New("websocket: invalid control frame")
	}
	if messageType != websocket.CloseMessage && c.WriteErr != nil {
		return c.WriteErr
	}
	if !ok {
		return errors.New("fake: write failed")
	}
	return nil
}

// WriteControl is gorilla's concurrency-safe writer for control frames.  A CLOSE frame sent through it is
// still "the close frame" of the property (frames are written one at a time): it is counted among the
// goroutines inside the write path like a WriteMessage; pings and pongs are not frames the property speaks about.
func (c *ExtConn) WriteControl(messageType int, data []byte, deadline time.Time) error {
	if messageType == websocket.CloseMessage {
		return c.WriteMessage(messageType, data)
	}
	c.mu.Lock()
	ok := c.Closes == 0
	c.mu.Unlock()
	if !ok {
		return errors.New("fake: write failed")
	}
	return nil
}

func (c *ExtConn) Close() error {
	c.hook("close")
	c.mu.Lock()
	c.Closes++
	first := c.Closes == 1
	c.mu.Unlock()
	if first {
		close(c.closedCh)
	}
	c.log("c")
	return nil
}

// Wake lets a read that is blocked on an empty script look at the script again.
func (c *ExtConn) Wake() {
	select {
	case c.wake <- struct{}{}:
	default:
	}
}

func (c *ExtConn) Lock()   { c.mu.Lock() }
func (c *ExtConn) Unlock() { c.mu.Unlock() }

func (c *ExtConn) NumCloses() int {
	c.mu.Lock()
	defer c.mu.Unlock()
	return c.Closes
}

func (c *ExtConn) CloseFrames() int {
	c.mu.Lock()
	defer c.mu.Unlock()
	n := 0
	for _, f := range c.Frames {
		if f[0].(int) == websocket.CloseMessage {
			n++
		}
	}
	return n
}

// WsConn is a scripted stand-in for ws.Connection, handed to WSClient through
// WSConnectionFactory.NewSession.
type WsConn struct {
	ws.Connection
	ID        int
	mu        sync.Mutex
	closed    bool
	closedCh  chan struct{}
	EndsAlone bool  // Listen returns although nobody closed
	ListenErr error // what Listen returns
	WriteOK   func(b []byte) bool
	Writes    [][]byte
	Closes    int
	Hook      func(op string)
	Log       func(ev string)
}

func NewWsConn(id int) *WsConn { return &WsConn{ID: id, closedCh: make(chan struct{})} }

func (c *WsConn) hook(op string) {
	if c.Hook != nil {
		c.Hook(op)
	}
}
func (c *WsConn) log(ev string) {
	if c.Log != nil {
		c.Log(ev)
	}
}

func (c *WsConn) Closed() bool {
	c.hook("closedq")
	c.mu.Lock()
	r := c.closed
	c.mu.Unlock()
	c.log(fmt.Sprintf("q:%d:%s", c.ID, map[bool]string{true: "1", false: "0"}[r]))
	return r
}

func (c *WsConn) Close() error {
	c.hook("close")
	c.mu.Lock()
	c.Closes++
	first := !c.closed
	c.closed = true
	c.mu.Unlock()
	if first {
		close(c.closedCh)
	}
	c.log(fmt.Sprintf("c:%d", c.ID))
	return nil
}

// SelfClose: the connection closes without the client asking (the reader's default handler
// closed it after a read error, or the peer performed the close handshake).
func (c *WsConn) SelfClose() {
	c.mu.Lock()
	first := !c.closed
	c.closed = true
	c.mu.Unlock()
	if first {
		close(c.closedCh)
	}
}

func (c *WsConn) Write(b []byte) (int, error) {
	c.hook("write")
	c.mu.Lock()
	c.Writes = append(c.Writes, append([]byte{}, b...))
	ok := !c.closed && (c.WriteOK == nil || c.WriteOK(b))
	c.mu.Unlock()
	c.log(fmt.Sprintf("w:%d:%x", c.ID, b))
	if !ok {
		return 0, errors.New("fake: write failed")
	}
	return len(b), nil
}

func (c *WsConn) Listen() error {
	c.hook("listen")
	c.log(fmt.Sprintf("l:%d", c.ID))
	if !c.EndsAlone {
		<-c.closedCh
	}
	return c.ListenErr
}

func (c *WsConn) NumWrites() int {
	c.mu.Lock()
	defer c.mu.Unlock()
	return len(c.Writes)
}
