// Package vsync is a drop-in replacement for the parts of package sync the library uses.
//
// ./check builds a second harness binary (vh-fine) with `go build -overlay`: every non-test
// source file of /repo/fluent that imports "sync" is compiled from a copy in which that one
// import reads `sync "verif/harness/vsync"`; nothing else is changed and /repo is not touched.
// In that binary
//
//   - every Lock/RLock/TryLock is a yield point of the deterministic scheduler
//     (harness/sched), with an enabledness predicate (a goroutine waiting for a lock that is
//     held is not offered to the scheduler), so that the interleavings inside windows that
//     hold nothing but lock operations — check-then-act on a lock-protected flag — are
//     explored and replayed like those of the I/O yield points;
//   - RWMutex follows Go's writer preference (a pending Lock blocks new RLocks), so a
//     recursive read lock that can deadlock does deadlock under the scheduler;
//   - Pool has selectable policies (always reuse the most recent object / oldest / never /
//     the real sync.Pool): which pooled object a Get returns is a nondeterministic choice in
//     the model (coq/model/Pool.v), the policies are the adversarial resolutions of it.
//
// With no scheduler attached every type behaves exactly like its sync counterpart (the real
// primitive is always acquired as well, the bookkeeping is advisory).
package vsync

import (
	"fmt"
	"path/filepath"
	"runtime"
	"sync"
	"sync/atomic"
)

// Yielder is what the scheduler provides: park the calling goroutine at event ev until the
// controller resumes it; ready tells the controller whether the goroutine could proceed.
type Yielder func(ev string, ready func() bool)

var yielder atomic.Pointer[Yielder]

// Attach installs (or with nil removes) the scheduler hook.
func Attach(y Yielder) {
	if y == nil {
		yielder.Store(nil)
		return
	}
	yielder.Store(&y)
}

// Instrumented reports whether the code under test was compiled against this package.
var used atomic.Bool

func Instrumented() bool { return used.Load() }

func yield(kind string, ready func() bool) {
	used.Store(true)
	y := yielder.Load()
	if y == nil {
		return
	}
	_, file, line, ok := runtime.Caller(2)
	if ok {
		kind = fmt.Sprintf("%s@%s:%d", kind, filepath.Base(file), line)
	}
	(*y)(kind, ready)
}

func always() bool { return true }

// ---------------------------------------------------------------------------------------
// Mutex

type Mutex struct {
	mu   sync.Mutex
	held atomic.Int32
}

func (m *Mutex) Lock() {
	yield("lock", func() bool { return m.held.Load() == 0 })
	m.mu.Lock()
	m.held.Store(1)
}

func (m *Mutex) TryLock() bool {
	yield("trylock", always)
	if m.mu.TryLock() {
		m.held.Store(1)
		return true
	}
	return false
}

func (m *Mutex) Unlock() {
	used.Store(true)
	m.held.Store(0)
	m.mu.Unlock()
}

// ---------------------------------------------------------------------------------------
// RWMutex (writer preference as in package sync: a pending writer blocks new readers)

type RWMutex struct {
	mu      sync.RWMutex
	st      sync.Mutex
	readers int
	writer  bool
	pending int
}

func (m *RWMutex) get() (readers int, writer bool, pending int) {
	m.st.Lock()
	defer m.st.Unlock()
	return m.readers, m.writer, m.pending
}

func (m *RWMutex) Lock() {
	if yielder.Load() != nil {
		yield("wlock-announce", always)
		m.st.Lock()
		m.pending++
		m.st.Unlock()
		yield("wlock", func() bool { r, w, _ := m.get(); return r == 0 && !w })
		m.st.Lock()
		m.pending--
		m.st.Unlock()
	}
	used.Store(true)
	m.mu.Lock()
	m.st.Lock()
	m.writer = true
	m.st.Unlock()
}

func (m *RWMutex) TryLock() bool {
	yield("trywlock", always)
	if m.mu.TryLock() {
		m.st.Lock()
		m.writer = true
		m.st.Unlock()
		return true
	}
	return false
}

func (m *RWMutex) Unlock() {
	m.st.Lock()
	m.writer = false
	m.st.Unlock()
	m.mu.Unlock()
}

func (m *RWMutex) RLock() {
	yield("rlock", func() bool { _, w, p := m.get(); return !w && p == 0 })
	m.mu.RLock()
	m.st.Lock()
	m.readers++
	m.st.Unlock()
}

func (m *RWMutex) TryRLock() bool {
	yield("tryrlock", always)
	if m.mu.TryRLock() {
		m.st.Lock()
		m.readers++
		m.st.Unlock()
		return true
	}
	return false
}

func (m *RWMutex) RUnlock() {
	m.st.Lock()
	m.readers--
	m.st.Unlock()
	m.mu.RUnlock()
}

type rlocker RWMutex

func (r *rlocker) Lock()   { (*RWMutex)(r).RLock() }
func (r *rlocker) Unlock() { (*RWMutex)(r).RUnlock() }

func (m *RWMutex) RLocker() Locker { return (*rlocker)(m) }

// ---------------------------------------------------------------------------------------
// Pool

const (
	PoolReal  = iota // delegate to sync.Pool
	PoolLIFO         // Get returns the object put back most recently (maximal reuse)
	PoolFIFO         // Get returns the object put back first
	PoolNever        // Get always makes a new object
)

var poolPolicy atomic.Int32

// SetPoolPolicy selects how every Pool resolves Get from now on; objects held under the
// previous policy are forgotten (as a GC cycle would).
func SetPoolPolicy(p int) { poolPolicy.Store(int32(p)); poolEpoch.Add(1) }

var poolEpoch atomic.Int64

type Pool struct {
	New func() any

	real  sync.Pool
	mu    sync.Mutex
	items []any
	epoch int64
}

func (p *Pool) Get() any {
	used.Store(true)
	pol := poolPolicy.Load()
	if pol == PoolReal {
		if v := p.real.Get(); v != nil {
			return v
		}
		if p.New != nil {
			return p.New()
		}
		return nil
	}
	p.mu.Lock()
	if e := poolEpoch.Load(); e != p.epoch {
		p.items, p.epoch = nil, e
	}
	var v any
	if n := len(p.items); n > 0 && pol != PoolNever {
		if pol == PoolLIFO {
			v, p.items = p.items[n-1], p.items[:n-1]
		} else {
			v, p.items = p.items[0], p.items[1:]
		}
	}
	p.mu.Unlock()
	if v == nil && p.New != nil {
		v = p.New()
	}
	return v
}

func (p *Pool) Put(x any) {
	if x == nil {
		return
	}
	pol := poolPolicy.Load()
	if pol == PoolReal {
		p.real.Put(x)
		return
	}
	p.mu.Lock()
	if e := poolEpoch.Load(); e != p.epoch {
		p.items, p.epoch = nil, e
	}
	if pol != PoolNever && len(p.items) < 64 {
		p.items = append(p.items, x)
	}
	p.mu.Unlock()
}

// ---------------------------------------------------------------------------------------
// everything else is package sync's

type (
	Locker    = sync.Locker
	Once      = sync.Once
	WaitGroup = sync.WaitGroup
	Cond      = sync.Cond
	Map       = sync.Map
)

func NewCond(l Locker) *Cond                                   { return sync.NewCond(l) }
func OnceFunc(f func()) func()                                 { return sync.OnceFunc(f) }
func OnceValue[T any](f func() T) func() T                     { return sync.OnceValue(f) }
func OnceValues[T1, T2 any](f func() (T1, T2)) func() (T1, T2) { return sync.OnceValues(f) }
