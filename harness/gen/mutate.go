package gen

import (
	"encoding/binary"
	"math/rand"
)

// Mutate returns a malformed/edited variant of a valid encoding and a label.
func Mutate(r *rand.Rand, in []byte) ([]byte, string) {
	b := append([]byte{}, in...)
	if len(b) == 0 {
		return []byte{byte(r.Intn(256))}, "single"
	}
	switch r.Intn(11) {
	case 0: // truncation
		return b[:r.Intn(len(b))], "truncate"
	case 1: // bit flip
		i := r.Intn(len(b))
		b[i] ^= 1 << uint(r.Intn(8))
		return b, "bitflip"
	case 2: // byte replace
		b[r.Intn(len(b))] = byte(r.Intn(256))
		return b, "replace"
	case 3: // insert
		i := r.Intn(len(b) + 1)
		ins := []byte{byte(r.Intn(256))}
		if r.Intn(3) == 0 {
			ins = interesting[r.Intn(len(interesting))]
		}
		return append(append(append([]byte{}, b[:i]...), ins...), b[i:]...), "insert"
	case 4: // delete
		i := r.Intn(len(b))
		return append(b[:i], b[i+1:]...), "delete"
	case 5: // retype a byte to nil
		b[r.Intn(len(b))] = 0xc0
		return b, "nil"
	case 6: // arity tampering on the outer array header
		if b[0] >= 0x90 && b[0] <= 0x9f {
			b[0] = 0x90 + byte(r.Intn(8))
			return b, "arity"
		}
		return b, "same"
	case 7: // replace outer header by array16/array32 of a tampered count
		if b[0] >= 0x90 && b[0] <= 0x9f {
			n := r.Intn(7)
			if r.Intn(2) == 0 {
				return append(binary.BigEndian.AppendUint16([]byte{0xdc}, uint16(n)), b[1:]...), "arity16"
			}
			return append(binary.BigEndian.AppendUint32([]byte{0xdd}, uint32(n)), b[1:]...), "arity32"
		}
		return b, "same"
	case 8: // tamper a length/count header somewhere: write a big-endian count after a 16/32-bit lead
		for tries := 0; tries < 20; tries++ {
			i := r.Intn(len(b))
			switch b[i] {
			case 0xdc, 0xde, 0xda, 0xc5, 0xc8:
				if i+2 < len(b) {
					binary.BigEndian.PutUint16(b[i+1:], uint16(r.Intn(70000)))
					return b, "count16"
				}
			case 0xdd, 0xdf, 0xdb, 0xc6, 0xc9:
				if i+4 < len(b) {
					binary.BigEndian.PutUint32(b[i+1:], uint32(r.Intn(1<<20)))
					return b, "count32"
				}
			}
		}
		i := r.Intn(len(b))
		b[i] = []byte{0xdc, 0xdd, 0xde, 0xdf, 0xda, 0xdb, 0xc5, 0xc6}[r.Intn(8)]
		return b, "retype-hdr"
	case 9: // splice an interesting fragment over a random position
		frag := interesting[r.Intn(len(interesting))]
		i := r.Intn(len(b))
		return append(append(append([]byte{}, b[:i]...), frag...), b[min(len(b), i+len(frag)):]...), "splice"
	default: // append garbage / another value
		return append(b, interesting[r.Intn(len(interesting))]...), "append"
	}
}

func min(a, b int) int {
	if a < b {
		return a
	}
	return b
}

var interesting = [][]byte{
	{0xc1}, {0xc0}, {0x80}, {0x90}, {0xa0}, {0xc4, 0x00}, {0xd7, 0x00, 0, 0, 0, 1, 0, 0, 0, 2}, {0xc7, 0x00, 0x00}, {0xc7, 0x00, 0x05},
	{0xc7, 0x08, 0x00, 0, 0, 0, 1, 0, 0, 0, 2}, {0xc7, 12, 5, 0, 0, 0, 0, 0, 0, 0, 1, 0, 0, 0, 2}, {0xd7, 3, 0, 0, 0, 0, 0, 0, 0, 0},
	{0xd8, 4, 0, 0, 0, 0, 0, 0, 0, 0, 0, 0, 0, 0, 0, 0, 0, 0}, {0xd4, 7, 1}, {0xd5, 0, 1, 2}, {0xd6, 5, 1, 2, 3, 4},
	{0xc8, 0, 8, 0, 0, 0, 0, 1, 0, 0, 0, 2}, {0xc9, 0, 0, 0, 8, 0, 0, 0, 0, 1, 0, 0, 0, 2}, {0xc9, 0, 0, 0, 1, 9, 1},
	{0xcf, 0xff, 0xff, 0xff, 0xff, 0xff, 0xff, 0xff, 0xff}, {0xd3, 0x80, 0, 0, 0, 0, 0, 0, 0}, {0xcc, 0x80}, {0xd0, 0x80},
	{0x81, 0xa0, 0x01}, {0x81, 0xa5, 'c', 'h', 'u', 'n', 'k', 0xa1, 'x'}, {0x81, 0xc4, 0x05, 'c', 'h', 'u', 'n', 'k', 0xa1, 'y'},
	{0x82, 0xa3, 'a', 'c', 'k', 0xa1, '1', 0xa3, 'a', 'c', 'k', 0xa1, '2'}, {0xca, 0x7f, 0xc0, 0, 0}, {0xcb, 0x7f, 0xf8, 0, 0, 0, 0, 0, 1},
	{0xdc, 0x00, 0x00}, {0xdd, 0, 0, 0, 0}, {0xde, 0, 0}, {0xdf, 0, 0, 0, 0}, {0xd9, 0}, {0xda, 0, 0}, {0xdb, 0, 0, 0, 0},
	{0x92, 0xd7, 0x00, 0, 0, 0, 1, 0, 0, 0, 2, 0x80},
}

// RandomBytes: short random strings biased towards msgpack lead bytes.
func RandomBytes(r *rand.Rand) []byte {
	n := r.Intn(24)
	b := make([]byte, n)
	for i := range b {
		switch r.Intn(3) {
		case 0:
			b[i] = byte(0x80 + r.Intn(0x60))
		case 1:
			b[i] = byte(r.Intn(256))
		default:
			b[i] = byte(r.Intn(16))
		}
	}
	return b
}

// Hostile reports (conservatively, position-agnostic) whether b contains a 32-bit
// length/count header announcing more than 2^20 elements.  In-process harnesses skip
// such inputs (they are explored by C10 in a child process under a memory limit).
func Hostile(b []byte) bool {
	for i := 0; i+4 < len(b); i++ {
		switch b[i] {
		case 0xdd, 0xdf, 0xdb, 0xc6, 0xc9:
			if binary.BigEndian.Uint32(b[i+1:]) > 1<<20 {
				return true
			}
		}
	}
	return false
}

// ---------- structural edits (need the value boundaries) ----------

// ArrHdr: one array header inside a well-formed msgpack value.
type ArrHdr struct {
	Pos, HdrLen, Count, End, Depth int // End: offset just past the array's last element
}

// walk returns the end offset of the value starting at pos (or -1) and collects array headers.
func walk(b []byte, pos, depth int, out *[]ArrHdr) int {
	if pos >= len(b) {
		return -1
	}
	c := b[pos]
	need := func(n int) int {
		if pos+n > len(b) {
			return -1
		}
		return pos + n
	}
	elems := func(start, n int, isArr bool, hdrLen int) int {
		p := start
		for i := 0; i < n; i++ {
			p = walk(b, p, depth+1, out)
			if p < 0 {
				return -1
			}
		}
		if isArr {
			*out = append(*out, ArrHdr{pos, hdrLen, n, p, depth})
		}
		return p
	}
	switch {
	case c <= 0x7f || c >= 0xe0 || c == 0xc0 || c == 0xc2 || c == 0xc3:
		return pos + 1
	case c >= 0x80 && c <= 0x8f:
		return elems(pos+1, 2*int(c&0x0f), false, 1)
	case c >= 0x90 && c <= 0x9f:
		return elems(pos+1, int(c&0x0f), true, 1)
	case c >= 0xa0 && c <= 0xbf:
		return need(1 + int(c&0x1f))
	}
	u16 := func() int {
		if pos+3 > len(b) {
			return -1
		}
		return int(binary.BigEndian.Uint16(b[pos+1:]))
	}
	u32 := func() int {
		if pos+5 > len(b) {
			return -1
		}
		return int(binary.BigEndian.Uint32(b[pos+1:]))
	}
	switch c {
	case 0xc4, 0xd9:
		if pos+2 > len(b) {
			return -1
		}
		return need(2 + int(b[pos+1]))
	case 0xc5, 0xda:
		if n := u16(); n >= 0 {
			return need(3 + n)
		}
	case 0xc6, 0xdb:
		if n := u32(); n >= 0 && n < 1<<24 {
			return need(5 + n)
		}
	case 0xc7:
		if pos+2 > len(b) {
			return -1
		}
		return need(3 + int(b[pos+1]))
	case 0xc8:
		if n := u16(); n >= 0 {
			return need(4 + n)
		}
	case 0xc9:
		if n := u32(); n >= 0 && n < 1<<24 {
			return need(6 + n)
		}
	case 0xca, 0xce, 0xd2:
		return need(5)
	case 0xcb, 0xcf, 0xd3:
		return need(9)
	case 0xcc, 0xd0:
		return need(2)
	case 0xcd, 0xd1:
		return need(3)
	case 0xd4:
		return need(3)
	case 0xd5:
		return need(4)
	case 0xd6:
		return need(6)
	case 0xd7:
		return need(10)
	case 0xd8:
		return need(18)
	case 0xdc:
		if n := u16(); n >= 0 {
			return elems(pos+3, n, true, 3)
		}
	case 0xdd:
		if n := u32(); n >= 0 && n < 1<<20 {
			return elems(pos+5, n, true, 5)
		}
	case 0xde:
		if n := u16(); n >= 0 {
			return elems(pos+3, 2*n, false, 3)
		}
	case 0xdf:
		if n := u32(); n >= 0 && n < 1<<20 {
			return elems(pos+5, 2*n, false, 5)
		}
	}
	return -1
}

// Arrays lists the array headers of the first value of b (nil when b is not well-formed).
func Arrays(b []byte) []ArrHdr {
	var out []ArrHdr
	if walk(b, 0, 0, &out) < 0 {
		return nil
	}
	return out
}

// NestedArity tampers with the arity of an array INSIDE a well-formed value (an entry of a
// Forward message, the entry list, an array inside a record): one element more or fewer, either
// consistently (an element is appended/nothing removed but the count lowered) or in the header
// only.  The result is labelled; when no nested array exists the input is returned as "same".
func NestedArity(r *rand.Rand, in []byte) ([]byte, string) {
	var nested []ArrHdr
	for _, h := range Arrays(in) {
		if h.Depth > 0 {
			nested = append(nested, h)
		}
	}
	if len(nested) == 0 {
		return append([]byte{}, in...), "same"
	}
	h := nested[r.Intn(len(nested))]
	if r.Intn(2) == 0 { // prefer entries: the deepest arrays of small count
		for _, x := range nested {
			if x.Count == 2 && x.Depth == 2 && r.Intn(3) != 0 {
				h = x
			}
		}
	}
	setCount := func(b []byte, n int) []byte { // rewrite the header at h.Pos with count n (same header class when it fits)
		var hdr []byte
		switch {
		case h.HdrLen == 1 && n <= 15:
			hdr = []byte{0x90 | byte(n)}
		case h.HdrLen <= 3 && n < 1<<16:
			hdr = binary.BigEndian.AppendUint16([]byte{0xdc}, uint16(n))
		default:
			hdr = binary.BigEndian.AppendUint32([]byte{0xdd}, uint32(n))
		}
		return append(append(append([]byte{}, b[:h.Pos]...), hdr...), b[h.Pos+h.HdrLen:]...)
	}
	extra := [][]byte{{0xc0}, {0x80}, {0x81, 0xa5, 'c', 'h', 'u', 'n', 'k', 0xa1, 'X'}, {0x01}, {0xa1, 'z'}}[r.Intn(5)]
	switch r.Intn(4) {
	case 0: // one more element, really there
		b := append(append(append([]byte{}, in[:h.End]...), extra...), in[h.End:]...)
		return setCount(b, h.Count+1), "nested-arity+elem"
	case 1: // header says one more, nothing added
		return setCount(in, h.Count+1), "nested-arity+1"
	case 2: // header says one fewer, nothing removed
		if h.Count == 0 {
			return append([]byte{}, in...), "same"
		}
		return setCount(in, h.Count-1), "nested-arity-1"
	default: // two more elements, really there
		b := append(append(append(append([]byte{}, in[:h.End]...), extra...), 0xc0), in[h.End:]...)
		return setCount(b, h.Count+2), "nested-arity+2elem"
	}
}

// EntryExtra appends one element to the LAST two-element array at nesting depth 2 of a well-formed value
// (the last entry of a Forward message's entry list) and raises its count to 3; ok=false when there is none.
func EntryExtra(in []byte, extra []byte) (out []byte, ok bool) {
	var last *ArrHdr
	hs := Arrays(in)
	for i := range hs {
		if hs[i].Depth == 2 && hs[i].Count == 2 && hs[i].HdrLen == 1 && (last == nil || hs[i].Pos > last.Pos) {
			last = &hs[i]
		}
	}
	if last == nil {
		return nil, false
	}
	out = append(append(append([]byte{}, in[:last.End]...), extra...), in[last.End:]...)
	out[last.Pos] = 0x93
	return out, true
}
