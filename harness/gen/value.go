// Package gen holds the generators of the correspondence harness: abstract values
// (mirroring the model's gval), their Go presentations, TLV descriptors, canonical
// renderings, an independent alternative msgpack encoder, and malformed-input mutators.
package gen

import (
	"encoding/binary"
	"encoding/hex"
	"fmt"
	"math"
	"math/rand"
	"sort"
	"strconv"
	"strings"
	"time"

	"github.com/IBM/fluent-forward-go/fluent/protocol"
	"github.com/tinylib/msgp/msgp"
)

// V is an abstract value; K is the TLV tag of coq/model/Render.v (d_gval).
type V struct {
	K    byte // N T F I U f d S B A M t E c C X !
	I    int64
	U    uint64
	S    []byte
	A    []*V
	MK   [][]byte
	Sec  int64
	Nsec uint32
	Ty   byte
	Lo   uint64 // C: low 8 bytes
}

func Nil() *V { return &V{K: 'N'} }
func Bool(b bool) *V {
	if b {
		return &V{K: 'T'}
	}
	return &V{K: 'F'}
}
func Int(i int64) *V               { return &V{K: 'I', I: i} }
func Uint(u uint64) *V             { return &V{K: 'U', U: u} }
func F32(b uint32) *V              { return &V{K: 'f', U: uint64(b)} }
func F64(b uint64) *V              { return &V{K: 'd', U: b} }
func Str(s []byte) *V              { return &V{K: 'S', S: s} }
func Bin(s []byte) *V              { return &V{K: 'B', S: s} }
func Arr(a ...*V) *V               { return &V{K: 'A', A: a} }
func Bad() *V                      { return &V{K: '!'} }
func ET(sec int64, nsec uint32) *V { return &V{K: 'E', Sec: sec, Nsec: nsec} }
func Map(keys [][]byte, vals []*V) *V {
	return &V{K: 'M', MK: keys, A: vals}
}

// Desc is the TLV descriptor (hex) the model reads with desc_gval.
func (v *V) Desc() string { return hex.EncodeToString(v.desc(nil)) }

func u32(b []byte, n int) []byte    { return binary.BigEndian.AppendUint32(b, uint32(n)) }
func u64(b []byte, n uint64) []byte { return binary.BigEndian.AppendUint64(b, n) }

func (v *V) desc(b []byte) []byte {
	b = append(b, v.K)
	switch v.K {
	case 'N', 'T', 'F', '!':
	case 'I':
		b = u64(b, uint64(v.I))
	case 'U', 'd', 'c':
		b = u64(b, v.U)
	case 'f':
		b = binary.BigEndian.AppendUint32(b, uint32(v.U))
	case 'S', 'B':
		b = append(u32(b, len(v.S)), v.S...)
	case 'A':
		b = u32(b, len(v.A))
		for _, x := range v.A {
			b = x.desc(b)
		}
	case 'M':
		b = u32(b, len(v.A))
		for i, x := range v.A {
			b = append(u32(b, len(v.MK[i])), v.MK[i]...)
			b = x.desc(b)
		}
	case 't', 'E':
		b = binary.BigEndian.AppendUint32(u64(b, uint64(v.Sec)), v.Nsec)
	case 'C':
		b = u64(u64(b, v.U), v.Lo)
	case 'X':
		b = append(u32(append(b, v.Ty), len(v.S)), v.S...)
	default:
		panic("desc: kind " + string(v.K))
	}
	return b
}

// Render is the canonical rendering of coq/model/Render.v show_gval.  With num=true
// integers are rendered class-insensitively (n:<dec>) as in Spec.v show_value.
func (v *V) Render(num bool) string {
	var sb strings.Builder
	v.render(&sb, num)
	return sb.String()
}

func (v *V) render(sb *strings.Builder, num bool) {
	switch v.K {
	case 'N':
		sb.WriteString("nil")
	case 'T':
		sb.WriteString("t")
	case 'F':
		sb.WriteString("f")
	case 'I':
		if num {
			sb.WriteString("n:")
		} else {
			sb.WriteString("i:")
		}
		sb.WriteString(strconv.FormatInt(v.I, 10))
	case 'U':
		if num {
			sb.WriteString("n:")
		} else {
			sb.WriteString("u:")
		}
		sb.WriteString(strconv.FormatUint(v.U, 10))
	case 'f':
		fmt.Fprintf(sb, "f32:%08x", uint32(v.U))
	case 'd':
		fmt.Fprintf(sb, "f64:%016x", v.U)
	case 'S':
		sb.WriteString("s:" + hex.EncodeToString(v.S))
	case 'B':
		sb.WriteString("b:" + hex.EncodeToString(v.S))
	case 'A':
		sb.WriteByte('[')
		for i, x := range v.A {
			if i > 0 {
				sb.WriteByte(',')
			}
			x.render(sb, num)
		}
		sb.WriteByte(']')
	case 'M':
		idx := make([]int, len(v.A))
		for i := range idx {
			idx[i] = i
		}
		sort.SliceStable(idx, func(a, b int) bool { return string(v.MK[idx[a]]) < string(v.MK[idx[b]]) })
		sb.WriteByte('{')
		for n, i := range idx {
			if n > 0 {
				sb.WriteByte(',')
			}
			sb.WriteString(hex.EncodeToString(v.MK[i]) + "=")
			v.A[i].render(sb, num)
		}
		sb.WriteByte('}')
	case 't':
		fmt.Fprintf(sb, "time:%d.%d", v.Sec, v.Nsec)
	case 'E':
		fmt.Fprintf(sb, "et:%d.%d", v.Sec, v.Nsec)
	case 'c':
		fmt.Fprintf(sb, "c64:%016x", v.U)
	case 'C':
		fmt.Fprintf(sb, "c128:%016x%016x", v.U, v.Lo)
	case 'X':
		fmt.Fprintf(sb, "ext:%d:%s", int8(v.Ty), hex.EncodeToString(v.S))
	case '!':
		sb.WriteString("bad")
	}
}

// Norm is what decoding the canonical encoding yields: unsigned values below 128
// come back as int64 (positive fixint belongs to the int family).
func (v *V) Norm() *V {
	switch v.K {
	case 'U':
		if v.U < 128 {
			return Int(int64(v.U))
		}
	case 'A', 'M':
		n := *v
		n.A = make([]*V, len(v.A))
		for i, x := range v.A {
			n.A[i] = x.Norm()
		}
		return &n
	}
	return v
}

// HasMultiKeyMap reports whether Go's random map iteration can reorder the encoding.
func (v *V) HasMultiKeyMap() bool {
	if v.K == 'M' && len(v.A) > 1 {
		return true
	}
	for _, x := range v.A {
		if x.HasMultiKeyMap() {
			return true
		}
	}
	return false
}

func (v *V) HasBad() bool {
	if v.K == '!' {
		return true
	}
	for _, x := range v.A {
		if x.HasBad() {
			return true
		}
	}
	return false
}

var zones = []*time.Location{time.UTC, time.FixedZone("east", 5*3600+1800), time.FixedZone("west", -8*3600), time.FixedZone("odd", 12345)}

// ToGo builds a Go value denoting v, choosing among the concrete Go types that denote it.
func (v *V) ToGo(r *rand.Rand) interface{} {
	switch v.K {
	case 'N':
		return nil
	case 'T':
		return true
	case 'F':
		return false
	case 'I':
		i := v.I
		var c []interface{}
		c = append(c, i)
		if int64(int(i)) == i {
			c = append(c, int(i))
		}
		if int64(int32(i)) == i {
			c = append(c, int32(i))
		}
		if int64(int16(i)) == i {
			c = append(c, int16(i))
		}
		if int64(int8(i)) == i {
			c = append(c, int8(i))
		}
		return c[r.Intn(len(c))]
	case 'U':
		u := v.U
		var c []interface{}
		c = append(c, u, uint(u))
		if uint64(uint32(u)) == u {
			c = append(c, uint32(u))
		}
		if uint64(uint16(u)) == u {
			c = append(c, uint16(u))
		}
		if uint64(uint8(u)) == u {
			c = append(c, uint8(u))
		}
		return c[r.Intn(len(c))]
	case 'f':
		return math.Float32frombits(uint32(v.U))
	case 'd':
		return math.Float64frombits(v.U)
	case 'S':
		return string(v.S)
	case 'B':
		return append([]byte{}, v.S...)
	case 'A':
		allStr := len(v.A) > 0
		for _, x := range v.A {
			if x.K != 'S' {
				allStr = false
			}
		}
		if allStr && r.Intn(3) == 0 {
			s := make([]string, len(v.A))
			for i, x := range v.A {
				s[i] = string(x.S)
			}
			return s
		}
		a := make([]interface{}, len(v.A))
		for i, x := range v.A {
			a[i] = x.ToGo(r)
		}
		return a
	case 'M':
		allStr := len(v.A) > 0
		for _, x := range v.A {
			if x.K != 'S' {
				allStr = false
			}
		}
		if allStr && r.Intn(3) == 0 {
			m := map[string]string{}
			for i, x := range v.A {
				m[string(v.MK[i])] = string(x.S)
			}
			return m
		}
		m := make(map[string]interface{}, len(v.A))
		for i, x := range v.A {
			m[string(v.MK[i])] = x.ToGo(r)
		}
		return m
	case 't':
		return time.Unix(v.Sec, int64(v.Nsec)).In(zones[r.Intn(len(zones))])
	case 'E':
		return &protocol.EventTime{Time: time.Unix(v.Sec, int64(v.Nsec)).In(zones[r.Intn(len(zones))])}
	case 'c':
		return complex(math.Float32frombits(uint32(v.U>>32)), math.Float32frombits(uint32(v.U)))
	case 'C':
		return complex(math.Float64frombits(v.U), math.Float64frombits(v.Lo))
	case 'X':
		return &msgp.RawExtension{Type: int8(v.Ty), Data: append([]byte{}, v.S...)}
	case '!':
		return make(chan int)
	}
	panic("ToGo")
}

// FromGo abstracts a value produced by the library's decoders (ReadIntf[Bytes]).
func FromGo(x interface{}) *V {
	switch t := x.(type) {
	case nil:
		return Nil()
	case bool:
		return Bool(t)
	case int64:
		return Int(t)
	case int:
		return Int(int64(t))
	case int8:
		return Int(int64(t))
	case int16:
		return Int(int64(t))
	case int32:
		return Int(int64(t))
	case uint64:
		return Uint(t)
	case uint:
		return Uint(uint64(t))
	case uint8:
		return Uint(uint64(t))
	case uint16:
		return Uint(uint64(t))
	case uint32:
		return Uint(uint64(t))
	case float32:
		return F32(math.Float32bits(t))
	case float64:
		return F64(math.Float64bits(t))
	case string:
		return Str([]byte(t))
	case []byte:
		return Bin(append([]byte{}, t...))
	case []interface{}:
		a := make([]*V, len(t))
		for i, e := range t {
			a[i] = FromGo(e)
		}
		return &V{K: 'A', A: a}
	case []string:
		a := make([]*V, len(t))
		for i, e := range t {
			a[i] = Str([]byte(e))
		}
		return &V{K: 'A', A: a}
	case map[string]interface{}:
		v := &V{K: 'M'}
		for k, e := range t {
			v.MK = append(v.MK, []byte(k))
			v.A = append(v.A, FromGo(e))
		}
		return v
	case map[string]string:
		v := &V{K: 'M'}
		for k, e := range t {
			v.MK = append(v.MK, []byte(k))
			v.A = append(v.A, Str([]byte(e)))
		}
		return v
	case time.Time:
		return &V{K: 't', Sec: t.Unix(), Nsec: uint32(t.Nanosecond())}
	case *protocol.EventTime:
		return &V{K: 'E', Sec: t.Unix(), Nsec: uint32(t.Nanosecond())}
	case protocol.EventTime:
		return &V{K: 'E', Sec: t.Unix(), Nsec: uint32(t.Nanosecond())}
	case complex64:
		return &V{K: 'c', U: uint64(math.Float32bits(real(t)))<<32 | uint64(math.Float32bits(imag(t)))}
	case complex128:
		return &V{K: 'C', U: math.Float64bits(real(t)), Lo: math.Float64bits(imag(t))}
	case *msgp.RawExtension:
		return &V{K: 'X', Ty: byte(t.Type), S: t.Data}
	}
	return &V{K: '!'}
}

// ---------- generators ----------

var strLens = []int{0, 1, 2, 5, 31, 32, 33, 255, 256}
var bigLens = []int{65535, 65536}

func GenBytes(r *rand.Rand, big bool) []byte {
	n := strLens[r.Intn(len(strLens))]
	if big && r.Intn(40) == 0 {
		n = bigLens[r.Intn(2)]
	}
	b := make([]byte, n)
	switch r.Intn(3) {
	case 0:
		for i := range b {
			b[i] = byte('a' + r.Intn(26))
		}
	default:
		r.Read(b)
	}
	return b
}

var intBounds = []int64{0, 1, 31, 32, 127, 128, 255, 256, 32767, 32768, 65535, 65536, 1<<31 - 1, 1 << 31, 1<<32 - 1, 1 << 32, math.MaxInt64,
	-1, -31, -32, -33, -127, -128, -129, -32767, -32768, -32769, -(1 << 31), -(1 << 31) - 1, math.MinInt64}
var uintBounds = []uint64{0, 1, 127, 128, 255, 256, 65535, 65536, 1<<32 - 1, 1 << 32, 1<<63 - 1, 1 << 63, math.MaxUint64}
var f32Bits = []uint32{0, 0x80000000, 0x7f800000, 0xff800000, 0x7fc00000, 0x7fc00001, 0xffc12345, 1, 0x3f800000, 0x7f7fffff}
var f64Bits = []uint64{0, 0x8000000000000000, 0x7ff0000000000000, 0xfff0000000000000, 0x7ff8000000000000, 0x7ff8000000000001, 1, 0x3ff0000000000000, 0x7fefffffffffffff}

func GenInt(r *rand.Rand) int64 {
	if r.Intn(3) == 0 {
		return int64(r.Uint64())
	}
	return intBounds[r.Intn(len(intBounds))]
}
func GenUint(r *rand.Rand) uint64 {
	if r.Intn(3) == 0 {
		return r.Uint64()
	}
	return uintBounds[r.Intn(len(uintBounds))]
}

// GenValue: msgpack-representable values of the property's input space
// (nested maps/arrays, every int/uint width, floats incl. NaN/Inf, strings, binaries, nil, bool).
func GenValue(r *rand.Rand, depth int, big bool) *V {
	k := r.Intn(12)
	if depth <= 0 && k >= 10 {
		k = r.Intn(10)
	}
	switch k {
	case 0:
		return Nil()
	case 1:
		return Bool(r.Intn(2) == 0)
	case 2, 3:
		return Int(GenInt(r))
	case 4:
		return Uint(GenUint(r))
	case 5:
		if r.Intn(2) == 0 {
			return F32(r.Uint32())
		}
		return F32(f32Bits[r.Intn(len(f32Bits))])
	case 6:
		if r.Intn(2) == 0 {
			return F64(r.Uint64())
		}
		return F64(f64Bits[r.Intn(len(f64Bits))])
	case 7, 8:
		return Str(GenBytes(r, big))
	case 9:
		return Bin(GenBytes(r, big))
	case 10:
		n := []int{0, 1, 2, 3, 15, 16, 17}[r.Intn(7)]
		if big && r.Intn(60) == 0 {
			n = bigLens[r.Intn(2)]
			a := make([]*V, n)
			for i := range a {
				a[i] = Nil()
			}
			return &V{K: 'A', A: a}
		}
		a := make([]*V, n)
		for i := range a {
			a[i] = GenValue(r, depth-1, false)
		}
		return &V{K: 'A', A: a}
	default:
		return GenMap(r, depth-1, big)
	}
}

// GenMap: a record (map with distinct string keys).
func GenMap(r *rand.Rand, depth int, big bool) *V {
	n := []int{0, 1, 1, 2, 3, 15, 16}[r.Intn(7)]
	v := &V{K: 'M'}
	seen := map[string]bool{}
	for len(v.A) < n {
		var k []byte
		switch r.Intn(6) {
		case 0:
			k = []byte("chunk") // decoy keys
		case 1:
			k = []byte("size")
		case 2:
			k = GenBytes(r, false)
		default:
			k = []byte(fmt.Sprintf("k%d", r.Intn(1000)))
		}
		if seen[string(k)] {
			continue
		}
		seen[string(k)] = true
		v.MK = append(v.MK, k)
		d := depth
		if n > 3 {
			d = 0
		}
		v.A = append(v.A, GenValue(r, d, big && n <= 3))
	}
	return v
}

// Opts is the abstract option field: nil pointer (Absent), or a map.
type Opts struct {
	Absent bool
	Size   *int64
	Chunk  []byte
	Comp   []byte
}

func (o *Opts) Arg() string {
	if o.Absent {
		return "none"
	}
	s := "-"
	if o.Size != nil {
		s = strconv.FormatInt(*o.Size, 10)
	}
	return s + "|" + hex.EncodeToString(o.Chunk) + "|" + hex.EncodeToString(o.Comp)
}

func (o *Opts) Render() string {
	if o.Absent {
		return "none"
	}
	s := "-"
	if o.Size != nil {
		s = strconv.FormatInt(*o.Size, 10)
	}
	return "{size=" + s + ",chunk=" + hex.EncodeToString(o.Chunk) + ",comp=" + hex.EncodeToString(o.Comp) + "}"
}

func (o *Opts) ToGo() *protocol.MessageOptions {
	if o.Absent {
		return nil
	}
	m := &protocol.MessageOptions{Chunk: string(o.Chunk), Compressed: string(o.Comp)}
	if o.Size != nil {
		s := int(*o.Size)
		m.Size = &s
	}
	return m
}

func OptsFromGo(m *protocol.MessageOptions) *Opts {
	if m == nil {
		return &Opts{Absent: true}
	}
	o := &Opts{Chunk: []byte(m.Chunk), Comp: []byte(m.Compressed)}
	if m.Size != nil {
		s := int64(*m.Size)
		o.Size = &s
	}
	return o
}

func GenOpts(r *rand.Rand) *Opts {
	if r.Intn(4) == 0 {
		return &Opts{Absent: true}
	}
	o := &Opts{}
	if r.Intn(2) == 0 {
		s := GenInt(r)
		o.Size = &s
	}
	if r.Intn(2) == 0 {
		o.Chunk = GenBytes(r, false)
	}
	if r.Intn(3) == 0 {
		o.Comp = []byte("gzip")
		if r.Intn(3) == 0 {
			o.Comp = GenBytes(r, false)
		}
	}
	return o
}

// GenInstant: EventTime domain (32-bit seconds, nanoseconds below 10^9).
func GenInstant(r *rand.Rand) (int64, uint32) {
	secs := []int64{0, 1, 1<<31 - 1, 1 << 31, 1<<32 - 1, 1700000000}
	nss := []uint32{0, 1, 999999999, 500000000}
	s := secs[r.Intn(len(secs))]
	if r.Intn(2) == 0 {
		s = int64(r.Uint32())
	}
	n := nss[r.Intn(len(nss))]
	if r.Intn(2) == 0 {
		n = uint32(r.Intn(1000000000))
	}
	return s, n
}
