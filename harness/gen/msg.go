package gen

import (
	"encoding/binary"
	"encoding/hex"
	"fmt"
	"math/rand"
	"strconv"
	"strings"
	"time"

	"github.com/IBM/fluent-forward-go/fluent/protocol"
)

// Msg is an abstract Forward-protocol message of one of the four modes.
type Msg struct {
	Mode    string // message | message_ext | forward | packed
	Tag     []byte
	Ts      int64  // message
	Sec     int64  // message_ext
	Nsec    uint32 // message_ext
	Rec     *V     // message, message_ext
	Entries []Entry
	Stream  []byte
	Opts    *Opts
}

type Entry struct {
	Sec  int64
	Nsec uint32
	Rec  *V
}

func EntriesDesc(es []Entry) string {
	a := make([]*V, len(es))
	for i, e := range es {
		a[i] = Arr(ET(e.Sec, e.Nsec), e.Rec)
	}
	return (&V{K: 'A', A: a}).Desc()
}

func EntriesToGo(r *rand.Rand, es []Entry) protocol.EntryList {
	l := make(protocol.EntryList, len(es))
	for i, e := range es {
		l[i] = protocol.EntryExt{Timestamp: protocol.EventTime{Time: time.Unix(e.Sec, int64(e.Nsec)).In(zones[r.Intn(len(zones))])}, Record: e.Rec.ToGo(r)}
	}
	return l
}

func EntriesFromGo(l protocol.EntryList) []Entry {
	es := make([]Entry, len(l))
	for i, e := range l {
		es[i] = Entry{Sec: e.Timestamp.Unix(), Nsec: uint32(e.Timestamp.Nanosecond()), Rec: FromGo(e.Record)}
	}
	return es
}

func RenderEntries(es []Entry, num bool) string {
	var sb strings.Builder
	sb.WriteByte('[')
	for i, e := range es {
		if i > 0 {
			sb.WriteByte(',')
		}
		fmt.Fprintf(&sb, "(%d.%d,%s)", e.Sec, e.Nsec, e.Rec.Render(num))
	}
	sb.WriteByte(']')
	return sb.String()
}

// ModelArgs are the arguments of the model entry M_<mode>.
func (m *Msg) ModelArgs() []string {
	tag := hex.EncodeToString(m.Tag)
	switch m.Mode {
	case "message":
		return []string{tag, strconv.FormatInt(m.Ts, 10), m.Rec.Desc(), m.Opts.Arg()}
	case "message_ext":
		return []string{tag, strconv.FormatInt(m.Sec, 10), strconv.FormatUint(uint64(m.Nsec), 10), m.Rec.Desc(), m.Opts.Arg()}
	case "forward":
		return []string{tag, EntriesDesc(m.Entries), m.Opts.Arg()}
	case "packed":
		return []string{tag, hex.EncodeToString(m.Stream), m.Opts.Arg()}
	}
	panic("mode")
}

// Render: canonical rendering (model show_message... ; with num=true Spec.v show_smsg).
func (m *Msg) Render(num bool) string {
	tag := hex.EncodeToString(m.Tag)
	switch m.Mode {
	case "message":
		return fmt.Sprintf("message(tag=%s,ts=%d,rec=%s,opt=%s)", tag, m.Ts, m.Rec.Render(num), m.Opts.Render())
	case "message_ext":
		return fmt.Sprintf("messageext(tag=%s,ts=%d.%d,rec=%s,opt=%s)", tag, m.Sec, m.Nsec, m.Rec.Render(num), m.Opts.Render())
	case "forward":
		return fmt.Sprintf("forward(tag=%s,entries=%s,opt=%s)", tag, RenderEntries(m.Entries, num), m.Opts.Render())
	case "packed":
		return fmt.Sprintf("packed(tag=%s,stream=%s,opt=%s)", tag, hex.EncodeToString(m.Stream), m.Opts.Render())
	}
	panic("mode")
}

// Norm: the value decoding the canonical encoding yields.
func (m *Msg) Norm() *Msg {
	n := *m
	if m.Rec != nil {
		n.Rec = m.Rec.Norm()
	}
	n.Entries = make([]Entry, len(m.Entries))
	for i, e := range m.Entries {
		n.Entries[i] = Entry{e.Sec, e.Nsec, e.Rec.Norm()}
	}
	return &n
}

func (m *Msg) HasMultiKeyMap() bool {
	if m.Rec != nil && m.Rec.HasMultiKeyMap() {
		return true
	}
	for _, e := range m.Entries {
		if e.Rec.HasMultiKeyMap() {
			return true
		}
	}
	return false
}

// ToGo builds the library value.
func (m *Msg) ToGo(r *rand.Rand) interface{} {
	switch m.Mode {
	case "message":
		return &protocol.Message{Tag: string(m.Tag), Timestamp: m.Ts, Record: m.Rec.ToGo(r), Options: m.Opts.ToGo()}
	case "message_ext":
		return &protocol.MessageExt{Tag: string(m.Tag), Timestamp: protocol.EventTime{Time: time.Unix(m.Sec, int64(m.Nsec)).In(zones[r.Intn(len(zones))])}, Record: m.Rec.ToGo(r), Options: m.Opts.ToGo()}
	case "forward":
		return &protocol.ForwardMessage{Tag: string(m.Tag), Entries: EntriesToGo(r, m.Entries), Options: m.Opts.ToGo()}
	case "packed":
		return &protocol.PackedForwardMessage{Tag: string(m.Tag), EventStream: append([]byte{}, m.Stream...), Options: m.Opts.ToGo()}
	}
	panic("mode")
}

// MsgFromGo abstracts a decoded library value.
func MsgFromGo(x interface{}) *Msg {
	switch t := x.(type) {
	case *protocol.Message:
		return &Msg{Mode: "message", Tag: []byte(t.Tag), Ts: t.Timestamp, Rec: FromGo(t.Record), Opts: OptsFromGo(t.Options)}
	case *protocol.MessageExt:
		return &Msg{Mode: "message_ext", Tag: []byte(t.Tag), Sec: t.Timestamp.Unix(), Nsec: uint32(t.Timestamp.Nanosecond()), Rec: FromGo(t.Record), Opts: OptsFromGo(t.Options)}
	case *protocol.ForwardMessage:
		return &Msg{Mode: "forward", Tag: []byte(t.Tag), Entries: EntriesFromGo(t.Entries), Opts: OptsFromGo(t.Options)}
	case *protocol.PackedForwardMessage:
		return &Msg{Mode: "packed", Tag: []byte(t.Tag), Stream: append([]byte{}, t.EventStream...), Opts: OptsFromGo(t.Options)}
	}
	panic("MsgFromGo")
}

var Modes = []string{"message", "message_ext", "forward", "packed"}

// BigEntryCounts: entry counts of the rare long entry lists: both sides of the array16 / array32 header
// boundary.  (The model evaluates them in seconds since its entry loops hand their fuel down and reverse
// their accumulators in one pass: coq/model/ForwardFast.v, proofs/Fuel_Proofs.v.)
var BigEntryCounts = []int{65535, 65536}

func GenEntries(r *rand.Rand, big bool) []Entry {
	n := []int{0, 1, 2, 3, 15, 16, 17}[r.Intn(7)]
	if big && r.Intn(50) == 0 {
		n = BigEntryCounts[r.Intn(len(BigEntryCounts))]
	}
	es := make([]Entry, n)
	tiny := r.Intn(6) == 0 // every record as small as a record can be (1-4 bytes on the wire)
	if tiny && n < 100 {
		n = []int{1, 2, 3, 4, 9, 10, 15, 16, 40}[r.Intn(9)]
		es = make([]Entry, n)
	}
	for i := range es {
		s, ns := GenInstant(r)
		if tiny {
			switch r.Intn(3) {
			case 0:
				es[i] = Entry{s, ns, Map(nil, nil)}
			case 1:
				es[i] = Entry{s, ns, Nil()}
			default:
				es[i] = Entry{s, ns, Map([][]byte{[]byte("a")}, []*V{Int(int64(r.Intn(100)))})}
			}
		} else if n > 100 {
			es[i] = Entry{s, ns, Map(nil, nil)}
		} else if n > 3 {
			es[i] = Entry{s, ns, GenMap(r, 0, false)}
		} else {
			es[i] = Entry{s, ns, GenMap(r, 2, false)}
		}
	}
	return es
}

// GenMsg: a constructible message; records are maps when recMap is set (C02), any value otherwise.
func GenMsg(r *rand.Rand, mode string, recMap, big bool) *Msg {
	m := &Msg{Mode: mode, Tag: GenBytes(r, big), Opts: GenOpts(r)}
	rec := func() *V {
		if recMap || r.Intn(3) != 0 {
			return GenMap(r, 3, big)
		}
		return GenValue(r, 3, big)
	}
	switch mode {
	case "message":
		m.Ts = GenInt(r)
		m.Rec = rec()
	case "message_ext":
		m.Sec, m.Nsec = GenInstant(r)
		m.Rec = rec()
	case "forward":
		m.Entries = GenEntries(r, big)
		if recMap { // records are maps (the Forward specification's shape): no bare nil records
			for i := range m.Entries {
				if m.Entries[i].Rec.K == 'N' {
					m.Entries[i].Rec = Map(nil, nil)
				}
			}
		}
	case "packed":
		m.Stream = GenBytes(r, big)
		if r.Intn(2) == 0 {
			// a plausible event stream
			var b []byte
			for _, e := range GenEntries(r, false) {
				b = append(b, 0x92)
				b = AltEventTime(r, b, e.Sec, e.Nsec, false)
				b = AltValue(r, b, e.Rec, false)
			}
			m.Stream = b
		}
	}
	return m
}

// ---------- independent alternative encoder ----------
// Encodes abstract values with randomly widened (but legal) headers and integer widths.
// With alt=false it emits the narrowest forms (used to build plain event streams).

func altLen(r *rand.Rand, b []byte, n int, alt bool, fixBase byte, fixMax int, c8, c16, c32 byte) []byte {
	min := 0
	switch {
	case n <= fixMax:
		min = 0
	case c8 != 0 && n < 256:
		min = 1
	case n < 65536:
		min = 2
	default:
		min = 3
	}
	if min == 1 && c8 == 0 {
		min = 2
	}
	w := min
	if alt {
		w = min + r.Intn(4-min)
		if w == 1 && c8 == 0 {
			w = 2
		}
	}
	switch w {
	case 0:
		return append(b, fixBase+byte(n))
	case 1:
		return append(b, c8, byte(n))
	case 2:
		return binary.BigEndian.AppendUint16(append(b, c16), uint16(n))
	default:
		return binary.BigEndian.AppendUint32(append(b, c32), uint32(n))
	}
}

func AltStr(r *rand.Rand, b []byte, s []byte, alt bool) []byte {
	return append(altLen(r, b, len(s), alt, 0xa0, 31, 0xd9, 0xda, 0xdb), s...)
}
func AltBin(r *rand.Rand, b []byte, s []byte, alt bool) []byte {
	return append(altLen(r, b, len(s), alt, 0, -1, 0xc4, 0xc5, 0xc6), s...)
}
func AltArrHdr(r *rand.Rand, b []byte, n int, alt bool) []byte {
	return altLen(r, b, n, alt, 0x90, 15, 0, 0xdc, 0xdd)
}
func AltMapHdr(r *rand.Rand, b []byte, n int, alt bool) []byte {
	return altLen(r, b, n, alt, 0x80, 15, 0, 0xde, 0xdf)
}

// AltInt encodes i in any legal integer format able to hold it (either family).
func AltInt(r *rand.Rand, b []byte, i int64, alt bool) []byte {
	type enc func([]byte) []byte
	var c []enc
	if i >= 0 && i < 128 {
		c = append(c, func(b []byte) []byte { return append(b, byte(i)) })
	}
	if i < 0 && i >= -32 {
		c = append(c, func(b []byte) []byte { return append(b, byte(i)) })
	}
	if i >= -128 && i < 128 {
		c = append(c, func(b []byte) []byte { return append(b, 0xd0, byte(i)) })
	}
	if i >= 0 && i < 256 {
		c = append(c, func(b []byte) []byte { return append(b, 0xcc, byte(i)) })
	}
	if i >= -32768 && i < 32768 {
		c = append(c, func(b []byte) []byte { return binary.BigEndian.AppendUint16(append(b, 0xd1), uint16(i)) })
	}
	if i >= 0 && i < 65536 {
		c = append(c, func(b []byte) []byte { return binary.BigEndian.AppendUint16(append(b, 0xcd), uint16(i)) })
	}
	if i >= -(1<<31) && i < 1<<31 {
		c = append(c, func(b []byte) []byte { return binary.BigEndian.AppendUint32(append(b, 0xd2), uint32(i)) })
	}
	if i >= 0 && i < 1<<32 {
		c = append(c, func(b []byte) []byte { return binary.BigEndian.AppendUint32(append(b, 0xce), uint32(i)) })
	}
	c = append(c, func(b []byte) []byte { return binary.BigEndian.AppendUint64(append(b, 0xd3), uint64(i)) })
	if i >= 0 {
		c = append(c, func(b []byte) []byte { return binary.BigEndian.AppendUint64(append(b, 0xcf), uint64(i)) })
	}
	if !alt {
		return c[0](b)
	}
	return c[r.Intn(len(c))](b)
}

func AltUint(r *rand.Rand, b []byte, u uint64, alt bool) []byte {
	if u < 1<<63 {
		return AltInt(r, b, int64(u), alt)
	}
	return binary.BigEndian.AppendUint64(append(b, 0xcf), u)
}

// AltEventTime: fixext8 type 0, or ext8/ext16/ext32 of length 8.
func AltEventTime(r *rand.Rand, b []byte, sec int64, nsec uint32, alt bool) []byte {
	w := 0
	if alt {
		w = r.Intn(3) // ext32 is left out: msgp's stream Skip cannot skip it (documented limitation)
	}
	switch w {
	case 0:
		b = append(b, 0xd7, 0)
	case 1:
		b = append(b, 0xc7, 8, 0)
	case 2:
		b = append(b, 0xc8, 0, 8, 0)
	}
	b = binary.BigEndian.AppendUint32(b, uint32(sec))
	return binary.BigEndian.AppendUint32(b, nsec)
}

func AltValue(r *rand.Rand, b []byte, v *V, alt bool) []byte {
	switch v.K {
	case 'N':
		return append(b, 0xc0)
	case 'T':
		return append(b, 0xc3)
	case 'F':
		return append(b, 0xc2)
	case 'I':
		return AltInt(r, b, v.I, alt)
	case 'U':
		return AltUint(r, b, v.U, alt)
	case 'f':
		return binary.BigEndian.AppendUint32(append(b, 0xca), uint32(v.U))
	case 'd':
		return binary.BigEndian.AppendUint64(append(b, 0xcb), v.U)
	case 'S':
		return AltStr(r, b, v.S, alt)
	case 'B':
		return AltBin(r, b, v.S, alt)
	case 'A':
		b = AltArrHdr(r, b, len(v.A), alt)
		for _, x := range v.A {
			b = AltValue(r, b, x, alt)
		}
		return b
	case 'M':
		b = AltMapHdr(r, b, len(v.A), alt)
		for i, x := range v.A {
			b = AltStr(r, b, v.MK[i], alt)
			b = AltValue(r, b, x, alt)
		}
		return b
	case 'E':
		return AltEventTime(r, b, v.Sec, v.Nsec, alt)
	}
	panic("AltValue: kind " + string(v.K))
}

// AltOpts encodes an option map; extra are unknown keys (name -> value) placed at random positions.
func AltOpts(r *rand.Rand, b []byte, o *Opts, alt bool, extra [][]byte, extraVals []*V) []byte {
	if o.Absent {
		return append(b, 0xc0)
	}
	type kv struct {
		k   []byte
		enc func([]byte) []byte
	}
	var kvs []kv
	if o.Size != nil {
		s := *o.Size
		kvs = append(kvs, kv{[]byte("size"), func(b []byte) []byte { return AltInt(r, b, s, alt) }})
	}
	if len(o.Chunk) > 0 {
		kvs = append(kvs, kv{[]byte("chunk"), func(b []byte) []byte { return AltStr(r, b, o.Chunk, alt) }})
	}
	if len(o.Comp) > 0 {
		kvs = append(kvs, kv{[]byte("compressed"), func(b []byte) []byte { return AltStr(r, b, o.Comp, alt) }})
	}
	for i := range extra {
		v := extraVals[i]
		kvs = append(kvs, kv{extra[i], func(b []byte) []byte { return AltValue(r, b, v, alt) }})
	}
	if alt {
		r.Shuffle(len(kvs), func(i, j int) { kvs[i], kvs[j] = kvs[j], kvs[i] })
	}
	b = AltMapHdr(r, b, len(kvs), alt)
	for _, e := range kvs {
		b = AltStr(r, b, e.k, alt)
		b = e.enc(b)
	}
	return b
}

// AltMsg encodes m as another Forward implementation might: legal alternative widths,
// unsigned timestamps, ext8 EventTime, options absent (shorter array) when Absent and
// dropOpt is chosen.  Returns the bytes and whether the option element was dropped.
func AltMsg(r *rand.Rand, m *Msg, alt bool, extra [][]byte, extraVals []*V) []byte {
	var b []byte
	drop := m.Opts.Absent && alt && r.Intn(2) == 0
	n := map[string]int{"message": 4, "message_ext": 4, "forward": 3, "packed": 3}[m.Mode]
	if drop {
		n--
	}
	b = AltArrHdr(r, b, n, alt)
	b = AltStr(r, b, m.Tag, alt)
	switch m.Mode {
	case "message":
		b = AltInt(r, b, m.Ts, alt)
		b = AltValue(r, b, m.Rec, alt)
	case "message_ext":
		b = AltEventTime(r, b, m.Sec, m.Nsec, alt)
		b = AltValue(r, b, m.Rec, alt)
	case "forward":
		b = AltArrHdr(r, b, len(m.Entries), alt)
		for _, e := range m.Entries {
			b = AltArrHdr(r, b, 2, alt)
			b = AltEventTime(r, b, e.Sec, e.Nsec, alt)
			b = AltValue(r, b, e.Rec, alt)
		}
	case "packed":
		b = AltBin(r, b, m.Stream, alt)
	}
	if !drop {
		b = AltOpts(r, b, m.Opts, alt, extra, extraVals)
	}
	return b
}
