#!/usr/bin/env python3
"""Prints the markdown table of DESIGN.md section 14 from seeded/*/meta.json and benign/*/meta.json."""
import json, os, re
VERIF = os.path.dirname(os.path.dirname(os.path.abspath(__file__)))

def title(d):
    p = os.path.join(d, "README.md")
    if not os.path.exists(p):
        return ""
    t = open(p).readline().strip().lstrip("# ")
    t = re.sub(r"^(Seeded defect|Seed|C\d\d\s*/?\s*seed|C\d\d seeded defect)\s*\d*\s*(\(C\d\d\))?\s*[-—:–]*\s*", "", t, flags=re.I)
    return t.replace("|", "/")[:150]

print("| seed | round | what the change does (sub-agent's title) | quick checks that raise the alarm |")
print("|------|-------|------------------------------------------|-----------------------------------|")
for sid in sorted(os.listdir(os.path.join(VERIF, "seeded"))):
    d = os.path.join(VERIF, "seeded", sid)
    if not os.path.exists(os.path.join(d, "meta.json")):
        continue
    m = json.load(open(os.path.join(d, "meta.json")))
    det = ", ".join(m.get("detected_by", [])) or "**none**"
    print("| %s | %s | %s | %s |" % (sid, m.get("round", 1), title(d), det))
bd = os.path.join(VERIF, "benign")
if os.path.isdir(bd):
    print()
    print("| harmless rewrite | files | checks run | alarms |")
    print("|------------------|-------|------------|--------|")
    for n in sorted(os.listdir(bd)):
        p = os.path.join(bd, n, "meta.json")
        if not os.path.exists(p):
            continue
        m = json.load(open(p))
        print("| %s: %s | %s | %s | %s |" % (n, title(os.path.join(bd, n)), ", ".join(os.path.basename(f) for f in m["files"]), ", ".join(sorted(m["checks"])), ", ".join(m["alarms"]) or "none"))
