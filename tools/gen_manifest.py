#!/usr/bin/env python3
"""Regenerates /verif/MANIFEST.json from tools/propcfg.py and properties.jsonl."""
import json, os, sys
VERIF = os.path.dirname(os.path.dirname(os.path.abspath(__file__)))
sys.path.insert(0, os.path.join(VERIF, "tools"))
from propcfg import PROPS, HOOK_COMMITS

props = [json.loads(l) for l in open(os.path.join(VERIF, "properties.jsonl"))]
claimed = sorted(k for k in PROPS if PROPS[k].get("rule") not in ("TODO", "tbd"))
m = {
    "version": 1,
    "setup_cmd": "./setup.sh",
    "hooks": {
        "guard": "verif",
        "enable": "go build -tags verif; no source change to /repo is needed at present (source_commits is empty). The fine-grained phase builds a second harness binary with `go build -tags verif,vfine -overlay build/overlay.json`: copies of /repo's non-test sources (made on every run from the working tree, kept under /verif/build) in which the import \"sync\" reads sync \"verif/harness/vsync\"; /repo itself is never modified",
        "baseline_off_cmd": "cd /repo && GOFLAGS=-mod=mod go test -json -vet=off -count=1 -timeout 25m ./...",
        "source_commits": HOOK_COMMITS,
        "add_only": True,
    },
    "engines": [
        {"name": "coq-model", "path": "coq", "serves_properties": claimed,
         "kind_free_text": "Coq 8.16.1 development: executable Gallina model (coq/model), proofs (coq/proofs), property theorems (coq/props/Cxx.v), extraction to OCaml (coq/extract)"},
        {"name": "go-harness", "path": "harness", "serves_properties": claimed,
         "kind_free_text": "Go correspondence harness run against /repo's working tree (replace directive, tag verif); the model is evaluated on the same cases by the extracted driver and, for a subsample, by vm_compute inside coqc; extracted property predicates judge the real code's observations"},
    ],
    "checks": [],
    "notes": "See DESIGN.md. Every check = Coq theorems about the model (coq/props/<id>.v) + checked correspondence of the model with the real code + judged search for a concrete failing input. known_findings.json lists recorded findings and fixed defects.",
    "not_applicable": [],
}
for p in props:
    pid = p["id"]
    if pid in claimed:
        c = PROPS[pid]
        m["checks"].append({
            "property_id": pid,
            "quick_cmd": "./check %s quick" % pid,
            "thorough_cmd": "./check %s thorough" % pid,
            "evidence_file": "/verif/evidence/%s.json" % pid,
            "replay_cmd_template": "./check %s --replay {path}" % pid,
            "engine": "coq-model",
            "level_claimed": {"category": "proof", "text": c["level_text"], "design_ref": c.get("design_ref", "DESIGN.md section 7, " + pid)},
            "level_note": c["level_note"],
            "technique": c.get("technique", "Coq proof over an executable Gallina model + differential correspondence check against the Go code"),
        })
    else:
        m["not_applicable"].append({"property_id": pid, "reason": "not claimed yet: the check for this property is still being built (DESIGN.md section 11 staging); nothing is asserted about it"})
json.dump(m, open(os.path.join(VERIF, "MANIFEST.json"), "w"), indent=1)
print("MANIFEST.json: %d checks, %d not_applicable" % (len(m["checks"]), len(m["not_applicable"])))
