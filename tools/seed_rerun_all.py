#!/usr/bin/env python3
"""tools/seed_rerun_all.py <shard> <of> [--extra]

Re-runs the quick check of every kept seeded change (seeded/<PROP>-<k>) whose index in the sorted
list is congruent to <shard> modulo <of>, through tools/seed_rerun.py (SEED_REPO is honoured).
With --extra the checks that detected it before are run as well as the property's own."""
import json, os, subprocess, sys

VERIF = os.path.dirname(os.path.dirname(os.path.abspath(__file__)))


def main():
    shard, of = int(sys.argv[1]), int(sys.argv[2])
    ids = sorted(d for d in os.listdir(os.path.join(VERIF, "seeded")) if os.path.exists(os.path.join(VERIF, "seeded", d, "meta.json")))
    for i, sid in enumerate(ids):
        if i % of != shard:
            continue
        meta = json.load(open(os.path.join(VERIF, "seeded", sid, "meta.json")))
        checks = [meta["property"]]
        if "--extra" in sys.argv:
            checks += [c for c in meta.get("detected_by", []) if c not in checks]
        r = subprocess.run([sys.executable, os.path.join(VERIF, "tools", "seed_rerun.py"), sid, "--checks", ",".join(checks)],
                           stdout=subprocess.PIPE, stderr=subprocess.STDOUT, text=True)
        print(r.stdout[-600:], flush=True)


if __name__ == "__main__":
    main()
