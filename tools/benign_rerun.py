#!/usr/bin/env python3
"""tools/benign_rerun.py [name ...]

Re-runs, for every harmless rewrite kept under /verif/benign/<name>/ (patch.diff + meta.json), the quick checks
recorded in its meta.json against a tree with the patch applied (SEED_REPO, default /repo: applied with
`git apply`, undone with `git checkout -- .` straight afterwards; a scratch worktree when other work runs beside
it) and records exit codes and VIOLATION / KNOWN-FINDING lines in meta.json.  A check that reports a violation on
a harmless rewrite is a false alarm of the machinery."""
import glob, json, os, subprocess, sys, time

VERIF = os.path.dirname(os.path.dirname(os.path.abspath(__file__)))
REPO = os.environ.get("SEED_REPO", "/repo")


def main():
    names = sys.argv[1:] or sorted(os.path.basename(d) for d in glob.glob(os.path.join(VERIF, "benign", "*")) if os.path.isdir(d))
    env = dict(os.environ, VERIF_REPO=REPO)
    loud = 0
    for n in names:
        d = os.path.join(VERIF, "benign", n)
        meta = json.load(open(os.path.join(d, "meta.json")))
        subprocess.run(["git", "-C", REPO, "checkout", "-q", "--", "."], check=True)
        r = subprocess.run(["git", "-C", REPO, "apply", os.path.join(d, "patch.diff")], stdout=subprocess.PIPE, stderr=subprocess.STDOUT, text=True)
        if r.returncode != 0:
            print(n, "patch does not apply:", r.stdout.strip()[:200], flush=True)
            continue
        try:
            only = [x for x in os.environ.get("BENIGN_ONLY", "").split(",") if x]
            for p in sorted(meta.get("checks", {})):
                if only and p not in only:
                    continue
                t0 = time.time()
                rr = subprocess.run([os.path.join(VERIF, "check"), p, "quick"], cwd=VERIF, env=env, stdout=subprocess.PIPE, stderr=subprocess.STDOUT, text=True)
                lines = [l[:300] for l in rr.stdout.splitlines() if l.startswith("VIOLATION") or "harness-crash" in l]
                meta["checks"][p] = {"exit": rr.returncode, "seconds": int(time.time() - t0), "lines": lines,
                                      "at": time.strftime("%Y-%m-%dT%H:%M:%SZ", time.gmtime())}
                if rr.returncode != 0:
                    loud += 1
                print(n, p, "exit", rr.returncode, lines[:2], flush=True)
        finally:
            subprocess.run(["git", "-C", REPO, "checkout", "-q", "--", "."], check=True)
        json.dump(meta, open(os.path.join(d, "meta.json"), "w"), indent=1)
    print("checks that were not quiet:", loud, flush=True)


if __name__ == "__main__":
    main()
