"""Per-property configuration of ./check (what is compared, tiers, assumptions)."""

TRUSTED_BASE = [
    "Coq 8.16.1 kernel (coqc; vm_compute used in reflection lemmas/examples; native_compute not used)",
    "Coq standard library only; no Axiom/Parameter/Admitted in the development (grepped on every run)",
    "hand-written Gallina model of the Go code (coq/model), tied to /repo by the correspondence check of this run",
    "extraction: Require Extraction + ExtrOcamlBasic only (no Extract Constant/Inductive of ours), OCaml 4.13.1, coq/extract/driver.ml",
    "Go harness (generators, canonical renderers, fakes), Go 1.23.5 toolchain",
]

HOOK_COMMITS = []

PROPS = {
    "C13": {"rule": "TODO", "level_text": "TODO", "level_note": "TODO"},
    "C18": {"rule": "TODO", "level_text": "TODO", "level_note": "TODO"},
    "C11": {"rule": "TODO", "level_text": "TODO", "level_note": "TODO"},
    "C10": {"rule": "TODO", "level_text": "TODO", "level_note": "TODO"},
    "C19": {"rule": "TODO", "level_text": "TODO", "level_note": "TODO"},
    "C05": {"rule": "TODO", "level_text": "TODO", "level_note": "TODO"},
    "C01": {
        "rule": "TODO",
        "level_text": "TODO", "level_note": "TODO",
    },
    "C20": {
        "rule": "all pairs of entry lists of length 0..4 over an alphabet of pairwise distinct entries (each in two equal presentations: other time zone, rebuilt record) plus random lists of length 5..16 with shuffles, single-entry perturbations and multiplicity changes; a case is non-trivial when both lists have the same length > 1; distinct = distinct rendered pair",
        "assumptions": [
            "entry equality (time.Time.Equal and reflect.DeepEqual) is an equivalence on the NaN-free records the harness builds; the theorem is generic in that equivalence",
        ],
        "kernel_sample": 150,
        "level_text": "Theorem C20_multiset (any entry type, any equivalence as entry equality, lists of any length): Equal l1 l2 = true <-> PermutationA l1 l2; corollaries reflexivity, symmetry, order-irrelevance; the pinned algorithm is refuted (C20_refuted_pinned). The model's Equal is tied to EntryList.Equal by running both on every pair of lists of length <= 4 over a 3-letter (thorough: 4-letter) alphabet and on random longer lists; an extracted multiset-equality predicate judges the real code's answers.",
        "level_note": "Trusted: Coq kernel; the hand-written model mirrors transport.go Equal (checked by correspondence, not proved); time.Time.Equal and reflect.DeepEqual are assumed to form an equivalence on NaN-free records; extraction (ExtrOcamlBasic) + driver.ml, cross-checked on a subsample by vm_compute.",
    },
}
