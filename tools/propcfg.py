"""Per-property configuration of ./check (what is compared, tiers, assumptions)."""

TRUSTED_BASE = [
    "Coq 8.16.1 kernel (coqc; vm_compute used in reflection lemmas/examples; native_compute not used)",
    "Coq standard library only; no Axiom/Parameter/Admitted in the development (grepped on every run)",
    "hand-written Gallina model of the Go code (coq/model), tied to /repo by the correspondence check of this run",
    "extraction: Require Extraction + ExtrOcamlBasic only (no Extract Constant/Inductive of ours), OCaml 4.13.1, coq/extract/driver.ml",
    "Go harness (generators, canonical renderers, fakes), Go 1.23.5 toolchain",
]

HOOK_COMMITS = []

PROPS = {
    "C13": {"rule": "TODO", "level_text": "TODO", "level_note": "TODO"},
    "C18": {
        "rule": "per mode a pool of 7 (thorough 14) well-formed messages (options absent / populated / empty map / as generated; library and alternative encodings incl. the short arity); all ordered pairs and random triples decoded one after another into ONE receiver on both paths; the last decode is compared with a decode of the same bytes into a fresh receiver (Go-side judge) and with the model's prediction from the bytes alone; non-trivial = the two last messages differ",
        "kernel_sample": 150,
        "level_text": "Theorems C18_reuse_<mode> (all four modes, both decoder paths, every previous receiver value prev, every byte string): U_x p prev bs = U_x p zero bs, and C18_sequences for any sequence of inputs decoded into one receiver whatever state the receiver is in between the decodes. The model's decoders take the receiver as an argument so that an unassigned field would show; C18_refuted_pinned refutes the decoders of the pinned commit (D4, fixed). Correspondence: the real decoders are run on all ordered pairs/triples of a message pool into one receiver, the model must predict the content of the reused receiver from the bytes alone.",
        "level_note": "Trusted: Coq kernel; hand-written model of message.go/forward_message.go/packed_forward_message.go decoders (checked by correspondence); extraction+driver (subsample re-evaluated by vm_compute). The theorem is definitional for the repaired model: its content is that the model which ignores the receiver predicts the real code's behaviour on reused receivers.",
    },
    "C11": {"rule": "TODO", "level_text": "TODO", "level_note": "TODO"},
    "C10": {"rule": "TODO", "level_text": "TODO", "level_note": "TODO"},
    "C19": {
        "rule": "boundary seconds {0,1,2^31-1,2^31,2^32-1,...} x boundary nanoseconds {0,1,999999999} plus random pairs, each built under several time.Location settings (UTC, fixed +14h/-12h zones, Local); payload of MarshalBinaryTo, UnmarshalBinary result, also through EntryExt/MessageExt; random 8-byte and non-8-byte payloads for the decode/re-encode clauses; non-trivial = seconds >= 2^31 or non-UTC zone or nsec at a boundary",
        "assumptions": ["Go's time.Time.UTC().Unix()/Nanosecond() depend on the instant only, not on the Location (the zone clause has content on the Go side only; the harness exercises it, the model's encoder takes the instant)"],
        "kernel_sample": 150,
        "level_text": "Theorems over all instants (no enumeration): C19_roundtrip (every (sec,nsec) with 0<=sec<2^32, nsec<10^9 decodes back exactly), C19_instant_only (the encoding is injective on the domain, so it is a function of the instant alone), C19_order (bytewise order of encodings = order of instants), C19_length_rejected/accepted (exactly 8 bytes), C19_reencode (decode then encode reproduces every payload whose nanosecond field is below 10^9). Correspondence: MarshalBinaryTo/UnmarshalBinary of the real code vs et_payload/dec_eventtime on boundary and random instants under several time zones.",
        "level_note": "Trusted: Coq kernel; model of EventTime.MarshalBinaryTo/UnmarshalBinary (uint32 truncation and time.Unix normalisation written explicitly); zone independence of Go's time package is an assumption exercised by the harness; extraction+driver.",
    },
    "C05": {"rule": "TODO", "level_text": "TODO", "level_note": "TODO"},
    "C01": {
        "rule": "per mode: generated messages (tags of every length class, int64 / EventTime boundaries, records of every msgpack kind nested to depth 3, options nil/empty/each subset), encoded by MarshalMsg and by msgp.Encode, decoded by UnmarshalMsg and DecodeMsg with random trailing bytes; alternative encodings of the same abstract message by the harness's independent encoder (widened headers, unsigned timestamps, ext8 EventTime, option element dropped, extra option keys); entries, entry lists, options, acks through all path combinations; MarshalMsg into a prefix with sentinel bytes; non-trivial = distinct rendered message",
        "kernel_sample": 150,
        "partial": "the append-only clause of MarshalMsg and the byte-equality of the two encoder paths are checked on the real code (sentinel prefix; both paths compared with the model's single encoder) but are definitional in the model (one encoder function); the alternative-encoding clause is proved in proofs/Complete_Proofs.v when present (see theorems list) and otherwise decided by the judged correspondence only",
        "level_text": "Theorems C01_roundtrip_<kind> for Message, MessageExt, Forward, Packed(Compressed), EntryExt, EntryList, MessageOptions (nil vs empty vs populated), Ack, HELO, PING, PONG and packed event streams: for every well-formed value (unbounded sizes/nesting), both decoder paths, any previous receiver and any trailing bytes: U_x p prev (M_x m ++ rest) = Ok (norm m, rest), with norm idempotent and the identity unless an unsigned integer below 128 occurs (msgp returns it in the signed class). Correspondence: real MarshalMsg/EncodeMsg bytes vs the model encoder, real UnmarshalMsg/DecodeMsg results vs the model decoders on canonical and alternative encodings, and the specification parser (Spec.v, extracted) judges every decoded value.",
        "level_note": "Trusted: Coq kernel; hand-written model of tinylib/msgp primitives (Msgp.v) and of the protocol package's encoders/decoders (Forward.v, Handshake.v), tied to the code by this run's correspondence; Go map iteration order is handled by comparing multi-key records up to key order plus byte-exact re-encoding; extraction+driver (subsample re-evaluated in the kernel).",
    },
    "C02": {
        "rule": "per mode: generated messages whose records are maps, wire bytes of both encoder paths judged by the extracted specification parser (Forward Protocol v1 shapes, msgpack spec); HELO/PING/PONG/ack shapes; every Send* helper of the TCP client on a recording connection (mode named by the helper, stamp inside the call's time bracket: whole seconds for Message, nanoseconds for MessageExt); raw strings of 1 byte to 5*2048+3 bytes through SendRaw and Send(RawMessage) compared byte for byte; non-trivial = distinct wire string",
        "kernel_sample": 120,
        "partial": "time stamping and the choice of constructor by each Send* helper are Go-side facts: they are decided by the judged correspondence (spec parser applied to the bytes the real client wrote), not by a theorem; the websocket client's Send/SendRaw verbatim delivery is covered by C17",
        "level_text": "Theorems C02_wire_<kind>: for every well-formed message whose records are maps, spec_parse shape_<mode> (M_x m) = Some (abs m, []) where spec_parse is the independent msgpack/Forward-v1 parser of Spec.v: 4-element [tag:str,time:int|EventTime,record:map,option:map|nil], Forward with 2/3 elements, Packed [tag,bin,option], option keys size/chunk/compressed omitted when empty (C02_wire_options), EventTime = d7 00 ++ be32 sec ++ be32 nsec (C02_eventtime_layout), HELO/PING/PONG 2/6/5-element arrays, ack {ack:str}; C02_raw_verbatim on the client model. The same extracted parser judges the bytes of the real encoders and of every Send* helper.",
        "level_note": "Trusted: Coq kernel; Spec.v is the reading of the two specifications (msgpack, Forward Protocol v1) — it is the judge, nothing ties it to the library; model of the encoders tied to the code by correspondence (C01/C02 runs); wall clock bracket for stamps.",
    },
    "C20": {
        "rule": "all pairs of entry lists of length 0..4 over an alphabet of pairwise distinct entries (each in two equal presentations: other time zone, rebuilt record) plus random lists of length 5..16 with shuffles, single-entry perturbations and multiplicity changes; a case is non-trivial when both lists have the same length > 1; distinct = distinct rendered pair",
        "assumptions": [
            "entry equality (time.Time.Equal and reflect.DeepEqual) is an equivalence on the NaN-free records the harness builds; the theorem is generic in that equivalence",
        ],
        "kernel_sample": 150,
        "level_text": "Theorem C20_multiset (any entry type, any equivalence as entry equality, lists of any length): Equal l1 l2 = true <-> PermutationA l1 l2; corollaries reflexivity, symmetry, order-irrelevance; the pinned algorithm is refuted (C20_refuted_pinned). The model's Equal is tied to EntryList.Equal by running both on every pair of lists of length <= 4 over a 3-letter (thorough: 4-letter) alphabet and on random longer lists; an extracted multiset-equality predicate judges the real code's answers.",
        "level_note": "Trusted: Coq kernel; the hand-written model mirrors transport.go Equal (checked by correspondence, not proved); time.Time.Equal and reflect.DeepEqual are assumed to form an equivalence on NaN-free records; extraction (ExtrOcamlBasic) + driver.ml, cross-checked on a subsample by vm_compute.",
    },
}
