#!/usr/bin/env python3
"""tools/seed_rerun.py <seed id, e.g. C17-2> [--checks C17,C09]

Re-runs quick checks against an already confirmed seeded change kept under
/verif/seeded/<id>/: applies patch.diff to /repo, runs the checks, restores /repo straight
afterwards, and merges the outcome into meta.json (checks_run_against_it, detected_by)."""
import json, os, subprocess, sys, time

VERIF = os.path.dirname(os.path.dirname(os.path.abspath(__file__)))
# SEED_REPO: the tree the change is applied to for the check runs (default /repo itself; a scratch worktree of /repo
# lets a batch run beside other work, the checks are pointed at it through VERIF_REPO)
REPO = os.path.abspath(os.environ.get("SEED_REPO", "/repo"))
ENV = dict(os.environ, GOFLAGS="-mod=mod", GOPROXY="off", GOSUMDB="off", GOTOOLCHAIN="local", VERIF_REPO=REPO)


def sh(cmd, cwd=None, timeout=3000):
    p = subprocess.run(cmd, cwd=cwd, env=ENV, shell=True, stdout=subprocess.PIPE, stderr=subprocess.STDOUT, text=True, timeout=timeout)
    return p.returncode, p.stdout


def main():
    sid = sys.argv[1]
    d = os.path.join(VERIF, "seeded", sid)
    meta = json.load(open(os.path.join(d, "meta.json")))
    checks = [meta["property"]]
    if "--checks" in sys.argv:
        checks = sys.argv[sys.argv.index("--checks") + 1].split(",")
    rc, st = sh("git -C %s status --short" % REPO)
    assert st.strip().replace("?? _seed/", "") == "", REPO + " is not clean: " + st
    rc, out = sh("git -C %s apply %s" % (REPO, os.path.join(d, "patch.diff")))
    assert rc == 0, out
    results = meta.get("checks_run_against_it", {})
    try:
        for c in checks:
            t0 = time.time()
            rc, out = sh("./check %s quick" % c, cwd=VERIF)
            lines = [l for l in out.split("\n") if l.startswith("VIOLATION") or l.startswith("   ")]
            results[c] = {"exit": rc, "seconds": round(time.time() - t0), "violations": [l.strip()[:300] for l in lines][:12],
                          "at": time.strftime("%Y-%m-%dT%H:%M:%SZ", time.gmtime())}
            print(sid, c, "exit", rc, "\n".join(lines[:6]))
    finally:
        sh("git -C %s checkout -- ." % REPO)
        sh("git -C %s clean -fdq -- fluent" % REPO)
    meta["checks_run_against_it"] = results
    meta["detected_by"] = sorted(c for c in results if results[c]["exit"] != 0)
    json.dump(meta, open(os.path.join(d, "meta.json"), "w"), indent=1)
    print(sid, "detected_by", meta["detected_by"])


if __name__ == "__main__":
    main()
