#!/usr/bin/env python3
"""tools/seed_batch.py <root with <PROP>/_seed/<i>/ directories> <round> [PROP ...]

Confirms and runs the checks against every seeded change found under <root> (as written by
the sub-agents: <root>/<PROP>/_seed/<i>/{patch.diff,demo_test.go,README.md}), one after the
other, through tools/seed_verify.py, and stores each confirmed change under
/verif/seeded/<PROP>-<k> with the next free k.  The tree the change is applied to is SEED_REPO
(default /repo; a scratch worktree when the batch has to run beside other work).
Extra checks to run per property come from EXTRA below (properties whose harnesses share the code)."""
import glob, os, re, subprocess, sys

VERIF = os.path.dirname(os.path.dirname(os.path.abspath(__file__)))
EXTRA = {}


def next_free(prop):
    ks = [int(m.group(1)) for d in glob.glob(os.path.join(VERIF, "seeded", prop + "-*")) for m in [re.search(r"-(\d+)$", d)] if m]
    return max(ks + [0]) + 1


def main():
    root, rnd = sys.argv[1], sys.argv[2]
    props = sys.argv[3:] or sorted(d for d in os.listdir(root) if re.fullmatch(r"C\d\d", d))
    for p in props:
        for sd in sorted(glob.glob(os.path.join(root, p, "_seed", "*"))):
            if not os.path.exists(os.path.join(sd, "patch.diff")):
                continue
            if os.path.exists(os.path.join(sd, ".done")):
                continue
            name = str(next_free(p))
            cmd = [sys.executable, os.path.join(VERIF, "tools", "seed_verify.py"), p, sd, "--as", name, "--round", rnd]
            if p in EXTRA:
                cmd += ["--checks", ",".join([p] + EXTRA[p])]
            print("=====", p, sd, "->", p + "-" + name, flush=True)
            r = subprocess.run(cmd, stdout=subprocess.PIPE, stderr=subprocess.STDOUT, text=True)
            print(r.stdout[-2500:], flush=True)
            open(os.path.join(sd, ".done"), "w").write(str(r.returncode))


if __name__ == "__main__":
    main()
