#!/usr/bin/env python3
"""tools/coverage.py

How much of the library does the correspondence check execute?  Builds the harness with Go's block coverage
for the packages of /repo/fluent (`go build -cover -coverpkg=...`), runs the quick tier of all twenty
property harnesses once (harness only: no model evaluation is needed to know which code ran), merges the
counters and writes /verif/coverage/report.txt: per hand-written source file the number of blocks, the
uncovered ones with their source lines.  Generated code (*_gen.go) and the counterfeiter fakes are left out.
This is a measurement of the tie between model and code (a block no harness ever runs is a place where a
change could hide from every check), not a check: it exits 0 whatever it finds."""
import collections, os, re, shutil, subprocess, sys

VERIF = os.path.dirname(os.path.dirname(os.path.abspath(__file__)))
REPO = "/repo"
ENV = dict(os.environ, GOFLAGS="-mod=mod", GOPROXY="off", GOSUMDB="off", GOTOOLCHAIN="local")
MOD = "github.com/IBM/fluent-forward-go/"


def main():
    work = os.path.join(VERIF, "build", "cov")
    shutil.rmtree(work, ignore_errors=True)
    os.makedirs(os.path.join(work, "data"))
    shutil.copy(os.path.join(REPO, "go.sum"), os.path.join(VERIF, "harness", "go.sum"))
    binp = os.path.join(VERIF, "build", "bin", "vh-cover")
    os.makedirs(os.path.dirname(binp), exist_ok=True)
    subprocess.run(["go", "build", "-tags", "verif", "-cover", "-coverpkg=" + MOD + "fluent/...,verif/harness/cmd/vh", "-o", binp, "./cmd/vh"],
                   cwd=os.path.join(VERIF, "harness"), env=ENV, check=True)
    props = ["C%02d" % i for i in range(1, 21)]
    for p in props:
        out = os.path.join(work, "out", p)
        os.makedirs(out)
        r = subprocess.run([binp, p, "-tier", "quick", "-seed", "1", "-out", out], env=dict(ENV, GOCOVERDIR=os.path.join(work, "data")),
                           stdout=subprocess.DEVNULL, stderr=subprocess.DEVNULL, timeout=1800)
        print(p, "harness exit", r.returncode, flush=True)
    txt = os.path.join(work, "cover.txt")
    subprocess.run(["go", "tool", "covdata", "textfmt", "-i=" + os.path.join(work, "data"), "-o", txt], env=ENV, check=True)
    cov = collections.defaultdict(dict)
    for l in open(txt):
        m = re.match(r"(.+):(\d+)\.(\d+),(\d+)\.(\d+) (\d+) (\d+)", l)
        if not m:
            continue
        f, sl, _, el, _, _, c = m.groups()
        k = (int(sl), int(el))
        cov[f][k] = max(cov[f].get(k, 0), int(c))
    os.makedirs(os.path.join(VERIF, "coverage"), exist_ok=True)
    with open(os.path.join(VERIF, "coverage", "report.txt"), "w") as w:
        head = subprocess.run(["git", "-C", REPO, "rev-parse", "--short", "HEAD"], stdout=subprocess.PIPE, text=True).stdout.strip()
        w.write("blocks of /repo/fluent (commit %s, hand-written sources) executed by the quick tier of the 20 property harnesses\n\n" % head)
        tot = unc = 0
        for f in sorted(cov):
            if MOD + "fluent" not in f or "_gen.go" in f or "fakes" in f:
                continue
            rel = f.replace(MOD, "")
            un = sorted(k for k, c in cov[f].items() if c == 0)
            tot += len(cov[f])
            unc += len(un)
            w.write("%s: %d blocks, %d never executed\n" % (rel, len(cov[f]), len(un)))
            src = open(os.path.join(REPO, rel)).read().splitlines()
            for sl, el in un:
                w.write("    lines %d-%d: %s\n" % (sl, el, " ".join(x.strip() for x in src[sl - 1:min(el, sl + 2)])[:150]))
        w.write("\ntotal: %d blocks, %d never executed (%.1f%% executed)\n" % (tot, unc, 100.0 * (tot - unc) / max(tot, 1)))
    print(open(os.path.join(VERIF, "coverage", "report.txt")).read()[-200:])


if __name__ == "__main__":
    main()
