#!/usr/bin/env python3
"""tools/seed_verify.py <PROP> <seed dir> [--checks C01,C13]

1. Confirms a seeded change in a scratch worktree of /repo (outside /repo and /verif):
   the patch applies to HEAD, the repository builds, the existing suite passes with it,
   the demonstration fails with it and passes without it.
2. Applies it to /repo, runs the quick checks of the named properties (default: the one it
   was written against), records which raise an alarm, and restores /repo.
3. Stores patch, demonstration and meta.json under /verif/seeded/<PROP>-<n>/.
"""
import json, os, re, shutil, subprocess, sys, time

VERIF = os.path.dirname(os.path.dirname(os.path.abspath(__file__)))
# SEED_REPO: the tree the change is applied to for the check runs (default /repo itself; a scratch worktree of /repo
# lets a batch run beside other work, the checks are pointed at it through VERIF_REPO)
REPO = os.path.abspath(os.environ.get("SEED_REPO", "/repo"))
ENV = dict(os.environ, GOFLAGS="-mod=mod", GOPROXY="off", GOSUMDB="off", GOTOOLCHAIN="local", VERIF_REPO=REPO)


def sh(cmd, cwd=None, timeout=1200):
    p = subprocess.run(cmd, cwd=cwd, env=ENV, shell=True, stdout=subprocess.PIPE, stderr=subprocess.STDOUT, text=True, timeout=timeout)
    return p.returncode, p.stdout


def main():
    prop, seed = sys.argv[1], sys.argv[2].rstrip("/")
    checks = [prop]
    if "--checks" in sys.argv:
        checks = sys.argv[sys.argv.index("--checks") + 1].split(",")
    n = os.path.basename(seed)
    if "--as" in sys.argv:  # name under /verif/seeded (round 2: <PROP>-3, <PROP>-4)
        n = sys.argv[sys.argv.index("--as") + 1]
    patch = os.path.join(seed, "patch.diff")
    demo = os.path.join(seed, "demo_test.go")
    meta = {"property": prop, "seed": n, "source": "fresh sub-agent given only the property text and a scratch worktree", "round": int(sys.argv[sys.argv.index("--round") + 1]) if "--round" in sys.argv else (2 if "--as" in sys.argv else 1), "at": time.strftime("%Y-%m-%dT%H:%M:%SZ", time.gmtime())}
    wt = "/tmp/seedwt-%s-%s" % (prop, n)
    sh("git -C /repo worktree remove --force %s" % wt)
    rc, out = sh("git -C /repo worktree add --detach %s HEAD" % wt)
    assert rc == 0, out
    try:
        src = open(demo).read()
        pkg = re.search(r"^package\s+(\w+)", src, re.M).group(1)
        pdir = {"client": "fluent/client", "client_test": "fluent/client", "protocol": "fluent/protocol", "protocol_test": "fluent/protocol",
                "ws": "fluent/client/ws", "ws_test": "fluent/client/ws"}[pkg]
        target = os.path.join(wt, pdir, "zz_seed_demo_test.go")
        tests = "|".join(sorted(set(re.findall(r"^func (Test\w+)\(", src, re.M))))
        race = "-race " if ("-race" in open(os.path.join(seed, "README.md")).read() and "race" in src.lower()) else ""
        demo_cmd = "timeout 600 go test -vet=off -count=1 %s-run '%s' ./%s/" % (race, tests, pdir)
        # without the change
        shutil.copy(demo, target)
        rc0, out0 = sh(demo_cmd, cwd=wt)
        # with the change
        rc, out = sh("git apply %s" % patch, cwd=wt)
        meta["patch_applies"] = rc == 0
        rcb, outb = sh("go build ./...", cwd=wt)
        meta["builds"] = rcb == 0
        rc1, out1 = sh(demo_cmd, cwd=wt)
        os.remove(target)
        rcs, outs = sh("timeout 900 go test -vet=off -count=1 ./...", cwd=wt)
        meta["existing_suite_passes_with_change"] = rcs == 0 and "FAIL" not in outs
        meta["demo_cmd"] = demo_cmd
        meta["demo_passes_without_change"] = rc0 == 0
        meta["demo_fails_with_change"] = rc1 != 0
        meta["demo_output_with_change"] = out1[-1200:]
        meta["confirmed"] = bool(meta["patch_applies"] and meta["builds"] and meta["existing_suite_passes_with_change"]
                                 and meta["demo_passes_without_change"] and meta["demo_fails_with_change"])
    finally:
        sh("git -C /repo worktree remove --force %s" % wt)
        shutil.rmtree(wt, ignore_errors=True)
    print(json.dumps({k: meta[k] for k in meta if k != "demo_output_with_change"}, indent=1))
    if not meta.get("confirmed"):
        print("NOT CONFIRMED; not kept")
        print(meta.get("demo_output_with_change", "")[-600:])
        sys.exit(1)
    # run the checks against the change
    rc, st = sh("git -C %s status --short" % REPO)
    assert st.strip().replace("?? _seed/", "") == "", REPO + " is not clean: " + st
    rc, out = sh("git -C %s apply %s" % (REPO, patch))
    assert rc == 0, out
    results = {}
    try:
        for c in checks:
            t0 = time.time()
            rc, out = sh("./check %s quick" % c, cwd=VERIF, timeout=3000)
            lines = [l for l in out.split("\n") if l.startswith("VIOLATION") or l.startswith("   ")]
            results[c] = {"exit": rc, "seconds": round(time.time() - t0), "violations": [l.strip()[:300] for l in lines][:12]}
            print(c, "exit", rc, "\n".join(lines[:8]))
    finally:
        sh("git -C %s checkout -- ." % REPO)
        sh("git -C %s clean -fdq -- fluent" % REPO)
    meta["checks_run_against_it"] = results
    meta["detected_by"] = sorted(c for c in results if results[c]["exit"] != 0)
    dest = os.path.join(VERIF, "seeded", "%s-%s" % (prop, n))
    os.makedirs(dest, exist_ok=True)
    shutil.copy(patch, os.path.join(dest, "patch.diff"))
    shutil.copy(demo, os.path.join(dest, "demo_test.go"))
    shutil.copy(os.path.join(seed, "README.md"), os.path.join(dest, "README.md"))
    rd = open(os.path.join(seed, "README.md")).read()
    meta["what_it_needs_to_manifest"] = "see README.md (written by the sub-agent)"
    json.dump(meta, open(os.path.join(dest, "meta.json"), "w"), indent=1)
    print("kept in", dest, "detected_by", meta["detected_by"])


if __name__ == "__main__":
    main()
