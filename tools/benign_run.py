#!/usr/bin/env python3
"""tools/benign_run.py <root with <area>/_ben/<i>/{patch.diff,README.md}> [area ...]

Harmless rewrites of the library (written by sub-agents that were given all property texts and asked
for behaviour-preserving changes): each patch is applied to SEED_REPO (a scratch worktree of /repo),
the quick checks of the properties anchored in the touched files are run through VERIF_REPO, and
the outcome (which checks stayed quiet, which raised an alarm and with what) is stored under
/verif/benign/<area>-<i>/.  An alarm here is a FALSE alarm unless the patch turns out to break a property."""
import json, os, re, shutil, subprocess, sys, time

VERIF = os.path.dirname(os.path.dirname(os.path.abspath(__file__)))
REPO = os.path.abspath(os.environ.get("SEED_REPO", "/repo"))
ENV = dict(os.environ, GOFLAGS="-mod=mod", GOPROXY="off", GOSUMDB="off", GOTOOLCHAIN="local", VERIF_REPO=REPO)

BY_FILE = [
    (r"fluent/protocol/(message|forward_message|packed_forward_message)", ["C01", "C02", "C03", "C07", "C10", "C12", "C13", "C18"]),
    (r"fluent/protocol/transport", ["C01", "C02", "C03", "C07", "C10", "C11", "C12", "C13", "C18", "C19", "C20"]),
    (r"fluent/protocol/chunk", ["C11", "C12", "C04", "C07", "C10"]),
    (r"fluent/protocol/handshake", ["C05", "C10", "C01", "C02"]),
    (r"fluent/client/client\.go", ["C02", "C04", "C05", "C06", "C08", "C09", "C10", "C14", "C07"]),
    (r"fluent/client/ws_client\.go", ["C17", "C09", "C02"]),
    (r"fluent/client/ws/connection\.go", ["C15", "C16", "C17"]),
]


def sh(cmd, cwd=None, timeout=3000):
    p = subprocess.run(cmd, cwd=cwd, env=ENV, shell=True, stdout=subprocess.PIPE, stderr=subprocess.STDOUT, text=True, timeout=timeout)
    return p.returncode, p.stdout


def main():
    root = sys.argv[1]
    areas = sys.argv[2:] or sorted(d for d in os.listdir(root) if os.path.isdir(os.path.join(root, d, "_ben")))
    for a in areas:
        for i in sorted(os.listdir(os.path.join(root, a, "_ben"))):
            d = os.path.join(root, a, "_ben", i)
            patch = os.path.join(d, "patch.diff")
            if not os.path.exists(patch) or os.path.exists(os.path.join(d, ".done")):
                continue
            name = "%s-%s" % (a, i)
            files = re.findall(r"^\+\+\+ b/(\S+)", open(patch).read(), re.M)
            checks = []
            for pat, cs in BY_FILE:
                if any(re.search(pat, f) for f in files):
                    checks += [c for c in cs if c not in checks]
            rc, st = sh("git -C %s status --short" % REPO)
            assert st.strip() == "", st
            rc, out = sh("git -C %s apply %s" % (REPO, patch))
            meta = {"name": name, "files": files, "applies": rc == 0, "checks": {}, "at": time.strftime("%Y-%m-%dT%H:%M:%SZ", time.gmtime())}
            try:
                if rc == 0:
                    rcs, outs = sh("timeout 900 go test -vet=off -count=1 ./...", cwd=REPO)
                    meta["existing_suite_passes"] = rcs == 0
                    for c in checks:
                        t0 = time.time()
                        rcc, outc = sh("./check %s quick" % c, cwd=VERIF)
                        lines = [l.strip()[:300] for l in outc.split("\n") if l.startswith("VIOLATION") or l.startswith("   ")]
                        meta["checks"][c] = {"exit": rcc, "seconds": round(time.time() - t0), "lines": lines[:8]}
                        print(name, c, "exit", rcc, " | ".join(lines[:3]), flush=True)
            finally:
                sh("git -C %s checkout -- ." % REPO)
                sh("git -C %s clean -fdq -- fluent" % REPO)
            meta["alarms"] = sorted(c for c in meta["checks"] if meta["checks"][c]["exit"] != 0)
            dest = os.path.join(VERIF, "benign", name)
            os.makedirs(dest, exist_ok=True)
            shutil.copy(patch, os.path.join(dest, "patch.diff"))
            if os.path.exists(os.path.join(d, "README.md")):
                shutil.copy(os.path.join(d, "README.md"), os.path.join(dest, "README.md"))
            json.dump(meta, open(os.path.join(dest, "meta.json"), "w"), indent=1)
            open(os.path.join(d, ".done"), "w").write("ok")
            print("=====", name, "alarms:", meta["alarms"], flush=True)


if __name__ == "__main__":
    main()
