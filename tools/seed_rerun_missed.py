#!/usr/bin/env python3
"""tools/seed_rerun_missed.py: re-runs the property's own quick check for every kept seeded change that no check detects yet."""
import glob, json, os, subprocess, sys
VERIF = os.path.dirname(os.path.dirname(os.path.abspath(__file__)))
for f in sorted(glob.glob(os.path.join(VERIF, "seeded", "*", "meta.json"))):
    m = json.load(open(f))
    if m.get("detected_by"):
        continue
    sid = os.path.basename(os.path.dirname(f))
    r = subprocess.run([sys.executable, os.path.join(VERIF, "tools", "seed_rerun.py"), sid], stdout=subprocess.PIPE, stderr=subprocess.STDOUT, text=True)
    print(r.stdout[-400:], flush=True)
