(* EntryList.Equal (fluent/protocol/transport.go).  Generic in the entry type and in
   entry equality [eeq] (same instant && reflect.DeepEqual of the records). *)
From FF Require Import model.Bytes.

Section Equal.
  Context {E : Type} (eeq : E -> E -> bool).

  (* Repaired code: every entry of the second list is matched at most once. *)
  Fixpoint remove_first (a : E) (l : list E) : option (list E) :=
    match l with
    | [] => None
    | b :: r =>
        if eeq a b then Some r
        else match remove_first a r with Some r' => Some (b :: r') | None => None end
    end.

  Fixpoint match_all (l1 l2 : list E) : bool :=
    match l1 with
    | [] => true
    | a :: r => match remove_first a l2 with Some l2' => match_all r l2' | None => false end
    end.

  Definition equal (l1 l2 : list E) : bool :=
    Nat.eqb (length l1) (length l2) && match_all l1 l2.

  (* Pinned code (ecf19ba): counts matches over the cross product. *)
  Definition count_matches (l1 l2 : list E) : nat :=
    fold_left (fun acc a => fold_left (fun acc b => if eeq a b then S acc else acc) l2 acc) l1 O.
  Definition equal_pinned (l1 l2 : list E) : bool :=
    Nat.eqb (length l1) (length l2) && Nat.eqb (count_matches l1 l2) (length l1).
End Equal.

(* Concrete entries used by the correspondence: instant + canonical record rendering. *)
Definition centry := (Z * N * bytes)%type.
Definition centry_eqb (a b : centry) : bool :=
  match a, b with
  | (s1, n1, r1), (s2, n2, r2) => Z.eqb s1 s2 && N.eqb n1 n2 && bytes_eqb r1 r2
  end.
