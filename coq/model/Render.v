(* Canonical ASCII renderings of model values (DESIGN.md appendix B) and the TLV
   descriptors by which the harness hands structured arguments to the model. *)
From FF Require Import model.Bytes model.Show model.Msgp model.Forward.
From Coq Require Import String.
Open Scope N_scope.

(* ---------- rendering ---------- *)

(* insert into an assoc list sorted by key bytes, replacing an existing key (last wins) *)
Fixpoint ins_sorted {A} (k : bytes) (v : A) (l : list (bytes * A)) : list (bytes * A) :=
  match l with
  | [] => [(k, v)]
  | (k', v') :: r =>
      match bytes_cmp k k' with
      | Lt => (k, v) :: l
      | Eq => (k, v) :: r
      | Gt => (k', v') :: ins_sorted k v r
      end
  end.
Definition sort_map {A} (l : list (bytes * A)) : list (bytes * A) :=
  fold_left (fun acc kv => ins_sorted (fst kv) (snd kv) acc) l [].

Definition show_signed_byte (n : N) : bytes := show_Z (n2z 1 n).

Fixpoint show_gval (v : gval) : bytes :=
  match v with
  | GNil => str "nil"
  | GBool b => show_bool b
  | GInt z => str "i:" ++ show_Z z
  | GUint n => str "u:" ++ show_N n
  | GF32 b => str "f32:" ++ hex (be 4 b)
  | GF64 b => str "f64:" ++ hex (be 8 b)
  | GStr s => str "s:" ++ hex s
  | GBin s => str "b:" ++ hex s
  | GArr l => str "[" ++ sep_concat (str ",") (map show_gval l) ++ str "]"
  | GMap l =>
      str "{" ++ sep_concat (str ",")
        (map (fun kv => hex (fst kv) ++ str "=" ++ snd kv)
             (sort_map (map (fun kv => (fst kv, show_gval (snd kv))) l))) ++ str "}"
  | GTime s n => str "time:" ++ show_Z s ++ str "." ++ show_N n
  | GC64 b => str "c64:" ++ hex (be 8 b)
  | GC128 h l => str "c128:" ++ hex (be 8 h ++ be 8 l)
  | GEventTime s n => str "et:" ++ show_Z s ++ str "." ++ show_N n
  | GRawExt t d => str "ext:" ++ show_signed_byte t ++ str ":" ++ hex d
  | GBad => str "bad"
  end.

Definition show_opts (o : option options) : bytes :=
  match o with
  | None => str "none"
  | Some o =>
      str "{size=" ++ (match o_size o with Some z => show_Z z | None => str "-" end)
      ++ str ",chunk=" ++ hex (o_chunk o) ++ str ",comp=" ++ hex (o_comp o) ++ str "}"
  end.

Definition show_instant (t : instant) : bytes := show_Z (fst t) ++ str "." ++ show_N (snd t).

Definition show_message (m : message) : bytes :=
  str "message(tag=" ++ hex (m_tag m) ++ str ",ts=" ++ show_Z (m_ts m) ++ str ",rec=" ++ show_gval (m_rec m)
  ++ str ",opt=" ++ show_opts (m_opts m) ++ str ")".
Definition show_message_ext (m : message_ext) : bytes :=
  str "messageext(tag=" ++ hex (x_tag m) ++ str ",ts=" ++ show_instant (x_ts m) ++ str ",rec=" ++ show_gval (x_rec m)
  ++ str ",opt=" ++ show_opts (x_opts m) ++ str ")".
Definition show_entry (e : entry) : bytes :=
  str "(" ++ show_instant (e_ts e) ++ str "," ++ show_gval (e_rec e) ++ str ")".
Definition show_entries (l : list entry) : bytes :=
  str "[" ++ sep_concat (str ",") (map show_entry l) ++ str "]".
Definition show_forward (m : forward) : bytes :=
  str "forward(tag=" ++ hex (f_tag m) ++ str ",entries=" ++ show_entries (f_entries m)
  ++ str ",opt=" ++ show_opts (f_opts m) ++ str ")".
Definition show_packed (m : packed) : bytes :=
  str "packed(tag=" ++ hex (p_tag m) ++ str ",stream=" ++ hex (p_stream m)
  ++ str ",opt=" ++ show_opts (p_opts m) ++ str ")".

Definition show_res {A} (f : A -> bytes) (r : res A) : bytes :=
  match r with
  | Ok a => str "ok(" ++ f a ++ str ")"
  | Err _ => str "err"
  | Panic => str "panic"
  end.

(* decoded value together with the number of bytes left over *)
Definition show_dec {A} (f : A -> bytes) (r : res (A * bytes)) : bytes :=
  show_res (fun x => f (fst x) ++ str ";left=" ++ show_N (len (snd x))) r.

(* ---------- TLV descriptors (harness -> model) ---------- *)

Definition d_take (k : N) (bs : bytes) : option (bytes * bytes) :=
  split_at k bs.
Definition d_num (k : N) (bs : bytes) : option (N * bytes) :=
  match d_take k bs with Some (h, t) => Some (unbe h, t) | None => None end.

Fixpoint d_gval (fuel : nat) (bs : bytes) {struct fuel} : option (gval * bytes) :=
  match fuel with
  | O => None
  | S f =>
    match bs with
    | [] => None
    | t :: r =>
      let c := b2n t in
      if c =? 78 (* N *) then Some (GNil, r)
      else if c =? 84 (* T *) then Some (GBool true, r)
      else if c =? 70 (* F *) then Some (GBool false, r)
      else if c =? 73 (* I *) then match d_num 8 r with Some (x, u) => Some (GInt (n2z 8 x), u) | None => None end
      else if c =? 85 (* U *) then match d_num 8 r with Some (x, u) => Some (GUint x, u) | None => None end
      else if c =? 102 (* f *) then match d_num 4 r with Some (x, u) => Some (GF32 x, u) | None => None end
      else if c =? 100 (* d *) then match d_num 8 r with Some (x, u) => Some (GF64 x, u) | None => None end
      else if c =? 83 (* S *) then
        match d_num 4 r with Some (l, u) => match d_take l u with Some (s, w) => Some (GStr s, w) | None => None end | None => None end
      else if c =? 66 (* B *) then
        match d_num 4 r with Some (l, u) => match d_take l u with Some (s, w) => Some (GBin s, w) | None => None end | None => None end
      else if c =? 65 (* A *) then
        match d_num 4 r with Some (n, u) => d_arr f n u [] | None => None end
      else if c =? 77 (* M *) then
        match d_num 4 r with Some (n, u) => d_map f n u [] | None => None end
      else if c =? 116 (* t *) then
        match d_num 8 r with Some (s, u) => match d_num 4 u with Some (n, w) => Some (GTime (n2z 8 s) n, w) | None => None end | None => None end
      else if c =? 69 (* E *) then
        match d_num 8 r with Some (s, u) => match d_num 4 u with Some (n, w) => Some (GEventTime (n2z 8 s) n, w) | None => None end | None => None end
      else if c =? 99 (* c *) then match d_num 8 r with Some (x, u) => Some (GC64 x, u) | None => None end
      else if c =? 67 (* C *) then
        match d_num 8 r with Some (h, u) => match d_num 8 u with Some (l, w) => Some (GC128 h l, w) | None => None end | None => None end
      else if c =? 88 (* X *) then
        match d_num 1 r with Some (ty, u) =>
          match d_num 4 u with Some (l, w) => match d_take l w with Some (d, z) => Some (GRawExt ty d, z) | None => None end | None => None end
        | None => None end
      else if c =? 33 (* ! *) then Some (GBad, r)
      else None
    end
  end
with d_arr (fuel : nat) (n : N) (bs : bytes) (acc : list gval) {struct fuel} : option (gval * bytes) :=
  match fuel with
  | O => None
  | S f =>
      if n =? 0 then Some (GArr (rev_append acc []), bs)
      else match d_gval f bs with Some (v, r) => d_arr f (n - 1) r (v :: acc) | None => None end
  end
with d_map (fuel : nat) (n : N) (bs : bytes) (acc : list (bytes * gval)) {struct fuel} : option (gval * bytes) :=
  match fuel with
  | O => None
  | S f =>
      if n =? 0 then Some (GMap (rev_append acc []), bs)
      else match d_num 4 bs with
           | Some (l, u) =>
               match d_take l u with
               | Some (k, w) => match d_gval f w with Some (v, r) => d_map f (n - 1) r ((k, v) :: acc) | None => None end
               | None => None end
           | None => None end
  end.

Definition desc_gval (hexed : bytes) : gval :=
  let bs := unhex hexed in
  match d_gval (S (S (3 * List.length bs))) bs with Some (v, _) => v | None => GBad end.

(* entries are described as an array of [EventTime, record] pairs *)
Definition desc_entries (hexed : bytes) : list entry :=
  match desc_gval hexed with
  | GArr l => map (fun x => match x with
                            | GArr [GEventTime s n; r] => {| e_ts := (s, n); e_rec := r |}
                            | _ => {| e_ts := (0%Z, 0); e_rec := GBad |} end) l
  | _ => []
  end.
