(* Executable checkers over the concurrent client model (model/ClientConc.v): the lock
   footprint of a program counter, the kind of access to the client's session field the
   next micro-step performs, the connection discipline over the visible trace, and the
   per-thread view of the wire.  Executable definitions only. *)
From Coq Require Import List Arith Bool NArith.
From FF Require Import model.Bytes model.Client model.ClientSpec model.Lts model.ClientConc.
Import ListNotations.
Open Scope nat_scope.

(* ---------- lock footprint of a program counter ---------- *)
(* holds sessionLock shared *)
Definition holds_S (p : pc) : bool :=
  match p with PSendLocked _ | PSendAck _ | PWantAck _ | PRawLocked _ | PHsLocked _ => true | _ => false end.
(* holds sessionLock exclusively *)
Definition holds_X (p : pc) : bool := match p with PExcl _ | PReconnClosed => true | _ => false end.
(* has announced the exclusive lock and waits for the readers to leave *)
Definition is_ann (p : pc) : bool := match p with PWAnnounced _ => true | _ => false end.
(* holds ackLock (when acks are required) *)
Definition holds_A (p : pc) : bool := match p with PSendLocked _ | PSendAck _ => true | _ => false end.

(* in the ack protocol (only when acks are required) *)
Definition needs_ack (p : pc) : bool := match p with PWantAck _ | PSendAck _ => true | _ => false end.

(* the program counter fits the call being executed (head of the remaining program) *)
Definition pc_ok (p : pc) (ops : list cop) : bool :=
  match p, ops with
  | PIdle, _ => true
  | (PSendLocked _ | PWantAck _), CSend _ _ _ _ :: _ => true
  | PSendAck _, CSend (Some _) _ _ _ :: _ => true
  | PRawLocked _, CSendRaw _ _ :: _ => true
  | (PWAnnounced _ | PExcl _), (CConnect _ | CDisconnect | CReconnect _ | CHandshake _ _) :: _ => true
  | PReconnClosed, CReconnect _ :: _ => true
  | (PHsLocked _ | PHsUpgrade _), CHandshake _ _ :: _ => true
  | _, _ => false
  end.

(* ---------- accesses to the client's session field / TransportPhase flag ----------
   the kind of access the thread's NEXT micro-step performs: Some true = write, Some false
   = read.  (PSendAck reads c.session.Connection in checkAck: counted as a read too.) *)
Definition access_of (l : local) : option bool :=
  match l_ops l with
  | [] => None
  | o :: _ =>
      match l_pc l, o with
      | PExcl _, (CConnect _ | CDisconnect | CReconnect _ | CHandshake _ _) => Some true
      | PReconnClosed, _ => Some true
      | PIdle, (CSend _ _ _ _ | CSendRaw _ _ | CTransportPhase | CHandshake _ _) => Some false
      | (PSendLocked _ | PSendAck _ | PRawLocked _ | PHsLocked _), _ => Some false
      | _, _ => None
      end
  end.

(* ---------- connection discipline over the visible trace (C06 / C14) ----------
   [open]: connections obtained and not yet closed; [dead]: connections closed.
   kinds: 0 data Write, 1 PING Write, 2 New ok, 3 New failed, 4 Close, 5 SetReadDeadline.
   - New only while no obtained connection is open; ids are fresh
   - Write / SetReadDeadline / Close only on an open connection (nothing after Close; no
     connection is closed twice) *)
Fixpoint ctrace_ok (open dead : list nat) (tr : list (nat * cevent)) : bool :=
  match tr with
  | [] => true
  | (_, e) :: r =>
      let c := ce_conn e in
      if N.eqb (ce_kind e) 2 then
        match open with [] => negb (nat_mem c dead) && ctrace_ok [c] dead r | _ => false end
      else if N.eqb (ce_kind e) 3 then
        match open with [] => ctrace_ok open dead r | _ => false end
      else if N.eqb (ce_kind e) 4 then
        nat_mem c open && ctrace_ok (nat_remove c open) (c :: dead) r
      else if N.eqb (ce_kind e) 0 || N.eqb (ce_kind e) 1 || N.eqb (ce_kind e) 5 then
        nat_mem c open && ctrace_ok open dead r
      else false
  end.

(* ---------- the wire seen per thread (C08) ---------- *)
(* the payloads thread t put on the wire, oldest first *)
Definition wire_of (t : nat) (w : list (nat * nat * bytes)) : list bytes :=
  map snd (filter (fun x => Nat.eqb (snd (fst x)) t) (rev w)).

(* the bytes a call asks to send *)
Definition send_bytes (o : cop) : option bytes :=
  match o with
  | CSend enc _ _ _ => enc
  | CSendRaw b _ => Some b
  | _ => None
  end.
Definition is_send (o : cop) : bool :=
  match o with CSend _ _ _ _ | CSendRaw _ _ => true | _ => false end.

(* does a list of completed calls (call, result) explain a list of payloads?  A send that
   returned ROk put its encoding on the wire exactly once; a send that returned RErr put
   it there once or not at all (the write itself may have failed, or been refused before);
   an unencodable message and every other call put nothing. *)
Fixpoint calls_explain (h : list (cop * ret)) (ws : list bytes) : bool :=
  match h with
  | [] => match ws with [] => true | _ => false end
  | (o, r) :: h' =>
      match send_bytes o, r with
      | Some b, ROk =>
          match ws with w :: ws' => bytes_eqb b w && calls_explain h' ws' | [] => false end
      | Some b, RErr =>
          match ws with w :: ws' => (bytes_eqb b w && calls_explain h' ws') || calls_explain h' ws
                   | [] => calls_explain h' ws end
      | Some _, _ => false
      | None, _ => if is_send o then match r with RErr => calls_explain h' ws | _ => false end
                   else calls_explain h' ws
      end
  end.

(* lower / upper bound on the number of payloads a list of completed calls explains *)
Definition sends_ok (h : list (cop * ret)) : nat :=
  length (filter (fun x => is_send (fst x) && match snd x with ROk => true | _ => false end) h).
Definition sends_encodable (h : list (cop * ret)) : nat :=
  length (filter (fun x => match send_bytes (fst x) with Some _ => true | None => false end) h).

(* the payload of a send that has been written but whose call has not returned yet
   (the thread is waiting for the ack) *)
Definition pending_write (l : local) : list bytes :=
  match l_pc l, l_ops l with
  | PSendAck _, CSend (Some b) _ _ _ :: _ => [b]
  | _, _ => []
  end.

(* the completed calls of a thread with their results: the consumed prefix of its program *)
Definition history (prog : list cop) (l : local) : list (cop * ret) :=
  combine (firstn (length (l_rets l)) prog) (l_rets l).

(* the payloads of the calls, in program order *)
Definition payloads (h : list (cop * ret)) : list bytes :=
  flat_map (fun x => match send_bytes (fst x) with Some b => [b] | None => [] end) h.
Definition all_sends_ok (h : list (cop * ret)) : bool :=
  forallb (fun x => negb (is_send (fst x)) || match snd x with ROk => true | _ => false end) h.

(* executable form of "every Write carries one whole encoding of a message its thread was
   asked to send" *)
Definition sends_b (b : bytes) (prog : list cop) : bool :=
  existsb (fun o => match send_bytes o with Some b' => bytes_eqb b b' | None => false end) prog.
Definition wire_whole_b (progs : list (list cop)) (w : list (nat * nat * bytes)) : bool :=
  forallb (fun x => match nth_error progs (snd (fst x)) with
                    | Some prog => sends_b (snd x) prog
                    | None => false
                    end) w.
