(* SHA-512 (FIPS 180-4) over N, for executing the handshake model.  The theorems about
   the handshake are stated for an abstract hash; this instance is only run. *)
From FF Require Import model.Bytes.
Open Scope N_scope.

Definition W64 : N := 18446744073709551616.
Definition add64 (a b : N) := (a + b) mod W64.
Definition rotr (n : N) (x : N) := (x / 2 ^ n) + (x mod 2 ^ n) * 2 ^ (64 - n).
Definition shr (n : N) (x : N) := x / 2 ^ n.
Definition Kc : list N := [4794697086780616226; 8158064640168781261; 13096744586834688815; 16840607885511220156; 4131703408338449720; 6480981068601479193; 10538285296894168987; 12329834152419229976; 15566598209576043074; 1334009975649890238; 2608012711638119052; 6128411473006802146; 8268148722764581231; 9286055187155687089; 11230858885718282805; 13951009754708518548; 16472876342353939154; 17275323862435702243; 1135362057144423861; 2597628984639134821; 3308224258029322869; 5365058923640841347; 6679025012923562964; 8573033837759648693; 10970295158949994411; 12119686244451234320; 12683024718118986047; 13788192230050041572; 14330467153632333762; 15395433587784984357; 489312712824947311; 1452737877330783856; 2861767655752347644; 3322285676063803686; 5560940570517711597; 5996557281743188959; 7280758554555802590; 8532644243296465576; 9350256976987008742; 10552545826968843579; 11727347734174303076; 12113106623233404929; 14000437183269869457; 14369950271660146224; 15101387698204529176; 15463397548674623760; 17586052441742319658; 1182934255886127544; 1847814050463011016; 2177327727835720531; 2830643537854262169; 3796741975233480872; 4115178125766777443; 5681478168544905931; 6601373596472566643; 7507060721942968483; 8399075790359081724; 8693463985226723168; 9568029438360202098; 10144078919501101548; 10430055236837252648; 11840083180663258601; 13761210420658862357; 14299343276471374635; 14566680578165727644; 15097957966210449927; 16922976911328602910; 17689382322260857208; 500013540394364858; 748580250866718886; 1242879168328830382; 1977374033974150939; 2944078676154940804; 3659926193048069267; 4368137639120453308; 4836135668995329356; 5532061633213252278; 6448918945643986474; 6902733635092675308; 7801388544844847127].
Definition H0 : list N := [7640891576956012808; 13503953896175478587; 4354685564936845355; 11912009170470909681; 5840696475078001361; 11170449401992604703; 2270897969802886507; 6620516959819538809].
Definition ch x y z := N.lxor z (N.land x (N.lxor y z)).
Definition maj x y z := N.lor (N.land x y) (N.land z (N.lor x y)).
Definition bS0 x := N.lxor (rotr 28 x) (N.lxor (rotr 34 x) (rotr 39 x)).
Definition bS1 x := N.lxor (rotr 14 x) (N.lxor (rotr 18 x) (rotr 41 x)).
Definition ss0 x := N.lxor (rotr 1 x) (N.lxor (rotr 8 x) (shr 7 x)).
Definition ss1 x := N.lxor (rotr 19 x) (N.lxor (rotr 61 x) (shr 6 x)).

Definition pad (m : bytes) : bytes :=
  let l := length m in
  let z := Nat.modulo (Nat.sub 239%nat (Nat.modulo l 128%nat)) 128%nat in
  m ++ [n2b 128] ++ repeat (n2b 0) z ++ be 16 (8 * N.of_nat l).

Fixpoint words (k : nat) (bs : bytes) : list N :=
  match k with O => [] | S k' => unbe (firstn 8 bs) :: words k' (skipn 8 bs) end.

(* message schedule: window of the last 16 words, newest first *)
Fixpoint sched (k : nat) (win : list N) (acc : list N) : list N :=
  match k with
  | O => rev acc
  | S k' =>
      match win with
      | w1 :: w2 :: _ =>
          let w15 := nth 14 win 0 in let w16 := nth 15 win 0 in let w7 := nth 6 win 0 in
          let w := add64 (add64 (ss1 w2) w7) (add64 (ss0 w15) w16) in
          sched k' (w :: firstn 15 win) (w :: acc)
      | _ => rev acc
      end
  end.

Definition round (st : list N) (kw : N * N) : list N :=
  match st with
  | [a; b; c; d; e; f; g; h] =>
      let t1 := add64 (add64 h (bS1 e)) (add64 (ch e f g) (add64 (fst kw) (snd kw))) in
      let t2 := add64 (bS0 a) (maj a b c) in
      [add64 t1 t2; a; b; c; add64 d t1; e; f; g]
  | _ => st
  end.

Definition compress (st : list N) (blk : bytes) : list N :=
  let w16 := words 16 blk in
  let w := w16 ++ sched 64 (rev w16) [] in
  let st' := fold_left round (combine Kc w) st in
  map (fun p => add64 (fst p) (snd p)) (combine st st').

Fixpoint blocks (k : nat) (st : list N) (bs : bytes) : list N :=
  match k with
  | O => st
  | S k' => match bs with [] => st | _ => blocks k' (compress st (firstn 128 bs)) (skipn 128 bs) end
  end.

Definition sha512 (m : bytes) : bytes :=
  let p := pad m in
  flat_map (be 8) (blocks (S (Nat.div (length p) 128%nat)) H0 p).
