(* Entry points of the interleaving models for the correspondence check: is the sequence of
   visible events observed on the real code (under the deterministic scheduler) a trace of
   the model, and can the model finish with the results the real calls returned? *)
From FF Require Import model.Bytes model.Show model.Msgp model.Forward model.Client model.ClientSpec model.Lts model.ClientConc
  model.RunCodec model.RunClient.
From Coq Require Import String.
Open Scope N_scope.

Definition slash : byte := n2b 47.

Definition parse_optb (a : bytes) : option bytes := if bytes_eqb a (str "-") then None else Some (hexf a).

Definition parse_cop (a : bytes) : cop :=
  match split_on comma a with
  | [k; en; ch; wok; ackok] => CSend (parse_optb en) (parse_optb ch) (flag wok) (flag ackok)
  | [k; x; wok] =>
      if is k "W" then CSendRaw (hexf x) (flag wok) else CHandshake (parse_optb x) (flag wok)
  | [k; x] => if is k "C" then CConnect (flag x) else CReconnect (flag x)
  | [k] => if is k "D" then CDisconnect else CTransportPhase
  | _ => CTransportPhase
  end.
Definition parse_cprog (a : bytes) : list cop := map parse_cop (split_on semi a).
Definition parse_cprogs (a : bytes) : list (list cop) :=
  map (fun p => if bytes_eqb p (str "-") then [] else parse_cprog p) (split_on slash a).

(* tid:kind:conn:hexdata *)
Definition parse_cevent (a : bytes) : option (nat * cevent) :=
  match split_on colon a with
  | [t; k; c; d] => Some (N.to_nat (read_N t), {| ce_kind := read_N k; ce_conn := N.to_nat (read_N c); ce_data := unhex d |})
  | [t; k; c] => Some (N.to_nat (read_N t), {| ce_kind := read_N k; ce_conn := N.to_nat (read_N c); ce_data := [] |})
  | _ => None
  end.

Definition show_rets (l : list ret) : bytes := sep_concat (str ",") (map show_ret l).

Section Check.
  Variable cf : cfg.
  Definition cfire := fire shared local cevent (cstep cf) cevent_eqb.
  Definition cclosure := tau_closure shared local cevent (cstep cf).

  (* index of the first event the model cannot follow, or the final state set *)
  Fixpoint follow (fuel : nat) (cs : list (config shared local)) (tr : list (nat * cevent)) (k : N) : N + list (config shared local) :=
    match tr with
    | [] => inr (cclosure fuel cs)
    | (t, e) :: r =>
        match cfire t e (cclosure fuel cs) with
        | [] => inl k
        | cs' => follow fuel cs' r (k + 1)
        end
    end.
End Check.

Definition conc_check (cfg prefix progs trace rets : bytes) : bytes :=
  let cf := parse_cfg cfg in
  let pre := if bytes_eqb prefix (str "-") then [] else parse_cprog prefix in
  (* the prefix is run by a single thread, alone *)
  let g := glob (fst (conc_exec cf (init_conc [pre]) (repeat 0%nat (8 * (List.length pre) + 8)))) in
  let c0 := init_conc_from g (parse_cprogs progs) in
  match all_some (map parse_cevent (split_on semi trace)) with
  | None => str "bad:unparsable-trace"
  | Some tr =>
      match follow cf 24 [c0] tr 0 with
      | inl k => str "bad:trace-rejected-at-" ++ show_N k
      | inr finals =>
          let want := split_on slash rets in
          if existsb (fun c => all_done shared local ldone c
                               && bytes_eqb (sep_concat (str "/") (map (fun l => match l_rets l with [] => str "-" | x => show_rets x end) (thr c)))
                                            rets) finals
          then str "ok" else str "bad:results"
      end
  end.

(* connection discipline of a concurrent trace (thread ids dropped): ClientSpec.trace_ok *)
Definition ev_of_cevent (e : cevent) : Client.ev :=
  match ce_kind e with
  | 0 => EvWrite (ce_conn e) (ce_data e) (ce_data e) 0
  | 1 => EvWrite (ce_conn e) (ce_data e) (ce_data e) 1
  | 2 => EvNew true (ce_conn e)
  | 3 => EvNew false (ce_conn e)
  | 4 => EvClose (ce_conn e)
  | _ => EvDeadline (ce_conn e)
  end.
Definition judge_ctrace (trace : bytes) : bytes :=
  match all_some (map parse_cevent (split_on semi (tl_bytes trace))) with
  | None => str "bad:unparsable-trace"
  | Some tr => if trace_ok [] [] (map (fun x => ev_of_cevent (snd x)) tr) then str "ok" else str "bad:connection-discipline"
  end.

Definition run_conc (e : bytes) (args : list bytes) : option bytes :=
  match args with
  | [a] => if is e "judge_ctrace" then Some (judge_ctrace a) else None
  | [a; b; c; d; f] => if is e "conc_check" then Some (conc_check a b c d f) else None
  | _ => None
  end.
