(* Boolean well-formedness predicates: the input spaces the properties quantify over. *)
From FF Require Import model.Bytes model.Msgp model.Forward.
Open Scope N_scope.

Definition two32 : N := 4294967296.
Definition two64 : N := 18446744073709551616.
Definition int64_ok (z : Z) : bool := ((-9223372036854775808 <=? z) && (z <? 9223372036854775808))%Z.

(* records built from msgpack-representable values: nested maps/arrays, every int/uint
   width, floats (as bit patterns), strings, binaries, nil, bool *)
Fixpoint wf_gval (v : gval) : bool :=
  match v with
  | GNil | GBool _ => true
  | GInt z => int64_ok z
  | GUint n => n <? two64
  | GF32 b => b <? two32
  | GF64 b => b <? two64
  | GStr s | GBin s => len s <? two32
  | GArr l => (len l <? two32) && forallb wf_gval l
  | GMap l => (len l <? two32) && forallb (fun kv => (len (fst kv) <? two32) && wf_gval (snd kv)) l
  | _ => false
  end.

(* EventTime domain: seconds fit 32 unsigned bits, nanoseconds below 10^9 *)
Definition wf_instant (t : instant) : bool :=
  ((0 <=? fst t) && (fst t <? 4294967296))%Z && (snd t <? nsec_mod).

Definition wf_options (o : options) : bool :=
  (match o_size o with Some z => int64_ok z | None => true end)
  && (len (o_chunk o) <? two32) && (len (o_comp o) <? two32).
Definition wf_optopt (o : option options) : bool :=
  match o with Some o => wf_options o | None => true end.

Definition wf_message (m : message) : bool :=
  (len (m_tag m) <? two32) && int64_ok (m_ts m) && wf_gval (m_rec m) && wf_optopt (m_opts m).
Definition wf_message_ext (m : message_ext) : bool :=
  (len (x_tag m) <? two32) && wf_instant (x_ts m) && wf_gval (x_rec m) && wf_optopt (x_opts m).
Definition wf_entry (e : entry) : bool := wf_instant (e_ts e) && wf_gval (e_rec e).
Definition wf_forward (m : forward) : bool :=
  (len (f_tag m) <? two32) && (len (f_entries m) <? two32) && forallb wf_entry (f_entries m) && wf_optopt (f_opts m).
Definition wf_packed (m : packed) : bool :=
  (len (p_tag m) <? two32) && (len (p_stream m) <? two32) && wf_optopt (p_opts m).

Definition is_gmap (v : gval) : bool := match v with GMap _ => true | _ => false end.

(* fuel measure of a value: what rd_intf / Spec.parse need to read its encoding *)
Fixpoint gsize (v : gval) : nat :=
  match v with
  | GArr l => S (S (fold_right (fun x a => S (gsize x + a))%nat 0%nat l))
  | GMap l => S (S (fold_right (fun kv a => S (gsize (snd kv) + a))%nat 0%nat l))
  | _ => 1%nat
  end.
