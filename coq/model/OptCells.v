(* The option objects of messages as heap cells (fluent/protocol: MessageOptions is reached through a
   pointer; the constructors and the Chunk() methods allocate and write such objects).  What one message's
   options hold must not depend on what is done to another message: every constructor that sets options
   allocates its own object, Chunk() writes into the object of its own message (allocating one if there
   is none).  The [shared] variant is the "hoist the constant allocation" change: one kind of constructor
   hands every message the same package-level object.  Chunk ids come from a supply of fresh numbers
   (the random source: model/ChunkId.v proves ids of distinct draws distinct); an id is rendered #k.
   Executable definitions only. *)
From FF Require Import model.Bytes model.Show.
From Coq Require Import String.
Open Scope nat_scope.

Inductive oid := IdNone | IdGen (k : nat) | IdCaller (b : bytes).
Record ocell := { oc_size : bool; oc_comp : bool; oc_chunk : oid }.   (* size set? compressed=gzip? chunk id *)

(* constructor kinds: which options they set *)
Inductive ctor := KPlain          (* NewMessage, NewMessageExt, NewPackedForwardMessageFromBytes: Options = nil *)
                | KSized          (* NewForwardMessage, NewPackedForwardMessage: {size} *)
                | KGzip           (* NewCompressedPackedForwardMessageFromBytes: {compressed} *)
                | KSizedGzip.     (* NewCompressedPackedForwardMessage: {size, compressed} *)

Inductive oop :=
| ONew (k : ctor)                 (* a constructor call: a new message *)
| OChunk (m : nat)                (* msg.Chunk() on message m *)
| OSetChunk (m : nat) (b : bytes) (* the caller writes msg.Options.Chunk = b (allocating options if nil), b non-empty *)
| OClearSize (m : nat).           (* the caller edits another field of its message's options *)

Record ostate := { os_heap : list ocell;          (* option objects *)
                   os_msgs : list (option nat);   (* message i -> its options object, or nil *)
                   os_next : nat }.               (* ids generated so far *)

Definition oinit (shared : bool) : ostate :=
  (* the shared variant has its package-level object at location 0 *)
  {| os_heap := if shared then [{| oc_size := false; oc_comp := true; oc_chunk := IdNone |}] else [];
     os_msgs := []; os_next := 0 |}.

Fixpoint oset {A} (l : list A) (n : nat) (x : A) : list A :=
  match l, n with
  | [], _ => []
  | _ :: r, O => x :: r
  | y :: r, S k => y :: oset r k x
  end.

Definition cell_of (k : ctor) : option ocell :=
  match k with
  | KPlain => None
  | KSized => Some {| oc_size := true; oc_comp := false; oc_chunk := IdNone |}
  | KGzip => Some {| oc_size := false; oc_comp := true; oc_chunk := IdNone |}
  | KSizedGzip => Some {| oc_size := true; oc_comp := true; oc_chunk := IdNone |}
  end.

Definition empty_cell : ocell := {| oc_size := false; oc_comp := false; oc_chunk := IdNone |}.

Section Variant.
  Variable shared : bool.

  (* the options object of message m, allocating an empty one when the message has none *)
  Definition ensure (s : ostate) (m : nat) : ostate * option nat :=
    match nth_error (os_msgs s) m with
    | None => (s, None)                                     (* no such message *)
    | Some (Some c) => (s, Some c)
    | Some None =>
        let c := List.length (os_heap s) in
        ({| os_heap := os_heap s ++ [empty_cell]; os_msgs := oset (os_msgs s) m (Some c); os_next := os_next s |}, Some c)
    end.

  Definition ostep (s : ostate) (o : oop) : ostate :=
    match o with
    | ONew k =>
        match cell_of k with
        | None => {| os_heap := os_heap s; os_msgs := os_msgs s ++ [None]; os_next := os_next s |}
        | Some cl =>
            if shared && match k with KGzip => true | _ => false end
            then {| os_heap := os_heap s; os_msgs := os_msgs s ++ [Some 0]; os_next := os_next s |}
            else {| os_heap := os_heap s ++ [cl]; os_msgs := os_msgs s ++ [Some (List.length (os_heap s))]; os_next := os_next s |}
        end
    | OChunk m =>
        match ensure s m with
        | (s1, Some c) =>
            let cl := nth c (os_heap s1) empty_cell in
            match oc_chunk cl with
            | IdNone =>
                {| os_heap := oset (os_heap s1) c {| oc_size := oc_size cl; oc_comp := oc_comp cl; oc_chunk := IdGen (os_next s1) |};
                   os_msgs := os_msgs s1; os_next := S (os_next s1) |}
            | _ => s1                                       (* an id is kept *)
            end
        | (s1, None) => s1
        end
    | OSetChunk m b =>
        match ensure s m with
        | (s1, Some c) =>
            let cl := nth c (os_heap s1) empty_cell in
            {| os_heap := oset (os_heap s1) c {| oc_size := oc_size cl; oc_comp := oc_comp cl; oc_chunk := IdCaller b |};
               os_msgs := os_msgs s1; os_next := os_next s1 |}
        | (s1, None) => s1
        end
    | OClearSize m =>
        match nth_error (os_msgs s) m with
        | Some (Some c) =>
            let cl := nth c (os_heap s) empty_cell in
            {| os_heap := oset (os_heap s) c {| oc_size := false; oc_comp := oc_comp cl; oc_chunk := oc_chunk cl |};
               os_msgs := os_msgs s; os_next := os_next s |}
        | _ => s
        end
    end.

  Definition orun (ops : list oop) : ostate := fold_left ostep ops (oinit shared).
End Variant.

(* what a caller sees of message m: its options *)
Definition oview (s : ostate) (m : nat) : option ocell :=
  match nth_error (os_msgs s) m with
  | Some (Some c) => Some (nth c (os_heap s) empty_cell)
  | _ => None
  end.

(* the message an operation is applied to (a constructor call creates message |msgs|) *)
Definition otarget (s : ostate) (o : oop) : nat :=
  match o with ONew _ => List.length (os_msgs s) | OChunk m | OSetChunk m _ | OClearSize m => m end.
