(* Abstraction from the library model's values to the specification's values (Spec.v). *)
From FF Require Import model.Bytes model.Msgp model.Forward model.Spec.
Open Scope N_scope.

Fixpoint value_of (v : gval) : value :=
  match v with
  | GNil => VNil
  | GBool b => VBool b
  | GInt z => VInt z
  | GUint n => VInt (Z.of_N n)
  | GF32 b => VF32 b
  | GF64 b => VF64 b
  | GStr s => VStr s
  | GBin s => VBin s
  | GArr l => VArr (map value_of l)
  | GMap l => VMap (map (fun kv => (VStr (fst kv), value_of (snd kv))) l)
  | GTime s n => VExt 5 (be 8 (z2n 8 s) ++ be 4 n)
  | GC64 b => VExt 3 (be 8 b)
  | GC128 h l => VExt 4 (be 8 h ++ be 8 l)
  | GEventTime s n => VExt 0 (et_payload s n)
  | GRawExt t d => VExt t d
  | GBad => VNil
  end.

Definition stime_of (t : instant) : stime := TEvent (Z.to_N (fst t)) (snd t).

Definition sopts_of (o : options) : sopts :=
  {| so_size := o_size o;
     so_chunk := match o_chunk o with [] => None | c => Some c end;
     so_comp := match o_comp o with [] => None | c => Some c end;
     so_other := [] |}.
Definition soptopt_of (o : option options) : option sopts := option_map sopts_of o.

Definition abs_message (m : message) : smsg :=
  SMessage (m_tag m) (TInt (m_ts m)) (value_of (m_rec m)) (soptopt_of (m_opts m)).
Definition abs_message_ext (m : message_ext) : smsg :=
  SMessage (x_tag m) (stime_of (x_ts m)) (value_of (x_rec m)) (soptopt_of (x_opts m)).
Definition abs_forward (m : forward) : smsg :=
  SForward (f_tag m) (map (fun e => (stime_of (e_ts e), value_of (e_rec e))) (f_entries m)) (soptopt_of (f_opts m)).
Definition abs_packed (m : packed) : smsg :=
  SPacked (p_tag m) (p_stream m) (soptopt_of (p_opts m)).
