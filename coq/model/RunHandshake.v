(* Entry points of the handshake model for the correspondence check. *)
From FF Require Import model.Bytes model.Show model.Msgp model.Forward model.Render model.Sha512 model.Handshake model.RunCodec.
From Coq Require Import String.
Open Scope N_scope.

Definition show_helo_m (h : helo) : bytes :=
  str "helo(type=" ++ hex (hl_type h) ++ str ",opts=" ++
  (match hl_opts h with
   | None => str "none"
   | Some o => str "{nonce=" ++ hex (h_nonce o) ++ str ",auth=" ++ hex (h_auth o) ++ str ",keepalive=" ++ show_bool (h_keepalive o) ++ str "}"
   end) ++ str ")".
Definition show_ping_m (p : ping) : bytes :=
  str "ping(type=" ++ hex (pg_type p) ++ str ",host=" ++ hex (pg_host p) ++ str ",salt=" ++ hex (pg_salt p)
  ++ str ",digest=" ++ hex (pg_digest p) ++ str ",user=" ++ hex (pg_user p) ++ str ",pass=" ++ hex (pg_pass p) ++ str ")".
Definition show_pong_m (p : pong) : bytes :=
  str "pong(type=" ++ hex (po_type p) ++ str ",auth=" ++ show_bool (po_auth p) ++ str ",reason=" ++ hex (po_reason p)
  ++ str ",host=" ++ hex (po_host p) ++ str ",digest=" ++ hex (po_digest p) ++ str ")".

Definition parse_bool (a : bytes) : bool := bytes_eqb a (str "t").

Definition parse_helo_opts (a : bytes) : option helo_opts :=
  if bytes_eqb a (str "none") then None
  else match split_on bar a with
       | [n; au; k] => Some {| h_nonce := unhex n; h_auth := unhex au; h_keepalive := parse_bool k |}
       | _ => Some zero_helo_opts
       end.

Definition show_hs (r : bytes * res unit) : bytes :=
  str "written=" ++ hex (fst r) ++ str ";res=" ++ match snd r with Ok _ => str "ok" | Err _ => str "err" | Panic => str "panic" end.

Definition run_handshake (e : bytes) (args : list bytes) : option bytes :=
  match args with
  | [a; b] =>
      if is e "M_helo" then Some (hex (M_helo {| hl_type := unhex a; hl_opts := parse_helo_opts b |}))
      else if is e "U_helo" then Some (show_dec show_helo_m (U_helo (parse_path a) (unhex b)))
      else if is e "U_ping" then Some (show_dec show_ping_m (U_ping (parse_path a) (unhex b)))
      else if is e "U_pong" then Some (show_dec show_pong_m (U_pong (parse_path a) (unhex b)))
      else None
  | [a; b; c; d] =>
      if is e "digest" then Some (digest sha512 (unhex a) (unhex b) (unhex c) (unhex d)) else None
  | [a; b; c; d; f] =>
      if is e "M_pong" then
        Some (hex (M_pong {| po_type := unhex a; po_auth := parse_bool b; po_reason := unhex c; po_host := unhex d; po_digest := unhex f |}))
      else if is e "client_handshake" then
        Some (show_hs (client_handshake sha512 (unhex a) (unhex b) (unhex c) (unhex d) (unhex f)))
      else None
  | [a; b; c; d; f; g] =>
      if is e "judge_accept" then
        (* key salt nonce auth host digest *)
        Some (if parse_bool d && bytes_eqb (unhex g) (digest sha512 (unhex b) (unhex f) (unhex c) (unhex a))
              then str "ok" else str "bad:accepted-without-proof-of-key")
      else if is e "M_ping" then
        Some (hex (M_ping {| pg_type := unhex a; pg_host := unhex b; pg_salt := unhex c; pg_digest := unhex d; pg_user := unhex f; pg_pass := unhex g |}))
      else if is e "validate_ping" then
        (* host salt digest key nonce _ *)
        Some (show_bool (validate_ping sha512 {| pg_type := []; pg_host := unhex a; pg_salt := unhex b; pg_digest := unhex c; pg_user := []; pg_pass := [] |} (unhex d) (unhex f)))
      else if is e "validate_pong" then
        (* host digest key nonce salt _ *)
        Some (show_bool (validate_pong sha512 {| po_type := []; po_auth := true; po_reason := []; po_host := unhex a; po_digest := unhex b |} (unhex c) (unhex d) (unhex f)))
      else None
  | _ => None
  end.
