(* Entry points of the websocket models (WsConn.v, WsClient.v) for the correspondence check:
   acceptance of the visible traces observed under the deterministic scheduler. *)
From FF Require Import model.Bytes model.Show model.Lts model.WsConn model.WsClient model.WsEq model.RunCodec model.RunClient model.RunConc.
From Coq Require Import String.
Open Scope N_scope.

Definition star : byte := n2b 42.

(* ---------- ws.connection ---------- *)
Definition parse_wop (a : bytes) : wop :=
  match split_on comma a with
  | [k] => if is k "K" then WClose else WListen
  | [d; ok] => WWrite (hexf (tl_bytes d)) (flag ok)       (* "Wx<hex>,<ok>" *)
  | _ => WListen
  end.
Definition parse_wprogs (a : bytes) : list (list wop) :=
  map (fun p => if bytes_eqb p (str "-") then [] else map parse_wop (split_on semi p)) (split_on slash a).

Definition parse_peer (a : bytes) : list peer_item :=
  if bytes_eqb a (str "-") then [] else
  map (fun x => if is x "d" then PData else if is x "n" then PNetErr else PClose (read_N (tl_bytes x))) (split_on comma a).

(* "<tid|*>:r" | "<tid|*>:c" | "<tid|*>:f:<ty>:<hex>" *)
Definition parse_wevent (a : bytes) : option (option nat * wevent) :=
  match split_on colon a with
  | [t; k] =>
      let who := if bytes_eqb t (str "*") then None else Some (N.to_nat (read_N t)) in
      if is k "r" then Some (who, WEvRead) else if is k "c" then Some (who, WEvClose) else None
  | [t; k; ty; d] =>
      let who := if bytes_eqb t (str "*") then None else Some (N.to_nat (read_N t)) in
      Some (who, WEvFrame (read_N ty) (unhex d))
  | [t; k; ty] =>
      let who := if bytes_eqb t (str "*") then None else Some (N.to_nat (read_N t)) in
      Some (who, WEvFrame (read_N ty) [])
  | _ => None
  end.

Definition show_nrets (l : list N) : bytes := sep_concat (str ",") (map show_N l).

Definition ws_check (pinned progs script cfok trace rets : bytes) : bytes :=
  let pd := flag pinned in
  let ps := parse_wprogs progs in
  let c0 := winit ps (parse_peer script) (flag cfok) in
  let n := List.length ps in
  match all_some (map parse_wevent (if bytes_eqb trace (str "-") then [] else split_on semi trace)) with
  | None => str "bad:unparsable-trace"
  | Some tr =>
      match accepts_anon_d wshared wlocal wevent (wstep pd) wevent_eqb wconfig_eqb 200 [c0] tr with
      | [] => str "bad:trace-rejected"
      | finals =>
          if existsb (fun c => forallb wdone (firstn n (thr c))
                               && bytes_eqb (sep_concat (str "/") (map (fun l => match wl_rets l with [] => str "-" | x => show_nrets x end) (firstn n (thr c)))) rets
                               && negb (w_panic (glob c))) finals
          then str "ok" else str "bad:results"
      end
  end.

(* ---------- WSClient ---------- *)
Definition parse_xop (a : bytes) : xop :=
  match split_on comma a with
  | [k] => XDisconnect
  | [k; x] => if is k "C" then XConnect (flag x) else XReconnect (flag x)
  | [k; d; ok] =>
      if is k "S" then XSend (parse_optb d) (flag ok) else XSendRaw (hexf d) (flag ok)
  | _ => XDisconnect
  end.
Definition parse_xprogs (a : bytes) : list (list xop) :=
  map (fun p => if bytes_eqb p (str "-") then [] else map parse_xop (split_on semi p)) (split_on slash a).
(* plan: "<ends_alone><lerr>" per session, e.g. "01,00" *)
Definition parse_plan (a : bytes) : list (bool * bool) :=
  if bytes_eqb a (str "-") then [] else
  map (fun x => match x with [e; l] => (b2n e =? 49, b2n l =? 49) | _ => (false, false) end) (split_on comma a).

(* "<tid|*>:n:<0|1>" | ":q:<s>:<0|1>" | ":c:<s>" | ":w:<s>:<hex>" | ":l:<s>" *)
Definition parse_xevent (a : bytes) : option (option nat * xevent) :=
  match split_on colon a with
  | t :: k :: rest =>
      let who := if bytes_eqb t (str "*") then None else Some (N.to_nat (read_N t)) in
      match rest with
      | [x] =>
          if is k "n" then Some (who, XEvNew (flag x))
          else if is k "c" then Some (who, XEvClose (N.to_nat (read_N x)))
          else if is k "l" then Some (who, XEvListen (N.to_nat (read_N x)))
          else if is k "w" then Some (who, XEvWrite (N.to_nat (read_N x)) [])
          else None
      | [s; x] =>
          if is k "q" then Some (who, XEvClosedQ (N.to_nat (read_N s)) (flag x))
          else if is k "w" then Some (who, XEvWrite (N.to_nat (read_N s)) (unhex x))
          else None
      | _ => None
      end
  | _ => None
  end.

Definition wsc_check (pinned progs plan readers trace rets : bytes) : bytes :=
  let pd := flag pinned in
  let ps := parse_xprogs progs in
  let n := List.length ps in
  let c0 := xinit ps (parse_plan plan) (N.to_nat (read_N readers)) in
  match all_some (map parse_xevent (if bytes_eqb trace (str "-") then [] else split_on semi trace)) with
  | None => str "bad:unparsable-trace"
  | Some tr =>
      match accepts_anon_d xshared xlocal xevent (xstep pd n) xevent_eqb xconfig_eqb 200 [c0] tr with
      | [] => str "bad:trace-rejected"
      | finals =>
          (* the calls of the workers have all returned with these results (background readers
             of sessions that are still open may legitimately still be listening) *)
          if existsb (fun c => forallb xdone (firstn n (thr c))
                               && bytes_eqb (sep_concat (str "/") (map (fun l => match x_rets l with [] => str "-" | x => show_nrets x end) (firstn n (thr c)))) rets
                               && negb (xg_panic (glob c))) finals
          then str "ok" else str "bad:results"
      end
  end.

Definition run_ws (e : bytes) (args : list bytes) : option bytes :=
  match args with
  | [a; b; c; d; f; g] =>
      if is e "ws_check" then Some (ws_check a b c d f g)
      else if is e "wsc_check" then Some (wsc_check a b c d f g)
      else None
  | _ => None
  end.
