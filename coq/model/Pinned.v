(* Copies of definitions as they were at the pinned commit, before the fix: commits of
   known_findings.json.  They are regression witnesses: each is refuted by a concrete
   input in props/, and the harness must detect a tree that behaves like them. *)
From FF Require Import model.Bytes model.Show model.Msgp model.Forward.
Open Scope N_scope.

(* D4 (C18): the decoders did not clear Options, so a receiver kept the options of the
   message decoded into it before when the new message had none *)
Definition U_message_pinned (p : path) (prev : message) (bs : bytes) : res (message * bytes) :=
  let cur_opts : option options := m_opts prev in
  '(sz, r0) <- rd_arr_hdr bs ;;
  if negb (arity_ok 3 sz) then Err EArity else
  '(tag, r1) <- rd_str r0 ;;
  '(ts, r2) <- rd_int64 r1 ;;
  '(rec, r3) <- rd_intf p (fuel_for r2) r2 ;;
  '(o, r4) <- U_tail p (sz =? 4) r3 ;;
  Ok ({| m_tag := tag; m_ts := ts; m_rec := rec; m_opts := match o with Some x => Some x | None => cur_opts end |}, r4).

Definition U_packed_pinned (p : path) (prev : packed) (bs : bytes) : res (packed * bytes) :=
  let cur_opts : option options := p_opts prev in
  '(sz, r0) <- rd_arr_hdr bs ;;
  if negb (arity_ok 2 sz) then Err EArity else
  '(tag, r1) <- rd_str r0 ;;
  '(st, r2) <- rd_bin r1 ;;
  '(o, r3) <- U_tail p (sz =? 3) r2 ;;
  Ok ({| p_tag := tag; p_stream := st; p_opts := match o with Some x => Some x | None => cur_opts end |}, r3).

(* D5 (C13): the decoders ignored the declared arity: they read tag, time and record, and
   options only when the count was 4 *)
Definition U_message_pinned_arity (p : path) (bs : bytes) : res (message * bytes) :=
  '(sz, r0) <- rd_arr_hdr bs ;;
  '(tag, r1) <- rd_str r0 ;;
  '(ts, r2) <- rd_int64 r1 ;;
  '(rec, r3) <- rd_intf p (fuel_for r2) r2 ;;
  '(o, r4) <- U_tail p (sz =? 4) r3 ;;
  Ok ({| m_tag := tag; m_ts := ts; m_rec := rec; m_opts := o |}, r4).

(* D6 (C11): GetChunk did not treat an unsigned-integer timestamp as a timestamp *)
Definition get_chunk_pinned (bs : bytes) : res bytes :=
  '(sz, r0) <- rd_arr_hdr bs ;;
  if sz =? 2 then Err ENotFound else
  r1 <- skip Stream (fuel_for r0) r0 ;;
  t <- next_class_stream r1 ;;
  let is_ts := match t with TExt | TInt => true | _ => false end in
  if is_ts && (sz =? 3) then Err ENotFound else
  r2 <- (if is_ts then skip Stream (fuel_for r1) r1 else Ok r1) ;;
  r3 <- skip Stream (fuel_for r2) r2 ;;
  t' <- next_class_stream r3 ;;
  match t' with
  | TMap => '(c, r4) <- rd_map_hdr r3 ;; get_chunk_loop (fuel_for r4) c r4
  | _ => Err ENotFound
  end.
