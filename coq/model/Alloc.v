(* What the slice decoders ask the allocator for BEFORE looking at the elements: the
   generated EntryList.UnmarshalMsg does make(EntryList, sz) with the declared array
   count (40 bytes per EntryExt: a time.Time and an interface value), and msgp.ReadIntfBytes
   does make([]interface{}, sz) / make(map[string]interface{}, sz) likewise (16 bytes per
   element at least).  Executable definitions only. *)
From FF Require Import model.Bytes model.Msgp.
Open Scope N_scope.

Definition entry_list_alloc (bs : bytes) : N :=
  match rd_arr_hdr bs with Ok (n, _) => 40 * n | _ => 0 end.

Definition intf_alloc (bs : bytes) : N :=
  match bs with
  | [] => 0
  | b :: _ =>
      let n := b2n b in
      if ((144 <=? n) && (n <=? 159)) || (n =? 220) || (n =? 221) then
        match rd_arr_hdr bs with Ok (c, _) => 16 * c | _ => 0 end
      else if ((128 <=? n) && (n <=? 143)) || (n =? 222) || (n =? 223) then
        match rd_map_hdr bs with Ok (c, _) => 16 * c | _ => 0 end
      else 0
  end.
