(* fluent/client/ws/connection.go: the websocket connection wrapper as an interleaving
   system.  Threads: callers of CloseWithMsg/Close, Write, Listen, and the read-loop
   goroutine each Listen spawns.  Shared: the connState bit set (every test/set is atomic:
   stateLock), closeLock / listenLock / writeLock, the done channel, one unbuffered channel
   per Listen call.  Environment: the underlying ext.Conn with a scripted peer and the close
   timer.  Visible events = calls on the underlying connection (ReadMessage entry,
   WriteMessage, Close): the yield points of the harness's scheduler.
   The default ReadHandler is modelled (on an error it calls Close inline and returns the
   error).  The code modelled is the repaired one (done is closed at most once).
   Executable definitions only. *)
From FF Require Import model.Bytes model.Lts.
Open Scope N_scope.

(* what successive ReadMessage calls return while the underlying connection is open;
   when the script is exhausted the read blocks until the connection is closed locally *)
Inductive peer_item := PData | PClose (code : N) | PNetErr.

(* a message handed from the read loop to Listen *)
Inductive rmsg := MData | MCloseErr (code : N) | MNetErr | MErrClosed.
Definition is_err_msg (m : rmsg) : bool := match m with MData => false | _ => true end.
Definition normal_closure (m : rmsg) : bool := match m with MCloseErr 1000 => true | _ => false end.

Record flags := { f_open : bool; f_listening : bool; f_closerecv : bool; f_closesent : bool; f_closed : bool; f_error : bool }.

Record wshared := {
  w_flags : flags;
  w_CL : mutex; w_LL : mutex; w_WL : mutex;
  w_done : bool;                               (* done channel closed *)
  w_chans : list (option rmsg * bool);         (* per read loop: (slot of the unbuffered channel, closed) *)
  w_active : list bool;                        (* per read loop: spawned *)
  w_script : list peer_item;                   (* what the peer will still deliver *)
  w_uclosed : bool;                            (* underlying connection closed *)
  w_closes : nat;                              (* calls of the underlying Close *)
  w_frames : list (N * bytes);                 (* frames written: (type, payload); type 8 = close, 2 = binary; newest first *)
  w_gate : nat;                                (* closers that passed the Open test-and-clear *)
  w_closeframe_ok : bool;                      (* script: does the underlying write of the close frame succeed *)
  w_panic : bool                               (* a goroutine panicked (close of closed channel) *)
}.

(* calls *)
Inductive wop :=
| WClose
| WWrite (d : bytes) (ok : bool)               (* ok: the underlying write succeeds (if the connection is still open) *)
| WListen.

(* results: 0 ok/nil, 1 multiple close calls, 2 close deadline expired, 3 write error,
   4 already listening, 5 Listen returned an error (abnormal closure / transport failure) *)
Definition wret := N.

Inductive wpc :=
| QIdle
(* closer (inln = true: called inline by the default read handler inside Listen) *)
| QGate (inln : bool) | QCheckErr (inln : bool) | QWantWL (inln : bool) | QFrame (inln : bool)
| QCheckListening (inln : bool) | QAwait (inln : bool) | QSetClosed (inln : bool) (err : N) | QUnderClose (inln : bool) (err : N)
(* writer *)
| QWWantWL | QWFrame
(* listener *)
| QLGuard | QLSpawn | QLRecv (acc : N) | QLHandled (acc : N) (m : rmsg)
(* read loop *)
| QRNotStarted | QRRead | QRResult | QRSend (m : rmsg) | QRTaken (m : rmsg) | QRExit1 | QRExit2 | QRExit3 | QRDone.

Record wlocal := { wl_pc : wpc; wl_ops : list wop; wl_rets : list wret;
                   wl_loops : list nat;        (* listener: thread ids of the read loops of its Listen calls still to come *)
                   wl_loop : nat;              (* listener: the loop of the current Listen; read loop: its own channel index *)
                   wl_hmsg : rmsg }.           (* listener: the message whose handler is running (inline close) *)

Inductive wevent := WEvRead | WEvFrame (ty : N) (d : bytes) | WEvClose.
Definition wevent_eqb (a b : wevent) : bool :=
  match a, b with
  | WEvRead, WEvRead => true
  | WEvFrame t1 d1, WEvFrame t2 d2 => N.eqb t1 t2 && bytes_eqb d1 d2
  | WEvClose, WEvClose => true
  | _, _ => false
  end.

Section WsConn.
  (* pinned = true: close(done) is executed unconditionally (panics the second time) *)
  Variable pinned_done : bool.

  Definition set_flags (g : wshared) (f : flags) : wshared :=
    {| w_flags := f; w_CL := w_CL g; w_LL := w_LL g; w_WL := w_WL g; w_done := w_done g; w_chans := w_chans g;
       w_active := w_active g; w_script := w_script g; w_uclosed := w_uclosed g; w_closes := w_closes g;
       w_frames := w_frames g; w_gate := w_gate g; w_closeframe_ok := w_closeframe_ok g; w_panic := w_panic g |}.
  Definition set_WL (g : wshared) (m : mutex) : wshared :=
    {| w_flags := w_flags g; w_CL := w_CL g; w_LL := w_LL g; w_WL := m; w_done := w_done g; w_chans := w_chans g;
       w_active := w_active g; w_script := w_script g; w_uclosed := w_uclosed g; w_closes := w_closes g;
       w_frames := w_frames g; w_gate := w_gate g; w_closeframe_ok := w_closeframe_ok g; w_panic := w_panic g |}.
  Definition set_chans (g : wshared) (c : list (option rmsg * bool)) : wshared :=
    {| w_flags := w_flags g; w_CL := w_CL g; w_LL := w_LL g; w_WL := w_WL g; w_done := w_done g; w_chans := c;
       w_active := w_active g; w_script := w_script g; w_uclosed := w_uclosed g; w_closes := w_closes g;
       w_frames := w_frames g; w_gate := w_gate g; w_closeframe_ok := w_closeframe_ok g; w_panic := w_panic g |}.
  Definition add_frame (g : wshared) (ty : N) (d : bytes) : wshared :=
    {| w_flags := w_flags g; w_CL := w_CL g; w_LL := w_LL g; w_WL := None; w_done := w_done g; w_chans := w_chans g;
       w_active := w_active g; w_script := w_script g; w_uclosed := w_uclosed g; w_closes := w_closes g;
       w_frames := (ty, d) :: w_frames g; w_gate := w_gate g; w_closeframe_ok := w_closeframe_ok g; w_panic := w_panic g |}.

  Definition fl (o l cr cs cl e : bool) : flags :=
    {| f_open := o; f_listening := l; f_closerecv := cr; f_closesent := cs; f_closed := cl; f_error := e |}.
  Definition with_open (f : flags) (b : bool) := fl b (f_listening f) (f_closerecv f) (f_closesent f) (f_closed f) (f_error f).
  Definition with_listening (f : flags) (b : bool) := fl (f_open f) b (f_closerecv f) (f_closesent f) (f_closed f) (f_error f).
  Definition with_closerecv (f : flags) (b : bool) := fl (f_open f) (f_listening f) b (f_closesent f) (f_closed f) (f_error f).
  Definition with_closesent (f : flags) (b : bool) := fl (f_open f) (f_listening f) (f_closerecv f) b (f_closed f) (f_error f).
  Definition with_closed (f : flags) (b : bool) := fl (f_open f) (f_listening f) (f_closerecv f) (f_closesent f) b (f_error f).
  Definition with_error (f : flags) (b : bool) := fl (f_open f) (f_listening f) (f_closerecv f) (f_closesent f) (f_closed f) b.

  Definition at_pc (l : wlocal) (p : wpc) : wlocal :=
    {| wl_pc := p; wl_ops := wl_ops l; wl_rets := wl_rets l; wl_loops := wl_loops l; wl_loop := wl_loop l; wl_hmsg := wl_hmsg l |}.
  Definition wfinish (l : wlocal) (r : wret) : wlocal :=
    {| wl_pc := QIdle; wl_ops := tl (wl_ops l); wl_rets := wl_rets l ++ [r]; wl_loops := wl_loops l; wl_loop := wl_loop l; wl_hmsg := wl_hmsg l |}.
  (* a closer finishes: back to the caller, or into the listener's handler continuation *)
  Definition closer_done (l : wlocal) (inln : bool) (acc_of_listener : N) (r : wret) : wlocal :=
    if inln then at_pc l (QLHandled acc_of_listener (wl_hmsg l)) else wfinish l r.

  Definition chan_get (g : wshared) (k : nat) : option rmsg * bool := nth k (w_chans g) (None, true).

  (* While the default handler's inline Close runs inside Listen, the listener's accumulated
     error is parked at the end of wl_rets; QLHandled takes it back. *)
  Definition wstep (g : wshared) (t : nat) (l : wlocal) : option (wshared * wlocal * option wevent) :=
    if w_panic g then None else
    match wl_pc l with
    | QRNotStarted => if nth t (w_active g) false then Some (g, at_pc l QRRead, None) else None
    | QRRead => Some (g, at_pc l QRResult, Some WEvRead)
    | QRResult =>
        let f := w_flags g in
        if w_uclosed g then
          if f_closed f then Some (g, at_pc l QRExit1, None)                               (* healthy close: leave without a message *)
          else Some (set_flags g (with_error f true), at_pc l (QRSend MErrClosed), None)
        else
          match w_script g with
          | [] => None                                                                      (* the peer is silent *)
          | it :: rest =>
              let g1 := {| w_flags := w_flags g; w_CL := w_CL g; w_LL := w_LL g; w_WL := w_WL g; w_done := w_done g; w_chans := w_chans g;
                           w_active := w_active g; w_script := rest; w_uclosed := w_uclosed g; w_closes := w_closes g;
                           w_frames := w_frames g; w_gate := w_gate g; w_closeframe_ok := w_closeframe_ok g; w_panic := w_panic g |} in
              match it with
              | PData => Some (g1, at_pc l (QRSend MData), None)
              | PClose c =>
                  let f1 := with_closerecv f true in
                  let f2 := if c =? 1006 then with_error f1 true else f1 in
                  Some (set_flags g1 f2, at_pc l (QRSend (MCloseErr c)), None)
              | PNetErr => Some (set_flags g1 (with_error f true), at_pc l (QRSend MNetErr), None)
              end
          end
    | QRSend m =>
        match chan_get g (wl_loop l) with
        | (None, false) => Some (set_chans g (set_nth (w_chans g) (wl_loop l) (Some m, false)), at_pc l (QRTaken m), None)
        | _ => None
        end
    | QRTaken m =>
        match chan_get g (wl_loop l) with
        | (None, _) => Some (g, at_pc l (if is_err_msg m then QRExit1 else QRRead), None)
        | _ => None
        end
    | QRExit1 => Some (set_chans g (set_nth (w_chans g) (wl_loop l) (fst (chan_get g (wl_loop l)), true)), at_pc l QRExit2, None)
    | QRExit2 => Some (set_flags g (with_listening (w_flags g) false), at_pc l QRExit3, None)
    | QRExit3 =>
        if w_done g && pinned_done then
          Some ({| w_flags := w_flags g; w_CL := w_CL g; w_LL := w_LL g; w_WL := w_WL g; w_done := true; w_chans := w_chans g;
                   w_active := w_active g; w_script := w_script g; w_uclosed := w_uclosed g; w_closes := w_closes g;
                   w_frames := w_frames g; w_gate := w_gate g; w_closeframe_ok := w_closeframe_ok g; w_panic := true |}, at_pc l QRDone, None)
        else
          Some ({| w_flags := w_flags g; w_CL := w_CL g; w_LL := w_LL g; w_WL := w_WL g; w_done := true; w_chans := w_chans g;
                   w_active := w_active g; w_script := w_script g; w_uclosed := w_uclosed g; w_closes := w_closes g;
                   w_frames := w_frames g; w_gate := w_gate g; w_closeframe_ok := w_closeframe_ok g; w_panic := w_panic g |}, at_pc l QRDone, None)
    | QRDone => None
    | QIdle =>
        match wl_ops l with
        | [] => None
        | WClose :: _ => Some (g, at_pc l (QGate false), None)
        | WWrite _ _ :: _ => Some (g, at_pc l QWWantWL, None)
        | WListen :: _ => Some (g, at_pc l QLGuard, None)
        end
    (* ---- CloseWithMsg ---- *)
    | QGate inln =>
        (* closeLock.Lock; test Open; clear it; Unlock: atomic *)
        match w_CL g with
        | Some _ => None
        | None =>
            if f_open (w_flags g) then
              Some ({| w_flags := with_open (w_flags g) false; w_CL := w_CL g; w_LL := w_LL g; w_WL := w_WL g; w_done := w_done g; w_chans := w_chans g;
                       w_active := w_active g; w_script := w_script g; w_uclosed := w_uclosed g; w_closes := w_closes g;
                       w_frames := w_frames g; w_gate := S (w_gate g); w_closeframe_ok := w_closeframe_ok g; w_panic := w_panic g |},
                    at_pc l (QCheckErr inln), None)
            else Some (g, closer_done l inln 0 1, None)                                     (* multiple close calls *)
        end
    | QCheckErr inln =>
        if f_error (w_flags g) then Some (g, at_pc l (QSetClosed inln 0), None)
        else Some (set_flags g (with_closesent (w_flags g) true), at_pc l (QWantWL inln), None)
    | QWantWL inln =>
        match mlock (w_WL g) t with
        | None => None
        | Some m => Some (set_WL g m, at_pc l (QFrame inln), None)
        end
    | QFrame inln =>
        let ok := w_closeframe_ok g && negb (w_uclosed g) in
        Some (add_frame g 8 [], at_pc l (if ok then QCheckListening inln else QSetClosed inln 3), Some (WEvFrame 8 []))
    | QCheckListening inln =>
        if f_listening (w_flags g) then Some (g, at_pc l (QAwait inln), None) else Some (g, at_pc l (QSetClosed inln 0), None)
    | QAwait inln =>
        (* select: done closed, or the close deadline expires (the timer may fire whenever the
           closer is scheduled before done is closed) *)
        if w_done g then Some (g, at_pc l (QSetClosed inln 0), None) else Some (g, at_pc l (QSetClosed inln 2), None)
    | QSetClosed inln err => Some (set_flags g (with_closed (w_flags g) true), at_pc l (QUnderClose inln err), None)
    | QUnderClose inln err =>
        Some ({| w_flags := w_flags g; w_CL := w_CL g; w_LL := w_LL g; w_WL := w_WL g; w_done := w_done g; w_chans := w_chans g;
                 w_active := w_active g; w_script := w_script g; w_uclosed := true; w_closes := S (w_closes g);
                 w_frames := w_frames g; w_gate := w_gate g; w_closeframe_ok := w_closeframe_ok g; w_panic := w_panic g |},
              closer_done l inln 0 err, Some WEvClose)
    (* ---- Write ---- *)
    | QWWantWL =>
        match mlock (w_WL g) t with
        | None => None
        | Some m => Some (set_WL g m, at_pc l QWFrame, None)
        end
    | QWFrame =>
        match wl_ops l with
        | WWrite d ok :: _ =>
            let ok' := ok && negb (w_uclosed g) in
            Some (add_frame g 2 d, wfinish l (if ok' then 0 else 3), Some (WEvFrame 2 d))
        | _ => None
        end
    (* ---- Listen ---- *)
    | QLGuard =>
        match w_LL g with
        | Some _ => None
        | None =>
            if f_listening (w_flags g) then Some (g, wfinish l 4, None)
            else Some (set_flags g (with_listening (w_flags g) true), at_pc l QLSpawn, None)
        end
    | QLSpawn =>
        match wl_loops l with
        | [] => None
        | k :: rest =>
            Some ({| w_flags := w_flags g; w_CL := w_CL g; w_LL := w_LL g; w_WL := w_WL g; w_done := w_done g; w_chans := w_chans g;
                     w_active := set_nth (w_active g) k true; w_script := w_script g; w_uclosed := w_uclosed g; w_closes := w_closes g;
                     w_frames := w_frames g; w_gate := w_gate g; w_closeframe_ok := w_closeframe_ok g; w_panic := w_panic g |},
                  {| wl_pc := QLRecv 0; wl_ops := wl_ops l; wl_rets := wl_rets l; wl_loops := rest; wl_loop := k; wl_hmsg := MData |}, None)
        end
    | QLRecv acc =>
        match chan_get g (wl_loop l) with
        | (Some m, _) =>
            let g1 := set_chans g (set_nth (w_chans g) (wl_loop l) (None, snd (chan_get g (wl_loop l)))) in
            if is_err_msg m then
              (* default handler: Close() inline, then return the error *)
              Some (g1, {| wl_pc := QGate true; wl_ops := wl_ops l; wl_rets := wl_rets l ++ [acc]; wl_loops := wl_loops l; wl_loop := wl_loop l; wl_hmsg := m |}, None)
            else Some (g1, at_pc l (QLRecv acc), None)
        | (None, true) => Some (g, wfinish l acc, None)                                     (* channel closed: Listen returns *)
        | (None, false) => None
        end
    | QLHandled _ m =>
        (* the accumulated error was parked at the end of wl_rets while the inline closer ran *)
        let acc := last (wl_rets l) 0 in
        let rets := removelast (wl_rets l) in
        let acc' := if normal_closure m then acc else 5 in
        Some (g, {| wl_pc := QLRecv acc'; wl_ops := wl_ops l; wl_rets := rets; wl_loops := wl_loops l; wl_loop := wl_loop l; wl_hmsg := m |}, None)
    end.

  Definition wdone (l : wlocal) : bool :=
    match wl_pc l with
    | QRDone | QRNotStarted => true
    | QIdle => match wl_ops l with [] => true | _ => false end
    | _ => false
    end.

  Definition count_listens (p : list wop) : nat := length (filter (fun o => match o with WListen => true | _ => false end) p).

  (* worker threads 0..n-1, then one read-loop thread per Listen call, in order *)
  Fixpoint alloc_loops (progs : list (list wop)) (next : nat) : list (list nat) :=
    match progs with
    | [] => []
    | p :: r => seq next (count_listens p) :: alloc_loops r (next + count_listens p)
    end.

  Definition total_listens (progs : list (list wop)) : nat := fold_right (fun p a => (count_listens p + a)%nat) 0%nat progs.

  Definition winit (progs : list (list wop)) (script : list peer_item) (closeframe_ok : bool) : config wshared wlocal :=
    let n := length progs in
    let k := total_listens progs in
    {| glob := {| w_flags := fl true false false false false false; w_CL := None; w_LL := None; w_WL := None; w_done := false;
                  w_chans := repeat (None, false) (n + k); w_active := repeat false (n + k); w_script := script;
                  w_uclosed := false; w_closes := 0; w_frames := []; w_gate := 0; w_closeframe_ok := closeframe_ok; w_panic := false |};
       thr := map (fun pl => {| wl_pc := QIdle; wl_ops := fst pl; wl_rets := []; wl_loops := snd pl; wl_loop := 0; wl_hmsg := MData |})
                  (combine progs (alloc_loops progs n))
              ++ map (fun i => {| wl_pc := QRNotStarted; wl_ops := []; wl_rets := []; wl_loops := []; wl_loop := i; wl_hmsg := MData |})
                     (seq n k) |}.

  Definition ws_step := step wshared wlocal wevent wstep.
  Definition ws_exec := exec wshared wlocal wevent wstep.
  Definition ws_accepts_anon := accepts_anon_from wshared wlocal wevent wstep wevent_eqb.
  Definition ws_deadlocked := deadlocked wshared wlocal wevent wstep wdone.
End WsConn.
