(* fluent/protocol: the recycled buffers (transport.go bufferPool / compressorPool,
   packed_forward_message.go).  A byte slice is a LOCATION in a heap of cells; what a
   returned slice contains is whatever the heap holds at that location when somebody looks.
   sync.Pool.Get is a choice of the environment: a brand-new object, or any object that was
   Put before (an object the runtime dropped is simply one that is never chosen again).
   Every library call is a sequence of atomic micro-steps, so that the calls of several
   goroutines interleave.  The definitions are parametrised by a [variant] so that the code
   of the pinned commit (no copy-out: the returned slice IS the pooled cell) and a mutant
   without Reset are the same text (model/PoolPinned.v).  Executable definitions only. *)
From FF Require Import model.Bytes model.Show model.Msgp model.Forward.
From Coq Require Import String.
Open Scope nat_scope.

(* ---------- heap ---------- *)
Definition loc := nat.
Definition heap := list bytes.

Definition hget (h : heap) (l : loc) : bytes := nth l h [].
Fixpoint hset (h : heap) (l : loc) (v : bytes) : heap :=
  match h, l with
  | [], _ => []
  | _ :: r, O => v :: r
  | x :: r, S k => x :: hset r k v
  end.
Definition halloc (h : heap) (v : bytes) : heap * loc := (h ++ [v], List.length h).

Record state := { st_heap : heap; st_bufpool : list loc; st_gzpool : list loc }.

(* ---------- sync.Pool ---------- *)
Definition choice := option nat.

Fixpoint remove_nth {A} (k : nat) (l : list A) : list A :=
  match l, k with
  | [], _ => []
  | _ :: r, O => r
  | x :: r, S k' => x :: remove_nth k' r
  end.

(* Get: None = pool.New (an empty object); Some k = the k-th pooled object, whatever stale
   content it has (out of range: like None) *)
Definition pool_get (h : heap) (pool : list loc) (ch : choice) : heap * list loc * loc :=
  match ch with
  | Some k =>
      match nth_error pool k with
      | Some c => (h, remove_nth k pool, c)
      | None => let '(h', c) := halloc h [] in (h', pool, c)
      end
  | None => let '(h', c) := halloc h [] in (h', pool, c)
  end.
Definition pool_put (pool : list loc) (c : loc) : list loc := c :: pool.

(* ---------- calls, results ---------- *)
Inductive call :=
| PMarshalPacked (es : list entry)
| PNewPacked (tag : bytes) (es : list entry)
| PNewPackedFromBytes (tag : bytes) (src : loc)
| PNewCompressedFromBytes (tag : bytes) (src : loc)
| PNewCompressed (tag : bytes) (es : list entry).

Inductive ret :=
| Ret_bytes (l : loc)
| Ret_msg (tag : bytes) (stream : loc) (opts : option options)
| Ret_err.

Definition ret_locs (r : ret) : list loc :=
  match r with Ret_bytes l => [l] | Ret_msg _ l _ => [l] | Ret_err => [] end.

Definition call_src (c : call) : list loc :=
  match c with PNewPackedFromBytes _ s | PNewCompressedFromBytes _ s => [s] | _ => [] end.
Definition call_tag (c : call) : bytes :=
  match c with
  | PMarshalPacked _ => []
  | PNewPacked t _ | PNewPackedFromBytes t _ | PNewCompressedFromBytes t _ | PNewCompressed t _ => t
  end.
Definition call_es (c : call) : list entry :=
  match c with PMarshalPacked es | PNewPacked _ es | PNewCompressed _ es => es | _ => [] end.

Definition size_opts (n : nat) : options := {| o_size := Some (Z.of_nat n); o_chunk := []; o_comp := [] |}.
Definition gzip_name : bytes := str "gzip".
(* Options of a compressed message: Size only when built from entries *)
Definition comp_opts (c : call) : options :=
  {| o_size := match c with PNewCompressed _ es => Some (Z.of_nat (List.length es)) | _ => None end;
     o_chunk := []; o_comp := gzip_name |}.

(* ---------- micro-steps ---------- *)
Inductive pc :=
| M_get                      (* MarshalPacked: about to bufferPool.Get *)
| M_enc (c : loc)            (*   holds buffer c: Reset, encode the entries into it *)
| M_copy (c : loc)           (*   encoded: copy the bytes out *)
| M_put (c r : loc)          (*   result r: deferred bufferPool.Put(c), return *)
| Z_get (src : loc)          (* NewCompressed...FromBytes(src): about to compressorPool.Get *)
| Z_write (src c : loc)      (*   holds compressor c: Reset, Write(src) *)
| Z_copy (c : loc)           (*   compressed: copy the bytes out *)
| Z_put (c r : loc)          (*   result r: deferred compressorPool.Put(c), return the message *)
| B_build (src : loc)        (* NewPackedForwardMessageFromBytes: wrap the caller's slice *)
| Done (r : ret).

Record local := { l_call : call; l_pc : pc }.
Definition goto (l : local) (p : pc) : local := {| l_call := l_call l; l_pc := p |}.

Definition start (c : call) : local :=
  {| l_call := c;
     l_pc := match c with
             | PMarshalPacked _ | PNewPacked _ _ | PNewCompressed _ _ => M_get
             | PNewPackedFromBytes _ s => B_build s
             | PNewCompressedFromBytes _ s => Z_get s
             end |}.

(* what follows MarshalPacked's return of the slice r *)
Definition after_marshal (c : call) (r : loc) : pc :=
  match c with
  | PMarshalPacked _ => Done (Ret_bytes r)
  | PNewPacked tag es => Done (Ret_msg tag r (Some (size_opts (List.length es))))
  | PNewCompressed _ _ => Z_get r
  | _ => Done Ret_err      (* not reached *)
  end.

Record variant := { v_copy : bool;     (* the result is copied out of the pooled cell *)
                    v_reset : bool }.  (* the pooled object is Reset after Get *)
Definition repaired : variant := {| v_copy := true; v_reset := true |}.

Definition do_reset (v : variant) (h : heap) (c : loc) : heap := if v_reset v then hset h c [] else h.
(* bytes.Buffer.Write appends *)
Definition do_write (h : heap) (c : loc) (b : bytes) : heap := hset h c (hget h c ++ b).
(* repaired: out := make([]byte, len); copy(out, buf.Bytes()).  pinned: buf.Bytes() itself *)
Definition copy_out (v : variant) (h : heap) (c : loc) : heap * loc :=
  if v_copy v then halloc h (hget h c) else (h, c).

Definition with_heap (s : state) (h : heap) : state :=
  {| st_heap := h; st_bufpool := st_bufpool s; st_gzpool := st_gzpool s |}.

(* ---------- several goroutines ---------- *)
Record config := { c_st : state; c_thr : list local }.

(* a schedule item: thread t takes its next micro-step (with the environment's choice for
   a Get), or thread t, whose previous call has returned, issues its next call *)
Inductive sitem := SStep (t : nat) (ch : choice) | SCall (t : nat) (c : call).

Fixpoint upd_nth {A} (l : list A) (n : nat) (x : A) : list A :=
  match l, n with
  | [], _ => []
  | _ :: r, O => x :: r
  | y :: r, S k => y :: upd_nth r k x
  end.


Section Pool.
  Variable gz : bytes -> bytes.      (* one complete gzip member for the payload *)

  Section Variant.
  Variable v : variant.

  (* one atomic micro-step of a thread; None: nothing to do (the call has returned) *)
  Definition pstep_gen (s : state) (l : local) (ch : choice) : option (state * local) :=
    match l_pc l with
    | M_get =>
        let '(h, p, c) := pool_get (st_heap s) (st_bufpool s) ch in
        Some ({| st_heap := h; st_bufpool := p; st_gzpool := st_gzpool s |}, goto l (M_enc c))
    | M_enc c =>
        let h1 := do_reset v (st_heap s) c in
        match marshal_packed (call_es (l_call l)) with
        | Ok e => Some (with_heap s (do_write h1 c e), goto l (M_copy c))
        | _ =>   (* an entry cannot be encoded: the deferred Put runs, the error is returned
                    (the buffer keeps whatever was encoded so far: stale content like any other) *)
            Some ({| st_heap := h1; st_bufpool := pool_put (st_bufpool s) c; st_gzpool := st_gzpool s |},
                  goto l (Done Ret_err))
        end
    | M_copy c =>
        let '(h, r) := copy_out v (st_heap s) c in
        Some (with_heap s h, goto l (M_put c r))
    | M_put c r =>
        Some ({| st_heap := st_heap s; st_bufpool := pool_put (st_bufpool s) c; st_gzpool := st_gzpool s |},
              goto l (after_marshal (l_call l) r))
    | Z_get src =>
        let '(h, p, c) := pool_get (st_heap s) (st_gzpool s) ch in
        Some ({| st_heap := h; st_bufpool := st_bufpool s; st_gzpool := p |}, goto l (Z_write src c))
    | Z_write src c =>
        let h1 := do_reset v (st_heap s) c in
        Some (with_heap s (do_write h1 c (gz (hget h1 src))), goto l (Z_copy c))
    | Z_copy c =>
        let '(h, r) := copy_out v (st_heap s) c in
        Some (with_heap s h, goto l (Z_put c r))
    | Z_put c r =>
        Some ({| st_heap := st_heap s; st_bufpool := st_bufpool s; st_gzpool := pool_put (st_gzpool s) c |},
              goto l (Done (Ret_msg (call_tag (l_call l)) r (Some (comp_opts (l_call l))))))
    | B_build src => Some (s, goto l (Done (Ret_msg (call_tag (l_call l)) src None)))
    | Done _ => None
    end.

  Definition is_get (p : pc) : bool := match p with M_get | Z_get _ => true | _ => false end.

  (* all the micro-steps of one call, without interruption; the Get steps consume the choices *)
  Fixpoint run_local_gen (fuel : nat) (s : state) (l : local) (chs : list choice) : state * local :=
    match fuel with
    | O => (s, l)
    | S f =>
        let ch := if is_get (l_pc l) then hd None chs else None in
        let chs' := if is_get (l_pc l) then tl chs else chs in
        match pstep_gen s l ch with
        | None => (s, l)
        | Some (s', l') => run_local_gen f s' l' chs'
        end
    end.

  Definition result (l : local) : ret := match l_pc l with Done r => r | _ => Ret_err end.

  Definition run_call_gen (s : state) (c : call) (chs : list choice) : state * ret :=
    let '(s', l') := run_local_gen 9 s (start c) chs in (s', result l').

  Fixpoint run_calls_gen (s : state) (cs : list (call * list choice)) : state * list ret :=
    match cs with
    | [] => (s, [])
    | (c, chs) :: r =>
        let '(s1, x) := run_call_gen s c chs in
        let '(s2, xs) := run_calls_gen s1 r in (s2, x :: xs)
    end.

  (* ---------- several goroutines ---------- *)
  Definition is_done (l : local) : bool := match l_pc l with Done _ => true | _ => false end.

  Definition capply_gen (c : config) (i : sitem) : option config :=
    match i with
    | SStep t ch =>
        match nth_error (c_thr c) t with
        | Some l =>
            match pstep_gen (c_st c) l ch with
            | Some (s', l') => Some {| c_st := s'; c_thr := upd_nth (c_thr c) t l' |}
            | None => None
            end
        | None => None
        end
    | SCall t cl =>
        match nth_error (c_thr c) t with
        | Some l => if is_done l then Some {| c_st := c_st c; c_thr := upd_nth (c_thr c) t (start cl) |} else None
        | None => None
        end
    end.

  (* an item that does not apply (finished thread, thread in the middle of a call) stutters *)
  Fixpoint cexec_gen (c : config) (sch : list sitem) : config :=
    match sch with
    | [] => c
    | i :: r => match capply_gen c i with Some c' => cexec_gen c' r | None => cexec_gen c r end
    end.

  (* slices the callers have in hand: the results of the calls that have returned (and were
     not yet replaced by the thread's next call) *)
  Definition visible (c : config) : list loc := flat_map (fun l => ret_locs (result l)) (c_thr c).

  (* the schedule only passes slices the callers have or had: their own ([known] initially)
     or results of calls that have returned ([known] accumulates them) *)
  Definition item_ok (known : list loc) (c : config) (i : sitem) : bool :=
    match i with
    | SStep _ _ => true
    | SCall _ cl => forallb (fun x => existsb (Nat.eqb x) (known ++ visible c)) (call_src cl)
    end.
  Definition cnext_gen (c : config) (i : sitem) : config :=
    match capply_gen c i with Some c' => c' | None => c end.
  Fixpoint sched_ok_gen (known : list loc) (c : config) (sch : list sitem) : bool :=
    match sch with
    | [] => true
    | i :: r => item_ok known c i && sched_ok_gen (known ++ visible (cnext_gen c i)) (cnext_gen c i) r
    end.
  Fixpoint known_gen (known : list loc) (c : config) (sch : list sitem) : list loc :=
    match sch with
    | [] => known
    | i :: r => known_gen (known ++ visible (cnext_gen c i)) (cnext_gen c i) r
    end.
  End Variant.

  (* ---------- the repaired code ---------- *)
  Definition pstep := pstep_gen repaired.
  Definition run_local := run_local_gen repaired.
  Definition run_call := run_call_gen repaired.
  Definition run_calls := run_calls_gen repaired.
  Definition capply := capply_gen repaired.
  Definition cexec := cexec_gen repaired.
  Definition sched_ok := sched_ok_gen repaired.
  Definition known_after := known_gen repaired.
End Pool.

Definition empty_state : state := {| st_heap := []; st_bufpool := []; st_gzpool := [] |}.
(* nothing pooled yet; the heap holds the callers' own slices *)
Definition init_state (h : heap) : state := {| st_heap := h; st_bufpool := []; st_gzpool := [] |}.
(* a goroutine that has not called anything yet; n of them *)
Definition idle : local := {| l_call := PMarshalPacked []; l_pc := Done Ret_err |}.
Definition init_config (s : state) (n : nat) : config := {| c_st := s; c_thr := repeat idle n |}.

(* a stand-in for gzip in examples: a two-byte magic number in front of the payload *)
Definition toy_gz (b : bytes) : bytes := n2b 31%N :: n2b 139%N :: b.
Definition toy_gunzip (z : bytes) : option bytes :=
  match z with
  | a :: b :: r => if (N.eqb (b2n a) 31 && N.eqb (b2n b) 139)%bool then Some r else None
  | _ => None
  end.
