(* Decidable equality (as boolean functions) on the configurations of the websocket models,
   used only by the trace-acceptance check to eliminate duplicate states. *)
From FF Require Import model.Bytes model.Lts model.WsConn model.WsClient.
Open Scope N_scope.

Definition opt_eqb {A} (f : A -> A -> bool) (a b : option A) : bool :=
  match a, b with Some x, Some y => f x y | None, None => true | _, _ => false end.
Fixpoint list_eqb {A} (f : A -> A -> bool) (a b : list A) : bool :=
  match a, b with
  | [], [] => true
  | x :: a', y :: b' => f x y && list_eqb f a' b'
  | _, _ => false
  end.
Definition pair_eqb {A B} (f : A -> A -> bool) (g : B -> B -> bool) (a b : A * B) : bool := f (fst a) (fst b) && g (snd a) (snd b).

(* ---- WsConn ---- *)
Definition rmsg_eqb (a b : rmsg) : bool :=
  match a, b with
  | MData, MData | MNetErr, MNetErr | MErrClosed, MErrClosed => true
  | MCloseErr x, MCloseErr y => N.eqb x y
  | _, _ => false
  end.
Definition peer_eqb (a b : peer_item) : bool :=
  match a, b with PData, PData | PNetErr, PNetErr => true | PClose x, PClose y => N.eqb x y | _, _ => false end.
Definition flags_eqb (a b : flags) : bool :=
  Bool.eqb (f_open a) (f_open b) && Bool.eqb (f_listening a) (f_listening b) && Bool.eqb (f_closerecv a) (f_closerecv b)
  && Bool.eqb (f_closesent a) (f_closesent b) && Bool.eqb (f_closed a) (f_closed b) && Bool.eqb (f_error a) (f_error b).
Definition wop_eqb (a b : wop) : bool :=
  match a, b with
  | WClose, WClose | WListen, WListen => true
  | WWrite d ok, WWrite d' ok' => bytes_eqb d d' && Bool.eqb ok ok'
  | _, _ => false
  end.
Definition wpc_eqb (a b : wpc) : bool :=
  match a, b with
  | QIdle, QIdle | QWWantWL, QWWantWL | QWFrame, QWFrame | QLGuard, QLGuard | QLSpawn, QLSpawn
  | QRNotStarted, QRNotStarted | QRRead, QRRead | QRResult, QRResult | QRExit1, QRExit1 | QRExit2, QRExit2
  | QRExit3, QRExit3 | QRDone, QRDone => true
  | QGate x, QGate y | QCheckErr x, QCheckErr y | QWantWL x, QWantWL y | QFrame x, QFrame y
  | QCheckListening x, QCheckListening y | QAwait x, QAwait y => Bool.eqb x y
  | QSetClosed x e, QSetClosed y e' | QUnderClose x e, QUnderClose y e' => Bool.eqb x y && N.eqb e e'
  | QLRecv x, QLRecv y => N.eqb x y
  | QLHandled x m, QLHandled y m' => N.eqb x y && rmsg_eqb m m'
  | QRSend m, QRSend m' | QRTaken m, QRTaken m' => rmsg_eqb m m'
  | _, _ => false
  end.
Definition wlocal_eqb (a b : wlocal) : bool :=
  wpc_eqb (wl_pc a) (wl_pc b) && list_eqb wop_eqb (wl_ops a) (wl_ops b) && list_eqb N.eqb (wl_rets a) (wl_rets b)
  && list_eqb Nat.eqb (wl_loops a) (wl_loops b) && Nat.eqb (wl_loop a) (wl_loop b) && rmsg_eqb (wl_hmsg a) (wl_hmsg b).
Definition wshared_eqb (a b : wshared) : bool :=
  flags_eqb (w_flags a) (w_flags b) && opt_eqb Nat.eqb (w_CL a) (w_CL b) && opt_eqb Nat.eqb (w_LL a) (w_LL b)
  && opt_eqb Nat.eqb (w_WL a) (w_WL b) && Bool.eqb (w_done a) (w_done b)
  && list_eqb (pair_eqb (opt_eqb rmsg_eqb) Bool.eqb) (w_chans a) (w_chans b)
  && list_eqb Bool.eqb (w_active a) (w_active b) && list_eqb peer_eqb (w_script a) (w_script b)
  && Bool.eqb (w_uclosed a) (w_uclosed b) && Nat.eqb (w_closes a) (w_closes b)
  && list_eqb (pair_eqb N.eqb bytes_eqb) (w_frames a) (w_frames b) && Nat.eqb (w_gate a) (w_gate b)
  && Bool.eqb (w_closeframe_ok a) (w_closeframe_ok b) && Bool.eqb (w_panic a) (w_panic b).
Definition wconfig_eqb (a b : config wshared wlocal) : bool :=
  wshared_eqb (glob a) (glob b) && list_eqb wlocal_eqb (thr a) (thr b).

(* ---- WsClient ---- *)
Definition rw_eqb (a b : rwmutex) : bool :=
  list_eqb Nat.eqb (rw_readers a) (rw_readers b) && opt_eqb Nat.eqb (rw_writer a) (rw_writer b) && opt_eqb Nat.eqb (rw_pending a) (rw_pending b).
Definition xop_eqb (a b : xop) : bool :=
  match a, b with
  | XSend e w, XSend e' w' => opt_eqb bytes_eqb e e' && Bool.eqb w w'
  | XSendRaw d w, XSendRaw d' w' => bytes_eqb d d' && Bool.eqb w w'
  | XConnect x, XConnect y | XReconnect x, XReconnect y => Bool.eqb x y
  | XDisconnect, XDisconnect => true
  | _, _ => false
  end.
Definition xpc_eqb (a b : xpc) : bool :=
  match a, b with
  | XIdle, XIdle | XSendChecked, XSendChecked | XAnnounced, XAnnounced | XExcl, XExcl | XDial, XDial | XBgDone, XBgDone | XBgNotSpawned, XBgNotSpawned => true
  | XSendHave x, XSendHave y | XSendWrite x, XSendWrite y | XDiscClosedQ x, XDiscClosedQ y | XDiscClose x, XDiscClose y
  | XBgStart x, XBgStart y | XBgListening x, XBgListening y | XBgReport x, XBgReport y => Nat.eqb x y
  | XSetErr x, XSetErr y => Bool.eqb x y
  | _, _ => false
  end.
Definition xlocal_eqb (a b : xlocal) : bool :=
  xpc_eqb (x_pc a) (x_pc b) && list_eqb xop_eqb (x_ops a) (x_ops b) && list_eqb N.eqb (x_rets a) (x_rets b).
Definition xsess_eqb (a b : xsess) : bool :=
  Bool.eqb (xs_closed a) (xs_closed b) && Bool.eqb (xs_ends_alone a) (xs_ends_alone b) && Bool.eqb (xs_lerr a) (xs_lerr b).
Definition xshared_eqb (a b : xshared) : bool :=
  opt_eqb Nat.eqb (xg_sess a) (xg_sess b) && Bool.eqb (xg_err a) (xg_err b) && rw_eqb (xg_SL a) (xg_SL b)
  && list_eqb xsess_eqb (xg_sessions a) (xg_sessions b) && list_eqb (pair_eqb Bool.eqb Bool.eqb) (xg_plan a) (xg_plan b)
  && list_eqb Nat.eqb (xg_spawned a) (xg_spawned b)
  && list_eqb (pair_eqb (pair_eqb Nat.eqb Nat.eqb) bytes_eqb) (xg_frames a) (xg_frames b)
  && list_eqb Nat.eqb (xg_closes a) (xg_closes b) && Bool.eqb (xg_panic a) (xg_panic b).
Definition xconfig_eqb (a b : config xshared xlocal) : bool :=
  xshared_eqb (glob a) (glob b) && list_eqb xlocal_eqb (thr a) (thr b).
