(* Executable checkers over the configurations of model/WsConn.v: program-counter classes,
   counters over thread lists and frame lists, the boolean form of the invariants proved in
   proofs/WsConn_Proofs.v, pseudo-random schedules for testing them by vm_compute.
   Executable definitions only. *)
From Coq Require Import List Arith NArith Bool.
From FF Require Import model.Bytes model.Lts model.WsConn.
Import ListNotations.

Definition wconfig := config wshared wlocal.

Definition b2n (b : bool) : nat := if b then 1%nat else 0%nat.

(* how many elements satisfy P *)
Fixpoint cnt {A} (P : A -> bool) (l : list A) : nat :=
  match l with [] => 0%nat | x :: r => (b2n (P x) + cnt P r)%nat end.
(* same, the predicate sees the position (thread id) *)
Fixpoint cnti {A} (P : nat -> A -> bool) (i : nat) (l : list A) : nat :=
  match l with [] => 0%nat | x :: r => (b2n (P i x) + cnti P (S i) r)%nat end.
Fixpoint sumf {A} (f : A -> nat) (l : list A) : nat :=
  match l with [] => 0%nat | x :: r => (f x + sumf f r)%nat end.

(* ---- frames ---- *)
Definition is_close_frame (f : N * bytes) : bool := N.eqb (fst f) 8.
Definition is_data_frame (f : N * bytes) : bool := N.eqb (fst f) 2.
Definition count8 (fr : list (N * bytes)) : nat := cnt is_close_frame fr.
Definition count2 (fr : list (N * bytes)) : nat := cnt is_data_frame fr.

(* ---- program-counter classes ---- *)
(* a closer that has passed the Open test-and-clear and has not returned yet *)
Definition past_gate (p : wpc) : bool :=
  match p with
  | QCheckErr _ | QWantWL _ | QFrame _ | QCheckListening _ | QAwait _ | QSetClosed _ _ | QUnderClose _ _ => true
  | _ => false
  end.
(* ... and has not written its close frame yet / has not skipped it yet *)
Definition pre_frame (p : wpc) : bool :=
  match p with QCheckErr _ | QWantWL _ | QFrame _ => true | _ => false end.
Definition at_checkerr (p : wpc) : bool :=
  match p with QCheckErr _ => true | _ => false end.
Definition want_frame (p : wpc) : bool :=
  match p with QWantWL _ | QFrame _ => true | _ => false end.
(* inside the critical section of writeLock *)
Definition holds_wl (p : wpc) : bool :=
  match p with QFrame _ | QWFrame => true | _ => false end.
(* inside (or about to enter) the underlying ReadMessage *)
Definition reading (p : wpc) : bool :=
  match p with QRRead | QRResult => true | _ => false end.
(* any closer pc, direct or inline *)
Definition closer_pc (p : wpc) : option bool :=
  match p with
  | QGate i | QCheckErr i | QWantWL i | QFrame i | QCheckListening i | QAwait i | QSetClosed i _ | QUnderClose i _ => Some i
  | _ => None
  end.
Definition loop_pc (p : wpc) : bool :=
  match p with
  | QRNotStarted | QRRead | QRResult | QRSend _ | QRTaken _ | QRExit1 | QRExit2 | QRExit3 | QRDone => true
  | _ => false
  end.
(* the part of Listen after the read loop has been spawned: QLRecv, the handler's inline
   closer, QLHandled: wl_loop is the loop of the current Listen call *)
Definition listening_phase (p : wpc) : bool :=
  match p with
  | QLRecv _ | QLHandled _ _ => true
  | _ => match closer_pc p with Some true => true | _ => false end
  end.
(* inside the default handler (inline closer or its continuation) *)
Definition in_handler (p : wpc) : bool :=
  match p with
  | QLHandled _ _ => true
  | _ => match closer_pc p with Some true => true | _ => false end
  end.
(* own steps a closer past the gate still needs before it returns *)
Definition closer_rank (p : wpc) : nat :=
  match p with
  | QCheckErr _ => 7 | QWantWL _ => 6 | QFrame _ => 5 | QCheckListening _ => 4 | QAwait _ => 3
  | QSetClosed _ _ => 2 | QUnderClose _ _ => 1 | _ => 0
  end%nat.

(* the holder of the "Listening" token: a Listen call between its guard and the spawn, or a
   spawned read loop that has not yet cleared the flag *)
Definition tok (g : wshared) (t : nat) (l : wlocal) : bool :=
  match wl_pc l with
  | QLSpawn => true
  | QRNotStarted => nth t (w_active g) false
  | QRRead | QRResult | QRSend _ | QRTaken _ | QRExit1 | QRExit2 => true
  | _ => false
  end.

(* the value Listen accumulates for the (unique) error message its handler has seen *)
Definition listen_code (m : rmsg) : N := if is_err_msg m && negb (normal_closure m) then 5%N else 0%N.

(* the head of the remaining calls agrees with the pc *)
Definition op_ok (l : wlocal) : bool :=
  match wl_pc l with
  | QIdle => true
  | QWWantWL | QWFrame => match wl_ops l with WWrite _ _ :: _ => true | _ => false end
  | QLGuard | QLSpawn | QLRecv _ | QLHandled _ _ => match wl_ops l with WListen :: _ => true | _ => false end
  | QRNotStarted | QRRead | QRResult | QRSend _ | QRTaken _ | QRExit1 | QRExit2 | QRExit3 | QRDone =>
      match wl_ops l with [] => true | _ => false end
  | p => match closer_pc p, wl_ops l with
         | Some false, WClose :: _ => true
         | Some true, WListen :: _ => true
         | _, _ => false
         end
  end.

(* the read loops a listener owns: the one of the running Listen and those of the Listen
   calls still to come *)
Definition owned (l : wlocal) : list nat :=
  (if listening_phase (wl_pc l) then [wl_loop l] else []) ++ wl_loops l.

Definition nwrites (p : list wop) : nat := cnt (fun o => match o with WWrite _ _ => true | _ => false end) p.

(* ---- boolean form of the layer-1 invariant ---- *)
Definition opt_nat_eqb (a b : option nat) : bool :=
  match a, b with Some x, Some y => Nat.eqb x y | None, None => true | _, _ => false end.

Definition linv_b (g : wshared) (t : nat) (l : wlocal) : bool :=
  Bool.eqb (holds_wl (wl_pc l)) (opt_nat_eqb (w_WL g) (Some t))
  && (match wl_pc l with QUnderClose _ _ => f_closed (w_flags g) | _ => true end)
  && (if want_frame (wl_pc l) then f_closesent (w_flags g) else true)
  && op_ok l.

Fixpoint forallbi {A} (P : nat -> A -> bool) (i : nat) (l : list A) : bool :=
  match l with [] => true | x :: r => P i x && forallbi P (S i) r end.

Definition inv1_b (c : wconfig) : bool :=
  let g := glob c in let f := w_flags g in
  Nat.eqb (w_gate g) (b2n (negb (f_open f)))
  && Nat.eqb (cnt (fun l => past_gate (wl_pc l)) (thr c) + w_closes g) (w_gate g)
  && Nat.leb (count8 (w_frames g) + cnt (fun l => pre_frame (wl_pc l)) (thr c)) (w_gate g)
  && Nat.leb (count8 (w_frames g)) (b2n (f_closesent f))
  && Nat.leb (cnt (fun l => at_checkerr (wl_pc l)) (thr c) + b2n (f_closesent f)) (w_gate g)
  && Nat.eqb (w_closes g) (b2n (w_uclosed g))
  && (if w_uclosed g then f_closed f else true)
  && opt_nat_eqb (w_CL g) None && opt_nat_eqb (w_LL g) None
  && Nat.leb (cnti (tok g) 0 (thr c)) (b2n (f_listening f))
  && forallbi (linv_b g) 0 (thr c).

(* ---- testing: run a schedule, checking every intermediate configuration ---- *)
Fixpoint exec_check (pd : bool) (chk : wconfig -> bool) (c : wconfig) (sch : list nat) : bool :=
  chk c &&
  match sch with
  | [] => true
  | t :: r => match ws_step pd c t with
              | None => exec_check pd chk c r
              | Some (c', _) => exec_check pd chk c' r
              end
  end.

(* linear congruential pseudo-random schedules *)
Fixpoint lcg_sched (seed : N) (nthreads : N) (len : nat) : list nat :=
  match len with
  | O => []
  | S k => let s := ((seed * 1103515245 + 12345) mod 2147483648)%N in
           N.to_nat ((s / 65536) mod nthreads)%N :: lcg_sched s nthreads k
  end.

Definition test_many (pd : bool) (chk : wconfig -> bool) (c : wconfig) (nseeds : nat) (len : nat) : bool :=
  forallb (fun s => exec_check pd chk c (lcg_sched (N.of_nat s) (N.of_nat (length (thr c))) len)) (seq 0 nseeds).

(* round robin *)
Definition rr_sched (n k : nat) : list nat := concat (repeat (seq 0 n) k).

(* a summary of a final configuration for examples: per thread (pc, results), then the
   counters *)
Definition summary (c : wconfig) :=
  (map (fun l => (wl_pc l, wl_rets l)) (thr c),
   (w_gate (glob c), w_closes (glob c), count8 (w_frames (glob c)), count2 (w_frames (glob c))),
   (w_uclosed (glob c), w_done (glob c), w_panic (glob c))).

(* ---- boolean form of the layer-2 invariant: listeners and their read loops ---- *)
Definition rmsg_eqb (a b : rmsg) : bool :=
  match a, b with
  | MData, MData => true
  | MCloseErr x, MCloseErr y => N.eqb x y
  | MNetErr, MNetErr => true
  | MErrClosed, MErrClosed => true
  | _, _ => false
  end.
Definition is_lrecv (p : wpc) : bool := match p with QLRecv _ => true | _ => false end.
Definition null {A} (l : list A) : bool := match l with [] => true | _ => false end.
Fixpoint nodup_b (l : list nat) : bool :=
  match l with [] => true | x :: r => negb (existsb (Nat.eqb x) r) && nodup_b r end.
Definition disjoint_b (a b : list nat) : bool := forallb (fun x => negb (existsb (Nat.eqb x) b)) a.

Definition linv2_b (t : nat) (l : wlocal) : bool :=
  (match wl_pc l with QLRecv acc => N.eqb acc (listen_code (wl_hmsg l)) | _ => true end)
  && (if in_handler (wl_pc l)
      then is_err_msg (wl_hmsg l) && negb (null (wl_rets l)) && N.eqb (last (wl_rets l) 0%N) 0
      else true)
  && (match wl_pc l with QLHandled _ m => rmsg_eqb m (wl_hmsg l) | _ => true end)
  && Nat.leb (count_listens (wl_ops l)) (length (wl_loops l) + b2n (listening_phase (wl_pc l)))
  && nodup_b (owned l)
  && (if loop_pc (wl_pc l) then Nat.eqb (wl_loop l) t && null (wl_loops l) else true).

Definition slot_eqb (s : option rmsg * bool) (o : option rmsg) (b : bool) : bool :=
  Bool.eqb (snd s) b &&
  match fst s, o with Some x, Some y => rmsg_eqb x y | None, None => true | _, _ => false end.

(* listener l (in its listening phase) against its loop lk with channel slot k *)
Definition couple_b (g : wshared) (l lk : wlocal) (k : nat) : bool :=
  let slot := chan_get g k in
  let fresh := is_lrecv (wl_pc l) && rmsg_eqb (wl_hmsg l) MData in
  match wl_pc lk with
  | QRNotStarted | QRRead | QRResult | QRSend _ => slot_eqb slot None false && fresh
  | QRTaken m =>
      negb (snd slot) &&
      match fst slot with
      | Some m' => rmsg_eqb m' m && fresh
      | None => if is_err_msg m then rmsg_eqb (wl_hmsg l) m else fresh
      end
  | QRExit1 => slot_eqb slot None false
  | QRExit2 | QRExit3 | QRDone => slot_eqb slot None true
  | _ => false
  end.

Definition cur_b (c : wconfig) (l : wlocal) : bool :=
  if listening_phase (wl_pc l) then
    match nth_error (thr c) (wl_loop l) with
    | Some lk => nth (wl_loop l) (w_active (glob c)) false && couple_b (glob c) l lk (wl_loop l)
    | None => false
    end
  else true.

Definition fut_b (c : wconfig) (l : wlocal) : bool :=
  forallb (fun k => match nth_error (thr c) k with
                    | Some lk => match wl_pc lk with QRNotStarted => true | _ => false end
                                 && negb (nth k (w_active (glob c)) false)
                                 && slot_eqb (chan_get (glob c) k) None false
                    | None => false
                    end) (wl_loops l).

(* a running loop has a listener *)
Definition running_loop (g : wshared) (k : nat) (lk : wlocal) : bool :=
  match wl_pc lk with
  | QRNotStarted => nth k (w_active g) false
  | QRRead | QRResult | QRSend _ | QRTaken _ | QRExit1 => true
  | _ => false
  end.
Definition has_listener (c : wconfig) (k : nat) : bool :=
  existsb (fun l => listening_phase (wl_pc l) && Nat.eqb (wl_loop l) k) (thr c).

Definition inv2_b (c : wconfig) : bool :=
  forallbi linv2_b 0 (thr c)
  && forallbi (fun t1 l1 => forallbi (fun t2 l2 => Nat.eqb t1 t2 || disjoint_b (owned l1) (owned l2)) 0 (thr c)) 0 (thr c)
  && forallb (cur_b c) (thr c)
  && forallb (fut_b c) (thr c)
  && forallbi (fun k lk => if running_loop (glob c) k lk then has_listener c k else true) 0 (thr c).

(* ---- a termination measure: every micro-step strictly decreases [mu] ---- *)
Definition slotw (s : option rmsg * bool) : nat :=
  match fst s with Some m => if is_err_msg m then 12 else 1 | None => 0 end%nat.

Definition mu_pc (p : wpc) : nat :=
  match p with
  | QIdle => 60
  | QGate i => (if i then 21 else 0) + 20 | QCheckErr i => (if i then 21 else 0) + 19
  | QWantWL i => (if i then 21 else 0) + 18 | QFrame i => (if i then 21 else 0) + 17
  | QCheckListening i => (if i then 21 else 0) + 16 | QAwait i => (if i then 21 else 0) + 15
  | QSetClosed i _ => (if i then 21 else 0) + 14 | QUnderClose i _ => (if i then 21 else 0) + 13
  | QWWantWL => 20 | QWFrame => 19
  | QLGuard => 59 | QLSpawn => 58 | QLRecv _ => 30 | QLHandled _ _ => 31
  | QRNotStarted => 20 | QRRead => 19 | QRResult => 18
  | QRSend m => if is_err_msg m then 17 else 22
  | QRTaken m => if is_err_msg m then 4 else 20
  | QRExit1 => 3 | QRExit2 => 2 | QRExit3 => 1 | QRDone => 0
  end%nat.

Definition mu_local (l : wlocal) : nat := (100 * length (wl_ops l) + mu_pc (wl_pc l))%nat.
Definition mu_glob (g : wshared) : nat := (5 * length (w_script g) + sumf slotw (w_chans g))%nat.
Definition mu (c : wconfig) : nat := (mu_glob (glob c) + sumf mu_local (thr c))%nat.

(* the number of effective (non-stuttering) steps of a schedule *)
Fixpoint eff_steps (pd : bool) (c : wconfig) (sch : list nat) : nat :=
  match sch with
  | [] => 0%nat
  | t :: r => match ws_step pd c t with
              | None => eff_steps pd c r
              | Some (c', _) => S (eff_steps pd c' r)
              end
  end.

Definition ws_all_done (c : wconfig) : bool := all_done wshared wlocal wdone c.
