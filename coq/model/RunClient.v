(* Entry points of the client model and of its reference monitors for the correspondence
   check.  Histories are ASCII: operations separated by ';', fields by ','; every hex field
   carries a one-letter prefix so that an empty byte string is still a non-empty field. *)
From FF Require Import model.Bytes model.Show model.Msgp model.Forward model.Render model.Sha512 model.Handshake
  model.Client model.ClientSpec model.RunCodec.
From Coq Require Import String.
Open Scope N_scope.

Definition semi : byte := n2b 59.
Definition tl_bytes (b : bytes) : bytes := match b with _ :: r => r | [] => [] end.
Definition hexf (b : bytes) : bytes := unhex (tl_bytes b).      (* "x<hex>" *)
Definition optN (b : bytes) : option N := if bytes_eqb b (str "-") then None else Some (read_N b).
Definition flag (b : bytes) : bool := bytes_eqb b (str "1").

(* cfg: key|host|ack|timeout ; key "-" = nil *)
Definition parse_cfg (a : bytes) : cfg :=
  match split_on bar a with
  | [k; h; ak; tm] =>
      {| cf_key := if bytes_eqb k (str "-") then None else Some (hexf k);
         cf_host := hexf h; cf_ack := flag ak; cf_timeout := flag tm |}
  | _ => {| cf_key := None; cf_host := []; cf_ack := false; cf_timeout := false |}
  end.

Definition parse_op (a : bytes) : op :=
  match split_on comma a with
  | [k; x] =>
      if is k "C" then OConnect (flag x) else if is k "R" then OReconnect (flag x) else OTransportPhase
  | [k; x; w] => OSendRaw (hexf x) (optN w)
  | [k; s; i1; i2] => OHandshake (hexf s) (hexf i1) (hexf i2)
  | [k; ch; en; w; rs] =>
      OSend {| sm_chunk := if bytes_eqb ch (str "-") then None else Some (hexf ch);
               sm_enc := if bytes_eqb en (str "-") then None else Some (hexf en) |} (optN w) (hexf rs)
  | [k] => if is k "D" then ODisconnect else OTransportPhase
  | _ => OTransportPhase
  end.
Definition parse_ops (a : bytes) : list op := map parse_op (split_on semi a).

Definition show_ev (e : ev) : bytes :=
  match e with
  | EvNew ok id => str "n" ++ (if ok then str "1" else str "0") ++ str ":" ++ show_N (N.of_nat id)
  | EvWrite c o a t => str "w:" ++ show_N (N.of_nat c) ++ str ":" ++ hex o ++ str ":" ++ show_N (len a) ++ str ":" ++ show_N t
  | EvClose c => str "c:" ++ show_N (N.of_nat c)
  | EvDeadline c => str "d:" ++ show_N (N.of_nat c)
  end.
Definition show_ret (r : ret) : bytes :=
  match r with ROk => str "ok" | RErr => str "err" | RTrue => str "true" | RFalse => str "false" | RPanic => str "panic" end.
Definition show_call (x : list ev * ret) : bytes :=
  show_ret (snd x) ++ str "|" ++ sep_concat (str ",") (map show_ev (fst x)).

Definition run_client_model (cfg ops : bytes) : bytes :=
  sep_concat (str ";") (map show_call (fst (runs sha512 (parse_cfg cfg) init_st (parse_ops ops)))).

(* ----- parsing observations of the real client (same grammar) ----- *)
Definition parse_ev (a : bytes) : option ev :=
  match split_on colon a with
  | [k; id] =>
      let n := N.to_nat (read_N id) in
      if is k "n1" then Some (EvNew true n) else if is k "n0" then Some (EvNew false n)
      else if is k "c" then Some (EvClose n) else if is k "d" then Some (EvDeadline n) else None
  | [k; c; o; al; t] =>
      let off := unhex o in
      Some (EvWrite (N.to_nat (read_N c)) off (firstn (N.to_nat (read_N al)) off) (read_N t))
  | _ => None
  end.
Fixpoint all_some {A} (l : list (option A)) : option (list A) :=
  match l with
  | [] => Some []
  | Some x :: r => match all_some r with Some r' => Some (x :: r') | None => None end
  | None :: _ => None
  end.
Definition parse_evs (a : bytes) : option (list ev) := all_some (map parse_ev (split_on comma a)).
Definition parse_ret (a : bytes) : ret :=
  if is a "ok" then ROk else if is a "err" then RErr else if is a "true" then RTrue else if is a "false" then RFalse else RPanic.
Definition parse_kind (a : bytes) : okind :=
  if is a "C" then KConnect else if is a "D" then KDisconnect else if is a "R" then KReconnect
  else if is a "H" then KHandshake else if is a "S" then KSend else if is a "W" then KSendRaw else KTransportPhase.

(* history: K|ret|events ; ... *)
Definition parse_call (a : bytes) : option (okind * list ev * ret) :=
  match split_on bar a with
  | [k; r; e] => match parse_evs e with Some es => Some (parse_kind k, es, parse_ret r) | None => None end
  | [k; r] => Some (parse_kind k, [], parse_ret r)
  | _ => None
  end.

(* C06 / C14: the observed history is accepted by the reference monitor and the whole call
   trace respects the connection discipline *)
Definition judge_history (haskey hist : bytes) : bytes :=
  match all_some (map parse_call (split_on semi hist)) with
  | None => str "bad:unparsable-history"
  | Some h =>
      if negb (monitor (flag haskey) None h) then str "bad:session-discipline"
      else if negb (trace_ok [] [] (flat_map (fun x => snd (fst x)) h)) then str "bad:connection-discipline"
      else str "ok"
  end.

(* C09 / C04: one send call.  enc "-" = unencodable; chunk/resp hex-fields *)
Definition judge_send (enc ack chunk resp evs r : bytes) : bytes :=
  match parse_evs evs with
  | None => str "bad:unparsable-events"
  | Some es =>
      if send_ok (if bytes_eqb enc (str "-") then None else Some (hexf enc)) (flag ack) (hexf chunk) (hexf resp) es (parse_ret r)
      then str "ok" else str "bad:send"
  end.

Definition run_client (e : bytes) (args : list bytes) : option bytes :=
  match args with
  | [a; b] =>
      if is e "client_run" then Some (run_client_model a b)
      else if is e "judge_history" then Some (judge_history a b)
      else None
  | [a; b; c; d; f; g] => if is e "judge_send" then Some (judge_send a b c d f g) else None
  | _ => None
  end.
