(* fluent/client/client.go, Send: the message is assembled in a buffer taken from
   sendBufferPool and handed to the connection in ONE Write:

       buf := sendBufferPool.Get().( *bytes.Buffer); buf.Reset(); defer sendBufferPool.Put(buf)
       if err = msgp.Encode(buf, e); err != nil { return err }
       _, err = c.session.Connection.Write(buf.Bytes())

   (fluent/client/ws_client.go, Send has the same shape with a buffer of its own.)
   The heap / sync.Pool model is that of model/Pool.v: a byte slice is a location, Get is a
   choice of the environment between a new object and ANY object put back before, with
   whatever it still holds.  Every Send is a sequence of atomic micro-steps, so the Sends
   of several goroutines interleave step by step; the connection reads the slice it is given
   at the Write step, which may come arbitrarily late after the encoding.

   A request says what msgp.Encode leaves in the buffer: the complete encoding when the
   message can be encoded, otherwise whatever was flushed into the buffer before the
   unencodable value was met (msgp's 2 KiB writer flushes when it fills).

   The [svariant] parameter makes two changes that look harmless the same text: no Reset
   after Get, and returning the buffer to the pool before the Write (a helper that does
   `defer Put(buf); return buf.Bytes()`).  Executable definitions only. *)
From FF Require Import model.Bytes model.Pool.
Open Scope nat_scope.

Record sreq := { q_written : bytes;   (* what Encode leaves in the buffer *)
                 q_ok : bool }.       (* Encode returned nil *)

Inductive spc :=
| T_idle
| T_get (q : sreq)              (* about to sendBufferPool.Get *)
| T_enc (q : sreq) (c : loc)    (* holds buffer c: Reset, Encode into it *)
| T_write (q : sreq) (c : loc)  (* encoded: Connection.Write(buf.Bytes()) *)
| T_put (c : loc).              (* deferred sendBufferPool.Put(buf), return *)

Record svariant := { sv_reset : bool;        (* buf.Reset() after Get *)
                     sv_put_late : bool }.   (* the buffer goes back to the pool after the Write *)
Definition send_repaired : svariant := {| sv_reset := true; sv_put_late := true |}.

Record sstate := { ss_heap : heap; ss_pool : list loc;
                   ss_wire : list (nat * bytes);     (* (goroutine, bytes the connection received), in order *)
                   ss_spec : list (nat * bytes) }.   (* what the abstract Send puts on the wire: the sender's own encoding *)
Record sconfig := { sc_st : sstate; sc_thr : list spc }.

Definition sheld (p : spc) : list loc :=
  match p with T_enc _ c | T_write _ c | T_put c => [c] | _ => [] end.

Section Variant.
  Variable v : svariant.

  (* one micro-step of goroutine t *)
  Definition sstep (t : nat) (s : sstate) (p : spc) (ch : choice) : option (sstate * spc) :=
    match p with
    | T_idle => None
    | T_get q =>
        let '(h, pool, c) := pool_get (ss_heap s) (ss_pool s) ch in
        Some ({| ss_heap := h; ss_pool := pool; ss_wire := ss_wire s; ss_spec := ss_spec s |}, T_enc q c)
    | T_enc q c =>
        let h1 := if sv_reset v then hset (ss_heap s) c [] else ss_heap s in
        let h2 := do_write h1 c (q_written q) in
        if q_ok q then
          if sv_put_late v then
            Some ({| ss_heap := h2; ss_pool := ss_pool s; ss_wire := ss_wire s; ss_spec := ss_spec s |}, T_write q c)
          else (* the helper's deferred Put has run before the caller writes *)
            Some ({| ss_heap := h2; ss_pool := pool_put (ss_pool s) c; ss_wire := ss_wire s; ss_spec := ss_spec s |}, T_write q c)
        else (* Encode failed: nothing is written, the deferred Put runs *)
          Some ({| ss_heap := h2; ss_pool := ss_pool s; ss_wire := ss_wire s; ss_spec := ss_spec s |}, T_put c)
    | T_write q c =>
        Some ({| ss_heap := ss_heap s; ss_pool := ss_pool s;
                 ss_wire := ss_wire s ++ [(t, hget (ss_heap s) c)];
                 ss_spec := ss_spec s ++ [(t, q_written q)] |},
              if sv_put_late v then T_put c else T_idle)
    | T_put c =>
        Some ({| ss_heap := ss_heap s; ss_pool := pool_put (ss_pool s) c; ss_wire := ss_wire s; ss_spec := ss_spec s |}, T_idle)
    end.

  (* a schedule item: goroutine t takes its next micro-step, or (being idle) calls Send *)
  Inductive sitem := SendStep (t : nat) (ch : choice) | SendCall (t : nat) (q : sreq).

  Definition sapply (c : sconfig) (i : sitem) : option sconfig :=
    match i with
    | SendStep t ch =>
        match nth_error (sc_thr c) t with
        | Some p =>
            match sstep t (sc_st c) p ch with
            | Some (s', p') => Some {| sc_st := s'; sc_thr := upd_nth (sc_thr c) t p' |}
            | None => None
            end
        | None => None
        end
    | SendCall t q =>
        match nth_error (sc_thr c) t with
        | Some T_idle => Some {| sc_st := sc_st c; sc_thr := upd_nth (sc_thr c) t (T_get q) |}
        | _ => None
        end
    end.

  (* an item that does not apply stutters *)
  Fixpoint sexec (c : sconfig) (sch : list sitem) : sconfig :=
    match sch with
    | [] => c
    | i :: r => match sapply c i with Some c' => sexec c' r | None => sexec c r end
    end.
End Variant.

Definition sinit (n : nat) : sconfig :=
  {| sc_st := {| ss_heap := []; ss_pool := []; ss_wire := []; ss_spec := [] |}; sc_thr := repeat T_idle n |}.

(* the abstract Send, with no buffer at all: what each call contributes to the wire.  A call
   whose message cannot be encoded contributes nothing; a call that can, its own complete
   encoding, once, at its Write. *)
Fixpoint spec_wire (thr : list spc) (sch : list (sitem)) : list (nat * bytes) :=
  match sch with
  | [] => []
  | SendCall t q :: r =>
      match nth_error thr t with
      | Some T_idle => spec_wire (upd_nth thr t (T_get q)) r
      | _ => spec_wire thr r
      end
  | SendStep t _ :: r =>
      match nth_error thr t with
      | Some (T_get q) => spec_wire (upd_nth thr t (T_enc q 0)) r
      | Some (T_enc q _) => spec_wire (upd_nth thr t (if q_ok q then T_write q 0 else T_put 0)) r
      | Some (T_write q _) => (t, q_written q) :: spec_wire (upd_nth thr t (T_put 0)) r
      | Some (T_put _) => spec_wire (upd_nth thr t T_idle) r
      | _ => spec_wire thr r
      end
  end.
