(* Bytes, big-endian numbers, bounded take.  Executable definitions only. *)
From Coq Require Export List NArith ZArith Bool.
From Coq.Strings Require Export Byte.
Export ListNotations.
Open Scope N_scope.

Definition bytes := list byte.
Definition b2n (b : byte) : N := Byte.to_N b.
(* low byte of n; the first match is a shortcut for n < 256 (same result, no division) *)
Definition n2b (n : N) : byte :=
  match Byte.of_N n with
  | Some b => b
  | None => match Byte.of_N (n mod 256) with Some b => b | None => x00 end
  end.

Definition len {A} (s : list A) : N := N.of_nat (length s).

(* the first k elements and the rest, when there are k; looks at no more than k elements (a length check
   of the whole remaining input at every read would make the decoders quadratic) and never converts k to
   a unary number (hostile declared lengths) *)
Fixpoint split_at (k : N) (bs : bytes) : option (bytes * bytes) :=
  if k =? 0 then Some ([], bs)
  else match bs with
       | [] => None
       | b :: r => match split_at (N.pred k) r with Some (h, t) => Some (b :: h, t) | None => None end
       end.

(* big endian, k bytes *)
Fixpoint be (k : nat) (n : N) : bytes :=
  match k with O => [] | S k' => be k' (n / 256) ++ [n2b n] end.

Fixpoint unbe_acc (acc : N) (bs : bytes) : N :=
  match bs with [] => acc | b :: r => unbe_acc (acc * 256 + b2n b) r end.
Definition unbe := unbe_acc 0.

Definition byte_eqb (a b : byte) : bool := N.eqb (b2n a) (b2n b).

Fixpoint bytes_eqb (a b : bytes) : bool :=
  match a, b with
  | [], [] => true
  | x :: a', y :: b' => byte_eqb x y && bytes_eqb a' b'
  | _, _ => false
  end.

(* lexicographic comparison of byte strings *)
Fixpoint bytes_cmp (a b : bytes) : comparison :=
  match a, b with
  | [], [] => Eq
  | [], _ => Lt
  | _, [] => Gt
  | x :: a', y :: b' =>
      match N.compare (b2n x) (b2n y) with Eq => bytes_cmp a' b' | c => c end
  end.

(* two's complement helpers *)
Definition z2n (k : nat) (z : Z) : N := Z.to_N (z mod (2 ^ (8 * Z.of_nat k)))%Z.
Definition n2z (k : nat) (n : N) : Z :=
  let m := (2 ^ (8 * Z.of_nat k))%Z in
  if (Z.of_N n <? m / 2)%Z then Z.of_N n else (Z.of_N n - m)%Z.

Arguments be : simpl never.
Arguments n2b : simpl never.
Arguments b2n : simpl never.
