(* Executable checkers for the WSClient model (model/WsClient.v): what a finished call must
   have done on the wire, given its result.  Executable definitions only. *)
From Coq Require Import List Arith NArith Bool.
From FF Require Import model.Bytes model.Lts model.WsClient.
Import ListNotations.
Local Open Scope nat_scope.

(* the frames a finished call has put on the wire: results 0 (ok) and 4 (write error) mean
   exactly one Write carrying exactly the encoded bytes; every other result means no Write *)
Definition call_frames (o : xop) (r : xret) : list bytes :=
  match o with
  | XSend (Some b) _ | XSendRaw b _ => if N.eqb r 0 || N.eqb r 4 then [b] else []
  | _ => []
  end.

Fixpoint expected_frames (ops : list xop) (rets : list xret) : list bytes :=
  match ops, rets with
  | o :: ops', r :: rets' => call_frames o r ++ expected_frames ops' rets'
  | _, _ => []
  end.

(* the Writes of thread t, oldest first ([xg_frames] is newest first) *)
Definition frames_of (t : nat) (fr : list (nat * nat * bytes)) : list bytes :=
  map snd (filter (fun f => Nat.eqb (snd (fst f)) t) (rev fr)).

(* is result r possible for call o at all *)
Definition ret_ok (o : xop) (r : xret) : bool :=
  match o with
  | XSend None _ => N.eqb r 1 || N.eqb r 2 || N.eqb r 3
  | XSend (Some _) w | XSendRaw _ w => (N.eqb r 0 && w) || N.eqb r 1 || N.eqb r 2 || N.eqb r 4
  | XConnect ok => N.eqb r 5 || (N.eqb r 0 && ok) || (N.eqb r 6 && negb ok)
  | XDisconnect => N.eqb r 0
  | XReconnect ok => (N.eqb r 0 && ok) || (N.eqb r 6 && negb ok)
  end.

Fixpoint rets_ok (ops : list xop) (rets : list xret) : bool :=
  match ops, rets with
  | o :: ops', r :: rets' => ret_ok o r && rets_ok ops' rets'
  | _, [] => true
  | [], _ :: _ => false
  end.

Fixpoint frames_eqb (a b : list bytes) : bool :=
  match a, b with
  | [], [] => true
  | x :: a', y :: b' => bytes_eqb x y && frames_eqb a' b'
  | _, _ => false
  end.

(* the frames of every worker are what its finished calls account for *)
Definition frames_account (progs : list (list xop)) (c : config xshared xlocal) : bool :=
  forallb (fun t =>
             match nth_error progs t, nth_error (thr c) t with
             | Some p, Some l =>
                 rets_ok p (x_rets l) &&
                 frames_eqb (frames_of t (xg_frames (glob c))) (expected_frames p (x_rets l))
             | _, _ => false
             end) (seq 0 (length progs)).

(* ---------- the visible trace of one thread ---------- *)
(* what the harness observes per goroutine: the calls it made on the factory and on the fake
   connections.  [call_trace_ok o r evs]: a finished call o with result r made exactly the calls evs. *)
Definition events_of (t : nat) (tr : list (nat * xevent)) : list xevent :=
  map snd (filter (fun x => Nat.eqb (fst x) t) tr).

Definition send_trace_ok (enc : option bytes) (w : bool) (r : xret) (evs : list xevent) : bool :=
  match evs with
  | [] => N.eqb r 1 || N.eqb r 2                              (* no session / sticky error: nothing touched *)
  | [XEvClosedQ _ true] => N.eqb r 1                          (* connection closed *)
  | [XEvClosedQ _ false] => N.eqb r 3 && match enc with None => true | Some _ => false end
  | [XEvClosedQ s false; XEvWrite s' d] =>                    (* one Write, same session, exactly the bytes *)
      Nat.eqb s s' && match enc with Some b => bytes_eqb b d | None => false end
      && ((N.eqb r 0 && w) || N.eqb r 4)
  | _ => false
  end.

(* closing the old session: none / already closed / Closed()=false then one Close on the same session *)
Definition disc_trace_ok (evs : list xevent) : bool :=
  match evs with
  | [] => true
  | [XEvClosedQ _ true] => true
  | [XEvClosedQ s false; XEvClose s'] => Nat.eqb s s'
  | _ => false
  end.

Definition dial_ret_ok (ok b : bool) (r : xret) : bool := Bool.eqb b ok && N.eqb r (if ok then 0 else 6).

Definition call_trace_ok (o : xop) (r : xret) (evs : list xevent) : bool :=
  match o with
  | XSend enc w => send_trace_ok enc w r evs
  | XSendRaw b w => send_trace_ok (Some b) w r evs
  | XConnect ok => match evs with
                   | [] => N.eqb r 5                           (* refused: no dial *)
                   | [XEvNew b] => dial_ret_ok ok b r
                   | _ => false
                   end
  | XDisconnect => N.eqb r 0 && disc_trace_ok evs
  | XReconnect ok => match evs with
                     | [XEvNew b] => dial_ret_ok ok b r
                     | [XEvClosedQ _ true; XEvNew b] => dial_ret_ok ok b r
                     | [XEvClosedQ s false; XEvClose s'; XEvNew b] => Nat.eqb s s' && dial_ret_ok ok b r
                     | _ => false
                     end
  end.

(* the calls already made by a call that has not returned yet *)
Definition partial_trace_ok (o : xop) (evs : list xevent) : bool :=
  match o, evs with
  | _, [] => true
  | (XSend (Some _) _ | XSendRaw _ _ | XDisconnect), [XEvClosedQ _ false] => true
  | XReconnect _, [XEvClosedQ _ false] => true
  (* a Reconnect that has dialled and is about to record / clear the sticky error *)
  | XReconnect _, [XEvNew _] => true
  | XReconnect _, [XEvClosedQ _ true; XEvNew _] => true
  | XReconnect _, [XEvClosedQ s false; XEvClose s'; XEvNew _] => Nat.eqb s s'
  | XReconnect _, _ => disc_trace_ok evs
  | _, _ => false
  end.

(* parse the trace of a worker into its calls (a call makes at most 3 calls on the environment) *)
Fixpoint thread_trace_ok (ops : list xop) (rets : list xret) (evs : list xevent) : bool :=
  match rets with
  | [] => match ops with
          | [] => match evs with [] => true | _ => false end
          | o :: _ => partial_trace_ok o evs
          end
  | r :: rets' =>
      match ops with
      | [] => false
      | o :: ops' =>
          existsb (fun k => call_trace_ok o r (firstn k evs) && thread_trace_ok ops' rets' (skipn k evs)) [0; 1; 2; 3]
      end
  end.

(* the reader goroutine of session s calls Listen on s, once *)
Definition reader_trace_ok (s : nat) (pc : xpc) (evs : list xevent) : bool :=
  match pc, evs with
  | (XBgNotSpawned | XBgStart _), [] => true
  | (XBgListening _ | XBgReport _ | XBgDone), [XEvListen s'] => Nat.eqb s s'
  | _, _ => false
  end.

Definition trace_ok (progs : list (list xop)) (c : config xshared xlocal) (tr : list (nat * xevent)) : bool :=
  forallb (fun t =>
             match nth_error (thr c) t with
             | Some l =>
                 match nth_error progs t with
                 | Some p => thread_trace_ok p (x_rets l) (events_of t tr)
                 | None => reader_trace_ok (t - length progs) (x_pc l) (events_of t tr)
                 end
             | None => false
             end) (seq 0 (length (thr c))).
