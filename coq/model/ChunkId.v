(* Chunk ids (property C12): makeChunkID (fluent/protocol/chunk.go), uuid.New with the random
   pool (github.com/google/uuid@v1.3.0/version4.go), base64.StdEncoding, and the Chunk()
   methods of the four message kinds (message.go, forward_message.go,
   packed_forward_message.go: the same code four times).

   The random source is a function [rnd : nat -> bytes]: [rnd k] is the k-th 16-byte window
   of the stream crypto/rand delivers (the 256-byte pool is refilled from that stream, so
   window k of the stream is window (k mod 16) of the (k / 16)-th refill).  The pool position
   is a counter that "take window k; k := k + 1" advances atomically (poolMu).
   uuid.New panics instead of returning an error and UUID.MarshalBinary never fails, so the
   error result of makeChunkID / Chunk() is always nil and is not modelled.

   Executable definitions only. *)
From FF Require Import model.Bytes model.Show model.Forward.
From Coq Require Import String.
Open Scope N_scope.

(* ---------- uuid v4 markers ---------- *)

Fixpoint upd_nth {A} (n : nat) (f : A -> A) (l : list A) : list A :=
  match l, n with
  | [], _ => []
  | x :: r, O => f x :: r
  | x :: r, S n' => x :: upd_nth n' f r
  end.

(* uuid[6] = (uuid[6] & 0x0f) | 0x40 ; uuid[8] = (uuid[8] & 0x3f) | 0x80 *)
Definition v4_b6 (x : byte) : byte := n2b (N.lor (N.land (b2n x) 15) 64).
Definition v4_b8 (x : byte) : byte := n2b (N.lor (N.land (b2n x) 63) 128).
Definition v4mask (b : bytes) : bytes := upd_nth 8 v4_b8 (upd_nth 6 v4_b6 b).

(* the 122 bits of a window that survive the masking: byte 6 mod 16, byte 8 mod 64 *)
Definition free_b6 (x : byte) : byte := n2b (b2n x mod 16).
Definition free_b8 (x : byte) : byte := n2b (b2n x mod 64).
Definition free_bits (b : bytes) : bytes := upd_nth 8 free_b8 (upd_nth 6 free_b6 b).

(* ---------- base64.StdEncoding ---------- *)

Definition b64_alphabet : bytes :=
  str "ABCDEFGHIJKLMNOPQRSTUVWXYZabcdefghijklmnopqrstuvwxyz0123456789+/".
Definition b64_pad : byte := "="%byte.
Definition b64_char (n : N) : byte := nth (N.to_nat n) b64_alphabet b64_pad.

(* the four sextets of a 3-byte group (numbers below 256) *)
Definition sx1 (a : N) : N := a / 4.
Definition sx2 (a b : N) : N := (a mod 4) * 16 + b / 16.
Definition sx3 (b c : N) : N := (b mod 16) * 4 + c / 64.
Definition sx4 (c : N) : N := c mod 64.

Fixpoint base64 (bs : bytes) : bytes :=
  match bs with
  | [] => []
  | [a] => [b64_char (sx1 (b2n a)); b64_char (sx2 (b2n a) 0); b64_pad; b64_pad]
  | [a; b] => [b64_char (sx1 (b2n a)); b64_char (sx2 (b2n a) (b2n b)); b64_char (sx3 (b2n b) 0); b64_pad]
  | a :: b :: c :: r =>
      b64_char (sx1 (b2n a)) :: b64_char (sx2 (b2n a) (b2n b))
      :: b64_char (sx3 (b2n b) (b2n c)) :: b64_char (sx4 (b2n c)) :: base64 r
  end.

Fixpoint index_of (c : byte) (l : bytes) (i : N) : option N :=
  match l with
  | [] => None
  | x :: r => if byte_eqb c x then Some i else index_of c r (i + 1)
  end.
Definition b64_val (c : byte) : option N := index_of c b64_alphabet 0.
Definition is_b64 (c : byte) : bool := match b64_val c with Some _ => true | None => false end.
Definition is_pad (c : byte) : bool := byte_eqb c b64_pad.

(* the decoder (non-strict about the unused low bits of the last sextet, like StdEncoding) *)
Fixpoint unbase64 (s : bytes) : option bytes :=
  match s with
  | [] => Some []
  | c1 :: c2 :: c3 :: c4 :: r =>
      match b64_val c1, b64_val c2 with
      | Some v1, Some v2 =>
          let y1 := n2b (v1 * 4 + v2 / 16) in
          if is_pad c3 then
            if is_pad c4 then match r with [] => Some [y1] | _ => None end else None
          else
            match b64_val c3 with
            | Some v3 =>
                let y2 := n2b ((v2 mod 16) * 16 + v3 / 4) in
                if is_pad c4 then match r with [] => Some [y1; y2] | _ => None end
                else
                  match b64_val c4, unbase64 r with
                  | Some v4, Some t => Some (y1 :: y2 :: n2b ((v3 mod 4) * 64 + v4) :: t)
                  | _, _ => None
                  end
            | None => None
            end
      | _, _ => None
      end
  | _ => None
  end.

(* ---------- makeChunkID ---------- *)

Definition make_chunk_id (rnd : nat -> bytes) (k : nat) : bytes := base64 (v4mask (rnd k)).

(* ---------- Chunk() ---------- *)

Definition needs_id (o : option options) : bool :=
  match o with
  | None => true
  | Some x => match o_chunk x with [] => true | _ => false end
  end.

(* the body shared by the four Chunk() methods, on the Options field; [k] is the pool
   position before the call; result: the Options after the call, the returned id, the pool
   position after the call *)
Definition chunk_opts (rnd : nat -> bytes) (o : option options) (k : nat) : options * bytes * nat :=
  let o0 := match o with None => empty_options | Some x => x end in
  match o_chunk o0 with
  | [] =>
      let id := make_chunk_id rnd k in
      ({| o_size := o_size o0; o_chunk := id; o_comp := o_comp o0 |}, id, S k)
  | c => (o0, c, k)
  end.

Definition chunk_message (rnd : nat -> bytes) (m : message) (k : nat) : message * bytes * nat :=
  let '(o, id, k') := chunk_opts rnd (m_opts m) k in
  ({| m_tag := m_tag m; m_ts := m_ts m; m_rec := m_rec m; m_opts := Some o |}, id, k').

Definition chunk_message_ext (rnd : nat -> bytes) (m : message_ext) (k : nat) : message_ext * bytes * nat :=
  let '(o, id, k') := chunk_opts rnd (x_opts m) k in
  ({| x_tag := x_tag m; x_ts := x_ts m; x_rec := x_rec m; x_opts := Some o |}, id, k').

Definition chunk_forward (rnd : nat -> bytes) (m : forward) (k : nat) : forward * bytes * nat :=
  let '(o, id, k') := chunk_opts rnd (f_opts m) k in
  ({| f_tag := f_tag m; f_entries := f_entries m; f_opts := Some o |}, id, k').

Definition chunk_packed (rnd : nat -> bytes) (m : packed) (k : nat) : packed * bytes * nat :=
  let '(o, id, k') := chunk_opts rnd (p_opts m) k in
  ({| p_tag := p_tag m; p_stream := p_stream m; p_opts := Some o |}, id, k').

(* a message of any mode *)
Inductive anymsg :=
| AMsg (m : message) | AExt (m : message_ext) | AFwd (m : forward) | APck (m : packed).

Definition any_opts (a : anymsg) : option options :=
  match a with AMsg m => m_opts m | AExt m => x_opts m | AFwd m => f_opts m | APck m => p_opts m end.

Definition chunk_any (rnd : nat -> bytes) (a : anymsg) (k : nat) : anymsg * bytes * nat :=
  match a with
  | AMsg m => let '(m', id, k') := chunk_message rnd m k in (AMsg m', id, k')
  | AExt m => let '(m', id, k') := chunk_message_ext rnd m k in (AExt m', id, k')
  | AFwd m => let '(m', id, k') := chunk_forward rnd m k in (AFwd m', id, k')
  | APck m => let '(m', id, k') := chunk_packed rnd m k in (APck m', id, k')
  end.

(* ---------- a sequence of Chunk() calls (one goroutine) ---------- *)

(* result entries: the message after the call, the id returned, the window it consumed *)
Definition chunk_result := (anymsg * bytes * option nat)%type.

Fixpoint chunk_seq (rnd : nat -> bytes) (ms : list anymsg) (k : nat) : list chunk_result * nat :=
  match ms with
  | [] => ([], k)
  | a :: r =>
      let '(a', id, k') := chunk_any rnd a k in
      let '(out, k'') := chunk_seq rnd r k' in
      ((a', id, if needs_id (any_opts a) then Some k else None) :: out, k'')
  end.

(* ---------- goroutines calling Chunk() on their own messages ---------- *)

(* A thread owns a list of messages still to be chunked.  A Chunk() call that has to
   generate an id takes two micro-steps: FETCH (under poolMu: take window k, k := k + 1)
   and FINISH (thread-local: mask, base64, assign, return).  A call on a message with a
   preset id is one thread-local micro-step.  A schedule is a list of thread ids; naming a
   finished or non-existent thread is a stutter. *)
Record thread := { t_todo : list anymsg; t_hold : option nat }.
Record pool_state := { ps_ctr : nat; ps_thr : list thread; ps_log : list (nat * chunk_result) }.

Fixpoint set_nth {A} (l : list A) (n : nat) (x : A) : list A :=
  match l, n with
  | [], _ => []
  | _ :: r, O => x :: r
  | y :: r, S k => y :: set_nth r k x
  end.

Definition pool_step (rnd : nat -> bytes) (s : pool_state) (t : nat) : pool_state :=
  match nth_error (ps_thr s) t with
  | None => s
  | Some th =>
      match t_todo th with
      | [] => s
      | a :: rest =>
          match t_hold th with
          | Some w =>                                   (* FINISH with the window taken *)
              let '(a', id, _) := chunk_any rnd a w in
              {| ps_ctr := ps_ctr s;
                 ps_thr := set_nth (ps_thr s) t {| t_todo := rest; t_hold := None |};
                 ps_log := ps_log s ++ [(t, (a', id, Some w))] |}
          | None =>
              if needs_id (any_opts a) then             (* FETCH: atomic under poolMu *)
                {| ps_ctr := S (ps_ctr s);
                   ps_thr := set_nth (ps_thr s) t {| t_todo := a :: rest; t_hold := Some (ps_ctr s) |};
                   ps_log := ps_log s |}
              else                                      (* preset id: no randomness *)
                let '(a', id, _) := chunk_any rnd a (ps_ctr s) in
                {| ps_ctr := ps_ctr s;
                   ps_thr := set_nth (ps_thr s) t {| t_todo := rest; t_hold := None |};
                   ps_log := ps_log s ++ [(t, (a', id, None))] |}
          end
      end
  end.

Definition pool_run (rnd : nat -> bytes) (s : pool_state) (sch : list nat) : pool_state :=
  fold_left (pool_step rnd) sch s.

Definition pool_init (k0 : nat) (ths : list (list anymsg)) : pool_state :=
  {| ps_ctr := k0; ps_thr := map (fun ms => {| t_todo := ms; t_hold := None |}) ths; ps_log := [] |}.

Definition pool_done (s : pool_state) : bool :=
  forallb (fun th => match t_todo th with [] => true | _ => false end) (ps_thr s).

(* the windows handed out so far: those of finished calls and those held by calls in flight *)
Definition opt_list {A} (o : option A) : list A := match o with Some x => [x] | None => [] end.
Definition log_windows (l : list (nat * chunk_result)) : list nat :=
  flat_map (fun e => opt_list (snd (snd e))) l.
Definition held_windows (ths : list thread) : list nat := flat_map (fun th => opt_list (t_hold th)) ths.
(* the ids that were generated (not preset) *)
Definition log_fresh_ids (l : list (nat * chunk_result)) : list bytes :=
  flat_map (fun e => match snd (snd e) with Some _ => [snd (fst (snd e))] | None => [] end) l.
