(* Entry point of the option-object model (model/OptCells.v) for the correspondence check: a history of
   constructor calls, Chunk() calls, caller-supplied ids and edits of the size option; the result is what a
   caller sees of every message's options afterwards. *)
From FF Require Import model.Bytes model.Show model.OptCells model.RunCodec model.RunClient.
From Coq Require Import String.
Open Scope N_scope.

Definition parse_oop (a : bytes) : oop :=
  match a with
  | k :: r =>
      let n := b2n k in
      if n =? 78 (* N *) then
        ONew (if bytes_eqb r (str "s") then KSized else if bytes_eqb r (str "g") then KGzip
              else if bytes_eqb r (str "b") then KSizedGzip else KPlain)
      else if n =? 67 (* C *) then OChunk (N.to_nat (read_N r))
      else if n =? 90 (* Z *) then OClearSize (N.to_nat (read_N r))
      else match split_on comma r with
           | [m; b] => OSetChunk (N.to_nat (read_N m)) (hexf b)
           | _ => OClearSize 0
           end
  | [] => OClearSize 0
  end.

Definition show_oid (i : oid) : bytes :=
  match i with IdNone => str "-" | IdGen k => str "#" ++ show_N (N.of_nat k) | IdCaller b => str "x" ++ hex b end.
Definition show_oview (v : option ocell) : bytes :=
  match v with
  | None => str "-"
  | Some c => (if oc_size c then str "1" else str "0") ++ (if oc_comp c then str "1" else str "0") ++ str ":" ++ show_oid (oc_chunk c)
  end.

Definition run_optcells (entry : bytes) (args : list bytes) : option bytes :=
  if bytes_eqb entry (str "optcells_run") then
    match args with
    | [ops] =>
        let s := orun false (map parse_oop (split_on semi ops)) in
        Some (sep_concat (str ",") (map (fun m => show_oview (oview s m)) (seq 0 (List.length (os_msgs s)))))
    | _ => None
    end
  else None.
