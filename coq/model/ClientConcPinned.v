(* The concurrent client as it was at the pinned commit, before the repairs: a copy of
   [cstep] (model/ClientConc.v) with the two defects
     (i)  Send hands the message to a buffered msgp.Writer on the connection: a message
          longer than the 2048-byte buffer reaches the connection in TWO Writes (the full
          buffer, then the rest), and nothing but the SHARED session lock is held between
          them, so another sender's Write can land in between;
     (ii) Handshake sets Session.TransportPhase while holding the session lock only
          SHARED (it never upgrades), so the write of the flag can overlap the reads of
          TransportPhase() / Send / SendRaw.
   Regression witnesses: refuted by concrete schedules in proofs/ClientConc_Proofs.v; the
   harness must detect a tree that behaves like this.  Executable definitions only. *)
From Coq Require Import List Arith Bool NArith.
From FF Require Import model.Bytes model.Msgp model.Forward model.Client model.Lts model.ClientConc.
Import ListNotations.
Open Scope nat_scope.

(* the program counters of the repaired model, and: first buffer of a long message written *)
Inductive ppc :=
| PP (p : pc)
| PSendMid (c : nat).

Record plocal := { pl_pc : ppc; pl_ops : list cop; pl_rets : list ret }.

Definition wbuf : nat := 2048.       (* msgp.Writer's buffer *)

Section Pinned.
  Variable cf : cfg.

  Definition pfinish (l : plocal) (r : ret) : plocal :=
    {| pl_pc := PP PIdle; pl_ops := tl (pl_ops l); pl_rets := pl_rets l ++ [r] |}.
  Definition pgoto (l : plocal) (p : ppc) : plocal := {| pl_pc := p; pl_ops := pl_ops l; pl_rets := pl_rets l |}.

  Definition with_wire (g : shared) (x : nat * nat * bytes) : shared :=
    {| g_sess := g_sess g; g_next := g_next g; g_S := g_S g; g_A := g_A g; g_closed := g_closed g;
       g_wire := x :: g_wire g |}.

  Definition cstep_pinned (g : shared) (t : nat) (l : plocal) : option (shared * plocal * option cevent) :=
    match pl_ops l with
    | [] => None
    | o :: _ =>
      match pl_pc l, o with
      (* ---- Send ---- *)
      | PP PIdle, CSend enc chunk wok ackok =>
          match rlock (g_S g) t with
          | None => None
          | Some s1 =>
              match g_sess g with
              | Some (c, true) =>
                  if cf_ack cf then
                    match chunk with
                    | Some (_ :: _) => Some (with_S g s1, pgoto l (PP (PWantAck c)), None)
                    | _ => Some (g, pfinish l RErr, None)
                    end
                  else Some (with_S g s1, pgoto l (PP (PSendLocked c)), None)
              | _ => Some (g, pfinish l RErr, None)
              end
          end
      | PP (PWantAck c), CSend _ _ _ _ =>
          match mlock (g_A g) t with
          | None => None
          | Some a => Some (with_A g a, pgoto l (PP (PSendLocked c)), None)
          end
      | PP (PSendLocked c), CSend enc chunk wok ackok =>
          match enc with
          | None => Some (release_send cf g t, pfinish l RErr, None)
          | Some b =>
              if Nat.ltb wbuf (length b) then
                (* DEFECT (i): the buffer is flushed when full; the rest follows in a second Write *)
                let b1 := firstn wbuf b in
                let g1 := with_wire g (c, t, b1) in
                if negb wok then Some (release_send cf g1 t, pfinish l RErr, ev 0 c b1)
                else Some (g1, pgoto l (PSendMid c), ev 0 c b1)
              else
                let g1 := with_wire g (c, t, b) in
                if negb wok then Some (release_send cf g1 t, pfinish l RErr, ev 0 c b)
                else if negb (cf_ack cf) then Some (release_send cf g1 t, pfinish l ROk, ev 0 c b)
                else Some (g1, pgoto l (PP (PSendAck c)), ev 0 c b)
          end
      | PSendMid c, CSend enc _ _ _ =>
          let b2 := skipn wbuf (match enc with Some b => b | None => [] end) in
          let g1 := with_wire g (c, t, b2) in
          if negb (cf_ack cf) then Some (release_send cf g1 t, pfinish l ROk, ev 0 c b2)
          else Some (g1, pgoto l (PP (PSendAck c)), ev 0 c b2)
      | PP (PSendAck c), CSend _ _ _ ackok =>
          let r := if ackok then ROk else RErr in
          if cf_timeout cf then Some (release_send cf g t, pfinish l r, ev 5 c [])
          else Some (release_send cf g t, pfinish l r, None)
      (* ---- SendRaw ---- *)
      | PP PIdle, CSendRaw b wok =>
          match rlock (g_S g) t with
          | None => None
          | Some s1 =>
              match g_sess g with
              | Some (c, true) => Some (with_S g s1, pgoto l (PP (PRawLocked c)), None)
              | _ => Some (g, pfinish l RErr, None)
              end
          end
      | PP (PRawLocked c), CSendRaw b wok =>
          let g1 := {| g_sess := g_sess g; g_next := g_next g; g_S := runlock (g_S g) t; g_A := g_A g; g_closed := g_closed g;
                       g_wire := (c, t, b) :: g_wire g |} in
          Some (g1, pfinish l (if wok then ROk else RErr), ev 0 c b)
      (* ---- TransportPhase ---- *)
      | PP PIdle, CTransportPhase =>
          match rlock (g_S g) t with
          | None => None
          | Some _ => Some (g, pfinish l (match g_sess g with Some (_, true) => RTrue | _ => RFalse end), None)
          end
      (* ---- Connect / Disconnect / Reconnect ---- *)
      | PP PIdle, (CConnect _ | CDisconnect | CReconnect _) =>
          match wannounce (g_S g) t with
          | None => None
          | Some s1 => Some (with_S g s1, pgoto l (PP (PWAnnounced 0)), None)
          end
      | PP (PWAnnounced k), _ =>
          match wacquire (g_S g) t with
          | None => None
          | Some s1 => Some (with_S g s1, pgoto l (PP (PExcl k)), None)
          end
      | PP (PExcl _), CConnect ok =>
          match g_sess g with
          | Some _ => Some (with_S g (wunlock (g_S g)), pfinish l RErr, None)
          | None =>
              if ok then
                Some ({| g_sess := Some (g_next g, match cf_key cf with None => true | Some _ => false end);
                         g_next := S (g_next g); g_S := wunlock (g_S g); g_A := g_A g; g_closed := g_closed g; g_wire := g_wire g |},
                      pfinish l ROk, ev 2 (g_next g) [])
              else Some (with_S g (wunlock (g_S g)), pfinish l RErr, ev 3 (g_next g) [])
          end
      | PP (PExcl _), CDisconnect =>
          match g_sess g with
          | Some (c, _) =>
              Some ({| g_sess := None; g_next := g_next g; g_S := wunlock (g_S g); g_A := g_A g; g_closed := c :: g_closed g; g_wire := g_wire g |},
                    pfinish l ROk, ev 4 c [])
          | None => Some (with_S g (wunlock (g_S g)), pfinish l ROk, None)
          end
      | PP (PExcl _), CReconnect ok =>
          match g_sess g with
          | Some (c, _) =>
              Some ({| g_sess := None; g_next := g_next g; g_S := g_S g; g_A := g_A g; g_closed := c :: g_closed g; g_wire := g_wire g |},
                    pgoto l (PP PReconnClosed), ev 4 c [])
          | None => Some (g, pgoto l (PP PReconnClosed), None)
          end
      | PP PReconnClosed, CReconnect ok =>
          if ok then
            Some ({| g_sess := Some (g_next g, match cf_key cf with None => true | Some _ => false end);
                     g_next := S (g_next g); g_S := wunlock (g_S g); g_A := g_A g; g_closed := g_closed g; g_wire := g_wire g |},
                  pfinish l ROk, ev 2 (g_next g) [])
          else Some (with_S g (wunlock (g_S g)), pfinish l RErr, ev 3 (g_next g) [])
      (* ---- Handshake ---- *)
      | PP PIdle, CHandshake ping pong_ok =>
          match rlock (g_S g) t with
          | None => None
          | Some s1 =>
              match g_sess g with
              | None => Some (g, pfinish l RErr, None)
              | Some (c, _) =>
                  match ping with
                  | None => Some (g, pfinish l RErr, None)
                  | Some _ => Some (with_S g s1, pgoto l (PP (PHsLocked c)), None)
                  end
              end
          end
      | PP (PHsLocked c), CHandshake ping pong_ok =>
          let p := match ping with Some p => p | None => [] end in
          (* DEFECT (ii): S stays held SHARED across the PONG and the update of the flag *)
          if pong_ok then Some (g, pgoto l (PP (PHsUpgrade c)), ev 1 c p)
          else Some (with_S g (runlock (g_S g) t), pfinish l RErr, ev 1 c p)
      | PP (PHsUpgrade c), CHandshake _ _ =>
          (* c.session.TransportPhase = true, under RLock; then the deferred RUnlock *)
          Some (with_S (with_sess g (match g_sess g with Some (c', _) => Some (c', true) | None => None end))
                       (runlock (g_S g) t),
                pfinish l ROk, None)
      | _, _ => None
      end
    end.

  Definition pdone (l : plocal) : bool := match pl_ops l with [] => true | _ => false end.

  Definition pconfig := config shared plocal.
  Definition init_pinned (progs : list (list cop)) : pconfig :=
    {| glob := g0; thr := map (fun p => {| pl_pc := PP PIdle; pl_ops := p; pl_rets := [] |}) progs |}.

  Definition pinned_step := step shared plocal cevent cstep_pinned.
  Definition pinned_exec := exec shared plocal cevent cstep_pinned.
  Definition pinned_enabled := enabled shared plocal cevent cstep_pinned.
End Pinned.

(* the access to the session field / flag the next step of a thread of the pinned client
   performs (cf. [access_of] in model/ClientConcSpec.v): here the handshake's update of the
   flag is the step at PHsUpgrade *)
Definition paccess_of (l : plocal) : option bool :=
  match pl_ops l with
  | [] => None
  | o :: _ =>
      match pl_pc l, o with
      | PP (PExcl _), (CConnect _ | CDisconnect | CReconnect _) => Some true
      | PP PReconnClosed, _ => Some true
      | PP (PHsUpgrade _), _ => Some true
      | PP PIdle, (CSend _ _ _ _ | CSendRaw _ _ | CTransportPhase | CHandshake _ _) => Some false
      | (PP (PSendLocked _) | PP (PSendAck _) | PP (PRawLocked _) | PP (PHsLocked _) | PSendMid _), _ => Some false
      | _, _ => None
      end
  end.
