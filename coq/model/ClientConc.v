(* fluent/client/client.go under concurrency: every public method as a sequence of atomic
   micro-steps over the client's shared state (session, sessionLock: RWMutex, ackLock:
   Mutex) and the environment (factory, connections).  Visible events are the calls on the
   environment objects — exactly the yield points of the harness's deterministic scheduler
   (factory.New, conn.Write, conn.Close, conn.SetReadDeadline); lock operations and the
   accesses to the client's fields are internal.  The code modelled is the repaired one:
   Send assembles the message and issues ONE Write; Handshake sets TransportPhase under the
   exclusive lock.  Executable definitions only. *)
From FF Require Import model.Bytes model.Msgp model.Forward model.Client model.Lts.
Open Scope N_scope.

(* one call, with the environment's script for it *)
Inductive cop :=
| CSend (enc : option bytes) (chunk : option bytes) (wok : bool) (ackok : bool)   (* wok: the Write succeeds; ackok: the ack read succeeds and matches *)
| CSendRaw (b : bytes) (wok : bool)
| CConnect (dial_ok : bool)
| CDisconnect
| CReconnect (dial_ok : bool)
| CTransportPhase
| CHandshake (ping : option bytes) (pong_ok : bool).   (* ping = None: the HELO is rejected before anything is written *)

Inductive pc :=
| PIdle                       (* between calls *)
| PSendLocked (c : nat)       (* holds S shared (and A when acks are required): about to write *)
| PSendAck (c : nat)          (* wrote; holds S shared and A: about to arm the deadline / read the ack *)
| PWantAck (c : nat)          (* holds S shared: waiting for ackLock *)
| PRawLocked (c : nat)
| PWAnnounced (k : N)         (* exclusive lock announced, waiting for readers to leave; k: which continuation *)
| PExcl (k : N)               (* holds S exclusively *)
| PReconnClosed               (* Reconnect: holds S exclusively, old connection closed, about to dial *)
| PHsLocked (c : nat)         (* Handshake: holds S shared, about to write the PING *)
| PHsUpgrade (c : nat).       (* Handshake succeeded: released S shared, wants S exclusively to set the flag *)

Record local := { l_pc : pc; l_ops : list cop; l_rets : list ret }.

Record cevent := { ce_kind : N;      (* 0 Write data, 1 Write PING, 2 New ok, 3 New fail, 4 Close, 5 SetReadDeadline *)
                   ce_conn : nat; ce_data : bytes }.
Definition cevent_eqb (a b : cevent) : bool :=
  N.eqb (ce_kind a) (ce_kind b) && Nat.eqb (ce_conn a) (ce_conn b) && bytes_eqb (ce_data a) (ce_data b).

Record shared := { g_sess : option (nat * bool); g_next : nat; g_S : rwmutex; g_A : mutex;
                   g_closed : list nat;                    (* connections closed so far *)
                   g_wire : list (nat * nat * bytes) }.     (* (connection, thread, bytes) of every data Write, newest first *)

Definition g0 : shared := {| g_sess := None; g_next := 0; g_S := rw_init; g_A := None; g_closed := []; g_wire := [] |}.

Section Conc.
  Variable cf : cfg.

  Definition with_S (g : shared) (s : rwmutex) : shared :=
    {| g_sess := g_sess g; g_next := g_next g; g_S := s; g_A := g_A g; g_closed := g_closed g; g_wire := g_wire g |}.
  Definition with_A (g : shared) (a : mutex) : shared :=
    {| g_sess := g_sess g; g_next := g_next g; g_S := g_S g; g_A := a; g_closed := g_closed g; g_wire := g_wire g |}.
  Definition with_sess (g : shared) (s : option (nat * bool)) : shared :=
    {| g_sess := s; g_next := g_next g; g_S := g_S g; g_A := g_A g; g_closed := g_closed g; g_wire := g_wire g |}.

  Definition finish (l : local) (r : ret) : local :=
    {| l_pc := PIdle; l_ops := tl (l_ops l); l_rets := l_rets l ++ [r] |}.
  Definition goto (l : local) (p : pc) : local := {| l_pc := p; l_ops := l_ops l; l_rets := l_rets l |}.

  Definition ev (k : N) (c : nat) (d : bytes) : option cevent := Some {| ce_kind := k; ce_conn := c; ce_data := d |}.

  (* release what a sender holds *)
  Definition release_send (g : shared) (t : nat) : shared :=
    let g1 := if cf_ack cf then with_A g (munlock (g_A g)) else g in
    with_S g1 (runlock (g_S g1) t).

  Definition cstep (g : shared) (t : nat) (l : local) : option (shared * local * option cevent) :=
    match l_ops l with
    | [] => None
    | o :: _ =>
      match l_pc l, o with
      (* ---- Send ---- *)
      | PIdle, CSend enc chunk wok ackok =>
          match rlock (g_S g) t with
          | None => None
          | Some s1 =>
              match g_sess g with
              | Some (c, true) =>
                  if cf_ack cf then
                    match chunk with
                    | Some (_ :: _) => Some (with_S g s1, goto l (PWantAck c), None)
                    | _ => Some (g, finish l RErr, None)             (* Chunk() failed or empty id: RUnlock, error *)
                    end
                  else Some (with_S g s1, goto l (PSendLocked c), None)
              | _ => Some (g, finish l RErr, None)                   (* RLock; no live session in transport phase; RUnlock *)
              end
          end
      | PWantAck c, CSend _ _ _ _ =>
          match mlock (g_A g) t with
          | None => None
          | Some a => Some (with_A g a, goto l (PSendLocked c), None)
          end
      | PSendLocked c, CSend enc chunk wok ackok =>
          match enc with
          | None => Some (release_send g t, finish l RErr, None)     (* cannot be encoded: nothing is written *)
          | Some b =>
              let g1 := {| g_sess := g_sess g; g_next := g_next g; g_S := g_S g; g_A := g_A g; g_closed := g_closed g;
                           g_wire := (c, t, b) :: g_wire g |} in
              if negb wok then Some (release_send g1 t, finish l RErr, ev 0 c b)
              else if negb (cf_ack cf) then Some (release_send g1 t, finish l ROk, ev 0 c b)
              else Some (g1, goto l (PSendAck c), ev 0 c b)
          end
      | PSendAck c, CSend _ _ _ ackok =>
          let r := if ackok then ROk else RErr in
          if cf_timeout cf then Some (release_send g t, finish l r, ev 5 c [])
          else Some (release_send g t, finish l r, None)
      (* ---- SendRaw ---- *)
      | PIdle, CSendRaw b wok =>
          match rlock (g_S g) t with
          | None => None
          | Some s1 =>
              match g_sess g with
              | Some (c, true) => Some (with_S g s1, goto l (PRawLocked c), None)
              | _ => Some (g, finish l RErr, None)
              end
          end
      | PRawLocked c, CSendRaw b wok =>
          let g1 := {| g_sess := g_sess g; g_next := g_next g; g_S := runlock (g_S g) t; g_A := g_A g; g_closed := g_closed g;
                       g_wire := (c, t, b) :: g_wire g |} in
          Some (g1, finish l (if wok then ROk else RErr), ev 0 c b)
      (* ---- TransportPhase: RLock; read; RUnlock ---- *)
      | PIdle, CTransportPhase =>
          match rlock (g_S g) t with
          | None => None
          | Some _ => Some (g, finish l (match g_sess g with Some (_, true) => RTrue | _ => RFalse end), None)
          end
      (* ---- Connect / Disconnect / Reconnect: exclusive lock in two halves ---- *)
      | PIdle, (CConnect _ | CDisconnect | CReconnect _) =>
          match wannounce (g_S g) t with
          | None => None
          | Some s1 => Some (with_S g s1, goto l (PWAnnounced 0), None)
          end
      | PWAnnounced k, _ =>
          match wacquire (g_S g) t with
          | None => None
          | Some s1 => Some (with_S g s1, goto l (PExcl k), None)
          end
      | PExcl _, CConnect ok =>
          match g_sess g with
          | Some _ => Some (with_S g (wunlock (g_S g)), finish l RErr, None)      (* refused without dialling *)
          | None =>
              if ok then
                Some ({| g_sess := Some (g_next g, match cf_key cf with None => true | Some _ => false end);
                         g_next := S (g_next g); g_S := wunlock (g_S g); g_A := g_A g; g_closed := g_closed g; g_wire := g_wire g |},
                      finish l ROk, ev 2 (g_next g) [])
              else Some (with_S g (wunlock (g_S g)), finish l RErr, ev 3 (g_next g) [])
          end
      | PExcl _, CDisconnect =>
          match g_sess g with
          | Some (c, _) =>
              Some ({| g_sess := None; g_next := g_next g; g_S := wunlock (g_S g); g_A := g_A g; g_closed := c :: g_closed g; g_wire := g_wire g |},
                    finish l ROk, ev 4 c [])
          | None => Some (with_S g (wunlock (g_S g)), finish l ROk, None)
          end
      | PExcl _, CReconnect ok =>
          match g_sess g with
          | Some (c, _) =>
              Some ({| g_sess := None; g_next := g_next g; g_S := g_S g; g_A := g_A g; g_closed := c :: g_closed g; g_wire := g_wire g |},
                    goto l PReconnClosed, ev 4 c [])
          | None => Some (g, goto l PReconnClosed, None)
          end
      | PReconnClosed, CReconnect ok =>
          if ok then
            Some ({| g_sess := Some (g_next g, match cf_key cf with None => true | Some _ => false end);
                     g_next := S (g_next g); g_S := wunlock (g_S g); g_A := g_A g; g_closed := g_closed g; g_wire := g_wire g |},
                  finish l ROk, ev 2 (g_next g) [])
          else Some (with_S g (wunlock (g_S g)), finish l RErr, ev 3 (g_next g) [])
      (* ---- Handshake ---- *)
      | PIdle, CHandshake ping pong_ok =>
          match rlock (g_S g) t with
          | None => None
          | Some s1 =>
              match g_sess g with
              | None => Some (g, finish l RErr, None)
              | Some (c, _) =>
                  match ping with
                  | None => Some (g, finish l RErr, None)            (* HELO rejected: nothing written *)
                  | Some _ => Some (with_S g s1, goto l (PHsLocked c), None)
                  end
              end
          end
      | PHsLocked c, CHandshake ping pong_ok =>
          let p := match ping with Some p => p | None => [] end in
          if pong_ok then Some (with_S g (runlock (g_S g) t), goto l (PHsUpgrade c), ev 1 c p)
          else Some (with_S g (runlock (g_S g) t), finish l RErr, ev 1 c p)
      | PHsUpgrade c, CHandshake _ _ =>
          match wannounce (g_S g) t with
          | None => None
          | Some s1 => Some (with_S g s1, goto l (PWAnnounced (1 + N.of_nat c)), None)
          end
      | PExcl k, CHandshake _ _ =>
          (* set the flag if the session is still the one the handshake ran on *)
          match g_sess g with
          | Some (c, _) =>
              if N.eqb k (1 + N.of_nat c) then Some (with_S (with_sess g (Some (c, true))) (wunlock (g_S g)), finish l ROk, None)
              else Some (with_S g (wunlock (g_S g)), finish l RErr, None)
          | None => Some (with_S g (wunlock (g_S g)), finish l RErr, None)
          end
      | _, _ => None
      end
    end.

  Definition ldone (l : local) : bool := match l_ops l with [] => true | _ => false end.

  Definition cconfig := config shared local.
  Definition init_conc (progs : list (list cop)) : cconfig :=
    {| glob := g0; thr := map (fun p => {| l_pc := PIdle; l_ops := p; l_rets := [] |}) progs |}.
  Definition init_conc_from (g : shared) (progs : list (list cop)) : cconfig :=
    {| glob := g; thr := map (fun p => {| l_pc := PIdle; l_ops := p; l_rets := [] |}) progs |}.

  Definition conc_step := step shared local cevent cstep.
  Definition conc_exec := exec shared local cevent cstep.
  Definition conc_accepts := accepts shared local cevent cstep cevent_eqb.
  Definition conc_completes := completes shared local cevent cstep cevent_eqb ldone.
  Definition conc_deadlocked := deadlocked shared local cevent cstep ldone.
End Conc.
