(* ASCII rendering helpers (model side of the canonical observation grammar). *)
From FF Require Import model.Bytes.
From Coq Require Import String Ascii.
Open Scope N_scope.

Definition str (s : string) : bytes := list_byte_of_string s.

Definition hexd (n : N) : byte := if n <? 10 then n2b (48 + n) else n2b (87 + n).
Definition hex (bs : bytes) : bytes :=
  flat_map (fun b => [hexd (b2n b / 16); hexd (b2n b mod 16)]) bs.

Definition unhexd (b : byte) : option N :=
  let n := b2n b in
  if (48 <=? n) && (n <=? 57) then Some (n - 48)
  else if (97 <=? n) && (n <=? 102) then Some (n - 87)
  else if (65 <=? n) && (n <=? 70) then Some (n - 55)
  else None.
Fixpoint unhex (bs : bytes) : bytes :=
  match bs with
  | a :: b :: r =>
      match unhexd a, unhexd b with
      | Some x, Some y => n2b (x * 16 + y) :: unhex r
      | _, _ => []
      end
  | _ => []
  end.

(* decimal, fuelled by the binary size of n (digits <= bits) *)
Fixpoint show_N_aux (fuel : nat) (n : N) (acc : bytes) : bytes :=
  match fuel with
  | O => acc
  | S f =>
      let acc' := n2b (48 + n mod 10) :: acc in
      if n / 10 =? 0 then acc' else show_N_aux f (n / 10) acc'
  end.
Definition show_N (n : N) : bytes := show_N_aux (S (N.to_nat (N.size n))) n [].
Definition show_Z (z : Z) : bytes :=
  match z with
  | Z0 => str "0"
  | Zpos p => show_N (Npos p)
  | Zneg p => str "-" ++ show_N (Npos p)
  end.
Definition show_bool (b : bool) : bytes := if b then str "t" else str "f".

Fixpoint sep_concat (sep : bytes) (l : list bytes) : bytes :=
  match l with
  | [] => []
  | [x] => x
  | x :: r => x ++ sep ++ sep_concat sep r
  end.

(* parse decimal *)
Fixpoint read_N_acc (bs : bytes) (acc : N) : N :=
  match bs with
  | [] => acc
  | b :: r => read_N_acc r (acc * 10 + (b2n b - 48))
  end.
Definition read_N (bs : bytes) : N := read_N_acc bs 0.
Definition read_Z (bs : bytes) : Z :=
  match bs with
  | b :: r => if b2n b =? 45 then (- Z.of_N (read_N r))%Z else Z.of_N (read_N bs)
  | [] => 0%Z
  end.

Fixpoint split_on_aux (sep : byte) (bs cur : bytes) : list bytes :=
  match bs with
  | [] => [rev_append cur []]
  | b :: r => if byte_eqb b sep then rev_append cur [] :: split_on_aux sep r [] else split_on_aux sep r (b :: cur)
  end.
Definition split_on (sep : byte) (bs : bytes) : list bytes :=
  match bs with [] => [] | _ => split_on_aux sep bs [] end.

Definition comma : byte := n2b 44.
Definition colon : byte := n2b 58.
Definition bar : byte := n2b 124.

