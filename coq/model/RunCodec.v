(* Entry points of the codec model for the correspondence check. *)
From FF Require Import model.Bytes model.Show model.Msgp model.Forward model.Render model.Spec model.ChunkId.
From FF Require Import model.ForwardFast model.Pool model.Helpers.
From Coq Require Import String.
Open Scope N_scope.

Definition is (entry : bytes) (name : string) : bool := bytes_eqb entry (str name).

Definition parse_opt (a : bytes) : option options :=
  if bytes_eqb a (str "none") then None
  else match split_on bar a with
       | [s; c; z] =>
           Some {| o_size := if bytes_eqb s (str "-") then None else Some (read_Z s);
                   o_chunk := unhex c; o_comp := unhex z |}
       | _ => Some empty_options
       end.

Definition parse_path (a : bytes) : path := if bytes_eqb a (str "stream") then Stream else Slice.

Definition show_bytes_res (r : res bytes) : bytes := show_res hex r.

Definition mk_message (tag ts rec opt : bytes) : message :=
  {| m_tag := unhex tag; m_ts := read_Z ts; m_rec := desc_gval rec; m_opts := parse_opt opt |}.
Definition mk_message_ext (tag sec nsec rec opt : bytes) : message_ext :=
  {| x_tag := unhex tag; x_ts := (read_Z sec, read_N nsec); x_rec := desc_gval rec; x_opts := parse_opt opt |}.
Definition mk_forward (tag es opt : bytes) : forward :=
  {| f_tag := unhex tag; f_entries := desc_entries es; f_opts := parse_opt opt |}.
Definition mk_packed (tag st opt : bytes) : packed :=
  {| p_tag := unhex tag; p_stream := unhex st; p_opts := parse_opt opt |}.

(* implementation bytes are accepted when they decode (slice path) to a value whose
   canonical rendering equals that of the abstract message (map key order ignored)
   and re-encoding that value reproduces them byte for byte *)
Definition enc_check {A} (dec : bytes -> res (A * bytes)) (enc : A -> res bytes) (show : A -> bytes)
           (orig : A) (impl : bytes) : bytes :=
  match dec impl with
  | Ok (m', []) =>
      if negb (bytes_eqb (show m') (show orig)) then str "bad:value"
      else match enc m' with
           | Ok b => if bytes_eqb b impl then str "ok" else str "bad:widths"
           | _ => str "bad:reencode"
           end
  | Ok (_, _) => str "bad:leftover"
  | _ => str "bad:decode"
  end.

Definition shape_of (mode : bytes) : value -> option smsg :=
  if bytes_eqb mode (str "message*") then shape_message_gen false
  else if bytes_eqb mode (str "forward*") then shape_forward_gen false
  else if bytes_eqb mode (str "any*") then shape_any_gen false
  else if bytes_eqb mode (str "message") then shape_message
  else if bytes_eqb mode (str "forward") then shape_forward
  else if bytes_eqb mode (str "packed") then shape_packed
  else shape_any.

(* judges: extracted property predicates applied to what the real code did *)
Definition judge_wire (mode bs expected : bytes) : bytes :=
  match spec_parse (shape_of mode) (unhex bs) with
  | Some (m, []) => if bytes_eqb (show_smsg m) expected then str "ok" else str "bad:value:" ++ show_smsg m
  | Some (_, _) => str "bad:leftover"
  | None => str "bad:not-a-" ++ mode
  end.

Definition judge_consumed (bs consumed : bytes) : bytes :=
  let b := unhex bs in
  match parse1 b with
  | Some (_, r) => if len b - len r =? read_N consumed then str "ok" else str "bad:boundary=" ++ show_N (len b - len r)
  | None => str "bad:no-complete-value"
  end.

(* a packed event stream: back-to-back [EventTime, record-map] entries, nothing else *)
Fixpoint parse_all (fuel : nat) (bs : bytes) (acc : list value) : option (list value) :=
  match fuel with
  | O => None
  | S f => match bs with
           | [] => Some (rev_append acc [])
           | _ => match parse1 bs with Some (v, r) => parse_all f r (v :: acc) | None => None end
           end
  end.
Definition show_sentries (es : list (stime * value)) : bytes :=
  str "[" ++ sep_concat (str ",") (map (fun e => str "(" ++ show_stime (fst e) ++ str "," ++ show_value (snd e) ++ str ")") es) ++ str "]".
Definition judge_stream (st expected : bytes) : bytes :=
  let b := unhex st in
  match parse_all (S (List.length b)) b [] with
  | Some vs =>
      match as_entries false vs with
      | Some es => if bytes_eqb (show_sentries es) expected then str "ok" else str "bad:value:" ++ show_sentries es
      | None => str "bad:not-entries"
      end
  | None => str "bad:not-msgpack"
  end.

Definition judge_chunk (bs impl : bytes) : bytes :=
  match spec_parse shape_any (unhex bs) with
  | Some (m, []) =>
      let want := match spec_chunk m with Some c => str "ok(" ++ hex c ++ str ")" | None => str "err" end in
      if bytes_eqb want impl then str "ok" else str "bad:want=" ++ want
  | _ => str "bad:not-wellformed"
  end.

(* handshake / ack shapes: [kind] selects the shape *)
Definition judge_shape (kind bs expected : bytes) : bytes :=
  match parse1 (unhex bs) with
  | Some (v, []) =>
      let shown := if bytes_eqb kind (str "helo") then show_helo v
                   else if bytes_eqb kind (str "ping") then show_ping v
                   else if bytes_eqb kind (str "pong") then show_pong v
                   else show_ack v in
      match shown with
      | Some s => if bytes_eqb s expected then str "ok" else str "bad:value:" ++ s
      | None => str "bad:not-a-" ++ kind
      end
  | Some (_, _) => str "bad:leftover"
  | None => str "bad:not-msgpack"
  end.

(* a stamped Message/MessageExt: everything but the time must equal [expected] (rendered
   with ts=0 in Message form), the time must be of the announced kind and lie in [lo, hi] *)
Definition judge_stamped (kind bs expected lo hi : bytes) : bytes :=
  match spec_parse shape_message (unhex bs) with
  | Some (m, []) =>
      match stamp_of m with
      | Some (is_event, v) =>
          if negb (Bool.eqb is_event (bytes_eqb kind (str "event"))) then str "bad:time-kind"
          else if negb ((read_Z lo <=? v) && (v <=? read_Z hi))%Z then str "bad:time-outside-call:" ++ show_Z v
          else if bytes_eqb (show_smsg (unstamp m)) expected then str "ok" else str "bad:value:" ++ show_smsg (unstamp m)
      | None => str "bad:no-time"
      end
  | Some (_, _) => str "bad:leftover"
  | None => str "bad:not-a-message"
  end.

(* C04: a successful acknowledged send, judged without the library model: the message on
   the wire carries a non-empty chunk id c and the peer's response is a map whose "ack"
   entry is the string c *)
Definition judge_ack_success (wire resp : bytes) : bytes :=
  match spec_parse shape_any (unhex wire) with
  | Some (m, []) =>
      match spec_chunk m with
      | Some c =>
          if bytes_eqb c [] then str "bad:empty-chunk-on-wire"
          else match parse1 (unhex resp) with
               | Some (VMap l, _) =>
                   match lookup_opt (str "ack") l with
                   | Some (VStr a) => if bytes_eqb a c then str "ok" else str "bad:ack-for-another-chunk"
                   | _ => str "bad:no-ack-entry"
                   end
               | _ => str "bad:response-not-a-map"
               end
      | None => str "bad:no-chunk-on-wire"
      end
  | _ => str "bad:wire-not-a-message"
  end.

(* a Send* helper of the client (model/Helpers.v): kind, clock reading, tag, payload (record / entries
   descriptor or raw bytes), and -- for the compressed helpers -- the compressed stream the real gzip produced
   (gzip is a parameter of the model) *)
Definition run_helper (kind sec nsec tag payload gzout : bytes) : bytes :=
  let now := (read_Z sec, read_N nsec) in
  let gz := fun _ : bytes => unhex gzout in
  let t := unhex tag in
  let h := if is kind "message" then Some (HSendMessage t (desc_gval payload))
           else if is kind "message_ext" then Some (HSendMessageExt t (desc_gval payload))
           else if is kind "forward" then Some (HSendForward t (desc_entries payload))
           else if is kind "packed" then Some (HSendPacked t (desc_entries payload))
           else if is kind "packed_bytes" then Some (HSendPackedFromBytes t (unhex payload))
           else if is kind "compressed" then Some (HSendCompressed t (desc_entries payload))
           else if is kind "compressed_bytes" then Some (HSendCompressedFromBytes t (unhex payload))
           else None in
  match h with Some h => show_bytes_res (helper_wire gz now h) | None => str "unknown-helper" end.

Definition run_codec (e : bytes) (args : list bytes) : option bytes :=
  match args with
  | [tag; ts; rec; opt] =>
      if is e "M_message" then Some (show_bytes_res (M_message (mk_message tag ts rec opt)))
      else if is e "Mchk_forward" then
        (* args: tag entries opt impl *)
        Some (enc_check (U_forward_f Slice zero_forward) M_forward show_forward (norm_forward (mk_forward tag ts rec)) (unhex opt))
      else None
  | [tag; sec; nsec; rec; opt] =>
      if is e "judge_stamped" then Some (judge_stamped tag sec nsec rec opt) else
      if is e "M_message_ext" then Some (show_bytes_res (M_message_ext (mk_message_ext tag sec nsec rec opt)))
      else if is e "Mchk_message" then
        (* args: tag ts rec opt impl *)
        Some (enc_check (U_message Slice zero_message) M_message show_message (norm_message (mk_message tag sec nsec rec)) (unhex opt))
      else None
  | [tag; sec; nsec; rec; opt; impl] =>
      if is e "H_wire" then Some (run_helper tag sec nsec rec opt impl) else   (* kind sec nsec tag payload gzout *)
      if is e "Mchk_message_ext" then
        Some (enc_check (U_message_ext Slice zero_message_ext) M_message_ext show_message_ext
                        (norm_message_ext (mk_message_ext tag sec nsec rec opt)) (unhex impl))
      else None
  | [a; b; c] =>
      if is e "judge_wire" then Some (judge_wire a b c) else
      if is e "judge_shape" then Some (judge_shape a b c) else
      if is e "M_forward" then Some (show_bytes_res (M_forward (mk_forward a b c)))
      else if is e "M_packed" then Some (show_bytes_res (Ok (M_packed (mk_packed a b c))))
      else if is e "M_entry" then Some (show_bytes_res (M_entry {| e_ts := (read_Z a, read_N b); e_rec := desc_gval c |}))
      else None
  | [a; b] =>
      let p := parse_path a in
      let bs := unhex b in
      if is e "et_payload" then Some (hex (et_payload (read_Z a) (read_N b)))
      else if is e "judge_consumed" then Some (judge_consumed a b)
      else if is e "judge_stream" then Some (judge_stream a b)
      else if is e "judge_ack_success" then Some (judge_ack_success a b)
      else if is e "judge_chunk" then Some (judge_chunk a b)
      else if is e "U_message" then Some (show_dec show_message (U_message p zero_message bs))
      else if is e "U_message_ext" then Some (show_dec show_message_ext (U_message_ext p zero_message_ext bs))
      else if is e "U_forward" then Some (show_dec show_forward (U_forward_f p zero_forward bs))
      else if is e "U_packed" then Some (show_dec show_packed (U_packed p zero_packed bs))
      else if is e "U_entry" then Some (show_dec show_entry (U_entry p bs))
      else if is e "U_entry_list" then Some (show_dec show_entries (U_entry_list_f p bs))
      else if is e "U_ack" then Some (show_dec hex (U_ack p bs))
      else if is e "U_options" then Some (show_dec (fun o => show_opts (Some o)) (U_options p bs))
      else if is e "rd_intf" then Some (show_dec show_gval (rd_intf p (fuel_for bs) bs))
      else if is e "skip" then Some (show_res (fun r => str "left=" ++ show_N (len r)) (skip p (fuel_for bs) bs))
      else None
  | [a] =>
      if is e "dec_eventtime" then
        Some (show_res (fun t => show_Z (fst t) ++ str "." ++ show_N (snd t)) (dec_eventtime (unhex a)))
      else if is e "get_chunk" then Some (show_bytes_res (get_chunk (unhex a)))
      else if is e "chunk_id" then Some (make_chunk_id (fun _ => unhex a) 0)
      else if is e "unmarshal_packed" then Some (show_res show_entries (unmarshal_packed_f (unhex a)))
      else if is e "marshal_packed" then Some (show_bytes_res (marshal_packed (desc_entries a)))
      else if is e "M_entry_list" then Some (show_bytes_res (M_entry_list (desc_entries a)))
      else if is e "M_ack" then Some (show_bytes_res (Ok (M_ack (unhex a))))
      else if is e "M_options" then Some (show_bytes_res (Ok (M_optopt (parse_opt a))))
      else if is e "enc_gval" then Some (show_bytes_res (enc_gval (desc_gval a)))
      else None
  | _ => None
  end.
