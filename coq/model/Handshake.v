(* Shared-key handshake: HELO / PING / PONG codecs (handshake_gen.go), digest helpers
   (handshake.go) and Client.Handshake (client.go), for an arbitrary hash [H].
   Executable definitions only. *)
From FF Require Import model.Bytes model.Show model.Msgp model.Forward.
From Coq Require Import String.
Open Scope N_scope.

Record helo_opts := { h_nonce : bytes; h_auth : bytes; h_keepalive : bool }.
Record helo := { hl_type : bytes; hl_opts : option helo_opts }.
Record ping := { pg_type : bytes; pg_host : bytes; pg_salt : bytes; pg_digest : bytes; pg_user : bytes; pg_pass : bytes }.
Record pong := { po_type : bytes; po_auth : bool; po_reason : bytes; po_host : bytes; po_digest : bytes }.

Definition M_helo_opts (o : helo_opts) : bytes :=
  [n2b 131] ++ enc_str (str "nonce") ++ enc_bin (h_nonce o) ++ enc_str (str "auth") ++ enc_bin (h_auth o)
  ++ enc_str (str "keepalive") ++ enc_bool (h_keepalive o).
Definition M_helo (h : helo) : bytes :=
  [n2b 146] ++ enc_str (hl_type h) ++ match hl_opts h with None => enc_nil | Some o => M_helo_opts o end.
Definition M_ping (p : ping) : bytes :=
  [n2b 150] ++ enc_str (pg_type p) ++ enc_str (pg_host p) ++ enc_bin (pg_salt p) ++ enc_str (pg_digest p)
  ++ enc_str (pg_user p) ++ enc_str (pg_pass p).
Definition M_pong (p : pong) : bytes :=
  [n2b 149] ++ enc_str (po_type p) ++ enc_bool (po_auth p) ++ enc_str (po_reason p) ++ enc_str (po_host p)
  ++ enc_str (po_digest p).

Fixpoint U_helo_opts_loop (p : path) (fuel : nat) (cnt : N) (bs : bytes) (o : helo_opts) {struct fuel} : res (helo_opts * bytes) :=
  match fuel with
  | O => Err EFuel
  | S f =>
      if cnt =? 0 then Ok (o, bs)
      else
        '(k, r) <- rd_field_key p bs ;;
        if bytes_eqb k (str "nonce") then
          '(v, r') <- rd_bin r ;; U_helo_opts_loop p f (cnt - 1) r' {| h_nonce := v; h_auth := h_auth o; h_keepalive := h_keepalive o |}
        else if bytes_eqb k (str "auth") then
          '(v, r') <- rd_bin r ;; U_helo_opts_loop p f (cnt - 1) r' {| h_nonce := h_nonce o; h_auth := v; h_keepalive := h_keepalive o |}
        else if bytes_eqb k (str "keepalive") then
          '(v, r') <- rd_bool r ;; U_helo_opts_loop p f (cnt - 1) r' {| h_nonce := h_nonce o; h_auth := h_auth o; h_keepalive := v |}
        else r' <- skip p (fuel_for r) r ;; U_helo_opts_loop p f (cnt - 1) r' o
  end.

Definition zero_helo_opts : helo_opts := {| h_nonce := []; h_auth := []; h_keepalive := false |}.

(* Helo.UnmarshalMsg / DecodeMsg into a zero Helo *)
Definition U_helo (p : path) (bs : bytes) : res (helo * bytes) :=
  '(sz, r0) <- rd_arr_hdr bs ;;
  if negb (sz =? 2) then Err EArity else
  '(ty, r1) <- rd_str r0 ;;
  if is_nil_next r1 then r2 <- rd_nil r1 ;; Ok ({| hl_type := ty; hl_opts := None |}, r2)
  else
    '(c, r2) <- rd_map_hdr r1 ;;
    '(o, r3) <- U_helo_opts_loop p (fuel_for r2) c r2 zero_helo_opts ;;
    Ok ({| hl_type := ty; hl_opts := Some o |}, r3).

Definition U_ping (p : path) (bs : bytes) : res (ping * bytes) :=
  '(sz, r0) <- rd_arr_hdr bs ;;
  if negb (sz =? 6) then Err EArity else
  '(ty, r1) <- rd_str r0 ;; '(h, r2) <- rd_str r1 ;; '(s, r3) <- rd_bin r2 ;;
  '(d, r4) <- rd_str r3 ;; '(u, r5) <- rd_str r4 ;; '(pw, r6) <- rd_str r5 ;;
  Ok ({| pg_type := ty; pg_host := h; pg_salt := s; pg_digest := d; pg_user := u; pg_pass := pw |}, r6).

Definition U_pong (p : path) (bs : bytes) : res (pong * bytes) :=
  '(sz, r0) <- rd_arr_hdr bs ;;
  if negb (sz =? 5) then Err EArity else
  '(ty, r1) <- rd_str r0 ;; '(a, r2) <- rd_bool r1 ;; '(rs, r3) <- rd_str r2 ;;
  '(h, r4) <- rd_str r3 ;; '(d, r5) <- rd_str r4 ;;
  Ok ({| po_type := ty; po_auth := a; po_reason := rs; po_host := h; po_digest := d |}, r5).

Section Hash.
  Variable H : bytes -> bytes.

  (* computeHexDigest: hex(H(salt ++ hostname ++ nonce ++ key)) *)
  Definition digest (salt host nonce key : bytes) : bytes := hex (H (salt ++ host ++ nonce ++ key)).

  Definition new_ping (host key salt nonce : bytes) : ping :=
    {| pg_type := str "PING"; pg_host := host; pg_salt := salt; pg_digest := digest salt host nonce key;
       pg_user := []; pg_pass := [] |}.

  (* NewPong(authResult, reason, hostname, key, helo, ping): nil helo options are an error *)
  Definition new_pong (auth : bool) (reason host key : bytes) (h : helo) (p : ping) : res pong :=
    match hl_opts h with
    | None => Err EOther
    | Some o => Ok {| po_type := str "PONG"; po_auth := auth; po_reason := reason; po_host := host;
                      po_digest := digest (pg_salt p) host (h_nonce o) key |}
    end.

  Definition validate_ping (p : ping) (key nonce : bytes) : bool :=
    bytes_eqb (pg_digest p) (digest (pg_salt p) (pg_host p) nonce key).
  Definition validate_pong (p : pong) (key nonce salt : bytes) : bool :=
    bytes_eqb (po_digest p) (digest salt (po_host p) nonce key).

  (* Client.Handshake on a live session.  [inp1]: bytes the peer delivers before the PING
     is written, [inp2]: bytes it delivers afterwards (one msgp.Reader reads both).
     Result: the bytes written to the connection and whether transport phase is entered. *)
  Definition client_handshake (chost key salt inp1 inp2 : bytes) : bytes * res unit :=
    match U_helo Stream inp1 with
    | Err e => ([], Err e)
    | Panic => ([], Panic)
    | Ok (h, rest1) =>
        match hl_opts h with
        | None => ([], Err EOther)                              (* repair of D10: nil options *)
        | Some o =>
            let pg := M_ping (new_ping chost key salt (h_nonce o)) in
            match U_pong Stream (rest1 ++ inp2) with
            | Err e => (pg, Err e)
            | Panic => (pg, Panic)
            | Ok (po, _) =>
                if negb (po_auth po) then (pg, Err EOther)       (* repair of D8 *)
                else if validate_pong po key (h_nonce o) salt then (pg, Ok tt)
                else (pg, Err EOther)
            end
        end
    end.
End Hash.
