(* Entry points evaluated by the correspondence check: [run entry args] returns the
   canonical rendering of what the model computes.  Arguments are ASCII/hex byte strings. *)
From FF Require Import model.Bytes model.Show model.EntryEqual model.RunCodec model.RunHandshake model.RunClient model.RunConc model.RunWs model.RunSendBuf model.RunOptCells.
From Coq Require Import String.
Open Scope N_scope.

(* C20 *)
Definition parse_centry (bs : bytes) : centry :=
  match split_on colon bs with
  | [s; n; r] => (read_Z s, read_N n, unhex r)
  | _ => (0%Z, 0, [])
  end.
Definition parse_centries (bs : bytes) : list centry := map parse_centry (split_on comma bs).

Fixpoint count_eq (a : centry) (l : list centry) : nat :=
  match l with [] => O | b :: r => if centry_eqb a b then S (count_eq a r) else count_eq a r end.
Definition multiset_eqb (l1 l2 : list centry) : bool :=
  forallb (fun a => Nat.eqb (count_eq a l1) (count_eq a l2)) (l1 ++ l2).

Definition run_c20 (entry : bytes) (args : list bytes) : option bytes :=
  if bytes_eqb entry (str "equal") then
    match args with
    | [a; b] => Some (show_bool (equal centry_eqb (parse_centries a) (parse_centries b)))
    | _ => None end
  else if bytes_eqb entry (str "equal_pinned") then
    match args with
    | [a; b] => Some (show_bool (equal_pinned centry_eqb (parse_centries a) (parse_centries b)))
    | _ => None end
  else if bytes_eqb entry (str "judge_equal") then
    match args with
    | [a; b; r] =>
        Some (if Bool.eqb (multiset_eqb (parse_centries a) (parse_centries b)) (bytes_eqb r (str "t"))
              then str "ok" else str "bad")
    | _ => None end
  else None.

Definition first_some (l : list (option bytes)) : bytes :=
  fold_right (fun o acc => match o with Some x => x | None => acc end) (str "unknown-entry") l.

Definition run (entry : bytes) (args : list bytes) : bytes :=
  first_some [run_c20 entry args; run_codec entry args; run_handshake entry args; run_client entry args; run_conc entry args; run_ws entry args; run_sendbuf entry args; run_optcells entry args].

(* In-kernel cross-evaluation: cases are (entry, hex/ASCII args, expected). *)
Definition mismatches (cases : list (string * list string * string)) : list (string * list string * string) :=
  filter (fun c => match c with (e, a, x) =>
            negb (bytes_eqb (run (str e) (map str a)) (str x)) end) cases.
