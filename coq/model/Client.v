(* fluent/client/client.go: the TCP-style client as a sequential state machine.
   One step = one public method call, executed against a scripted environment (factory
   results, write faults, peer bytes).  A step returns the new state, the calls made on
   the environment objects (factory.New, conn.Write/Close/SetReadDeadline) and the
   method's result class.  Executable definitions only. *)
From FF Require Import model.Bytes model.Show model.Msgp model.Forward model.Handshake.
Open Scope N_scope.

Record cfg := { cf_key : option bytes;      (* AuthInfo.SharedKey (None = nil) *)
                cf_host : bytes;            (* Hostname *)
                cf_ack : bool;              (* RequireAck *)
                cf_timeout : bool }.        (* Timeout <> 0 *)

(* session: connection id and Session.TransportPhase *)
Record st := { s_sess : option (nat * bool); s_next : nat }.
Definition init_st : st := {| s_sess := None; s_next := 0 |}.

Inductive ev :=
| EvNew (ok : bool) (id : nat)                       (* ConnectionFactory.New; id of the conn handed out *)
| EvWrite (c : nat) (offered accepted : bytes) (tagk : N) (* one conn.Write call; tagk: 0 = event data, 1 = PING *)
| EvClose (c : nat)
| EvDeadline (c : nat).                              (* SetReadDeadline before reading an ack *)

Inductive ret := ROk | RErr | RTrue | RFalse | RPanic.

(* what a message offers to Send: the result of Chunk() and of encoding it *)
Record smsg := { sm_chunk : option bytes;            (* e.Chunk(): Some id | None = error *)
                 sm_enc : option bytes }.            (* None: EncodeMsg fails (unencodable record) *)

Inductive op :=
| OConnect (dial_ok : bool)
| ODisconnect
| OReconnect (dial_ok : bool)
| OHandshake (salt inp1 inp2 : bytes)
| OSend (m : smsg) (wfault : option N) (resp : bytes)   (* wfault = Some n: the conn accepts n bytes and fails *)
| OSendRaw (b : bytes) (wfault : option N)
| OTransportPhase.

(* one conn.Write under the io.Writer contract: a short write comes with an error *)
Definition do_write (c : nat) (b : bytes) (wfault : option N) (tagk : N) : list ev * bool :=
  match wfault with
  | None => ([EvWrite c b b tagk], true)
  | Some n => ([EvWrite c b (firstn (N.to_nat n) b) tagk], false)
  end.

Section WithHash.
  Variable H : bytes -> bytes.

  Definition connect (cf : cfg) (s : st) (dial_ok : bool) : st * list ev * ret :=
    if dial_ok then
      ({| s_sess := Some (s_next s, match cf_key cf with None => true | Some _ => false end);
          s_next := S (s_next s) |}, [EvNew true (s_next s)], ROk)
    else ({| s_sess := None; s_next := s_next s |}, [EvNew false (s_next s)], RErr).

  Definition disconnect (s : st) : st * list ev :=
    match s_sess s with
    | Some (c, _) => ({| s_sess := None; s_next := s_next s |}, [EvClose c])
    | None => (s, [])
    end.

  (* checkAck: deadline, decode one ack message from what the peer delivers, compare *)
  Definition check_ack (cf : cfg) (c : nat) (chunk resp : bytes) : list ev * ret :=
    let dl := if cf_timeout cf then [EvDeadline c] else [] in
    match U_ack Stream resp with
    | Ok (a, _) => (dl, if bytes_eqb a chunk then ROk else RErr)
    | Err _ => (dl, RErr)
    | Panic => (dl, RPanic)
    end.

  Definition step (cf : cfg) (s : st) (o : op) : st * list ev * ret :=
    match o with
    | OConnect ok =>
        match s_sess s with
        | Some _ => (s, [], RErr)                        (* "a session is already active": no dial *)
        | None => connect cf s ok
        end
    | ODisconnect => let '(s', e) := disconnect s in (s', e, ROk)
    | OReconnect ok =>
        let '(s1, e1) := disconnect s in
        let '(s2, e2, r) := connect cf s1 ok in (s2, e1 ++ e2, r)
    | OHandshake salt inp1 inp2 =>
        match s_sess s with
        | None => (s, [], RErr)
        | Some (c, tp) =>
            let key := match cf_key cf with Some k => k | None => [] end in
            let '(w, r) := client_handshake H (cf_host cf) key salt inp1 inp2 in
            let e := match w with [] => [] | _ => [EvWrite c w w 1] end in
            match r with
            | Ok _ => ({| s_sess := Some (c, true); s_next := s_next s |}, e, ROk)
            | Err _ => (s, e, RErr)
            | Panic => (s, e, RPanic)
            end
        end
    | OSend m wfault resp =>
        match s_sess s with
        | None => (s, [], RErr)
        | Some (_, false) => (s, [], RErr)
        | Some (c, true) =>
            let go (chunk : bytes) :=
                match sm_enc m with
                | None => (s, [], RErr)                  (* nothing reaches the connection *)
                | Some e =>
                    let '(w, ok) := do_write c e wfault 0 in
                    if negb ok then (s, w, RErr)
                    else if negb (cf_ack cf) then (s, w, ROk)
                    else let '(a, r) := check_ack cf c chunk resp in (s, w ++ a, r)
                end in
            if cf_ack cf then
              match sm_chunk m with
              | Some [] => (s, [], RErr)                  (* an empty chunk id cannot be acknowledged (repair of D17) *)
              | Some ch => go ch
              | None => (s, [], RErr)
              end
            else go []
        end
    | OSendRaw b wfault =>
        match s_sess s with
        | None => (s, [], RErr)
        | Some (_, false) => (s, [], RErr)
        | Some (c, true) =>
            let '(w, ok) := do_write c b wfault 0 in (s, w, if ok then ROk else RErr)
        end
    | OTransportPhase =>
        (s, [], match s_sess s with Some (_, true) => RTrue | _ => RFalse end)
    end.

  (* a history: the list of (events, result) per call, and the final state *)
  Fixpoint runs (cf : cfg) (s : st) (ops : list op) : list (list ev * ret) * st :=
    match ops with
    | [] => ([], s)
    | o :: r =>
        let '(s1, e, x) := step cf s o in
        let '(l, s2) := runs cf s1 r in ((e, x) :: l, s2)
    end.

  Definition trace (l : list (list ev * ret)) : list ev := flat_map fst l.
End WithHash.
