(* Entry point of the pooled send buffer model (model/SendBuf.v) for the correspondence check:
   one goroutine issues the given Sends one after the other; the pool follows the named
   policy (lifo: Get returns the buffer put back last, fifo: the one put back first, never:
   always a new one).  The result is the list of Write payloads, in order. *)
From FF Require Import model.Bytes model.Show model.Pool model.SendBuf model.RunCodec model.RunClient.
From Coq Require Import String.
Open Scope N_scope.

Definition parse_sreq (a : bytes) : sreq :=
  match split_on comma a with
  | [w; k] => {| q_written := hexf w; q_ok := flag k |}
  | _ => {| q_written := []; q_ok := false |}
  end.

Definition policy_choice (pol : bytes) (pool : list loc) : choice :=
  match pool with
  | [] => None
  | _ => if is pol "lifo" then Some O else if is pol "fifo" then Some (Nat.pred (List.length pool)) else None
  end.

(* all the micro-steps of goroutine 0's current call (at most 5) *)
Fixpoint sdrain (pol : bytes) (fuel : nat) (c : sconfig) : sconfig :=
  match fuel with
  | O => c
  | S f =>
      match sapply send_repaired c (SendStep 0 (policy_choice pol (ss_pool (sc_st c)))) with
      | Some c' => sdrain pol f c'
      | None => c
      end
  end.

Fixpoint sseq (pol : bytes) (c : sconfig) (qs : list sreq) : sconfig :=
  match qs with
  | [] => c
  | q :: r =>
      match sapply send_repaired c (SendCall 0 q) with
      | Some c' => sseq pol (sdrain pol 6 c') r
      | None => c
      end
  end.

Definition run_sendbuf (entry : bytes) (args : list bytes) : option bytes :=
  if bytes_eqb entry (str "sendbuf_seq") then
    match args with
    | [pol; qs] =>
        let c := sseq pol (sinit 1) (map parse_sreq (split_on semi qs)) in
        Some (sep_concat (str ",") (map (fun x => str "x" ++ hex (snd x)) (ss_wire (sc_st c))))
    | _ => None
    end
  else None.
