(* Reference monitors for the TCP-style client: the properties C06 / C14 / C09 / C04 as
   executable predicates over what can be OBSERVED of a client (the calls it makes on the
   factory and on the connections, and the results of its methods).  They are proved to
   accept every history of the model (proofs/Client_Proofs.v) and they judge the
   histories observed on the real code (extracted). *)
From FF Require Import model.Bytes model.Show model.Msgp model.Forward model.Client.
Open Scope N_scope.

Definition nat_mem (x : nat) (l : list nat) : bool := existsb (Nat.eqb x) l.
Definition nat_remove (x : nat) (l : list nat) : list nat := filter (fun y => negb (Nat.eqb x y)) l.

(* ---------- connection discipline over the whole call trace (C14, C06 last clause) ----------
   [open]: connections obtained and not yet closed; [dead]: connections closed.
   - a connection is dialled only while no obtained connection is open  (at most one live
     connection; the old one is closed before it is replaced)
   - ids are fresh
   - Write / SetReadDeadline / Close only on an open connection  (nothing is written to a
     connection after it was closed; no connection is closed twice) *)
Fixpoint trace_ok (open dead : list nat) (tr : list ev) : bool :=
  match tr with
  | [] => true
  | EvNew true id :: r =>
      match open with [] => negb (nat_mem id dead) && trace_ok [id] dead r | _ => false end
  | EvNew false _ :: r => match open with [] => trace_ok open dead r | _ => false end
  | EvWrite c _ _ _ :: r => nat_mem c open && trace_ok open dead r
  | EvDeadline c :: r => nat_mem c open && trace_ok open dead r
  | EvClose c :: r => nat_mem c open && trace_ok (nat_remove c open) (c :: dead) r
  end.

Fixpoint open_after (open : list nat) (tr : list ev) : list nat :=
  match tr with
  | [] => open
  | EvNew true id :: r => open_after (id :: open) r
  | EvClose c :: r => open_after (nat_remove c open) r
  | _ :: r => open_after open r
  end.

(* ---------- the reference session (C06): computed from method RESULTS only ---------- *)

Inductive okind := KConnect | KDisconnect | KReconnect | KHandshake | KSend | KSendRaw | KTransportPhase.
Definition kind_of (o : op) : okind :=
  match o with
  | OConnect _ => KConnect | ODisconnect => KDisconnect | OReconnect _ => KReconnect
  | OHandshake _ _ _ => KHandshake | OSend _ _ _ => KSend | OSendRaw _ _ => KSendRaw
  | OTransportPhase => KTransportPhase
  end.

Definition ref_state := option (nat * bool).     (* reference session: connection, transport phase *)

Definition is_event_write (c : nat) (e : ev) : bool :=
  match e with EvWrite c' _ _ 0 => Nat.eqb c c' | _ => false end.

(* monitor one call: [has_key] = a shared key is configured.  Returns the next reference
   state, or None when the observation violates the property. *)
Definition mon_step (has_key : bool) (rs : ref_state) (k : okind) (e : list ev) (r : ret) : option ref_state :=
  match k with
  | KConnect =>
      match rs, e, r with
      | Some _, [], RErr => Some rs                                   (* refused without dialling *)
      | None, [EvNew true id], ROk => Some (Some (id, negb has_key))
      | None, [EvNew false _], RErr => Some None
      | _, _, _ => None
      end
  | KDisconnect =>
      match rs, e with
      | Some (c, _), [EvClose c'] => if Nat.eqb c c' then Some None else None
      | None, [] => Some None
      | _, _ => None
      end
  | KReconnect =>
      let dial (e' : list ev) :=
          match e', r with
          | [EvNew true id], ROk => Some (Some (id, negb has_key))
          | [EvNew false _], RErr => Some None                        (* a failed Reconnect leaves no session *)
          | _, _ => None
          end in
      match rs, e with
      | Some (c, _), EvClose c' :: e' => if Nat.eqb c c' then dial e' else None
      | None, e' => dial e'
      | _, _ => None
      end
  | KHandshake =>
      match rs with
      | None => match e, r with [], RErr => Some None | _, _ => None end
      | Some (c, tp) =>
          let shape_ok := match e with
                          | [] => true
                          | [EvWrite c' o a 1] => Nat.eqb c c' && bytes_eqb o a   (* the single PING *)
                          | _ => false
                          end in
          if negb shape_ok then None
          else match r with
               | ROk => match e with [] => None | _ => Some (Some (c, true)) end   (* success only after the PING was sent *)
               | RErr => Some rs
               | _ => None
               end
      end
  | KSend | KSendRaw =>
      match rs with
      | Some (c, true) =>
          (* at most one write of event data on the session's connection, then at most one deadline *)
          match e, r with
          | [], RErr => Some rs
          | [EvWrite c' o a 0], (ROk | RErr) =>
              if Nat.eqb c c' && (match r with ROk => bytes_eqb o a | _ => true end) then Some rs else None
          | [EvWrite c' o a 0; EvDeadline c''], (ROk | RErr) =>
              if Nat.eqb c c' && Nat.eqb c c'' && bytes_eqb o a then Some rs else None
          | _, _ => None
          end
      | _ => match e, r with [], RErr => Some rs | _, _ => None end      (* no live authenticated session: error, nothing written *)
      end
  | KTransportPhase =>
      match e, r, rs with
      | [], RTrue, Some (_, true) => Some rs
      | [], RFalse, (None | Some (_, false)) => Some rs
      | _, _, _ => None
      end
  end.

Fixpoint monitor (has_key : bool) (rs : ref_state) (h : list (okind * list ev * ret)) : bool :=
  match h with
  | [] => true
  | (k, e, r) :: rest =>
      match mon_step has_key rs k e r with
      | Some rs' => monitor has_key rs' rest
      | None => false
      end
  end.

(* ---------- per-send judgement (C09 / C04): the observation of ONE send call ----------
   [enc]: the message's encoding (None = cannot be encoded), [raw]: SendRaw,
   [ack]: RequireAck, [chunk]: the chunk id the message carries on the wire,
   [resp]: what the peer delivered after the write. *)
Definition ack_matches (chunk resp : bytes) : bool :=
  match U_ack Stream resp with Ok (a, _) => bytes_eqb a chunk && negb (bytes_eqb chunk []) | _ => false end.

Definition accepted_bytes (e : list ev) : bytes :=
  flat_map (fun x => match x with EvWrite _ _ a _ => a | _ => [] end) e.

(* however many Write calls the message takes: the bytes accepted by the connection are a
   prefix of the encoding; success only if all of it was accepted (and the matching ack
   came back when acks are required); an unencodable message puts nothing on the wire *)
Definition send_ok (enc : option bytes) (ack : bool) (chunk resp : bytes) (e : list ev) (r : ret) : bool :=
  let acc := accepted_bytes e in
  match enc with
  | None => match acc, r with [], RErr => true | _, _ => false end
  | Some b =>
      bytes_eqb acc (firstn (length acc) b)
      && match r with
         | ROk => bytes_eqb acc b && (negb ack || ack_matches chunk resp)
         | RErr => true
         | _ => false
         end
  end.
