(* Fluent Forward Protocol v1 and msgpack, written from the specifications and
   independently of Msgp.v / Forward.v: a parser accepting every legal msgpack
   encoding, the message shapes of the protocol, and class-insensitive renderings.
   Used as the judge of what the real code emits and decodes. *)
From FF Require Import model.Bytes model.Show.
From Coq Require Import String.
Open Scope N_scope.

Inductive value :=
| VNil | VBool (b : bool) | VInt (z : Z) | VF32 (bits : N) | VF64 (bits : N)
| VStr (s : bytes) | VBin (s : bytes) | VArr (l : list value) | VMap (l : list (value * value))
| VExt (ty : N) (data : bytes).

Definition otake (k : N) (bs : bytes) : option (bytes * bytes) := split_at k bs.
Definition onum (k : N) (bs : bytes) : option (N * bytes) :=
  match otake k bs with Some (h, t) => Some (unbe h, t) | None => None end.
Definition obind {A B} (x : option A) (f : A -> option B) : option B :=
  match x with Some a => f a | None => None end.
Notation "' pat <~ c1 ;; c2" := (obind c1 (fun x => match x with pat => c2 end))
  (at level 61, pat pattern, c1 at next level, right associativity).

Arguments otake : simpl never.
Arguments onum : simpl never.

Definition sized (mk : bytes -> value) (k : N) (r : bytes) : option (value * bytes) :=
  '(l, t) <~ onum k r ;; '(s, u) <~ otake l t ;; Some (mk s, u).
Definition ext_sized (k : N) (r : bytes) : option (value * bytes) :=
  '(l, t) <~ onum k r ;; '(ty, u) <~ onum 1 t ;; '(d, w) <~ otake l u ;; Some (VExt ty d, w).
Definition ext_fixed (l : N) (r : bytes) : option (value * bytes) :=
  '(ty, u) <~ onum 1 r ;; '(d, w) <~ otake l u ;; Some (VExt ty d, w).

(* msgpack specification, all formats.  Fuel: > length of the input suffices. *)
Fixpoint parse (fuel : nat) (bs : bytes) {struct fuel} : option (value * bytes) :=
  match fuel with
  | O => None
  | S f =>
    match bs with
    | [] => None
    | b :: r =>
      let n := b2n b in
      if n <? 128 then Some (VInt (Z.of_N n), r)                       (* positive fixint *)
      else if n <? 144 then parse_map f (n - 128) r []                  (* fixmap *)
      else if n <? 160 then parse_arr f (n - 144) r []                  (* fixarray *)
      else if n <? 192 then '(s, u) <~ otake (n - 160) r ;; Some (VStr s, u)   (* fixstr *)
      else if n =? 192 then Some (VNil, r)
      else if n =? 193 then None                                        (* never used *)
      else if n =? 194 then Some (VBool false, r)
      else if n =? 195 then Some (VBool true, r)
      else if n =? 196 then sized VBin 1 r
      else if n =? 197 then sized VBin 2 r
      else if n =? 198 then sized VBin 4 r
      else if n =? 199 then ext_sized 1 r
      else if n =? 200 then ext_sized 2 r
      else if n =? 201 then ext_sized 4 r
      else if n =? 202 then '(x, u) <~ onum 4 r ;; Some (VF32 x, u)
      else if n =? 203 then '(x, u) <~ onum 8 r ;; Some (VF64 x, u)
      else if n =? 204 then '(x, u) <~ onum 1 r ;; Some (VInt (Z.of_N x), u)
      else if n =? 205 then '(x, u) <~ onum 2 r ;; Some (VInt (Z.of_N x), u)
      else if n =? 206 then '(x, u) <~ onum 4 r ;; Some (VInt (Z.of_N x), u)
      else if n =? 207 then '(x, u) <~ onum 8 r ;; Some (VInt (Z.of_N x), u)
      else if n =? 208 then '(x, u) <~ onum 1 r ;; Some (VInt (n2z 1 x), u)
      else if n =? 209 then '(x, u) <~ onum 2 r ;; Some (VInt (n2z 2 x), u)
      else if n =? 210 then '(x, u) <~ onum 4 r ;; Some (VInt (n2z 4 x), u)
      else if n =? 211 then '(x, u) <~ onum 8 r ;; Some (VInt (n2z 8 x), u)
      else if n =? 212 then ext_fixed 1 r
      else if n =? 213 then ext_fixed 2 r
      else if n =? 214 then ext_fixed 4 r
      else if n =? 215 then ext_fixed 8 r
      else if n =? 216 then ext_fixed 16 r
      else if n =? 217 then sized VStr 1 r
      else if n =? 218 then sized VStr 2 r
      else if n =? 219 then sized VStr 4 r
      else if n =? 220 then '(c, u) <~ onum 2 r ;; parse_arr f c u []
      else if n =? 221 then '(c, u) <~ onum 4 r ;; parse_arr f c u []
      else if n =? 222 then '(c, u) <~ onum 2 r ;; parse_map f c u []
      else if n =? 223 then '(c, u) <~ onum 4 r ;; parse_map f c u []
      else Some (VInt (Z.of_N n - 256), r)                              (* negative fixint *)
    end
  end
with parse_arr (fuel : nat) (cnt : N) (bs : bytes) (acc : list value) {struct fuel} : option (value * bytes) :=
  match fuel with
  | O => None
  | S f =>
      if cnt =? 0 then Some (VArr (rev_append acc []), bs)
      else '(v, r) <~ parse f bs ;; parse_arr f (cnt - 1) r (v :: acc)
  end
with parse_map (fuel : nat) (cnt : N) (bs : bytes) (acc : list (value * value)) {struct fuel} : option (value * bytes) :=
  match fuel with
  | O => None
  | S f =>
      if cnt =? 0 then Some (VMap (rev_append acc []), bs)
      else '(k, r) <~ parse f bs ;; '(v, r') <~ parse f r ;; parse_map f (cnt - 1) r' ((k, v) :: acc)
  end.

Definition parse1 (bs : bytes) : option (value * bytes) := parse (S (S (3 * List.length bs))) bs.

(* ---------- protocol shapes ---------- *)

Inductive stime := TInt (z : Z) | TEvent (sec nsec : N).

Record sopts := { so_size : option Z; so_chunk : option bytes; so_comp : option bytes; so_other : list (bytes * value) }.

Inductive smsg :=
| SMessage (tag : bytes) (t : stime) (rec : value) (opt : option sopts)
| SForward (tag : bytes) (entries : list (stime * value)) (opt : option sopts)
| SPacked (tag : bytes) (stream : bytes) (opt : option sopts).

Definition as_time (v : value) : option stime :=
  match v with
  | VInt z => Some (TInt z)
  | VExt ty d => if (ty =? 0) && (len d =? 8) then Some (TEvent (unbe (firstn 4 d)) (unbe (skipn 4 d))) else None
  | _ => None
  end.

Definition as_eventtime (v : value) : option stime :=
  match as_time v with Some (TEvent s n) => Some (TEvent s n) | _ => None end.

Definition is_map (v : value) : bool := match v with VMap _ => true | _ => false end.

(* option map: keys are strings; size:int, chunk:str, compressed:str; other keys are kept aside.
   A repeated key makes the map ill-formed. *)
Fixpoint as_opts_loop (l : list (value * value)) (o : sopts) : option sopts :=
  match l with
  | [] => Some o
  | (VStr k, v) :: r =>
      if bytes_eqb k (str "size") then
        match v, so_size o with VInt z, None => as_opts_loop r {| so_size := Some z; so_chunk := so_chunk o; so_comp := so_comp o; so_other := so_other o |} | _, _ => None end
      else if bytes_eqb k (str "chunk") then
        match v, so_chunk o with VStr c, None => as_opts_loop r {| so_size := so_size o; so_chunk := Some c; so_comp := so_comp o; so_other := so_other o |} | _, _ => None end
      else if bytes_eqb k (str "compressed") then
        match v, so_comp o with VStr c, None => as_opts_loop r {| so_size := so_size o; so_chunk := so_chunk o; so_comp := Some c; so_other := so_other o |} | _, _ => None end
      else
        if existsb (fun kv => bytes_eqb (fst kv) k) (so_other o) then None
        else as_opts_loop r {| so_size := so_size o; so_chunk := so_chunk o; so_comp := so_comp o; so_other := so_other o ++ [(k, v)] |}
  | _ => None
  end.

(* Some None = options absent or nil; Some (Some o) = an option map *)
Definition as_optfield (v : option value) : option (option sopts) :=
  match v with
  | None => Some None
  | Some VNil => Some None
  | Some (VMap l) => match as_opts_loop l {| so_size := None; so_chunk := None; so_comp := None; so_other := [] |} with Some o => Some (Some o) | None => None end
  | Some _ => None
  end.

(* [strict]: records must be maps (the protocol's wire format, C02); otherwise any
   msgpack value is accepted as a record (the library's documented input space, C01) *)
Fixpoint as_entries (strict : bool) (l : list value) : option (list (stime * value)) :=
  match l with
  | [] => Some []
  | VArr [t; r] :: rest =>
      match as_eventtime t, as_entries strict rest with
      | Some t', Some es => if is_map r || negb strict then Some ((t', r) :: es) else None
      | _, _ => None
      end
  | _ => None
  end.

Definition shape_message_gen (strict : bool) (v : value) : option smsg :=
  match v with
  | VArr (VStr tag :: t :: rec :: rest) =>
      match as_time t, rest with
      | Some t', ([] | [_]) =>
          if is_map rec || negb strict then
            match as_optfield (hd_error rest) with Some o => Some (SMessage tag t' rec o) | None => None end
          else None
      | _, _ => None
      end
  | _ => None
  end.

Definition shape_message := shape_message_gen true.

Definition shape_forward_gen (strict : bool) (v : value) : option smsg :=
  match v with
  | VArr (VStr tag :: VArr es :: rest) =>
      match as_entries strict es, rest with
      | Some es', ([] | [_]) =>
          match as_optfield (hd_error rest) with Some o => Some (SForward tag es' o) | None => None end
      | _, _ => None
      end
  | _ => None
  end.

Definition shape_forward := shape_forward_gen true.

Definition shape_packed (v : value) : option smsg :=
  match v with
  | VArr (VStr tag :: VBin st :: rest) =>
      match rest with
      | [] | [_] => match as_optfield (hd_error rest) with Some o => Some (SPacked tag st o) | None => None end
      | _ => None
      end
  | _ => None
  end.

(* a message of any mode: the modes are distinguished by the type of the second element *)
Definition shape_any_gen (strict : bool) (v : value) : option smsg :=
  match shape_message_gen strict v with
  | Some m => Some m
  | None => match shape_forward_gen strict v with Some m => Some m | None => shape_packed v end
  end.
Definition shape_any := shape_any_gen true.

Definition spec_parse (shape : value -> option smsg) (bs : bytes) : option (smsg * bytes) :=
  '(v, r) <~ parse1 bs ;; match shape v with Some m => Some (m, r) | None => None end.

Definition smsg_opts (m : smsg) : option sopts :=
  match m with SMessage _ _ _ o | SForward _ _ o | SPacked _ _ o => o end.

(* the chunk id the specification assigns to a message *)
Definition spec_chunk (m : smsg) : option bytes :=
  match smsg_opts m with Some o => so_chunk o | None => None end.

(* ---------- class-insensitive rendering (numbers as n:<dec>) ---------- *)

Fixpoint ins_sorted_s (k : bytes) (v : bytes) (l : list (bytes * bytes)) : list (bytes * bytes) :=
  match l with
  | [] => [(k, v)]
  | (k', v') :: r =>
      match bytes_cmp k k' with
      | Lt => (k, v) :: l
      | Eq => (k, v) :: r
      | Gt => (k', v') :: ins_sorted_s k v r
      end
  end.

Fixpoint show_value (v : value) : bytes :=
  match v with
  | VNil => str "nil"
  | VBool b => show_bool b
  | VInt z => str "n:" ++ show_Z z
  | VF32 b => str "f32:" ++ hex (be 4 b)
  | VF64 b => str "f64:" ++ hex (be 8 b)
  | VStr s => str "s:" ++ hex s
  | VBin s => str "b:" ++ hex s
  | VArr l => str "[" ++ sep_concat (str ",") (map show_value l) ++ str "]"
  | VMap l =>
      str "{" ++ sep_concat (str ",")
        (map (fun kv => fst kv ++ str "=" ++ snd kv)
             (fold_left (fun acc kv => ins_sorted_s (fst kv) (snd kv) acc)
                        (map (fun kv => (match fst kv with VStr k | VBin k => hex k | _ => str "?" end, show_value (snd kv))) l) []))
      ++ str "}"
  | VExt t d =>
      if (t =? 0) && (len d =? 8) then
        let s := unbe (firstn 4 d) in let ns := unbe (skipn 4 d) in
        str "et:" ++ show_N (s + ns / 1000000000) ++ str "." ++ show_N (ns mod 1000000000)
      else str "ext:" ++ show_Z (n2z 1 t) ++ str ":" ++ hex d
  end.

Definition show_stime (t : stime) : bytes :=
  match t with
  | TInt z => show_Z z
  | TEvent s ns => show_N (s + ns / 1000000000) ++ str "." ++ show_N (ns mod 1000000000)
  end.

Definition show_sopts (o : option sopts) : bytes :=
  match o with
  | None => str "none"
  | Some o =>
      str "{size=" ++ (match so_size o with Some z => show_Z z | None => str "-" end)
      ++ str ",chunk=" ++ hex (match so_chunk o with Some c => c | None => [] end)
      ++ str ",comp=" ++ hex (match so_comp o with Some c => c | None => [] end) ++ str "}"
  end.

Definition show_smsg (m : smsg) : bytes :=
  match m with
  | SMessage tag (TInt z) rec o =>
      str "message(tag=" ++ hex tag ++ str ",ts=" ++ show_Z z ++ str ",rec=" ++ show_value rec ++ str ",opt=" ++ show_sopts o ++ str ")"
  | SMessage tag t rec o =>
      str "messageext(tag=" ++ hex tag ++ str ",ts=" ++ show_stime t ++ str ",rec=" ++ show_value rec ++ str ",opt=" ++ show_sopts o ++ str ")"
  | SForward tag es o =>
      str "forward(tag=" ++ hex tag ++ str ",entries=[" ++
        sep_concat (str ",") (map (fun e => str "(" ++ show_stime (fst e) ++ str "," ++ show_value (snd e) ++ str ")") es)
      ++ str "],opt=" ++ show_sopts o ++ str ")"
  | SPacked tag st o =>
      str "packed(tag=" ++ hex tag ++ str ",stream=" ++ hex st ++ str ",opt=" ++ show_sopts o ++ str ")"
  end.

(* handshake and ack shapes *)
Definition shape_ack (v : value) : option bytes :=
  match v with VMap [(VStr k, VStr a)] => if bytes_eqb k (str "ack") then Some a else None | _ => None end.

(* HELO / PING / PONG (Forward Protocol v1, "Handshake Phase") *)
Definition binstr (v : value) : option bytes := match v with VBin s | VStr s => Some s | _ => None end.
Definition vstr (v : value) : option bytes := match v with VStr s => Some s | _ => None end.

Definition lookup_opt (k : bytes) (l : list (value * value)) : option value :=
  match find (fun kv => match fst kv with VStr k' => bytes_eqb k k' | _ => false end) l with
  | Some kv => Some (snd kv) | None => None end.

Definition show_helo (v : value) : option bytes :=
  match v with
  | VArr [VStr ty; VMap l] =>
      if bytes_eqb ty (str "HELO") then
        match lookup_opt (str "nonce") l, lookup_opt (str "auth") l, lookup_opt (str "keepalive") l with
        | Some n, Some a, Some (VBool k) =>
            match binstr n, binstr a with
            | Some n', Some a' =>
                if len l =? 3 then Some (str "helo(nonce=" ++ hex n' ++ str ",auth=" ++ hex a' ++ str ",keepalive=" ++ show_bool k ++ str ")") else None
            | _, _ => None end
        | _, _, _ => None end
      else None
  | _ => None
  end.

Definition show_ping (v : value) : option bytes :=
  match v with
  | VArr [VStr ty; VStr host; salt; VStr digest; VStr user; VStr pass] =>
      match binstr salt with
      | Some s =>
          if bytes_eqb ty (str "PING") then
            Some (str "ping(host=" ++ hex host ++ str ",salt=" ++ hex s ++ str ",digest=" ++ hex digest
                  ++ str ",user=" ++ hex user ++ str ",pass=" ++ hex pass ++ str ")")
          else None
      | None => None end
  | _ => None
  end.

Definition show_pong (v : value) : option bytes :=
  match v with
  | VArr [VStr ty; VBool a; VStr reason; VStr host; VStr digest] =>
      if bytes_eqb ty (str "PONG") then
        Some (str "pong(auth=" ++ show_bool a ++ str ",reason=" ++ hex reason ++ str ",host=" ++ hex host
              ++ str ",digest=" ++ hex digest ++ str ")")
      else None
  | _ => None
  end.

Definition show_ack (v : value) : option bytes :=
  match shape_ack v with Some a => Some (str "ack(" ++ hex a ++ str ")") | None => None end.

(* the instant a Message-mode message carries: whole seconds, or seconds*10^9 + nanoseconds *)
Definition stamp_of (m : smsg) : option (bool * Z) :=
  match m with
  | SMessage _ (TInt z) _ _ => Some (false, z)
  | SMessage _ (TEvent s n) _ _ => Some (true, Z.of_N (s * 1000000000 + n))
  | _ => None
  end.
Definition unstamp (m : smsg) : smsg :=
  match m with SMessage tag _ r o => SMessage tag (TInt 0) r o | m => m end.
