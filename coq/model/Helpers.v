(* The constructors of fluent/protocol (NewMessage, NewMessageExt, NewForwardMessage,
   NewPackedForwardMessage[FromBytes], NewCompressedPackedForwardMessage[FromBytes]) and the Send*
   helpers of fluent/client/client.go, which are "build the message of the mode the helper names,
   then Send it".  The clock is a parameter: [now] is time.Now() as Unix seconds and nanoseconds.
   gzip is a parameter as in model/Pool.v.  Executable definitions only. *)
From FF Require Import model.Bytes model.Show model.Msgp model.Forward model.Pool.
Open Scope N_scope.

Definition new_message (now : Z * N) (tag : bytes) (rec : gval) : message :=
  {| m_tag := tag; m_ts := fst now; m_rec := rec; m_opts := None |}.       (* time.Now().UTC().Unix() *)
Definition new_message_ext (now : Z * N) (tag : bytes) (rec : gval) : message_ext :=
  {| x_tag := tag; x_ts := now; x_rec := rec; x_opts := None |}.            (* EventTimeNow() *)
Definition new_forward (tag : bytes) (es : list entry) : forward :=
  {| f_tag := tag; f_entries := es; f_opts := Some (size_opts (List.length es)) |}.
Definition new_packed_from_bytes (tag st : bytes) : packed :=
  {| p_tag := tag; p_stream := st; p_opts := None |}.
Definition new_packed (tag : bytes) (es : list entry) : res packed :=
  st <- marshal_packed es ;; Ok {| p_tag := tag; p_stream := st; p_opts := Some (size_opts (List.length es)) |}.

Section Gz.
  Variable gz : bytes -> bytes.
  Definition gzip_opts (size : option Z) : options := {| o_size := size; o_chunk := []; o_comp := gzip_name |}.
  Definition new_compressed_from_bytes (tag st : bytes) : packed :=
    {| p_tag := tag; p_stream := gz st; p_opts := Some (gzip_opts None) |}.
  Definition new_compressed (tag : bytes) (es : list entry) : res packed :=
    st <- marshal_packed es ;;
    Ok {| p_tag := tag; p_stream := gz st; p_opts := Some (gzip_opts (Some (Z.of_nat (List.length es)))) |}.

  (* the Send* helpers of the TCP-style client *)
  Inductive helper :=
  | HSendMessage (tag : bytes) (rec : gval)
  | HSendMessageExt (tag : bytes) (rec : gval)
  | HSendForward (tag : bytes) (es : list entry)
  | HSendPacked (tag : bytes) (es : list entry)
  | HSendPackedFromBytes (tag st : bytes)
  | HSendCompressed (tag : bytes) (es : list entry)
  | HSendCompressedFromBytes (tag st : bytes).

  (* what the helper hands to Send, encoded: the bytes a successful call puts on the wire *)
  Definition helper_wire (now : Z * N) (h : helper) : res bytes :=
    match h with
    | HSendMessage tag rec => M_message (new_message now tag rec)
    | HSendMessageExt tag rec => M_message_ext (new_message_ext now tag rec)
    | HSendForward tag es => M_forward (new_forward tag es)
    | HSendPacked tag es => m <- new_packed tag es ;; Ok (M_packed m)
    | HSendPackedFromBytes tag st => Ok (M_packed (new_packed_from_bytes tag st))
    | HSendCompressed tag es => m <- new_compressed tag es ;; Ok (M_packed m)
    | HSendCompressedFromBytes tag st => Ok (M_packed (new_compressed_from_bytes tag st))
    end.
End Gz.
