(* The entry-list decoders of model/Forward.v give every entry's record reader fuel proportional to the
   input that is left (U_entry: rd_intf p (fuel_for r1) r1), as the Go recursion simply runs until the input
   is exhausted.  Evaluated, that is a walk over the remaining input per entry: quadratic in the number of
   entries.  These are the same decoders with the loop's own remaining fuel handed down instead; they are
   what the correspondence check runs (model/RunCodec.v), and proofs/Fuel_Proofs.v shows them equal to
   the ones the property theorems speak about.  Executable definitions only. *)
From FF Require Import model.Bytes model.Msgp model.Forward.
Open Scope N_scope.

Definition U_entry_f (p : path) (f : nat) (bs : bytes) : res (entry * bytes) :=
  '(sz, r0) <- rd_arr_hdr bs ;;
  if negb (sz =? 2) then Err EArity else
  '(s, ns, r1) <- rd_eventtime r0 ;;
  '(rec, r2) <- rd_intf p f r1 ;;
  Ok ({| e_ts := (s, ns); e_rec := rec |}, r2).

Fixpoint U_entries_loop_f (p : path) (fuel : nat) (cnt : N) (bs : bytes) (acc : list entry) {struct fuel} : res (list entry * bytes) :=
  match fuel with
  | O => Err EFuel
  | S f =>
      if cnt =? 0 then Ok (rev_append acc [], bs)
      else '(e, r) <- U_entry_f p f bs ;; U_entries_loop_f p f (cnt - 1) r (e :: acc)
  end.

Definition U_entry_list_f (p : path) (bs : bytes) : res (list entry * bytes) :=
  '(c, r) <- rd_arr_hdr bs ;; U_entries_loop_f p (fuel_for r) c r [].

Definition U_forward_f (p : path) (prev : forward) (bs : bytes) : res (forward * bytes) :=
  let cur_opts : option options := None in
  '(sz, r0) <- rd_arr_hdr bs ;;
  if negb (arity_ok 2 sz) then Err EArity else
  '(tag, r1) <- rd_str r0 ;;
  '(es, r2) <- U_entry_list_f p r1 ;;
  '(o, r3) <- U_tail p (sz =? 3) r2 ;;
  Ok ({| f_tag := tag; f_entries := es; f_opts := match o with Some x => Some x | None => cur_opts end |}, r3).

Fixpoint unmarshal_packed_loop_f (fuel : nat) (bs : bytes) (acc : list entry) {struct fuel} : res (list entry) :=
  match fuel with
  | O => Err EFuel
  | S f =>
      match bs with
      | [] => Ok (rev_append acc [])
      | _ => '(e, r) <- U_entry_f Slice f bs ;; unmarshal_packed_loop_f f r (e :: acc)
      end
  end.
Definition unmarshal_packed_f (bs : bytes) : res (list entry) := unmarshal_packed_loop_f (fuel_for bs) bs [].
