(* The buffer recycling as it was at the pinned commit, and a mutant, as regression
   witnesses (same text as model/Pool.v, other [variant]):
   - pinned (D2, D3): MarshalPacked returned buf.Bytes() and
     NewCompressedPackedForwardMessageFromBytes wrapped mc.Bytes(): the slice handed to the caller IS the pooled cell, which the next
     Get hands to somebody else who Resets and overwrites it;
   - noreset: a library that forgot Reset after Get (never in the tree: shows that the value
     theorems do see the Reset).
   Executable definitions only. *)
From FF Require Import model.Bytes model.Msgp model.Forward model.Pool.

Definition pinned : variant := {| v_copy := false; v_reset := true |}.
Definition noreset : variant := {| v_copy := true; v_reset := false |}.

Section PoolPinned.
  Variable gz : bytes -> bytes.
  Definition pstep_pinned := pstep_gen gz pinned.
  Definition run_call_pinned := run_call_gen gz pinned.
  Definition run_calls_pinned := run_calls_gen gz pinned.
  Definition capply_pinned := capply_gen gz pinned.
  Definition cexec_pinned := cexec_gen gz pinned.

  Definition run_call_noreset := run_call_gen gz noreset.
  Definition run_calls_noreset := run_calls_gen gz noreset.
End PoolPinned.
