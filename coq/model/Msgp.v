(* tinylib/msgp v1.1.9 at the level of the primitives fluent-forward-go calls.
   One Gallina function per library routine; the two decoding paths (slice =
   read_bytes.go, stream = read.go) share a definition where they take the same
   decisions and are split by [path] where they differ.  Executable definitions only. *)
From FF Require Import model.Bytes.
Open Scope N_scope.

Inductive err := EShort | EType | EInvalid | EOverflow | EExt | EArity | ENotFound | ELen | EFuel | EEncode | EOther.
Inductive res (A : Type) := Ok (a : A) | Err (e : err) | Panic.
Arguments Ok {A}. Arguments Err {A}. Arguments Panic {A}.

Definition bind {A B} (x : res A) (f : A -> res B) : res B :=
  match x with Ok a => f a | Err e => Err e | Panic => Panic end.
Notation "x <- c1 ;; c2" := (bind c1 (fun x => c2)) (at level 61, c1 at next level, right associativity).
Notation "' pat <- c1 ;; c2" := (bind c1 (fun x => match x with pat => c2 end))
  (at level 61, pat pattern, c1 at next level, right associativity).

Definition is_ok {A} (r : res A) : bool := match r with Ok _ => true | _ => false end.
Definition is_err {A} (r : res A) : bool := match r with Err _ => true | _ => false end.

Inductive path := Slice | Stream.

(* Go's dynamic values (interface{}) as far as msgp produces or consumes them. *)
Inductive gval :=
| GNil
| GBool (b : bool)
| GInt (z : Z)                       (* int64 (any signed Go integer type on input) *)
| GUint (n : N)                      (* uint64 (any unsigned Go integer type on input) *)
| GF32 (bits : N)
| GF64 (bits : N)
| GStr (s : bytes)
| GBin (s : bytes)
| GArr (l : list gval)
| GMap (l : list (bytes * gval))     (* map[string]interface{}: entries in wire/iteration order *)
| GTime (sec : Z) (nsec : N)         (* time.Time, normalised instant *)
| GC64 (bits : N)                    (* complex64: 8 payload bytes as a number *)
| GC128 (hi lo : N)                  (* complex128: 16 payload bytes *)
| GEventTime (sec : Z) (nsec : N)    (* *protocol.EventTime, normalised instant *)
| GRawExt (ty : N) (data : bytes)    (* *msgp.RawExtension, type byte as unsigned *)
| GBad.                              (* a value msgp cannot encode (chan, func, ...) *)

(* ---------- basic cursor operations ---------- *)

Definition take (k : N) (bs : bytes) : res (bytes * bytes) :=
  match split_at k bs with Some p => Ok p | None => Err EShort end.

Definition rd_be (k : nat) (bs : bytes) : res (N * bytes) :=
  '(h, t) <- take (N.of_nat k) bs ;; Ok (unbe h, t).

Arguments take : simpl never.
Arguments rd_be : simpl never.

Definition nsec_mod : N := 1000000000.

(* ---------- writers (MarshalMsg / Append*; EncodeMsg produces the same bytes) ---------- *)

Definition hdr3 (fix_base fix_max c16 c32 : N) (n : N) : bytes :=
  if n <=? fix_max then [n2b (fix_base + n)]
  else if n <? 65536 then n2b c16 :: be 2 n
  else n2b c32 :: be 4 n.

Definition enc_arr_hdr (n : N) : bytes := hdr3 144 15 220 221 n.
Definition enc_map_hdr (n : N) : bytes := hdr3 128 15 222 223 n.

Definition enc_str_hdr (l : N) : bytes :=
  if l <? 32 then [n2b (160 + l)]
  else if l <? 256 then n2b 217 :: be 1 l
  else if l <? 65536 then n2b 218 :: be 2 l
  else n2b 219 :: be 4 l.
Definition enc_str (s : bytes) : bytes := enc_str_hdr (len s) ++ s.

Definition enc_bin_hdr (l : N) : bytes :=
  if l <? 256 then n2b 196 :: be 1 l
  else if l <? 65536 then n2b 197 :: be 2 l
  else n2b 198 :: be 4 l.
Definition enc_bin (s : bytes) : bytes := enc_bin_hdr (len s) ++ s.

(* AppendInt64: narrowest signed-family encoding *)
Definition enc_int (z : Z) : bytes :=
  if (0 <=? z)%Z then
    let n := Z.to_N z in
    if n <? 128 then [n2b n]
    else if n <? 32768 then n2b 209 :: be 2 n
    else if n <? 2147483648 then n2b 210 :: be 4 n
    else n2b 211 :: be 8 n
  else
    if (-32 <=? z)%Z then [n2b (z2n 1 z)]
    else if (-128 <=? z)%Z then n2b 208 :: be 1 (z2n 1 z)
    else if (-32768 <=? z)%Z then n2b 209 :: be 2 (z2n 2 z)
    else if (-2147483648 <=? z)%Z then n2b 210 :: be 4 (z2n 4 z)
    else n2b 211 :: be 8 (z2n 8 z).

(* AppendUint64: narrowest unsigned-family encoding *)
Definition enc_uint (n : N) : bytes :=
  if n <? 128 then [n2b n]
  else if n <? 256 then n2b 204 :: be 1 n
  else if n <? 65536 then n2b 205 :: be 2 n
  else if n <? 4294967296 then n2b 206 :: be 4 n
  else n2b 207 :: be 8 n.

Definition enc_nil : bytes := [n2b 192].
Definition enc_bool (b : bool) : bytes := [n2b (if b then 195 else 194)].
Definition enc_f32 (bits : N) : bytes := n2b 202 :: be 4 bits.
Definition enc_f64 (bits : N) : bytes := n2b 203 :: be 8 bits.

(* AppendExtension: header by payload length, then payload *)
Definition enc_ext (ty : N) (data : bytes) : bytes :=
  let l := len data in
  if l =? 0 then [n2b 199; n2b 0; n2b ty]
  else if l =? 1 then n2b 212 :: n2b ty :: data
  else if l =? 2 then n2b 213 :: n2b ty :: data
  else if l =? 4 then n2b 214 :: n2b ty :: data
  else if l =? 8 then n2b 215 :: n2b ty :: data
  else if l =? 16 then n2b 216 :: n2b ty :: data
  else if l <? 255 then n2b 199 :: be 1 l ++ n2b ty :: data
  else if l <? 65535 then n2b 200 :: be 2 l ++ n2b ty :: data
  else n2b 201 :: be 4 l ++ n2b ty :: data.

(* EventTime.MarshalBinaryTo: uint32(Unix()) then uint32(Nanosecond()), big endian *)
Definition et_payload (sec : Z) (nsec : N) : bytes := be 4 (z2n 4 sec) ++ be 4 nsec.
Definition enc_eventtime (sec : Z) (nsec : N) : bytes := enc_ext 0 (et_payload sec nsec).

(* AppendTime: ext8, 12 bytes, type 5: int64 seconds, int32 nanoseconds *)
Definition enc_time (sec : Z) (nsec : N) : bytes :=
  n2b 199 :: n2b 12 :: n2b 5 :: be 8 (z2n 8 sec) ++ be 4 nsec.

Fixpoint enc_gval (v : gval) : res bytes :=
  match v with
  | GNil => Ok enc_nil
  | GBool b => Ok (enc_bool b)
  | GInt z => Ok (enc_int z)
  | GUint n => Ok (enc_uint n)
  | GF32 b => Ok (enc_f32 b)
  | GF64 b => Ok (enc_f64 b)
  | GStr s => Ok (enc_str s)
  | GBin s => Ok (enc_bin s)
  | GArr l =>
      (fix go (l : list gval) (acc : bytes) : res bytes :=
         match l with
         | [] => Ok acc
         | x :: r => e <- enc_gval x ;; go r (acc ++ e)
         end) l (enc_arr_hdr (len l))
  | GMap l =>
      (fix go (l : list (bytes * gval)) (acc : bytes) : res bytes :=
         match l with
         | [] => Ok acc
         | (k, x) :: r => e <- enc_gval x ;; go r (acc ++ enc_str k ++ e)
         end) l (enc_map_hdr (len l))
  | GTime s n => Ok (enc_time s n)
  | GC64 b => Ok (n2b 215 :: n2b 3 :: be 8 b)
  | GC128 h l => Ok (n2b 216 :: n2b 4 :: be 8 h ++ be 8 l)
  | GEventTime s n => Ok (enc_eventtime s n)
  | GRawExt ty d => Ok (enc_ext ty d)
  | GBad => Err EEncode
  end.

(* What decoding the canonical encoding yields: a positive fixint belongs to the int
   family, so unsigned values below 128 come back as int64; everything else is kept. *)
Fixpoint norm_gval (v : gval) : gval :=
  match v with
  | GUint n => if n <? 128 then GInt (Z.of_N n) else GUint n
  | GArr l => GArr (map norm_gval l)
  | GMap l => GMap (map (fun kv => (fst kv, norm_gval (snd kv))) l)
  | v => v
  end.

(* ---------- readers ---------- *)

(* ReadArrayHeaderBytes / Reader.ReadArrayHeader *)
Definition rd_arr_hdr (bs : bytes) : res (N * bytes) :=
  match bs with
  | [] => Err EShort
  | b :: r =>
      let n := b2n b in
      if (144 <=? n) && (n <=? 159) then Ok (n - 144, r)
      else if n =? 220 then rd_be 2 r
      else if n =? 221 then rd_be 4 r
      else Err EType
  end.

Definition rd_map_hdr (bs : bytes) : res (N * bytes) :=
  match bs with
  | [] => Err EShort
  | b :: r =>
      let n := b2n b in
      if (128 <=? n) && (n <=? 143) then Ok (n - 128, r)
      else if n =? 222 then rd_be 2 r
      else if n =? 223 then rd_be 4 r
      else Err EType
  end.

(* ReadStringZC/ReadStringBytes / Reader.ReadString *)
Definition rd_str (bs : bytes) : res (bytes * bytes) :=
  match bs with
  | [] => Err EShort
  | b :: r =>
      let n := b2n b in
      if (160 <=? n) && (n <=? 191) then take (n - 160) r
      else if n =? 217 then '(l, t) <- rd_be 1 r ;; take l t
      else if n =? 218 then '(l, t) <- rd_be 2 r ;; take l t
      else if n =? 219 then '(l, t) <- rd_be 4 r ;; take l t
      else Err EType
  end.

(* ReadBytesBytes / Reader.ReadBytes *)
Definition rd_bin (bs : bytes) : res (bytes * bytes) :=
  match bs with
  | [] => Err EShort
  | b :: r =>
      let n := b2n b in
      if n =? 196 then '(l, t) <- rd_be 1 r ;; take l t
      else if n =? 197 then '(l, t) <- rd_be 2 r ;; take l t
      else if n =? 198 then '(l, t) <- rd_be 4 r ;; take l t
      else Err EType
  end.

Definition is_str_lead (n : N) : bool := ((160 <=? n) && (n <=? 191)) || ((217 <=? n) && (n <=? 219)).
Definition is_bin_lead (n : N) : bool := (196 <=? n) && (n <=? 198).

(* ReadMapKeyZC (slice) and Reader.ReadMapKey (stream): str, or bin when the lead is a bin lead *)
Definition rd_map_key (bs : bytes) : res (bytes * bytes) :=
  match bs with
  | [] => Err EShort
  | b :: _ => if is_bin_lead (b2n b) then rd_bin bs else rd_str bs
  end.

(* Reader.ReadMapKeyPtr (stream): str or bin header, but an empty key is an error *)
Definition rd_map_key_ptr (bs : bytes) : res (bytes * bytes) :=
  '(k, r) <- rd_map_key bs ;;
  match k with [] => Err EShort | _ => Ok (k, r) end.

(* key reader of the generated map decoders (options, ack, HELO options) *)
Definition rd_field_key (p : path) (bs : bytes) : res (bytes * bytes) :=
  match p with Slice => rd_map_key bs | Stream => rd_map_key_ptr bs end.

(* key reader of ReadMapStrIntf[Bytes] (records) *)
Definition rd_rec_key (p : path) (bs : bytes) : res (bytes * bytes) :=
  match p with Slice => rd_map_key bs | Stream => rd_str bs end.

Definition rd_nil (bs : bytes) : res bytes :=
  match bs with
  | [] => Err EShort
  | b :: r => if b2n b =? 192 then Ok r else Err EType
  end.

Definition is_nil_next (bs : bytes) : bool :=
  match bs with b :: _ => b2n b =? 192 | [] => false end.

Definition rd_bool (bs : bytes) : res (bool * bytes) :=
  match bs with
  | [] => Err EShort
  | b :: r => if b2n b =? 195 then Ok (true, r) else if b2n b =? 194 then Ok (false, r) else Err EType
  end.

(* ReadInt64Bytes / Reader.ReadInt64: every integer encoding; uint64 above MaxInt64 overflows *)
Definition rd_int64 (bs : bytes) : res (Z * bytes) :=
  match bs with
  | [] => Err EShort
  | b :: r =>
      let n := b2n b in
      if n <? 128 then Ok (Z.of_N n, r)
      else if 224 <=? n then Ok (Z.of_N n - 256, r)%Z
      else if n =? 208 then '(x, t) <- rd_be 1 r ;; Ok (n2z 1 x, t)
      else if n =? 204 then '(x, t) <- rd_be 1 r ;; Ok (Z.of_N x, t)
      else if n =? 209 then '(x, t) <- rd_be 2 r ;; Ok (n2z 2 x, t)
      else if n =? 205 then '(x, t) <- rd_be 2 r ;; Ok (Z.of_N x, t)
      else if n =? 210 then '(x, t) <- rd_be 4 r ;; Ok (n2z 4 x, t)
      else if n =? 206 then '(x, t) <- rd_be 4 r ;; Ok (Z.of_N x, t)
      else if n =? 211 then '(x, t) <- rd_be 8 r ;; Ok (n2z 8 x, t)
      else if n =? 207 then '(x, t) <- rd_be 8 r ;;
                            if x <? 9223372036854775808 then Ok (Z.of_N x, t) else Err EOverflow
      else Err EType
  end.

(* ReadUint64Bytes / Reader.ReadUint64: every integer encoding; negative values are errors *)
Definition rd_uint64 (bs : bytes) : res (N * bytes) :=
  match bs with
  | [] => Err EShort
  | b :: r =>
      let n := b2n b in
      let signed k := '(x, t) <- rd_be k r ;; if (n2z k x <? 0)%Z then Err EOverflow else Ok (x, t) in
      if n <? 128 then Ok (n, r)
      else if n =? 208 then signed 1%nat
      else if n =? 204 then rd_be 1 r
      else if n =? 209 then signed 2%nat
      else if n =? 205 then rd_be 2 r
      else if n =? 210 then signed 4%nat
      else if n =? 206 then rd_be 4 r
      else if n =? 211 then signed 8%nat
      else if n =? 207 then rd_be 8 r
      else if 224 <=? n then Err EOverflow
      else Err EType
  end.

(* generic extension object: (type byte, payload, rest).  ReadExtensionBytes /
   peekExtensionHeader + Peek, without the type check (error kinds are not modelled). *)
Definition ext_parts (bs : bytes) : res (N * bytes * bytes) :=
  match bs with
  | [] => Err EShort
  | b :: r =>
      let n := b2n b in
      let fixed (sz : N) :=
          match r with
          | t :: r' => '(d, rest) <- take sz r' ;; Ok (b2n t, d, rest)
          | [] => Err EShort
          end in
      let var (k : nat) :=
          '(l, r1) <- rd_be k r ;;
          match r1 with
          | t :: r2 => '(d, rest) <- take l r2 ;; Ok (b2n t, d, rest)
          | [] => Err EShort
          end in
      if n =? 212 then fixed 1 else if n =? 213 then fixed 2 else if n =? 214 then fixed 4
      else if n =? 215 then fixed 8 else if n =? 216 then fixed 16
      else if n =? 199 then var 1%nat else if n =? 200 then var 2%nat else if n =? 201 then var 4%nat
      else Err EType
  end.

(* EventTime.UnmarshalBinary: exactly 8 bytes; time.Unix normalises the nanoseconds *)
Definition dec_eventtime (d : bytes) : res (Z * N) :=
  if len d =? 8 then
    let s := unbe (firstn 4 d) in let ns := unbe (skipn 4 d) in
    Ok (Z.of_N (s + ns / nsec_mod), ns mod nsec_mod)
  else Err ELen.

(* ReadExtensionBytes(bits, &EventTime) / Reader.ReadExtension(&EventTime): the extension
   must have type 0 and an 8-byte payload (both paths take the same ok/err decisions) *)
Definition rd_eventtime (bs : bytes) : res (Z * N * bytes) :=
  '(ty, d, rest) <- ext_parts bs ;;
  if ty =? 0 then '(s, ns) <- dec_eventtime d ;; Ok (s, ns, rest) else Err EExt.

(* time.Unix(sec, nsec) for the msgp time extension (int64 seconds, int32 nanoseconds) *)
Definition norm_time (sec : Z) (nsec : Z) : Z * N :=
  ((sec + nsec / 1000000000)%Z, Z.to_N (nsec mod 1000000000)%Z).

(* size of the fixed part of an object by lead byte (elsize.go), 0 for the invalid prefix *)
Definition spec_size (n : N) : N :=
  if n <? 192 then 1
  else if n =? 192 then 1 else if n =? 193 then 0 else if n <=? 195 then 1
  else if n =? 196 then 2 else if n =? 197 then 3 else if n =? 198 then 5
  else if n =? 199 then 3 else if n =? 200 then 4 else if n =? 201 then 6
  else if n =? 202 then 5 else if n =? 203 then 9
  else if n =? 204 then 2 else if n =? 205 then 3 else if n =? 206 then 5 else if n =? 207 then 9
  else if n =? 208 then 2 else if n =? 209 then 3 else if n =? 210 then 5 else if n =? 211 then 9
  else if n =? 212 then 3 else if n =? 213 then 4 else if n =? 214 then 6 else if n =? 215 then 10 else if n =? 216 then 18
  else if n =? 217 then 2 else if n =? 218 then 3 else if n =? 219 then 5
  else if n =? 220 then 3 else if n =? 221 then 5 else if n =? 222 then 3 else if n =? 223 then 5
  else 1.

Definition is_ext_lead (n : N) : bool := ((199 <=? n) && (n <=? 201)) || ((212 <=? n) && (n <=? 216)).

(* The type byte NextType looks at, if it looks at all.
   Slice: only when len(b) > spec.size; Stream: whenever the header can be peeked. *)
Definition ext_type_peek (p : path) (bs : bytes) : res (option N) :=
  match bs with
  | [] => Err EShort
  | b :: r =>
      let n := b2n b in
      let sz := spec_size n in
      let pos := if 212 <=? n then 1 else sz - 1 in
      match p with
      | Slice =>
          if sz <? len bs then Ok (Some (b2n (nth (N.to_nat pos) bs x00))) else Ok None
      | Stream =>
          (* peekExtensionHeader: Peek(2), then Peek(3/4/6) for ext8/16/32 *)
          let need := if 212 <=? n then 2 else sz in
          if need <=? len bs then Ok (Some (b2n (nth (N.to_nat pos) bs x00))) else Err EShort
      end
  end.

(* extension-typed leads: time / complex refinement by NextType, registered type 0, raw *)
Definition rd_intf_ext (p : path) (bs : bytes) : res (gval * bytes) :=
  match ext_type_peek p bs with
  | Err e => Err e
  | Panic => Panic
  | Ok refined =>
      let lead := match bs with b :: _ => b2n b | [] => 0 end in
      match refined with
      | Some 5 =>   (* TimeType: ReadTimeBytes / ReadTime *)
          if len bs <? 15 then Err EShort
          else if negb ((lead =? 199) && (b2n (nth 1 bs x00) =? 12)) then Err EType
          else
            let sec := n2z 8 (unbe (firstn 8 (skipn 3 bs))) in
            let ns := n2z 4 (unbe (firstn 4 (skipn 11 bs))) in
            let '(s, n) := norm_time sec ns in
            Ok (GTime s n, skipn 15 bs)
      | Some 3 =>   (* Complex64Type *)
          if len bs <? 10 then Err EShort
          else if negb (lead =? 215) then Err EType
          else Ok (GC64 (unbe (firstn 8 (skipn 2 bs))), skipn 10 bs)
      | Some 4 =>   (* Complex128Type *)
          if len bs <? 18 then Err EShort
          else if negb (lead =? 216) then Err EType
          else Ok (GC128 (unbe (firstn 8 (skipn 2 bs))) (unbe (firstn 8 (skipn 10 bs))), skipn 18 bs)
      | _ =>        (* ExtensionType: peekExtension, registry lookup, ReadExtension[Bytes] *)
          match p with
          | Slice =>
              if len bs <? spec_size lead then Err EShort
              else
                let pos := if 212 <=? lead then 1 else spec_size lead - 1 in
                let ty := b2n (nth (N.to_nat pos) bs x00) in
                if ty =? 0 then '(s, ns, rest) <- rd_eventtime bs ;; Ok (GEventTime s ns, rest)
                else '(t, d, rest) <- ext_parts bs ;; Ok (GRawExt t d, rest)
          | Stream =>
              '(t, d, rest) <- ext_parts bs ;;
              if t =? 0 then '(s, ns) <- dec_eventtime d ;; Ok (GEventTime s ns, rest)
              else Ok (GRawExt t d, rest)
          end
      end
  end.

(* ReadIntfBytes / Reader.ReadIntf.  Fuel: one unit per nesting level and per element. *)
Fixpoint rd_intf (p : path) (fuel : nat) (bs : bytes) {struct fuel} : res (gval * bytes) :=
  match fuel with
  | O => Err EFuel
  | S f =>
    match bs with
    | [] => Err EShort
    | b :: r =>
      let n := b2n b in
      if n <? 128 then Ok (GInt (Z.of_N n), r)
      else if n <? 144 then '(c, t) <- rd_map_hdr bs ;; rd_map p f c t []
      else if n <? 160 then '(c, t) <- rd_arr_hdr bs ;; rd_arr p f c t []
      else if n <? 192 then '(s, t) <- rd_str bs ;; Ok (GStr s, t)
      else if n =? 192 then Ok (GNil, r)
      else if n =? 193 then Err EInvalid
      else if n =? 194 then Ok (GBool false, r)
      else if n =? 195 then Ok (GBool true, r)
      else if n <=? 198 then '(s, t) <- rd_bin bs ;; Ok (GBin s, t)
      else if n =? 202 then '(x, t) <- rd_be 4 r ;; Ok (GF32 x, t)
      else if n =? 203 then '(x, t) <- rd_be 8 r ;; Ok (GF64 x, t)
      else if n <=? 201 then rd_intf_ext p bs
      else if n <=? 207 then '(x, t) <- rd_uint64 bs ;; Ok (GUint x, t)
      else if n <=? 211 then '(x, t) <- rd_int64 bs ;; Ok (GInt x, t)
      else if n <=? 216 then rd_intf_ext p bs
      else if n <=? 219 then '(s, t) <- rd_str bs ;; Ok (GStr s, t)
      else if n <=? 221 then '(c, t) <- rd_arr_hdr bs ;; rd_arr p f c t []
      else if n <=? 223 then '(c, t) <- rd_map_hdr bs ;; rd_map p f c t []
      else Ok (GInt (Z.of_N n - 256), r)
    end
  end
with rd_arr (p : path) (fuel : nat) (cnt : N) (bs : bytes) (acc : list gval) {struct fuel} : res (gval * bytes) :=
  match fuel with
  | O => Err EFuel
  | S f =>
      if cnt =? 0 then Ok (GArr (rev_append acc []), bs)
      else '(v, r) <- rd_intf p f bs ;; rd_arr p f (cnt - 1) r (v :: acc)
  end
with rd_map (p : path) (fuel : nat) (cnt : N) (bs : bytes) (acc : list (bytes * gval)) {struct fuel} : res (gval * bytes) :=
  match fuel with
  | O => Err EFuel
  | S f =>
      if cnt =? 0 then Ok (GMap (rev_append acc []), bs)
      else
        '(k, r1) <- rd_rec_key p bs ;;
        '(v, r2) <- rd_intf p f r1 ;;
        rd_map p f (cnt - 1) r2 ((k, v) :: acc)
  end.

(* every node of a value costs at most three units of fuel (value, loop step, loop exit)
   and occupies at least one byte *)
Definition fuel_for (bs : bytes) : nat := S (S (3 * length bs)).

(* msgp.Skip / Reader.Skip: size table, then nested objects.  Fuel as above.
   Stream: with 5 or more bytes buffered, getSize is given a 5-byte window, so an
   ext32 header (6 bytes) is reported short (msgp quirk; inputs are fully buffered
   in every use the library makes of it). *)
Fixpoint skip (p : path) (fuel : nat) (bs : bytes) {struct fuel} : res bytes :=
  match fuel with
  | O => Err EFuel
  | S f =>
    match bs with
    | [] => Err EShort
    | b :: r =>
      let n := b2n b in
      let objs (cnt : N) (t : bytes) := skip_n p f cnt t in
      if n =? 193 then Err EInvalid
      else if (128 <=? n) && (n <=? 143) then objs (2 * (n - 128)) r
      else if (144 <=? n) && (n <=? 159) then objs (n - 144) r
      else if (160 <=? n) && (n <=? 191) then '(_, t) <- take (n - 160) r ;; Ok t
      else if n =? 196 then '(l, t) <- rd_be 1 r ;; '(_, u) <- take l t ;; Ok u
      else if n =? 197 then '(l, t) <- rd_be 2 r ;; '(_, u) <- take l t ;; Ok u
      else if n =? 198 then '(l, t) <- rd_be 4 r ;; '(_, u) <- take l t ;; Ok u
      else if n =? 199 then '(l, t) <- rd_be 1 r ;; '(_, u) <- take (l + 1) t ;; Ok u
      else if n =? 200 then '(l, t) <- rd_be 2 r ;; '(_, u) <- take (l + 1) t ;; Ok u
      else if n =? 201 then
             match p with
             | Stream => Err EShort
             | Slice => '(l, t) <- rd_be 4 r ;; '(_, u) <- take (l + 1) t ;; Ok u
             end
      else if n =? 217 then '(l, t) <- rd_be 1 r ;; '(_, u) <- take l t ;; Ok u
      else if n =? 218 then '(l, t) <- rd_be 2 r ;; '(_, u) <- take l t ;; Ok u
      else if n =? 219 then '(l, t) <- rd_be 4 r ;; '(_, u) <- take l t ;; Ok u
      else if n =? 220 then '(c, t) <- rd_be 2 r ;; objs c t
      else if n =? 221 then '(c, t) <- rd_be 4 r ;; objs c t
      else if n =? 222 then '(c, t) <- rd_be 2 r ;; objs (2 * c) t
      else if n =? 223 then '(c, t) <- rd_be 4 r ;; objs (2 * c) t
      else '(_, t) <- take (spec_size n - 1) r ;; Ok t
    end
  end
with skip_n (p : path) (fuel : nat) (cnt : N) (bs : bytes) {struct fuel} : res bytes :=
  match fuel with
  | O => Err EFuel
  | S f =>
      if cnt =? 0 then Ok bs
      else r <- skip p f bs ;; skip_n p f (cnt - 1) r
  end.

(* NextType as the message decoders use it (only nil / map / int / ext classes matter) *)
Inductive tclass := TNil | TMap | TInt | TUint | TExt | TOtherT | TInvalidT.
Definition class_of_lead (n : N) : tclass :=
  if n <? 128 then TInt
  else if n <? 144 then TMap
  else if n =? 192 then TNil
  else if n =? 193 then TInvalidT
  else if is_ext_lead n then TExt
  else if (204 <=? n) && (n <=? 207) then TUint
  else if (208 <=? n) && (n <=? 211) then TInt
  else if (222 <=? n) && (n <=? 223) then TMap
  else if 224 <=? n then TInt
  else TOtherT.
