(* fluent/client/ws_client.go under concurrency: WSClient with its session pointer
   (sessionLock), its sticky asynchronous error (errLock) and the background goroutine that
   runs Connection.Listen for each session.  The ws.Connection of every session is an
   environment object (the harness substitutes a fake through WSConnectionFactory.NewSession):
   visible events are the calls on it and on the factory — New, Closed, Close, Write, Listen.
   The code modelled is the repaired one: Send and the background goroutine use the session
   they captured (never re-read c.session), and a reader's error is recorded only while its
   own session is still the current one.  Executable definitions only. *)
From FF Require Import model.Bytes model.Lts.
Open Scope N_scope.

(* calls; [wok]: the Write on the connection succeeds *)
Inductive xop :=
| XSend (enc : option bytes) (wok : bool)
| XSendRaw (b : bytes) (wok : bool)
| XConnect (dial_ok : bool)
| XDisconnect
| XReconnect (dial_ok : bool).

(* results: 0 ok, 1 no active session / connection closed, 2 the sticky reader error,
   3 encode error, 4 write error, 5 already connected, 6 dial error *)
Definition xret := N.

Inductive xpc :=
| XIdle
| XSendChecked                 (* passed the sticky-error check (errLock), about to read the session (sessionLock) *)
| XSendHave (s : nat)          (* passed the error check, captured session s: about to ask Closed() *)
| XSendWrite (s : nat)         (* about to Write *)
| XAnnounced | XExcl           (* exclusive session lock: announced / held *)
| XDiscClosedQ (s : nat)       (* Disconnect/Reconnect holding the lock: about to ask Closed() of the old session *)
| XDiscClose (s : nat)         (* about to Close the old session's connection *)
| XDial                        (* Connect/Reconnect holding the lock: about to dial *)
| XSetErr (ok : bool)          (* Reconnect holding the lock, after its dial: about to record / clear the sticky error (setErr) *)
(* background reader of session s *)
| XBgStart (s : nat) | XBgListening (s : nat) | XBgReport (s : nat) | XBgDone | XBgNotSpawned.

Record xlocal := { x_pc : xpc; x_ops : list xop; x_rets : list xret }.

(* per session: is its connection closed; how its reader ends *)
Record xsess := { xs_closed : bool;
                  xs_ends_alone : bool;     (* the reader ends although nobody closed (peer failure) *)
                  xs_lerr : bool }.          (* Listen returns a non-nil error *)

Record xshared := { xg_sess : option nat; xg_err : bool; xg_SL : rwmutex;
                    xg_sessions : list xsess;     (* sessions created so far (index = id) *)
                    xg_plan : list (bool * bool); (* script: (ends_alone, lerr) for the sessions still to be created *)
                    xg_spawned : list nat;        (* sessions whose reader was spawned, in order *)
                    xg_frames : list (nat * nat * bytes); (* (session, thread, bytes) of every Write, newest first *)
                    xg_closes : list nat;         (* Close calls, per session *)
                    xg_panic : bool }.

Inductive xevent := XEvNew (ok : bool) | XEvClosedQ (s : nat) (r : bool) | XEvClose (s : nat) | XEvWrite (s : nat) (d : bytes) | XEvListen (s : nat).
Definition xevent_eqb (a b : xevent) : bool :=
  match a, b with
  | XEvNew x, XEvNew y => Bool.eqb x y
  | XEvClosedQ s r, XEvClosedQ s' r' => Nat.eqb s s' && Bool.eqb r r'
  | XEvClose s, XEvClose s' => Nat.eqb s s'
  | XEvWrite s d, XEvWrite s' d' => Nat.eqb s s' && bytes_eqb d d'
  | XEvListen s, XEvListen s' => Nat.eqb s s'
  | _, _ => false
  end.

Section WsClient.
  (* pinned = true: Send re-reads c.session for the Write and the reader goroutine re-reads
     c.session for Listen and reports its error unconditionally (defect D16) *)
  Variable pinned : bool.
  (* number of worker threads: reader threads are n, n+1, ... in order of session creation *)
  Variable nworkers : nat.

  Definition sess_get (g : xshared) (s : nat) : xsess := nth s (xg_sessions g) {| xs_closed := true; xs_ends_alone := false; xs_lerr := false |}.
  Definition upd (g : xshared) (sess : option nat) (err : bool) (sl : rwmutex) : xshared :=
    {| xg_sess := sess; xg_err := err; xg_SL := sl; xg_sessions := xg_sessions g; xg_plan := xg_plan g; xg_spawned := xg_spawned g;
       xg_frames := xg_frames g; xg_closes := xg_closes g; xg_panic := xg_panic g |}.
  Definition xat (l : xlocal) (p : xpc) : xlocal := {| x_pc := p; x_ops := x_ops l; x_rets := x_rets l |}.
  Definition xfin (l : xlocal) (r : xret) : xlocal := {| x_pc := XIdle; x_ops := tl (x_ops l); x_rets := x_rets l ++ [r] |}.
  Definition panic (g : xshared) : xshared :=
    {| xg_sess := xg_sess g; xg_err := xg_err g; xg_SL := xg_SL g; xg_sessions := xg_sessions g; xg_plan := xg_plan g; xg_spawned := xg_spawned g;
       xg_frames := xg_frames g; xg_closes := xg_closes g; xg_panic := true |}.

  (* dial + NewSession + spawn the reader: holding the exclusive lock *)
  Definition do_dial (g : xshared) (l : xlocal) (ok : bool) (reconnect : bool) : xshared * xlocal * option xevent :=
    (* Connect returns right after the dial (unlock, result); Reconnect goes on, still holding the lock, to setErr *)
    let sid := length (xg_sessions g) in
    let pl := match xg_plan g with p :: _ => p | [] => (false, false) end in
    if reconnect then
      if ok then
        ({| xg_sess := Some sid; xg_err := xg_err g; xg_SL := xg_SL g;
            xg_sessions := xg_sessions g ++ [{| xs_closed := false; xs_ends_alone := fst pl; xs_lerr := snd pl |}];
            xg_plan := tl (xg_plan g); xg_spawned := xg_spawned g ++ [sid]; xg_frames := xg_frames g; xg_closes := xg_closes g; xg_panic := xg_panic g |},
         xat l (XSetErr true), Some (XEvNew true))
      else
        ({| xg_sess := None; xg_err := xg_err g; xg_SL := xg_SL g;
            xg_sessions := xg_sessions g; xg_plan := xg_plan g; xg_spawned := xg_spawned g; xg_frames := xg_frames g; xg_closes := xg_closes g; xg_panic := xg_panic g |},
         xat l (XSetErr false), Some (XEvNew false))
    else
      if ok then
        ({| xg_sess := Some sid; xg_err := xg_err g; xg_SL := wunlock (xg_SL g);
            xg_sessions := xg_sessions g ++ [{| xs_closed := false; xs_ends_alone := fst pl; xs_lerr := snd pl |}];
            xg_plan := tl (xg_plan g); xg_spawned := xg_spawned g ++ [sid]; xg_frames := xg_frames g; xg_closes := xg_closes g; xg_panic := xg_panic g |},
         xfin l 0, Some (XEvNew true))
      else
        (* Connect: the session stays nil *)
        ({| xg_sess := None; xg_err := xg_err g; xg_SL := wunlock (xg_SL g);
            xg_sessions := xg_sessions g; xg_plan := xg_plan g; xg_spawned := xg_spawned g; xg_frames := xg_frames g; xg_closes := xg_closes g; xg_panic := xg_panic g |},
         xfin l 6, Some (XEvNew false)).

  Definition is_reconnect (l : xlocal) : bool := match x_ops l with XReconnect _ :: _ => true | _ => false end.
  Definition dial_flag (l : xlocal) : bool := match x_ops l with XReconnect ok :: _ | XConnect ok :: _ => ok | _ => false end.

  Definition xstep (g : xshared) (t : nat) (l : xlocal) : option (xshared * xlocal * option xevent) :=
    if xg_panic g then None else
    match x_pc l with
    (* ---- background reader ---- *)
    | XBgNotSpawned =>
        match nth_error (xg_spawned g) (t - nworkers) with
        | Some s => Some (g, xat l (XBgStart s), None)
        | None => None
        end
    | XBgStart s =>
        if pinned then
          (* re-reads c.session: nil -> return; another session -> listens on THAT one *)
          match rlock (xg_SL g) t with
          | None => None
          | Some _ =>
              match xg_sess g with
              | None => Some (g, xat l XBgDone, None)
              | Some s' => Some (g, xat l (XBgListening s'), Some (XEvListen s'))
              end
          end
        else Some (g, xat l (XBgListening s), Some (XEvListen s))
    | XBgListening s =>
        let x := sess_get g s in
        if xs_closed x || xs_ends_alone x then
          if xs_lerr x then Some (g, xat l (XBgReport s), None) else Some (g, xat l XBgDone, None)
        else None                                               (* Listen blocks while the connection is healthy *)
    | XBgReport s =>
        if pinned then Some (upd g (xg_sess g) true (xg_SL g), xat l XBgDone, None)
        else
          match rlock (xg_SL g) t with
          | None => None
          | Some _ =>
              (* RLock; record the error only if this reader's session is still current; RUnlock *)
              match xg_sess g with
              | Some s' => if Nat.eqb s s' then Some (upd g (xg_sess g) true (xg_SL g), xat l XBgDone, None) else Some (g, xat l XBgDone, None)
              | None => Some (g, xat l XBgDone, None)
              end
          end
    | XBgDone => None
    | XIdle =>
        match x_ops l with
        | [] => None
        | (XSend _ _ | XSendRaw _ _) :: _ =>
            (* getErr(): its own critical section (errLock) *)
            if xg_err g then Some (g, xfin l 2, None) else Some (g, xat l XSendChecked, None)
        | (XConnect _ | XDisconnect | XReconnect _) :: _ =>
            match wannounce (xg_SL g) t with
            | None => None
            | Some sl => Some (upd g (xg_sess g) (xg_err g) sl, xat l XAnnounced, None)
            end
        end
    | XSendChecked =>
        (* Session(): RLock sessionLock; read; RUnlock *)
        match rlock (xg_SL g) t with
        | None => None
        | Some _ =>
            match xg_sess g with
            | None => Some (g, xfin l 1, None)
            | Some s => Some (g, xat l (XSendHave s), None)
            end
        end
    | XSendHave s =>
        let closed := xs_closed (sess_get g s) in
        if closed then Some (g, xfin l 1, Some (XEvClosedQ s true))
        else
          match x_ops l with
          | XSend None _ :: _ => Some (g, xfin l 3, Some (XEvClosedQ s false))      (* encode error: nothing is written *)
          | _ => Some (g, xat l (XSendWrite s), Some (XEvClosedQ s false))
          end
    | XSendWrite s =>
        let target := if pinned then xg_sess g else Some s in
        match target with
        | None => Some (panic g, xfin l 1, None)                                   (* pinned: nil dereference *)
        | Some s' =>
            let '(d, wok) := match x_ops l with
                             | XSend (Some b) w :: _ => (b, w)
                             | XSendRaw b w :: _ => (b, w)
                             | _ => ([], false)
                             end in
            let ok := wok && negb (xs_closed (sess_get g s')) in
            Some ({| xg_sess := xg_sess g; xg_err := xg_err g; xg_SL := xg_SL g; xg_sessions := xg_sessions g; xg_plan := xg_plan g;
                     xg_spawned := xg_spawned g; xg_frames := (s', t, d) :: xg_frames g; xg_closes := xg_closes g; xg_panic := xg_panic g |},
                  xfin l (if ok then 0 else 4), Some (XEvWrite s' d))
        end
    | XAnnounced =>
        match wacquire (xg_SL g) t with
        | None => None
        | Some sl => Some (upd g (xg_sess g) (xg_err g) sl, xat l XExcl, None)
        end
    | XExcl =>
        match x_ops l with
        | XConnect ok :: _ =>
            match xg_sess g with
            | Some _ => Some (upd g (xg_sess g) (xg_err g) (wunlock (xg_SL g)), xfin l 5, None)    (* refused without dialling *)
            | None => Some (g, xat l XDial, None)
            end
        | (XDisconnect | XReconnect _) :: _ =>
            match xg_sess g with
            | Some s => Some (g, xat l (XDiscClosedQ s), None)
            | None =>
                if is_reconnect l then Some (g, xat l XDial, None)
                else Some (upd g None (xg_err g) (wunlock (xg_SL g)), xfin l 0, None)
            end
        | _ => None
        end
    | XDiscClosedQ s =>
        let closed := xs_closed (sess_get g s) in
        if closed then
          if is_reconnect l then Some (upd g None (xg_err g) (xg_SL g), xat l XDial, Some (XEvClosedQ s true))
          else Some (upd g None (xg_err g) (wunlock (xg_SL g)), xfin l 0, Some (XEvClosedQ s true))
        else Some (g, xat l (XDiscClose s), Some (XEvClosedQ s false))
    | XDiscClose s =>
        let g1 := {| xg_sess := None; xg_err := xg_err g; xg_SL := if is_reconnect l then xg_SL g else wunlock (xg_SL g);
                     xg_sessions := set_nth (xg_sessions g) s {| xs_closed := true; xs_ends_alone := xs_ends_alone (sess_get g s); xs_lerr := xs_lerr (sess_get g s) |};
                     xg_plan := xg_plan g; xg_spawned := xg_spawned g; xg_frames := xg_frames g; xg_closes := s :: xg_closes g; xg_panic := xg_panic g |} in
        if is_reconnect l then Some (g1, xat l XDial, Some (XEvClose s))
        else Some (g1, xfin l 0, Some (XEvClose s))
    | XDial =>
        Some (do_dial g l (dial_flag l) (is_reconnect l))
    | XSetErr ok =>
        (* c.setErr(err): nil after a successful dial (clears the sticky error), the dial error otherwise; unlock; return *)
        Some (upd g (xg_sess g) (negb ok) (wunlock (xg_SL g)), xfin l (if ok then 0 else 6), None)
    end.

  Definition xdone (l : xlocal) : bool :=
    match x_pc l with
    | XBgDone | XBgNotSpawned => true
    | XIdle => match x_ops l with [] => true | _ => false end
    | _ => false
    end.
End WsClient.

Definition xinit (progs : list (list xop)) (plan : list (bool * bool)) (readers : nat) : config xshared xlocal :=
  {| glob := {| xg_sess := None; xg_err := false; xg_SL := rw_init; xg_sessions := []; xg_plan := plan; xg_spawned := [];
                xg_frames := []; xg_closes := []; xg_panic := false |};
     thr := map (fun p => {| x_pc := XIdle; x_ops := p; x_rets := [] |}) progs
            ++ repeat {| x_pc := XBgNotSpawned; x_ops := []; x_rets := [] |} readers |}.

Definition xs_step (pinned : bool) (n : nat) := step xshared xlocal xevent (xstep pinned n).
Definition xs_exec (pinned : bool) (n : nat) := exec xshared xlocal xevent (xstep pinned n).
Definition xs_deadlocked (pinned : bool) (n : nat) := deadlocked xshared xlocal xevent (xstep pinned n) xdone.
