(* A small executable framework for interleaving semantics: threads are local states that
   take atomic micro-steps against a shared global state; a micro-step is either internal
   (tau) or a VISIBLE event (a call on an environment object: the yield points of the
   deterministic scheduler of the harness).  A schedule is a list of thread ids.

   [accepts]: powerset simulation deciding whether a sequence of visible events, as observed
   on the real code, is a trace of the system (internal steps are interleaved in every
   possible way).  Executable definitions only. *)
From Coq Require Import List Arith Bool.
Import ListNotations.

Section Lts.
  Variables (G L E : Type).
  (* one micro-step of a thread: None = blocked or finished *)
  Variable tstep : G -> nat -> L -> option (G * L * option E).
  Variable ev_eqb : E -> E -> bool.
  Variable done : L -> bool.

  Record config := { glob : G; thr : list L }.

  Fixpoint set_nth {A} (l : list A) (n : nat) (x : A) : list A :=
    match l, n with
    | [], _ => []
    | _ :: r, O => x :: r
    | y :: r, S k => y :: set_nth r k x
    end.

  Definition step (c : config) (t : nat) : option (config * option E) :=
    match nth_error (thr c) t with
    | None => None
    | Some l =>
        match tstep (glob c) t l with
        | None => None
        | Some (g', l', e) => Some ({| glob := g'; thr := set_nth (thr c) t l' |}, e)
        end
    end.

  (* run a schedule of micro-steps; a blocked/finished thread in the schedule stutters *)
  Fixpoint exec (c : config) (sch : list nat) : config * list (nat * E) :=
    match sch with
    | [] => (c, [])
    | t :: r =>
        match step c t with
        | None => exec c r
        | Some (c', e) =>
            let '(c'', tr) := exec c' r in
            (c'', match e with Some x => (t, x) :: tr | None => tr end)
        end
    end.

  Definition tids (c : config) : list nat := seq 0 (length (thr c)).

  Definition enabled (c : config) (t : nat) : bool :=
    match step c t with Some _ => true | None => false end.
  Definition all_done (c : config) : bool := forallb done (thr c).
  (* stuck: nobody can move although somebody is not finished *)
  Definition deadlocked (c : config) : bool :=
    negb (all_done c) && negb (existsb (enabled c) (tids c)).

  (* ---- powerset simulation over visible traces ---- *)
  (* all configurations reachable by internal steps only (fuel bounds the search depth) *)
  Fixpoint tau_closure (fuel : nat) (cs : list config) : list config :=
    match fuel with
    | O => cs
    | S f =>
        let next := flat_map (fun c =>
                      flat_map (fun t => match step c t with
                                         | Some (c', None) => [c']
                                         | _ => []
                                         end) (tids c)) cs in
        match next with
        | [] => cs
        | _ => cs ++ tau_closure f next
        end
    end.

  Definition fire (t : nat) (e : E) (cs : list config) : list config :=
    flat_map (fun c => match step c t with
                       | Some (c', Some e') => if ev_eqb e e' then [c'] else []
                       | _ => []
                       end) cs.

  (* an event observed on a goroutine the library spawned itself (no thread identity known):
     any thread may have produced it *)
  Definition fire_any (e : E) (cs : list config) : list config :=
    flat_map (fun c => flat_map (fun t => fire t e [c]) (tids c)) cs.

  Fixpoint accepts_anon_from (fuel : nat) (cs : list config) (tr : list (option nat * E)) : list config :=
    match tr with
    | [] => tau_closure fuel cs
    | (Some t, e) :: r => accepts_anon_from fuel (fire t e (tau_closure fuel cs)) r
    | (None, e) :: r => accepts_anon_from fuel (fire_any e (tau_closure fuel cs)) r
    end.

  Fixpoint accepts_from (fuel : nat) (cs : list config) (tr : list (nat * E)) : bool :=
    match tr with
    | [] => match cs with [] => false | _ => true end
    | (t, e) :: r => accepts_from fuel (fire t e (tau_closure fuel cs)) r
    end.

  Definition accepts (fuel : nat) (c : config) (tr : list (nat * E)) : bool := accepts_from fuel [c] tr.

  (* after the whole trace: is a state reachable in which every thread is finished? *)
  Fixpoint final_from (fuel : nat) (cs : list config) (tr : list (nat * E)) : list config :=
    match tr with
    | [] => tau_closure fuel cs
    | (t, e) :: r => final_from fuel (fire t e (tau_closure fuel cs)) r
    end.
  Definition completes (fuel : nat) (c : config) (tr : list (nat * E)) : bool :=
    existsb all_done (final_from fuel [c] tr).
  (* ---- the same with duplicate elimination (needed when threads have many internal steps) ---- *)
  Variable ceqb : config -> config -> bool.
  Definition cmem (c : config) (l : list config) : bool := existsb (ceqb c) l.
  Fixpoint cadd_all (new seen : list config) : list config * list config :=   (* (really new, seen') *)
    match new with
    | [] => ([], seen)
    | c :: r => if cmem c seen then cadd_all r seen
                else let '(n, s) := cadd_all r (c :: seen) in (c :: n, s)
    end.
  Definition tau_succ (c : config) : list config :=
    flat_map (fun t => match step c t with Some (c', None) => [c'] | _ => [] end) (tids c).
  Fixpoint closure_d (fuel : nat) (frontier seen : list config) : list config :=
    match fuel with
    | O => seen
    | S f =>
        match frontier with
        | [] => seen
        | _ => let '(n, s) := cadd_all (flat_map tau_succ frontier) seen in closure_d f n s
        end
    end.
  Definition tau_closure_d (fuel : nat) (cs : list config) : list config :=
    let '(n, s) := cadd_all cs [] in closure_d fuel n s.
  Definition dedup (cs : list config) : list config := fst (cadd_all cs []).

  Fixpoint accepts_anon_d (fuel : nat) (cs : list config) (tr : list (option nat * E)) : list config :=
    match tr with
    | [] => tau_closure_d fuel cs
    | (Some t, e) :: r => accepts_anon_d fuel (dedup (fire t e (tau_closure_d fuel cs))) r
    | (None, e) :: r => accepts_anon_d fuel (dedup (fire_any e (tau_closure_d fuel cs))) r
    end.
End Lts.

Arguments glob {G L}. Arguments thr {G L}.
Arguments Build_config {G L}.

(* ---- Go's synchronisation primitives as data ---- *)
(* sync.Mutex *)
Definition mutex := option nat.
Definition mlock (m : mutex) (t : nat) : option mutex := match m with None => Some (Some t) | Some _ => None end.
Definition munlock (m : mutex) : mutex := None.

(* sync.RWMutex with Go's writer preference: Lock first ANNOUNCES the writer (new readers
   block from then on), then waits for the active readers to leave *)
Record rwmutex := { rw_readers : list nat; rw_writer : option nat; rw_pending : option nat }.
Definition rw_init : rwmutex := {| rw_readers := []; rw_writer := None; rw_pending := None |}.
Definition rlock (m : rwmutex) (t : nat) : option rwmutex :=
  match rw_writer m, rw_pending m with
  | None, None => Some {| rw_readers := t :: rw_readers m; rw_writer := None; rw_pending := None |}
  | _, _ => None
  end.
Definition runlock (m : rwmutex) (t : nat) : rwmutex :=
  {| rw_readers := remove Nat.eq_dec t (rw_readers m); rw_writer := rw_writer m; rw_pending := rw_pending m |}.
(* first half of Lock: take the writers' mutex and announce *)
Definition wannounce (m : rwmutex) (t : nat) : option rwmutex :=
  match rw_writer m, rw_pending m with
  | None, None => Some {| rw_readers := rw_readers m; rw_writer := None; rw_pending := Some t |}
  | _, _ => None
  end.
(* second half: the readers have left *)
Definition wacquire (m : rwmutex) (t : nat) : option rwmutex :=
  match rw_pending m, rw_readers m with
  | Some t', [] => if Nat.eqb t t' then Some {| rw_readers := []; rw_writer := Some t; rw_pending := None |} else None
  | _, _ => None
  end.
Definition wunlock (m : rwmutex) : rwmutex := {| rw_readers := rw_readers m; rw_writer := None; rw_pending := None |}.
