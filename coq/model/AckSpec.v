(* What the response map of an acknowledgement (and the option map of a HELO) means,
   stated on the values of the independent specification (Spec.v): entries by key name,
   the last entry of a name, and the field contents the generated decoders end with.
   Executable definitions only. *)
From FF Require Import model.Bytes model.Show model.Msgp model.Forward model.Handshake model.Spec.
From Coq Require Import String.
Open Scope N_scope.

(* the bytes of a map key as the generated decoders read it: a str or a bin object *)
Definition key_bytes (k : value) : option bytes :=
  match k with VStr b | VBin b => Some b | _ => None end.

(* the key spells [name] (as a str or as a bin key) *)
Definition key_is (name : bytes) (k : value) : bool :=
  match key_bytes k with Some b => bytes_eqb b name | None => false end.

Definition is_ack_key : value -> bool := key_is k_ack.

(* the value of the LAST entry whose key spells [name] *)
Fixpoint last_entry (name : bytes) (l : list (value * value)) : option value :=
  match l with
  | [] => None
  | (k, v) :: r =>
      match last_entry name r with
      | Some x => Some x
      | None => if key_is name k then Some v else None
      end
  end.

Definition last_ack : list (value * value) -> option value := last_entry k_ack.

(* number of entries whose key spells [name] *)
Definition key_count (name : bytes) (l : list (value * value)) : nat :=
  List.length (filter (fun kv => key_is name (fst kv)) l).
Definition ack_count : list (value * value) -> nat := key_count k_ack.

(* what AckMessage.DecodeMsg / UnmarshalMsg leave in the Ack field after walking the
   entries [l] from the initial content [a]: every "ack" entry overwrites it *)
Fixpoint ack_fold (l : list (value * value)) (a : bytes) : bytes :=
  match l with
  | [] => a
  | (k, v) :: r =>
      ack_fold r (if is_ack_key k then match v with VStr s => s | _ => a end else a)
  end.

(* what Helo.DecodeMsg / UnmarshalMsg leave in the option struct after walking the entries
   [l] of the HELO option map from the initial content [o] *)
Fixpoint helo_fold (l : list (value * value)) (o : helo_opts) : helo_opts :=
  match l with
  | [] => o
  | (k, v) :: r =>
      helo_fold r
        (if key_is (str "nonce") k then
           match v with VBin b => {| h_nonce := b; h_auth := h_auth o; h_keepalive := h_keepalive o |} | _ => o end
         else if key_is (str "auth") k then
           match v with VBin b => {| h_nonce := h_nonce o; h_auth := b; h_keepalive := h_keepalive o |} | _ => o end
         else if key_is (str "keepalive") k then
           match v with VBool b => {| h_nonce := h_nonce o; h_auth := h_auth o; h_keepalive := b |} | _ => o end
         else o)
  end.
