(* fluent/protocol: message kinds, encoders (MarshalMsg = EncodeMsg byte-wise) and the
   hand-written / generated decoders on both paths, GetChunk, (Un)MarshalPacked.
   The decoders take the receiver's previous value as an argument so that fields a
   decode path does not assign are visible (C18).  Executable definitions only. *)
From FF Require Import model.Bytes model.Show model.Msgp.
From Coq Require Import String.
Open Scope N_scope.

Record options := { o_size : option Z; o_chunk : bytes; o_comp : bytes }.
Definition empty_options : options := {| o_size := None; o_chunk := []; o_comp := [] |}.

Definition instant := (Z * N)%type.           (* Unix seconds, nanoseconds < 10^9 *)

Record message := { m_tag : bytes; m_ts : Z; m_rec : gval; m_opts : option options }.
Record message_ext := { x_tag : bytes; x_ts : instant; x_rec : gval; x_opts : option options }.
Record entry := { e_ts : instant; e_rec : gval }.
Record forward := { f_tag : bytes; f_entries : list entry; f_opts : option options }.
Record packed := { p_tag : bytes; p_stream : bytes; p_opts : option options }.

Definition zero_message : message := {| m_tag := []; m_ts := 0%Z; m_rec := GNil; m_opts := None |}.
Definition zero_message_ext : message_ext := {| x_tag := []; x_ts := (0%Z, 0); x_rec := GNil; x_opts := None |}.
Definition zero_forward : forward := {| f_tag := []; f_entries := []; f_opts := None |}.
Definition zero_packed : packed := {| p_tag := []; p_stream := []; p_opts := None |}.

Definition norm_message (m : message) : message :=
  {| m_tag := m_tag m; m_ts := m_ts m; m_rec := norm_gval (m_rec m); m_opts := m_opts m |}.
Definition norm_message_ext (m : message_ext) : message_ext :=
  {| x_tag := x_tag m; x_ts := x_ts m; x_rec := norm_gval (x_rec m); x_opts := x_opts m |}.
Definition norm_entry (e : entry) : entry := {| e_ts := e_ts e; e_rec := norm_gval (e_rec e) |}.
Definition norm_forward (m : forward) : forward :=
  {| f_tag := f_tag m; f_entries := map norm_entry (f_entries m); f_opts := f_opts m |}.

Definition k_size : bytes := str "size".
Definition k_chunk : bytes := str "chunk".
Definition k_comp : bytes := str "compressed".
Definition k_ack : bytes := str "ack".

(* ---------- encoders ---------- *)

(* MessageOptions.MarshalMsg: omitempty map *)
Definition M_options (o : options) : bytes :=
  let n := (match o_size o with Some _ => 1 | None => 0 end)
           + (match o_chunk o with [] => 0 | _ => 1 end)
           + (match o_comp o with [] => 0 | _ => 1 end) in
  [n2b (128 + n)]
  ++ (match o_size o with Some z => enc_str k_size ++ enc_int z | None => [] end)
  ++ (match o_chunk o with [] => [] | c => enc_str k_chunk ++ enc_str c end)
  ++ (match o_comp o with [] => [] | c => enc_str k_comp ++ enc_str c end).

Definition M_optopt (o : option options) : bytes :=
  match o with None => enc_nil | Some o => M_options o end.

Definition M_message (m : message) : res bytes :=
  r <- enc_gval (m_rec m) ;;
  Ok ([n2b 148] ++ enc_str (m_tag m) ++ enc_int (m_ts m) ++ r ++ M_optopt (m_opts m)).

Definition M_message_ext (m : message_ext) : res bytes :=
  r <- enc_gval (x_rec m) ;;
  Ok ([n2b 148] ++ enc_str (x_tag m) ++ enc_eventtime (fst (x_ts m)) (snd (x_ts m)) ++ r ++ M_optopt (x_opts m)).

Definition M_entry (e : entry) : res bytes :=
  r <- enc_gval (e_rec e) ;;
  Ok ([n2b 146] ++ enc_eventtime (fst (e_ts e)) (snd (e_ts e)) ++ r).

Fixpoint M_entries_body (l : list entry) : res bytes :=
  match l with
  | [] => Ok []
  | e :: r => a <- M_entry e ;; b <- M_entries_body r ;; Ok (a ++ b)
  end.

Definition M_entry_list (l : list entry) : res bytes :=
  b <- M_entries_body l ;; Ok (enc_arr_hdr (len l) ++ b).

Definition M_forward (m : forward) : res bytes :=
  es <- M_entry_list (f_entries m) ;;
  Ok (match f_opts m with
      | None => [n2b 146] ++ enc_str (f_tag m) ++ es
      | Some o => [n2b 147] ++ enc_str (f_tag m) ++ es ++ M_options o
      end).

Definition M_packed (m : packed) : bytes :=
  [n2b 147] ++ enc_str (p_tag m) ++ enc_bin (p_stream m) ++ M_optopt (p_opts m).

Definition M_ack (a : bytes) : bytes := [n2b 129] ++ enc_str k_ack ++ enc_str a.

(* EntryList.MarshalPacked: concatenation of the entry encodings *)
Definition marshal_packed (l : list entry) : res bytes := M_entries_body l.

(* ---------- decoders ---------- *)

(* MessageOptions.UnmarshalMsg / DecodeMsg into a fresh &MessageOptions{} *)
Fixpoint U_options_loop (p : path) (fuel : nat) (cnt : N) (bs : bytes) (o : options) {struct fuel} : res (options * bytes) :=
  match fuel with
  | O => Err EFuel
  | S f =>
      if cnt =? 0 then Ok (o, bs)
      else
        '(k, r) <- rd_field_key p bs ;;
        if bytes_eqb k k_size then
          if is_nil_next r then r' <- rd_nil r ;; U_options_loop p f (cnt - 1) r' {| o_size := None; o_chunk := o_chunk o; o_comp := o_comp o |}
          else '(z, r') <- rd_int64 r ;; U_options_loop p f (cnt - 1) r' {| o_size := Some z; o_chunk := o_chunk o; o_comp := o_comp o |}
        else if bytes_eqb k k_chunk then
          '(c, r') <- rd_str r ;; U_options_loop p f (cnt - 1) r' {| o_size := o_size o; o_chunk := c; o_comp := o_comp o |}
        else if bytes_eqb k k_comp then
          '(c, r') <- rd_str r ;; U_options_loop p f (cnt - 1) r' {| o_size := o_size o; o_chunk := o_chunk o; o_comp := c |}
        else
          r' <- skip p (fuel_for r) r ;; U_options_loop p f (cnt - 1) r' o
  end.

Definition U_options (p : path) (bs : bytes) : res (options * bytes) :=
  '(c, r) <- rd_map_hdr bs ;; U_options_loop p (fuel_for r) c r empty_options.

(* the common tail of the four message decoders: options present only at full arity *)
Definition U_tail (p : path) (full : bool) (bs : bytes) : res (option options * bytes) :=
  if full then
    if is_nil_next bs then r <- rd_nil bs ;; Ok (None, r)
    else '(o, r) <- U_options p bs ;; Ok (Some o, r)
  else Ok (None, bs).

(* arity check of the repaired decoders: [lo] (no options) or [lo+1] (options) *)
Definition arity_ok (lo sz : N) : bool := (sz =? lo) || (sz =? lo + 1).

(* Message.UnmarshalMsg / DecodeMsg.  [prev] is the receiver before the call. *)
Definition U_message (p : path) (prev : message) (bs : bytes) : res (message * bytes) :=
  let cur_opts : option options := None in      (* msg.Options = nil at the start (repair of D4) *)
  '(sz, r0) <- rd_arr_hdr bs ;;
  if negb (arity_ok 3 sz) then Err EArity else
  '(tag, r1) <- rd_str r0 ;;
  '(ts, r2) <- rd_int64 r1 ;;
  '(rec, r3) <- rd_intf p (fuel_for r2) r2 ;;
  '(o, r4) <- U_tail p (sz =? 4) r3 ;;
  Ok ({| m_tag := tag; m_ts := ts; m_rec := rec; m_opts := match o with Some x => Some x | None => cur_opts end |}, r4).

Definition U_message_ext (p : path) (prev : message_ext) (bs : bytes) : res (message_ext * bytes) :=
  let cur_opts : option options := None in
  '(sz, r0) <- rd_arr_hdr bs ;;
  if negb (arity_ok 3 sz) then Err EArity else
  '(tag, r1) <- rd_str r0 ;;
  '(s, ns, r2) <- rd_eventtime r1 ;;
  '(rec, r3) <- rd_intf p (fuel_for r2) r2 ;;
  '(o, r4) <- U_tail p (sz =? 4) r3 ;;
  Ok ({| x_tag := tag; x_ts := (s, ns); x_rec := rec; x_opts := match o with Some x => Some x | None => cur_opts end |}, r4).

(* EntryExt.UnmarshalMsg / DecodeMsg *)
Definition U_entry (p : path) (bs : bytes) : res (entry * bytes) :=
  '(sz, r0) <- rd_arr_hdr bs ;;
  if negb (sz =? 2) then Err EArity else
  '(s, ns, r1) <- rd_eventtime r0 ;;
  '(rec, r2) <- rd_intf p (fuel_for r1) r1 ;;
  Ok ({| e_ts := (s, ns); e_rec := rec |}, r2).

Fixpoint U_entries_loop (p : path) (fuel : nat) (cnt : N) (bs : bytes) (acc : list entry) {struct fuel} : res (list entry * bytes) :=
  match fuel with
  | O => Err EFuel
  | S f =>
      if cnt =? 0 then Ok (rev_append acc [], bs)
      else '(e, r) <- U_entry p bs ;; U_entries_loop p f (cnt - 1) r (e :: acc)
  end.

(* EntryList.UnmarshalMsg / DecodeMsg *)
Definition U_entry_list (p : path) (bs : bytes) : res (list entry * bytes) :=
  '(c, r) <- rd_arr_hdr bs ;; U_entries_loop p (fuel_for r) c r [].

Definition U_forward (p : path) (prev : forward) (bs : bytes) : res (forward * bytes) :=
  let cur_opts : option options := None in
  '(sz, r0) <- rd_arr_hdr bs ;;
  if negb (arity_ok 2 sz) then Err EArity else
  '(tag, r1) <- rd_str r0 ;;
  '(es, r2) <- U_entry_list p r1 ;;
  '(o, r3) <- U_tail p (sz =? 3) r2 ;;
  Ok ({| f_tag := tag; f_entries := es; f_opts := match o with Some x => Some x | None => cur_opts end |}, r3).

Definition U_packed (p : path) (prev : packed) (bs : bytes) : res (packed * bytes) :=
  let cur_opts : option options := None in
  '(sz, r0) <- rd_arr_hdr bs ;;
  if negb (arity_ok 2 sz) then Err EArity else
  '(tag, r1) <- rd_str r0 ;;
  '(st, r2) <- rd_bin r1 ;;
  '(o, r3) <- U_tail p (sz =? 3) r2 ;;
  Ok ({| p_tag := tag; p_stream := st; p_opts := match o with Some x => Some x | None => cur_opts end |}, r3).

(* AckMessage.UnmarshalMsg / DecodeMsg into a zero AckMessage *)
Fixpoint U_ack_loop (p : path) (fuel : nat) (cnt : N) (bs : bytes) (a : bytes) {struct fuel} : res (bytes * bytes) :=
  match fuel with
  | O => Err EFuel
  | S f =>
      if cnt =? 0 then Ok (a, bs)
      else
        '(k, r) <- rd_field_key p bs ;;
        if bytes_eqb k k_ack then '(v, r') <- rd_str r ;; U_ack_loop p f (cnt - 1) r' v
        else r' <- skip p (fuel_for r) r ;; U_ack_loop p f (cnt - 1) r' a
  end.
Definition U_ack (p : path) (bs : bytes) : res (bytes * bytes) :=
  '(c, r) <- rd_map_hdr bs ;; U_ack_loop p (fuel_for r) c r [].

(* EntryList.UnmarshalPacked: entry by entry until the input is exhausted *)
Fixpoint unmarshal_packed_loop (fuel : nat) (bs : bytes) (acc : list entry) {struct fuel} : res (list entry) :=
  match fuel with
  | O => Err EFuel
  | S f =>
      match bs with
      | [] => Ok (rev_append acc [])
      | _ => '(e, r) <- U_entry Slice bs ;; unmarshal_packed_loop f r (e :: acc)
      end
  end.
Definition unmarshal_packed (bs : bytes) : res (list entry) := unmarshal_packed_loop (fuel_for bs) bs [].

(* ---------- GetChunk (chunk.go), a walker on the stream path ---------- *)

(* Reader.NextType as GetChunk uses it: err on EOF / invalid prefix / unreadable ext header;
   ext types 3, 4, 5 are refined away from ExtensionType *)
Definition next_class_stream (bs : bytes) : res tclass :=
  match bs with
  | [] => Err EShort
  | b :: _ =>
      let n := b2n b in
      match class_of_lead n with
      | TInvalidT => Err EInvalid
      | TExt => o <- ext_type_peek Stream bs ;;
                match o with
                | Some t => if (t =? 3) || (t =? 4) || (t =? 5) then Ok TOtherT else Ok TExt
                | None => Ok TExt
                end
      | c => Ok c
      end
  end.

Fixpoint get_chunk_loop (fuel : nat) (cnt : N) (bs : bytes) {struct fuel} : res bytes :=
  match fuel with
  | O => Err EFuel
  | S f =>
      if cnt =? 0 then Err ENotFound
      else
        '(k, r) <- rd_map_key bs ;;               (* repaired: ReadMapKey, empty keys allowed *)
        if bytes_eqb k k_chunk then '(v, _) <- rd_map_key r ;; Ok v
        else r' <- skip Stream (fuel_for r) r ;; get_chunk_loop f (cnt - 1) r'
  end.

Definition get_chunk (bs : bytes) : res bytes :=
  '(sz, r0) <- rd_arr_hdr bs ;;
  if sz =? 2 then Err ENotFound else
  r1 <- skip Stream (fuel_for r0) r0 ;;
  t <- next_class_stream r1 ;;
  let is_ts := match t with TExt | TInt | TUint => true | _ => false end in   (* TUint: repair of D6 *)
  if is_ts && (sz =? 3) then Err ENotFound else
  r2 <- (if is_ts then skip Stream (fuel_for r1) r1 else Ok r1) ;;
  r3 <- skip Stream (fuel_for r2) r2 ;;
  t' <- next_class_stream r3 ;;
  match t' with
  | TMap => '(c, r4) <- rd_map_hdr r3 ;; get_chunk_loop (fuel_for r4) c r4
  | _ => Err ENotFound
  end.
