(* C04 — with acknowledgements required, Send succeeds exactly when the peer acknowledges
   this message's chunk.  Model: Client.v (Send = Chunk(), one Write of the encoding, then
   checkAck: SetReadDeadline when a timeout is configured, decode ONE ack message from what
   the peer delivers, compare).  [resp] is everything the peer delivers after the write,
   in whatever fragments (fragmentation and timing are exercised on the real code; the model
   sees the concatenation); EOF, silence until the deadline and read errors all end the
   decoding of [resp] with an error.
   Only statements, [exact], Print Assumptions, examples. *)
From FF Require Import model.Bytes model.Msgp model.Forward model.Handshake model.Wf model.Client model.ClientSpec
  proofs.Handshake_Proofs proofs.Roundtrip_Proofs proofs.Client_Proofs.
Open Scope N_scope.

(* success <-> the whole message was written and the response decodes to an ack whose id is
   the (non-empty) chunk id of this very message *)
Theorem C04_success_iff : forall (H : bytes -> bytes) cf s m wf resp s' e r c,
  cf_ack cf = true -> s_sess s = Some (c, true) ->
  step H cf s (OSend m wf resp) = (s', e, r) ->
  (r = ROk <-> exists ch b rest, sm_chunk m = Some ch /\ ch <> [] /\ sm_enc m = Some b /\ wf = None /\
                             U_ack Stream resp = Ok (ch, rest)).
Proof. intros H. exact (send_ack_ok_iff H (U_ack_not_panic Stream)). Qed.
Print Assumptions C04_success_iff.

(* a conforming matching ack, however it is followed on the stream, is accepted by the
   ack decoder (so, by C04_success_iff, the send succeeds) *)
Theorem C04_matching_ack_decodes : forall ch rest, len ch < two32 -> U_ack Stream (M_ack ch ++ rest) = Ok (ch, rest).
Proof. intros ch rest. exact (rt_ack Stream ch rest). Qed.
Print Assumptions C04_matching_ack_decodes.

(* the message is on the wire before the ack is awaited, and with a timeout configured the
   read deadline is armed in between: a silent peer cannot make the call hang *)
Theorem C04_deadline_armed : forall (H : bytes -> bytes) cf s m resp s' e r c b,
  cf_ack cf = true -> cf_timeout cf = true -> s_sess s = Some (c, true) ->
  sm_enc m = Some b -> (exists ch, sm_chunk m = Some ch /\ ch <> []) ->
  step H cf s (OSend m None resp) = (s', e, r) -> e = [EvWrite c b b 0; EvDeadline c].
Proof. exact send_sets_deadline. Qed.
Print Assumptions C04_deadline_armed.

(* several sends on one connection: each result depends on its own message and response only *)
Theorem C04_sequences : forall (H : bytes -> bytes) cf s ops, forallb is_send ops = true ->
  fst (runs H cf s ops) = map (fun o => let '(_, e, r) := step H cf s o in (e, r)) ops /\ snd (runs H cf s ops) = s.
Proof. exact sends_independent. Qed.
Print Assumptions C04_sequences.

(* regression witness (D17, fixed): an empty chunk id is never acknowledged; the model of the
   repaired code refuses to send such a message when acks are required *)
Theorem C04_empty_chunk_refused : forall (H : bytes -> bytes) cf s c b wf resp,
  cf_ack cf = true -> s_sess s = Some (c, true) ->
  step H cf s (OSend {| sm_chunk := Some []; sm_enc := Some b |} wf resp) = (s, [], RErr).
Proof. intros H cf s c b wf resp Ha Hs. cbn [step]. now rewrite Hs, Ha. Qed.
Print Assumptions C04_empty_chunk_refused.

Example C04_nonvacuous :
  let cf := {| cf_key := None; cf_host := []; cf_ack := true; cf_timeout := true |} in
  let m := {| sm_chunk := Some [x63]; sm_enc := Some [xc0] |} in
  step idH cf {| s_sess := Some (0%nat, true); s_next := 1 |} (OSend m None (M_ack [x63])) =
    ({| s_sess := Some (0%nat, true); s_next := 1 |}, [EvWrite 0 [xc0] [xc0] 0; EvDeadline 0], ROk) /\
  step idH cf {| s_sess := Some (0%nat, true); s_next := 1 |} (OSend m None (M_ack [x64])) =
    ({| s_sess := Some (0%nat, true); s_next := 1 |}, [EvWrite 0 [xc0] [xc0] 0; EvDeadline 0], RErr).
Proof. vm_compute. split; reflexivity. Qed.
