(* C04 — with acknowledgements required, Send succeeds exactly when the peer acknowledges
   this message's chunk.  Model: Client.v (Send = Chunk(), one Write of the encoding, then
   checkAck: SetReadDeadline when a timeout is configured, decode ONE ack message from what
   the peer delivers, compare).  [resp] is everything the peer delivers after the write,
   in whatever fragments (fragmentation and timing are exercised on the real code; the model
   sees the concatenation); EOF, silence until the deadline and read errors all end the
   decoding of [resp] with an error.
   Only statements, [exact], Print Assumptions, examples. *)
From FF Require Import model.Bytes model.Show model.Msgp model.Forward model.Handshake model.Spec model.AckSpec model.Wf model.Client model.ClientSpec
  proofs.Chunk_Proofs proofs.Handshake_Proofs proofs.Roundtrip_Proofs proofs.Client_Proofs proofs.AckSpec_Proofs.
(* [nx f bs]: no value boundary of the encoding carries an ext32 header -- the one header the
   stream skipper of the msgp dependency cannot pass (recorded finding D18) *)
Open Scope N_scope.

(* success <-> the whole message was written and the response decodes to an ack whose id is
   the (non-empty) chunk id of this very message *)
Theorem C04_success_iff : forall (H : bytes -> bytes) cf s m wf resp s' e r c,
  cf_ack cf = true -> s_sess s = Some (c, true) ->
  step H cf s (OSend m wf resp) = (s', e, r) ->
  (r = ROk <-> exists ch b rest, sm_chunk m = Some ch /\ ch <> [] /\ sm_enc m = Some b /\ wf = None /\
                             U_ack Stream resp = Ok (ch, rest)).
Proof. intros H. exact (send_ack_ok_iff H (U_ack_not_panic Stream)). Qed.
Print Assumptions C04_success_iff.

(* a conforming matching ack, however it is followed on the stream, is accepted by the
   ack decoder (so, by C04_success_iff, the send succeeds) *)
Theorem C04_matching_ack_decodes : forall ch rest, len ch < two32 -> U_ack Stream (M_ack ch ++ rest) = Ok (ch, rest).
Proof. intros ch rest. exact (rt_ack Stream ch rest). Qed.
Print Assumptions C04_matching_ack_decodes.

(* ... and so is ANY msgpack encoding of a conforming response, judged by the independent
   specification parser (Spec.v), not by the library's own encoder: a map with string keys
   holding exactly one "ack" entry whose value is the string [a] -- whatever header widths,
   key order and additional entries the peer chose -- decodes to [a] *)
Theorem C04_conforming_ack_decodes : forall p f resp l rest a,
  parse f resp = Some (VMap l, rest) -> str_keys p l ->
  ack_count l = 1%nat -> In (VStr k_ack, VStr a) l ->
  (p = Stream -> nx f resp = true) ->
  U_ack p resp = Ok (a, rest).
Proof. exact U_ack_complete. Qed.
Print Assumptions C04_conforming_ack_decodes.

(* conversely, whatever the ack decoder accepts IS one msgpack map by the specification, and
   the id it reports is the string of the map's last "ack" entry (empty when there is none):
   by C04_success_iff a send succeeds only if the peer's response is a map that really holds
   this message's non-empty chunk id under "ack" *)
Theorem C04_decoded_ack_is_ack_entry : forall p resp a rest, U_ack p resp = Ok (a, rest) -> a <> [] ->
  exists f l k, parse f resp = Some (VMap l, rest) /\ In (k, VStr a) l /\ (k = VStr k_ack \/ k = VBin k_ack).
Proof. exact U_ack_nonempty_is_ack_entry. Qed.
Print Assumptions C04_decoded_ack_is_ack_entry.

Theorem C04_decoded_ack_spec : forall p resp a rest, U_ack p resp = Ok (a, rest) ->
  exists l, parse1 resp = Some (VMap l, rest) /\
    match last_ack l with None => a = [] | Some v => v = VStr a end.
Proof. exact U_ack_sound_parse1. Qed.
Print Assumptions C04_decoded_ack_spec.

(* the message is on the wire before the ack is awaited, and with a timeout configured the
   read deadline is armed in between: a silent peer cannot make the call hang *)
Theorem C04_deadline_armed : forall (H : bytes -> bytes) cf s m resp s' e r c b,
  cf_ack cf = true -> cf_timeout cf = true -> s_sess s = Some (c, true) ->
  sm_enc m = Some b -> (exists ch, sm_chunk m = Some ch /\ ch <> []) ->
  step H cf s (OSend m None resp) = (s', e, r) -> e = [EvWrite c b b 0; EvDeadline c].
Proof. exact send_sets_deadline. Qed.
Print Assumptions C04_deadline_armed.

(* several sends on one connection: each result depends on its own message and response only *)
Theorem C04_sequences : forall (H : bytes -> bytes) cf s ops, forallb is_send ops = true ->
  fst (runs H cf s ops) = map (fun o => let '(_, e, r) := step H cf s o in (e, r)) ops /\ snd (runs H cf s ops) = s.
Proof. exact sends_independent. Qed.
Print Assumptions C04_sequences.

(* regression witness (D17, fixed): an empty chunk id is never acknowledged; the model of the
   repaired code refuses to send such a message when acks are required *)
Theorem C04_empty_chunk_refused : forall (H : bytes -> bytes) cf s c b wf resp,
  cf_ack cf = true -> s_sess s = Some (c, true) ->
  step H cf s (OSend {| sm_chunk := Some []; sm_enc := Some b |} wf resp) = (s, [], RErr).
Proof. intros H cf s c b wf resp Ha Hs. cbn [step]. now rewrite Hs, Ha. Qed.
Print Assumptions C04_empty_chunk_refused.

Example C04_nonvacuous :
  let cf := {| cf_key := None; cf_host := []; cf_ack := true; cf_timeout := true |} in
  let m := {| sm_chunk := Some [x63]; sm_enc := Some [xc0] |} in
  step idH cf {| s_sess := Some (0%nat, true); s_next := 1 |} (OSend m None (M_ack [x63])) =
    ({| s_sess := Some (0%nat, true); s_next := 1 |}, [EvWrite 0 [xc0] [xc0] 0; EvDeadline 0], ROk) /\
  step idH cf {| s_sess := Some (0%nat, true); s_next := 1 |} (OSend m None (M_ack [x64])) =
    ({| s_sess := Some (0%nat, true); s_next := 1 |}, [EvWrite 0 [xc0] [xc0] 0; EvDeadline 0], RErr).
Proof. vm_compute. split; reflexivity. Qed.
