(* C16 — websocket I/O exclusivity: one writer and one reader at a time.
   Model: WsConn.v (see C15).  Every WriteMessage on the underlying connection (data frames
   and the close frame) happens at pcs QWFrame / QFrame; every ReadMessage at QRRead/QRResult.
   Only statements, [exact], Print Assumptions, examples. *)
From FF Require Import model.Bytes model.Lts model.WsConn model.WsConnSpec proofs.WsConn_Proofs.
Close Scope N_scope.
Open Scope nat_scope.

(* at most one goroutine is inside the underlying WriteMessage, and it is the holder of writeLock *)
Theorem C16_one_writer : forall pd progs script cfok c, reach pd progs script cfok c ->
  (forall t l, nth_error (thr c) t = Some l -> (holds_wl (wl_pc l) = true <-> w_WL (glob c) = Some t)) /\
  (forall t1 t2 l1 l2, nth_error (thr c) t1 = Some l1 -> nth_error (thr c) t2 = Some l2 ->
     holds_wl (wl_pc l1) = true -> holds_wl (wl_pc l2) = true -> t1 = t2).
Proof. exact one_writer. Qed.
Print Assumptions C16_one_writer.

Theorem C16_frame_under_writelock : forall pd progs script cfok c t c' ty d, reach pd progs script cfok c ->
  ws_step pd c t = Some (c', Some (WEvFrame ty d)) -> w_WL (glob c) = Some t.
Proof. exact frame_under_writelock. Qed.
Print Assumptions C16_frame_under_writelock.

(* at most one goroutine reads from the underlying connection: the Listening flag admits one
   read loop at a time (an old loop that is finishing is past its last read) *)
Theorem C16_one_reader : forall pd progs script cfok c, reach pd progs script cfok c ->
  cnti (tok (glob c)) 0 (thr c) <= b2n (f_listening (w_flags (glob c))) /\ cnt readP (thr c) <= 1 /\
  (forall t1 t2 l1 l2, nth_error (thr c) t1 = Some l1 -> nth_error (thr c) t2 = Some l2 ->
     reading (wl_pc l1) = true -> reading (wl_pc l2) = true -> t1 = t2) /\
  (forall t l, nth_error (thr c) t = Some l -> reading (wl_pc l) = true -> f_listening (w_flags (glob c)) = true).
Proof. exact one_reader. Qed.
Print Assumptions C16_one_reader.
Theorem C16_read_event_exclusive : forall pd progs script cfok c t c' t2 l2, reach pd progs script cfok c ->
  ws_step pd c t = Some (c', Some WEvRead) -> nth_error (thr c) t2 = Some l2 -> reading (wl_pc l2) = true -> t2 = t.
Proof. exact read_event_exclusive. Qed.
Print Assumptions C16_read_event_exclusive.

(* each Write call delivers its argument as exactly one binary frame and reports success
   (the full length) iff the underlying write succeeded *)
Theorem C16_write_result : forall pd c t c' e l d ok rest,
  ws_step pd c t = Some (c', e) -> nth_error (thr c) t = Some l -> wl_ops l = WWrite d ok :: rest ->
  match wl_pc l with
  | QIdle => e = None /\ glob c' = glob c /\ nth_error (thr c') t = Some (at_pc l QWWantWL)
  | QWWantWL => e = None /\ w_frames (glob c') = w_frames (glob c) /\ w_WL (glob c) = None /\ w_WL (glob c') = Some t /\
                nth_error (thr c') t = Some (at_pc l QWFrame)
  | QWFrame => e = Some (WEvFrame 2 d) /\ w_frames (glob c') = (2%N, d) :: w_frames (glob c) /\ w_WL (glob c') = None /\
               exists l', nth_error (thr c') t = Some l' /\ wl_pc l' = QIdle /\ wl_ops l' = rest /\
                          wl_rets l' = wl_rets l ++ [if ok && negb (w_uclosed (glob c)) then 0%N else 3%N]
  | _ => True end.
Proof. exact write_result. Qed.
Print Assumptions C16_write_result.
