(* C09 — no false success and no torn messages: failures surface as errors.
   Model: Client.v.  A Send offers the message's complete encoding to the connection; the
   connection script decides how many bytes it accepts (io.Writer contract: a short write
   comes with an error).  [accepted_bytes e] is what the connection accepted during the
   call, over however many Write calls.  The judge applied to the real client is the same
   predicate [send_ok].  (Websocket client: see the second part.)
   Only statements, [exact], Print Assumptions, examples. *)
From FF Require Import model.Bytes model.Msgp model.Forward model.Handshake model.Client model.ClientSpec
  proofs.Handshake_Proofs proofs.Client_Proofs.

(* every send call of every history is judged correct *)
Theorem C09_send_judged : forall (H : bytes -> bytes) cf s m wf resp s' e r,
  step H cf s (OSend m wf resp) = (s', e, r) ->
  send_ok (sm_enc m) (cf_ack cf) (chunk_of m) resp e r = true.
Proof. intros H. exact (send_judged H (U_ack_not_panic Stream)). Qed.
Print Assumptions C09_send_judged.

(* nil only if the connection accepted every byte of the encoding, in order *)
Theorem C09_ok_complete : forall (H : bytes -> bytes) cf s m wf resp s' e r,
  step H cf s (OSend m wf resp) = (s', e, r) -> r = ROk ->
  exists b, sm_enc m = Some b /\ accepted_bytes e = b.
Proof. intros H. exact (send_ok_complete H (U_ack_not_panic Stream)). Qed.
Print Assumptions C09_ok_complete.

(* a connection failure or short write at any point of the message is an error ... *)
Theorem C09_fault_is_error : forall (H : bytes -> bytes) cf s m n resp s' e r,
  step H cf s (OSend m (Some n) resp) = (s', e, r) -> r = RErr.
Proof. exact send_fault_is_error. Qed.
Print Assumptions C09_fault_is_error.

(* ... and the bytes accepted so far are a prefix of the encoding *)
Theorem C09_accepted_prefix : forall (H : bytes -> bytes) cf s m wf resp s' e r b,
  step H cf s (OSend m wf resp) = (s', e, r) -> sm_enc m = Some b -> exists t, b = accepted_bytes e ++ t.
Proof. intros H. exact (send_accepted_prefix H (U_ack_not_panic Stream)). Qed.
Print Assumptions C09_accepted_prefix.

(* a message that cannot be encoded is an error and no part of it reaches the connection *)
Theorem C09_unencodable_clean : forall (H : bytes -> bytes) cf s m wf resp s' e r,
  step H cf s (OSend m wf resp) = (s', e, r) -> sm_enc m = None -> accepted_bytes e = [] /\ r = RErr.
Proof. intros H. exact (send_unencodable_clean H (U_ack_not_panic Stream)). Qed.
Print Assumptions C09_unencodable_clean.

(* any failure while the ack is being read is an error: success needs a decoded ack (C04) *)
Theorem C09_ack_failure_is_error : forall (H : bytes -> bytes) cf s m wf resp s' e r c,
  cf_ack cf = true -> s_sess s = Some (c, true) ->
  step H cf s (OSend m wf resp) = (s', e, r) ->
  (r = ROk <-> exists ch b rest, sm_chunk m = Some ch /\ ch <> [] /\ sm_enc m = Some b /\ wf = None /\
                             U_ack Stream resp = Ok (ch, rest)).
Proof. intros H. exact (send_ack_ok_iff H (U_ack_not_panic Stream)). Qed.
Print Assumptions C09_ack_failure_is_error.

Theorem C09_sendraw : forall (H : bytes -> bytes) cf s b wf s' e r,
  step H cf s (OSendRaw b wf) = (s', e, r) ->
  (exists t, b = accepted_bytes e ++ t) /\ (r = ROk -> accepted_bytes e = b) /\ (wf <> None -> r = RErr).
Proof. exact sendraw_judged. Qed.
Print Assumptions C09_sendraw.

(* non-vacuity: a fault after 2 bytes of a 5-byte encoding *)
Example C09_nonvacuous :
  let cf := {| cf_key := None; cf_host := []; cf_ack := false; cf_timeout := false |} in
  let m := {| sm_chunk := None; sm_enc := Some [x93; xa1; x74; x05; x80] |} in
  step idH cf {| s_sess := Some (0%nat, true); s_next := 1 |} (OSend m (Some 2%N) []) =
    ({| s_sess := Some (0%nat, true); s_next := 1 |}, [EvWrite 0 [x93; xa1; x74; x05; x80] [x93; xa1] 0], RErr).
Proof. vm_compute. reflexivity. Qed.

(* ---- the websocket client (WsClient.v): the message is encoded into a private buffer, then
   handed to the connection in ONE Write whose error is the result of Send / SendRaw ---- *)
From FF Require Import model.Lts model.WsClient model.WsClientSpec.
From FF Require proofs.WsClient_Proofs.

(* a Write event is the single write of a send, carries the whole encoding (resp. exactly the
   caller's bytes), and the call returns ok (0) iff that write succeeded, else the write error (4) *)
Theorem C09_ws_one_write_reported : forall progs plan readers c t c' s d,
  WsClient_Proofs.reach false progs plan readers c ->
  xs_step false (length progs) c t = Some (c', Some (XEvWrite s d)) ->
  exists l w ops, nth_error (thr c) t = Some l /\ (t < length progs)%nat /\ x_pc l = XSendWrite s /\
     (x_ops l = XSend (Some d) w :: ops \/ x_ops l = XSendRaw d w :: ops) /\
     nth_error (thr c') t = Some {| x_pc := XIdle; x_ops := ops;
        x_rets := x_rets l ++ [if w && negb (WsClient_Proofs.closed (glob c) s) then 0%N else 4%N] |} /\
     xg_frames (glob c') = (s, t, d) :: xg_frames (glob c).
Proof. exact WsClient_Proofs.one_frame. Qed.
Print Assumptions C09_ws_one_write_reported.

(* a message that cannot be encoded never produces a Write *)
Theorem C09_ws_unencodable_clean : forall progs plan readers c t l w ops c' e,
  WsClient_Proofs.reach false progs plan readers c -> nth_error (thr c) t = Some l -> x_ops l = XSend None w :: ops ->
  xs_step false (length progs) c t = Some (c', e) -> WsClient_Proofs.is_write e = false.
Proof. exact WsClient_Proofs.encode_error_writes_nothing. Qed.
Print Assumptions C09_ws_unencodable_clean.

(* ---- the pooled send buffer (model/SendBuf.v): whatever an earlier Send left in a recycled buffer — the
   flushed part of a message that then failed to encode included — never reaches the connection: every
   Write carries the encoding of a message whose Encode succeeded, for every pool behaviour and interleaving ---- *)
From FF Require Import model.Show model.Pool model.SendBuf.
From Coq Require Import String.
Local Open Scope string_scope.
From FF Require proofs.SendBuf_Proofs.

Theorem C09_pooled_buffer_no_unencodable : forall (n : nat) (sch : list sitem) (t : nat) (b : bytes),
  In (t, b) (ss_wire (sc_st (sexec send_repaired (sinit n) sch))) -> exists q : sreq, q_ok q = true /\ b = q_written q.
Proof. exact SendBuf_Proofs.sendbuf_no_unencodable. Qed.
Print Assumptions C09_pooled_buffer_no_unencodable.

(* regression witness: without the Reset after Get the half-encoded bytes of a failed message are sent in
   front of the next one *)
Theorem C09_pooled_buffer_noreset_refuted :
  ss_wire (sc_st (sexec SendBuf_Proofs.noreset (sinit 1) SendBuf_Proofs.noreset_sched)) = [(0%nat, str "half-encodedgood")]
  /\ spec_wire (repeat T_idle 1) SendBuf_Proofs.noreset_sched = [(0%nat, str "good")].
Proof. exact SendBuf_Proofs.sendbuf_noreset_refuted. Qed.
Print Assumptions C09_pooled_buffer_noreset_refuted.
