(* C05 — the handshake completes only with a peer that proves knowledge of the shared key.
   Model: Handshake.v — HELO/PING/PONG codecs, digest = hex (H (salt ++ host ++ nonce ++ key)),
   the server-side helpers, and client_handshake (Client.Handshake).  H is an arbitrary
   function in the exactness theorems and an INJECTIVE function in the adversary theorems
   (the idealisation of SHA-512 the property needs; it appears as an explicit premise, it
   is not claimed of the concrete SHA-512 of Sha512.v which the correspondence executes).
   Only statements, [exact], Print Assumptions, examples. *)
From FF Require Import model.Bytes model.Show model.Msgp model.Forward model.Handshake model.Spec model.AckSpec
  proofs.Chunk_Proofs proofs.Handshake_Proofs proofs.AckSpec_Proofs.
(* [nx f bs]: no value boundary of the encoding carries an ext32 header -- the one header the
   stream skipper of the msgp dependency cannot pass (recorded finding D18) *)

(* transport phase is entered exactly when the PONG says auth_result = true and carries the
   digest of the formula for the salt of THIS handshake and the nonce of the HELO received *)
Theorem C05_accept_iff : forall (H : bytes -> bytes) (chost key salt inp1 inp2 : bytes),
  snd (client_handshake H chost key salt inp1 inp2) = Ok tt <->
  (exists (h : helo) (o : helo_opts) (rest1 : bytes) (po : pong) (rest2 : bytes),
     U_helo Stream inp1 = Ok (h, rest1) /\ hl_opts h = Some o /\
     U_pong Stream (rest1 ++ inp2) = Ok (po, rest2) /\
     po_auth po = true /\ po_digest po = digest H salt (po_host po) (h_nonce o) key).
Proof. exact client_accept_iff. Qed.
Print Assumptions C05_accept_iff.

(* the PONG decoder of C05_accept_iff accepts exactly the msgpack encodings (by the independent
   specification parser of Spec.v) of a five-element array [type, auth_result, reason,
   server_hostname, digest], in any legal header widths *)
Theorem C05_pong_decoder_exact : forall p bs po rest,
  U_pong p bs = Ok (po, rest) <-> parse1 bs = Some (pong_value po, rest).
Proof. exact U_pong_iff. Qed.
Print Assumptions C05_pong_decoder_exact.

(* ([kn], [ka], [kk] are the byte strings "nonce", "auth", "keepalive") *)
Example C05_key_names : kn = [x6e; x6f; x6e; x63; x65] /\ ka = [x61; x75; x74; x68] /\
  kk = [x6b; x65; x65; x70; x61; x6c; x69; x76; x65].
Proof. vm_compute. repeat split. Qed.

(* a HELO in any msgpack encoding whose option map has string keys and holds nonce, auth and
   keepalive exactly once each (in any order, among any other entries) is understood *)
Theorem C05_helo_decoder_complete : forall p f bs ty l r n a k,
  parse f bs = Some (VArr [VStr ty; VMap l], r) ->
  str_keys p l ->
  key_count kn l = 1%nat -> In (VStr kn, VBin n) l ->
  key_count ka l = 1%nat -> In (VStr ka, VBin a) l ->
  key_count kk l = 1%nat -> In (VStr kk, VBool k) l ->
  (p = Stream -> nx f bs = true) ->
  U_helo p bs = Ok ({| hl_type := ty;
                       hl_opts := Some {| h_nonce := n; h_auth := a; h_keepalive := k |} |}, r).
Proof. exact U_helo_complete. Qed.
Print Assumptions C05_helo_decoder_complete.

(* the PING a server receives: accepted by the decoder iff it is the six-element array *)
Theorem C05_ping_decoder_sound : forall p bs pg r, U_ping p bs = Ok (pg, r) ->
  exists f, parse f bs = Some (ping_value pg, r).
Proof. exact U_ping_sound. Qed.
Print Assumptions C05_ping_decoder_sound.

(* the bytes written are nothing, or exactly one PING carrying the salt and the digest
   hex (H (salt ++ client_hostname ++ nonce ++ key)) *)
Theorem C05_ping_exact : forall (H : bytes -> bytes) (chost key salt inp1 inp2 : bytes) (h : helo) (rest1 : bytes) (o : helo_opts),
  U_helo Stream inp1 = Ok (h, rest1) -> hl_opts h = Some o ->
  fst (client_handshake H chost key salt inp1 inp2) = M_ping (new_ping H chost key salt (h_nonce o)).
Proof. exact client_writes_exact. Qed.
Print Assumptions C05_ping_exact.

Theorem C05_malformed_helo_writes_nothing : forall (H : bytes -> bytes) (chost key salt inp1 inp2 : bytes),
  (forall h rest1 o, U_helo Stream inp1 = Ok (h, rest1) -> hl_opts h <> Some o) ->
  fst (client_handshake H chost key salt inp1 inp2) = [] /\
  (exists e, snd (client_handshake H chost key salt inp1 inp2) = Err e).
Proof. exact client_writes_nothing. Qed.
Print Assumptions C05_malformed_helo_writes_nothing.

Theorem C05_no_panic : forall (H : bytes -> bytes) (chost key salt inp1 inp2 : bytes),
  snd (client_handshake H chost key salt inp1 inp2) <> Panic.
Proof. exact client_handshake_no_panic. Qed.
Print Assumptions C05_no_panic.

(* an honest server (NewPong with the same key) is accepted, whatever follows on the stream *)
Theorem C05_honest_accepted : forall (H : bytes -> bytes) (chost shost key salt : bytes) (h : helo) (o : helo_opts) (reason : bytes) (po : pong) (extra : list byte),
  wf_helo h -> hl_opts h = Some o ->
  new_pong H true reason shost key h (new_ping H chost key salt (h_nonce o)) = Ok po -> wf_pong po ->
  client_handshake H chost key salt (M_helo h) (M_pong po ++ extra) = (M_ping (new_ping H chost key salt (h_nonce o)), Ok tt).
Proof. exact honest_run_accepted. Qed.
Print Assumptions C05_honest_accepted.

(* the server-side helpers accept exactly the digests of the formula *)
Theorem C05_validate_ping_exact : forall (H : bytes -> bytes) (p : ping) (key nonce : bytes),
  validate_ping H p key nonce = true <-> pg_digest p = digest H (pg_salt p) (pg_host p) nonce key.
Proof. exact validate_ping_iff. Qed.
Print Assumptions C05_validate_ping_exact.
Theorem C05_validate_pong_exact : forall (H : bytes -> bytes) (p : pong) (key nonce salt : bytes),
  validate_pong H p key nonce salt = true <-> po_digest p = digest H salt (po_host p) nonce key.
Proof. exact validate_pong_iff. Qed.
Print Assumptions C05_validate_pong_exact.
Theorem C05_new_pong_exact : forall (H : bytes -> bytes) (a : bool) (reason host key : bytes) (h : helo) (p : ping) (po : pong),
  new_pong H a reason host key h p = Ok po ->
  exists o, hl_opts h = Some o /\ po_digest po = digest H (pg_salt p) host (h_nonce o) key /\ po_auth po = a /\ po_host po = host.
Proof. exact new_pong_digest. Qed.
Print Assumptions C05_new_pong_exact.

(* ---- an injective hash: a server holding any other key rejects the PING; a peer
   answering under another key, or replaying / reflecting digests it has observed, is
   rejected — unless it names the client's own hostname (see C05_reflection_refuted) ---- *)
Theorem C05_other_key_rejects_ping : forall H : bytes -> bytes, (forall x y, H x = H y -> x = y) ->
  forall host key key' salt nonce : bytes, key' <> key ->
  validate_ping H (new_ping H host key salt nonce) key' nonce = false.
Proof. exact validate_ping_other_key_rejected. Qed.
Print Assumptions C05_other_key_rejects_ping.

Theorem C05_other_key_pong_rejected : forall H : bytes -> bytes, (forall x y, H x = H y -> x = y) ->
  forall (ty : bytes) (a : bool) (reason host key key' nonce salt : bytes), key' <> key ->
  validate_pong H {| po_type := ty; po_auth := a; po_reason := reason; po_host := host;
                     po_digest := digest H salt host nonce key' |} key nonce salt = false.
Proof. exact pong_other_key_rejected. Qed.
Print Assumptions C05_other_key_pong_rejected.

(* the adversary's knowledge: every digest this client or its honest servers ever produced
   in EARLIER handshakes (16-byte salts, all different from the current one: freshness of
   crypto/rand) and the PING of the current handshake.  Presenting any of them in a PONG
   whose server_hostname differs from the client's hostname fails. *)
Theorem C05_adversary : forall H : bytes -> bytes, (forall x y, H x = H y -> x = y) ->
  forall (chost key : bytes) (salt : list byte) (inp1 : bytes) (inp2 : list byte) (h : helo) (o : helo_opts)
         (rest1 : bytes) (po : pong) (rest2 : bytes) (earlier : list obs),
  length salt = 16%nat -> earlier_ok salt earlier ->
  U_helo Stream inp1 = Ok (h, rest1) -> hl_opts h = Some o ->
  U_pong Stream (rest1 ++ inp2) = Ok (po, rest2) ->
  observed H key chost salt (h_nonce o) earlier (po_digest po) ->
  po_host po <> chost ->
  snd (client_handshake H chost key salt inp1 inp2) = Err EOther.
Proof. exact client_rejects_observed. Qed.
Print Assumptions C05_adversary.

(* FULL statement of the property's adversary clause, and its refutation for the code as
   it is (known finding D9): a PONG that reflects the client's own PING digest AND names the
   client's own hostname is accepted, although its sender never used the key.  With an
   injective hash this is the ONLY observed digest that is accepted. *)
Definition C05_no_keyless_peer_full : Prop :=
  forall H : bytes -> bytes, (forall x y, H x = H y -> x = y) ->
  forall (key chost salt nonce : bytes) (earlier : list obs) (po : pong),
  length salt = 16%nat -> earlier_ok salt earlier ->
  observed H key chost salt nonce earlier (po_digest po) ->
  validate_pong H po key nonce salt = false.

Theorem C05_reflection_refuted : ~ C05_no_keyless_peer_full.
Proof.
  intros F. specialize (F idH idH_inj ex_key ex_chost ex_salt ex_nonce []
    {| po_type := []; po_auth := true; po_reason := []; po_host := ex_chost;
       po_digest := digest idH ex_salt ex_chost ex_nonce ex_key |}).
  assert (E : validate_pong idH {| po_type := []; po_auth := true; po_reason := []; po_host := ex_chost;
       po_digest := digest idH ex_salt ex_chost ex_nonce ex_key |} ex_key ex_nonce ex_salt = true) by (vm_compute; reflexivity).
  rewrite F in E; [discriminate | reflexivity | intros x [] | left; reflexivity].
Qed.
Print Assumptions C05_reflection_refuted.

Theorem C05_adversary_exact : forall H : bytes -> bytes, (forall x y, H x = H y -> x = y) ->
  forall (key chost : bytes) (salt : list byte) (nonce : bytes) (earlier : list obs) (po : pong),
  length salt = 16%nat -> earlier_ok salt earlier ->
  observed H key chost salt nonce earlier (po_digest po) ->
  validate_pong H po key nonce salt = true <->
  po_host po = chost /\ po_digest po = digest H salt chost nonce key.
Proof. exact adversary_accept_iff. Qed.
Print Assumptions C05_adversary_exact.

(* non-vacuity: concrete runs with the (injective) identity as hash *)
Example C05_nonvacuous :
  client_handshake idH ex_chost ex_key ex_salt (M_helo ex_helo) (M_pong (ex_pong true ex_shost ex_salt ex_key)) = (M_ping ex_ping, Ok tt) /\
  (forall x y, idH x = idH y -> x = y).
Proof. split; [exact ex_honest | exact idH_inj]. Qed.
