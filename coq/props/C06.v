(* C06 — no event bytes leave the client outside a live, authenticated session.
   Model: Client.v (one step per public method call, scripted environment).  The property
   is the executable reference monitor of ClientSpec.v: it keeps a REFERENCE session state
   computed from the results of the calls alone (Connect ok -> live; shared key configured
   -> transport phase only after a Handshake that returned ok; Disconnect / failed
   Reconnect -> none) and accepts a call only if
     - event data is written only while the reference session is live and in transport
       phase, on that session's connection; otherwise the send returns an error and
       nothing is written;
     - before transport phase the only write is the single PING of a Handshake call;
   and [trace_ok] checks over the whole trace that nothing is written to (or closed on)
   a connection that was closed or replaced.  The same monitors judge the real client.
   Only statements, [exact], Print Assumptions, examples. *)
From FF Require Import model.Bytes model.Msgp model.Forward model.Handshake model.Client model.ClientSpec
  proofs.Handshake_Proofs proofs.Client_Proofs.

(* every history, every configuration, every environment script, every hash function *)
Theorem C06_monitor_accepts : forall (H : bytes -> bytes) cf ops,
  monitor (has_key cf) None (history ops (fst (runs H cf init_st ops))) = true.
Proof. intros H cf ops. exact (run_monitored H (U_ack_not_panic Stream) (client_handshake_no_panic H) cf ops init_st). Qed.
Print Assumptions C06_monitor_accepts.

Theorem C06_no_write_after_close : forall (H : bytes -> bytes) cf ops,
  trace_ok [] [] (trace (fst (runs H cf init_st ops))) = true.
Proof. exact run_trace_ok. Qed.
Print Assumptions C06_no_write_after_close.

(* the reference state the monitor tracks IS the client's session state after every call *)
Theorem C06_reference_state : forall (H : bytes -> bytes) cf s o s' e r,
  step H cf s o = (s', e, r) -> mon_step (has_key cf) (s_sess s) (kind_of o) e r = Some (s_sess s').
Proof. intros H. exact (step_monitored H (U_ack_not_panic Stream) (client_handshake_no_panic H)). Qed.
Print Assumptions C06_reference_state.

(* spelled out: without a live session in transport phase every send fails and writes nothing *)
Theorem C06_send_refused : forall (H : bytes -> bytes) cf s,
  (s_sess s = None \/ exists c, s_sess s = Some (c, false)) ->
  (forall m wf resp, step H cf s (OSend m wf resp) = (s, [], RErr)) /\
  (forall b wf, step H cf s (OSendRaw b wf) = (s, [], RErr)).
Proof.
  intros H cf s [E|[c E]]; split; intros; cbn [step]; rewrite E; reflexivity.
Qed.
Print Assumptions C06_send_refused.

(* with a shared key, a fresh connection is not in transport phase; only a Handshake call
   that returns ok (hence, by C05, a PONG proving the key) moves it there *)
Theorem C06_transport_only_by_handshake : forall (H : bytes -> bytes) cf s o s' e r c,
  cf_key cf <> None -> step H cf s o = (s', e, r) -> s_sess s' = Some (c, true) ->
  s_sess s = Some (c, true) \/ (exists salt i1 i2, o = OHandshake salt i1 i2 /\ r = ROk).
Proof.
  intros H cf s o s' e r c Hk Hs Hs'.
  destruct o as [ok| |ok|salt i1 i2|m wf resp|b wf|]; cbn [step] in Hs.
  - destruct (s_sess s) as [[c0 tp]|] eqn:E0.
    + inversion Hs; subst. left. congruence.
    + unfold connect in Hs. destruct ok; inversion Hs; subst; cbn [s_sess] in Hs'; try discriminate.
      destruct (cf_key cf); [discriminate | contradiction].
  - unfold disconnect in Hs. destruct (s_sess s) as [[c0 tp]|] eqn:E0; inversion Hs; subst; cbn [s_sess] in Hs'; congruence.
  - unfold disconnect, connect in Hs. destruct (s_sess s) as [[c0 tp]|]; destruct ok; inversion Hs; subst; cbn [s_sess] in Hs'; try discriminate;
      (destruct (cf_key cf); [discriminate | contradiction]).
  - destruct (s_sess s) as [[c0 tp]|] eqn:E0.
    + destruct (client_handshake H (cf_host cf) match cf_key cf with Some k => k | None => [] end salt i1 i2) as [w rr].
      destruct rr as [[]|er|]; inversion Hs; subst.
      * right. eauto.
      * left. congruence.
      * left. congruence.
    + inversion Hs; subst. congruence.
  - left. assert (s' = s); [|subst; assumption].
    destruct (s_sess s) as [[c0 [|]]|]; try (now inversion Hs).
    assert (Hgo : forall chunk, match sm_enc m with
      | None => (s, [], RErr)
      | Some e0 => let '(w, ok) := do_write c0 e0 wf 0 in
                   if negb ok then (s, w, RErr) else if negb (cf_ack cf) then (s, w, ROk)
                   else let '(a, r0) := check_ack cf c0 chunk resp in (s, w ++ a, r0)
      end = (s', e, r) -> s' = s).
    { intros chunk. destruct (sm_enc m); [|now inversion 1].
      destruct (do_write c0 b wf 0) as [w ok]. destruct (negb ok); [now inversion 1|].
      destruct (negb (cf_ack cf)); [now inversion 1|].
      destruct (check_ack cf c0 chunk resp). now inversion 1. }
    destruct (cf_ack cf); [destruct (sm_chunk m) as [[|]|]|]; try (now inversion Hs); eapply Hgo; eauto.
  - left. assert (s' = s); [|subst; assumption].
    destruct (s_sess s) as [[c0 [|]]|]; try (now inversion Hs).
    destruct (do_write c0 b wf 0). now inversion Hs.
  - inversion Hs; subst. left. assumption.
Qed.
Print Assumptions C06_transport_only_by_handshake.

Example C06_nonvacuous :
  let cf := {| cf_key := Some [x6b]; cf_host := [x68]; cf_ack := false; cf_timeout := false |} in
  fst (runs idH cf init_st [OConnect true; OSendRaw [xc0] None; OTransportPhase; ODisconnect]) =
  [([EvNew true 0], ROk); ([], RErr); ([], RFalse); ([EvClose 0], ROk)].
Proof. vm_compute. reflexivity. Qed.
