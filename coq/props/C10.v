(* C10 — decoders and client read paths are total on arbitrary bytes.
   Every decoding entry point of the model is a total Gallina function into
   res = Ok | Err | Panic; [Panic] is what the model returns where the Go code would panic
   and [Err EFuel] where the recursion would not have terminated within the fuel the
   decoders give themselves (fuel_for bs, linear in the input).  Both are unreachable.
   Only statements, [exact], Print Assumptions, examples. *)
From FF Require Import model.Bytes model.Msgp model.Forward model.Handshake model.Spec model.Wf model.Alloc
  proofs.Msgp_Total proofs.Total_Proofs proofs.Prefix_Proofs proofs.Roundtrip_Proofs.
From FF Require proofs.Handshake_Proofs.
Open Scope N_scope.

(* ---- never a panic, on any byte string, either path, any receiver ---- *)
Theorem C10_no_panic_message : forall p prev bs, U_message p prev bs <> Panic.
Proof. exact U_message_no_panic. Qed.
Print Assumptions C10_no_panic_message.
Theorem C10_no_panic_message_ext : forall p prev bs, U_message_ext p prev bs <> Panic.
Proof. exact U_message_ext_no_panic. Qed.
Print Assumptions C10_no_panic_message_ext.
Theorem C10_no_panic_forward : forall p prev bs, U_forward p prev bs <> Panic.
Proof. exact U_forward_no_panic. Qed.
Print Assumptions C10_no_panic_forward.
Theorem C10_no_panic_packed : forall p prev bs, U_packed p prev bs <> Panic.
Proof. exact U_packed_no_panic. Qed.
Print Assumptions C10_no_panic_packed.
Theorem C10_no_panic_small : forall p bs,
  U_options p bs <> Panic /\ U_entry p bs <> Panic /\ U_entry_list p bs <> Panic /\ U_ack p bs <> Panic /\
  U_helo p bs <> Panic /\ U_ping p bs <> Panic /\ U_pong p bs <> Panic.
Proof.
  intros p bs. repeat split;
    [apply U_options_no_panic | apply U_entry_no_panic | apply U_entry_list_no_panic | apply U_ack_no_panic
    | apply U_helo_no_panic | apply U_ping_no_panic | apply U_pong_no_panic].
Qed.
Print Assumptions C10_no_panic_small.
Theorem C10_no_panic_unpack_chunk_time : forall bs,
  unmarshal_packed bs <> Panic /\ get_chunk bs <> Panic /\ dec_eventtime bs <> Panic.
Proof. intros bs. repeat split; [apply unmarshal_packed_no_panic | apply get_chunk_no_panic | apply dec_eventtime_no_panic]. Qed.
Print Assumptions C10_no_panic_unpack_chunk_time.
Theorem C10_no_panic_values : forall p f bs, rd_intf p f bs <> Panic /\ skip p f bs <> Panic.
Proof. intros. split; [apply rd_intf_no_panic | apply skip_no_panic]. Qed.
Print Assumptions C10_no_panic_values.

(* ---- termination: the decoders' own fuel never runs out (every recursive call and every
   loop iteration consumes at least one byte of input) ---- *)
Theorem C10_terminates_values : forall p bs f, (fuel_for bs <= f)%nat ->
  rd_intf p f bs <> Err EFuel /\ skip p f bs <> Err EFuel.
Proof. intros. split; [now apply rd_intf_no_fuel | now apply skip_no_fuel]. Qed.
Print Assumptions C10_terminates_values.
Theorem C10_terminates_messages : forall p bs,
  (forall prev, U_message p prev bs <> Err EFuel) /\ (forall prev, U_message_ext p prev bs <> Err EFuel) /\
  (forall prev, U_forward p prev bs <> Err EFuel) /\ (forall prev, U_packed p prev bs <> Err EFuel) /\
  U_options p bs <> Err EFuel /\ U_entry p bs <> Err EFuel /\ U_entry_list p bs <> Err EFuel /\
  U_ack p bs <> Err EFuel /\ U_helo p bs <> Err EFuel /\ U_ping p bs <> Err EFuel /\ U_pong p bs <> Err EFuel.
Proof.
  intros p bs. repeat split; intros;
    first [apply U_message_no_fuel | apply U_message_ext_no_fuel | apply U_forward_no_fuel | apply U_packed_no_fuel
          | apply U_options_no_fuel | apply U_entry_no_fuel | apply U_entry_list_no_fuel | apply U_ack_no_fuel
          | apply U_helo_no_fuel | apply U_ping_no_fuel | apply U_pong_no_fuel].
Qed.
Print Assumptions C10_terminates_messages.
Theorem C10_terminates_unpack_chunk : forall bs, unmarshal_packed bs <> Err EFuel /\ get_chunk bs <> Err EFuel.
Proof. intros. split; [apply unmarshal_packed_no_fuel | apply get_chunk_no_fuel]. Qed.
Print Assumptions C10_terminates_unpack_chunk.

(* ---- every strict prefix of a valid encoding is rejected, by both paths ---- *)
Theorem C10_prefix_rejected_message : forall p prev m e x y, wf_message m = true -> M_message m = Ok e ->
  e = x ++ y -> y <> [] -> exists er, U_message p prev x = Err er.
Proof. exact prefix_rejected_message. Qed.
Print Assumptions C10_prefix_rejected_message.
Theorem C10_prefix_rejected_message_ext : forall p prev m e x y, wf_message_ext m = true -> M_message_ext m = Ok e ->
  e = x ++ y -> y <> [] -> exists er, U_message_ext p prev x = Err er.
Proof. exact prefix_rejected_message_ext. Qed.
Print Assumptions C10_prefix_rejected_message_ext.
Theorem C10_prefix_rejected_forward : forall p prev m e x y, wf_forward m = true -> M_forward m = Ok e ->
  e = x ++ y -> y <> [] -> exists er, U_forward p prev x = Err er.
Proof. exact prefix_rejected_forward. Qed.
Print Assumptions C10_prefix_rejected_forward.
Theorem C10_prefix_rejected_packed : forall p prev m x y, wf_packed m = true ->
  M_packed m = x ++ y -> y <> [] -> exists er, U_packed p prev x = Err er.
Proof. exact prefix_rejected_packed. Qed.
Print Assumptions C10_prefix_rejected_packed.
Theorem C10_prefix_rejected_entry : forall p en e x y, wf_entry en = true -> M_entry en = Ok e ->
  e = x ++ y -> y <> [] -> exists er, U_entry p x = Err er.
Proof. exact prefix_rejected_entry. Qed.
Print Assumptions C10_prefix_rejected_entry.
Theorem C10_prefix_rejected_handshake_ack : forall p,
  (forall a x y, len a < two32 -> M_ack a = x ++ y -> y <> [] -> exists er, U_ack p x = Err er) /\
  (forall h x y, wf_helo h -> M_helo h = x ++ y -> y <> [] -> exists er, U_helo p x = Err er) /\
  (forall g x y, wf_ping g -> M_ping g = x ++ y -> y <> [] -> exists er, U_ping p x = Err er) /\
  (forall g x y, wf_pong g -> M_pong g = x ++ y -> y <> [] -> exists er, U_pong p x = Err er).
Proof.
  intros p. repeat split; intros;
    [eapply prefix_rejected_ack | eapply prefix_rejected_helo | eapply prefix_rejected_ping | eapply prefix_rejected_pong]; eauto.
Qed.
Print Assumptions C10_prefix_rejected_handshake_ack.

(* ---- the client's read paths: no HELO/PONG/ack byte sequence panics; transport phase
   needs a valid handshake (C05_accept_iff) ---- *)
Theorem C10_handshake_total : forall (H : bytes -> bytes) chost key salt inp1 inp2,
  snd (client_handshake H chost key salt inp1 inp2) <> Panic.
Proof. exact Handshake_Proofs.client_handshake_no_panic. Qed.
Print Assumptions C10_handshake_total.

(* ---- memory proportionate to the input: FULL statement and its refutation for the code as
   it is (known finding D13): the generated EntryList decoder and msgp.ReadIntfBytes allocate
   for the DECLARED count before reading a single element ---- *)
Definition C10_alloc_proportional_full : Prop :=
  forall bs, entry_list_alloc bs <= 256 * len bs + 65536 /\ intf_alloc bs <= 256 * len bs + 65536.
Theorem C10_alloc_refuted : ~ C10_alloc_proportional_full.
Proof.
  intros F. destruct (F [xdd; xff; xff; xff; xff]) as [F1 _]. vm_compute in F1. apply F1. reflexivity.
Qed.
Print Assumptions C10_alloc_refuted.
Example C10_nonvacuous :
  (exists e, U_forward Slice zero_forward [x92; xa0; xdd; x00; x10; x00; x00; x00] = Err e) /\
  entry_list_alloc [xdd; x00; x10; x00; x00; x00] = 41943040.
Proof. split; [eexists; vm_compute; reflexivity | vm_compute; reflexivity]. Qed.
