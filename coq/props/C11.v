(* C11 — GetChunk agrees with full decoding on every well-formed message.
   [spec_parse shape_any]: the independent specification parser recognises a message of
   any of the four modes, in ANY legal msgpack encoding of its fields; [spec_chunk] is the
   chunk id found in its option map.  [get_chunk] is the model of chunk.go's positional
   walker.  [no_ext32 bs]: no value in the message is encoded with an ext32 header (0xc9):
   tinylib/msgp's stream Skip reports such a header as truncated, so GetChunk fails on
   those messages (known finding D18, reproduced on the real code; dependency).
   Only statements, [exact], Print Assumptions, examples. *)
From Coq Require Import String.
From FF Require Import model.Bytes model.Show model.Msgp model.Forward model.Spec model.Pinned
  proofs.Lead_Proofs proofs.Chunk_Proofs.
Open Scope string_scope.
Open Scope N_scope.

Theorem C11_agrees : forall bs m,
  spec_parse shape_any bs = Some (m, []) -> no_ext32 bs = true ->
  match spec_chunk m with Some c => get_chunk bs = Ok c | None => exists e, get_chunk bs = Err e end.
Proof. exact get_chunk_agrees. Qed.
Print Assumptions C11_agrees.

(* the same with records of any msgpack type and with bytes following the message *)
Theorem C11_agrees_general : forall st bs m rest,
  spec_parse (shape_any_gen st) bs = Some (m, rest) -> no_ext32 bs = true ->
  match spec_chunk m with Some c => get_chunk bs = Ok c | None => exists e, get_chunk bs = Err e end.
Proof. exact get_chunk_agrees_gen. Qed.
Print Assumptions C11_agrees_general.

(* content elsewhere in the message (records, entries, event stream, tag, time) never
   influences the answer: it depends on the option map alone *)
Theorem C11_record_independent : forall bs1 bs2 m1 m2,
  spec_parse shape_any bs1 = Some (m1, []) -> no_ext32 bs1 = true ->
  spec_parse shape_any bs2 = Some (m2, []) -> no_ext32 bs2 = true ->
  smsg_opts m1 = smsg_opts m2 -> same_result (get_chunk bs1) (get_chunk bs2).
Proof. exact get_chunk_record_independent. Qed.
Print Assumptions C11_record_independent.

(* FULL statement (no side condition on the encoding) and its refutation for the code as
   it is: an unknown option whose value is ext32-encoded, placed before "chunk" *)
Definition C11_agrees_full : Prop := forall bs m,
  spec_parse shape_any bs = Some (m, []) ->
  match spec_chunk m with Some c => get_chunk bs = Ok c | None => exists e, get_chunk bs = Err e end.
Theorem C11_ext32_refuted : ~ C11_agrees_full.
Proof.
  intros F.
  pose (bs := [x94; xa1; x74; x05; x80; x82; xa1; x78; xc9; x00; x00; x00; x01; x05; xaa; xa5; x63; x68; x75; x6e; x6b; xa1; x63]).
  assert (E : exists m, spec_parse shape_any bs = Some (m, []) /\ spec_chunk m = Some [x63]).
  { eexists. split; vm_compute; reflexivity. }
  destruct E as (m & E1 & E2). specialize (F bs m E1). rewrite E2 in F. vm_compute in F. discriminate.
Qed.
Print Assumptions C11_ext32_refuted.

(* regression witness (D6, fixed): the walker of the pinned commit did not recognise an
   unsigned-integer timestamp and returned a "chunk" key found inside the record *)
Theorem C11_refuted_pinned : exists bs m,
  spec_parse shape_any bs = Some (m, []) /\ no_ext32 bs = true /\ spec_chunk m = Some (str "c") /\
  get_chunk bs = Ok (str "c") /\ get_chunk_pinned bs = Ok (str "decoy").
Proof. exact get_chunk_pinned_refuted. Qed.
Print Assumptions C11_refuted_pinned.

Example C11_nonvacuous :
  let bs := [x94; xa1; x74; xce; x00; x00; x00; x05; x81; xa5; x63; x68; x75; x6e; x6b; xa5; x64; x65; x63; x6f; x79;
             x82; xa1; x78; x01; xa5; x63; x68; x75; x6e; x6b; xa1; x63] in
  no_ext32 bs = true /\ get_chunk bs = Ok [x63] /\
  exists m, spec_parse shape_any bs = Some (m, []) /\ spec_chunk m = Some [x63].
Proof. repeat split; try (vm_compute; reflexivity). eexists. split; vm_compute; reflexivity. Qed.
