(* C17 — websocket client: one frame per message, sticky read errors, safe lifecycle.
   Model: WsClient.v — WSClient under concurrency: any number of goroutines calling Send /
   SendRaw / Connect / Disconnect / Reconnect, the background reader goroutine of every
   session, the session's ws.Connection as an environment object (the harness substitutes
   a fake through WSConnectionFactory.NewSession).  [reach false progs plan readers c]: c is
   reached by some schedule of the repaired code; pinned = true re-introduces defect D16.
   Only statements, [exact], Print Assumptions, examples. *)
From FF Require Import model.Bytes model.Lts model.WsClient model.WsClientSpec proofs.WsClient_Proofs.
Close Scope N_scope.
Open Scope nat_scope.

(* each Write is performed by a send at its write step, carries exactly that call's bytes, on
   the session the call captured, and finishes the call: one frame per message *)
Theorem C17_one_frame : forall progs plan readers c t c' s d,
  reach false progs plan readers c ->
  xs_step false (length progs) c t = Some (c', Some (XEvWrite s d)) ->
  exists l w ops, nth_error (thr c) t = Some l /\ t < length progs /\ x_pc l = XSendWrite s /\
     (x_ops l = XSend (Some d) w :: ops \/ x_ops l = XSendRaw d w :: ops) /\
     nth_error (thr c') t = Some {| x_pc := XIdle; x_ops := ops;
        x_rets := x_rets l ++ [if w && negb (closed (glob c) s) then 0%N else 4%N] |} /\
     xg_frames (glob c') = (s, t, d) :: xg_frames (glob c).
Proof. exact one_frame. Qed.
Print Assumptions C17_one_frame.

(* over whole runs: the frames of every goroutine are exactly what its finished calls and
   their results dictate (result 0 or 4: one Write with the message's bytes; otherwise none) *)
Theorem C17_frames_account : forall progs plan readers c,
  reach false progs plan readers c -> frames_account progs c = true.
Proof. exact frames_account_reach. Qed.
Print Assumptions C17_frames_account.
Theorem C17_trace_shape : forall progs plan readers sch,
  let r := xs_exec false (length progs) (xinit progs plan readers) sch in
  trace_ok progs (fst r) (snd r) = true.
Proof. exact trace_parses. Qed.
Print Assumptions C17_trace_shape.

Theorem C17_encode_error_writes_nothing : forall progs plan readers c t l w ops c' e,
  reach false progs plan readers c -> nth_error (thr c) t = Some l -> x_ops l = XSend None w :: ops ->
  xs_step false (length progs) c t = Some (c', e) -> is_write e = false.
Proof. exact encode_error_writes_nothing. Qed.
Print Assumptions C17_encode_error_writes_nothing.

(* the sticky error: set only by the reader of the session that is still current, or by the setErr
   step of a failed Reconnect; cleared only by the setErr step of a successful Reconnect (the step the
   code performs, still under the exclusive lock, a few instructions after the dial: XSetErr) *)
Theorem C17_sticky : forall n c t l c' e,
  nth_error (thr c) t = Some l -> xs_step false n c t = Some (c', e) ->
  xg_err (glob c') <> xg_err (glob c) ->
  (xg_err (glob c') = true /\
     ((exists s, x_pc l = XBgReport s /\ xg_sess (glob c) = Some s /\ e = None)
      \/ (x_pc l = XSetErr false /\ e = None /\ xg_sess (glob c') = xg_sess (glob c))))
  \/ (xg_err (glob c') = false /\ x_pc l = XSetErr true /\ e = None /\ xg_sess (glob c') = xg_sess (glob c)).
Proof. exact sticky. Qed.
Print Assumptions C17_sticky.

Theorem C17_seterr_is_reconnect : forall progs plan readers c t l ok,
  reach false progs plan readers c -> nth_error (thr c) t = Some l -> x_pc l = XSetErr ok ->
  (exists ops, x_ops l = XReconnect ok :: ops) /\ rw_writer (xg_SL (glob c)) = Some t.
Proof. exact seterr_is_reconnect. Qed.
Print Assumptions C17_seterr_is_reconnect.

(* once it is set, every later send returns that error without touching the connection *)
Theorem C17_error_is_sticky : forall n c t l c' e,
  nth_error (thr c) t = Some l -> x_pc l = XIdle -> head_send l = true -> xg_err (glob c) = true ->
  xs_step false n c t = Some (c', e) ->
  e = None /\ glob c' = glob c /\ nth_error (thr c') t = Some (xfin l 2%N).
Proof. exact error_is_sticky. Qed.
Print Assumptions C17_error_is_sticky.

(* the reader of a session that has been replaced cannot poison its successor *)
Theorem C17_stale_reader_harmless : forall n c t l s c' e,
  nth_error (thr c) t = Some l -> x_pc l = XBgReport s -> xg_sess (glob c) <> Some s ->
  xs_step false n c t = Some (c', e) ->
  glob c' = glob c /\ e = None /\ (exists l', nth_error (thr c') t = Some l' /\ x_pc l' = XBgDone).
Proof. exact stale_reader_harmless. Qed.
Print Assumptions C17_stale_reader_harmless.

(* Reconnect: the dial installs a fresh open session (or none) and leaves the error flag alone; the setErr
   step that follows clears it after a successful dial, sets it after a failed one, unlocks and returns *)
Theorem C17_reconnect_dials : forall n c t l ok ops c' e,
  nth_error (thr c) t = Some l -> x_pc l = XDial -> x_ops l = XReconnect ok :: ops ->
  xs_step false n c t = Some (c', e) ->
  e = Some (XEvNew ok) /\ xg_err (glob c') = xg_err (glob c) /\ xg_SL (glob c') = xg_SL (glob c) /\
  nth_error (thr c') t = Some (xat l (XSetErr ok)) /\
  (if ok then xg_sess (glob c') = Some (length (xg_sessions (glob c))) /\
              length (xg_sessions (glob c')) = S (length (xg_sessions (glob c))) /\
              closed (glob c') (length (xg_sessions (glob c))) = false
   else xg_sess (glob c') = None /\ xg_sessions (glob c') = xg_sessions (glob c)).
Proof. exact reconnect_dials. Qed.
Print Assumptions C17_reconnect_dials.

Theorem C17_reconnect_clears : forall n c t l c' e,
  nth_error (thr c) t = Some l -> x_pc l = XSetErr true ->
  xs_step false n c t = Some (c', e) ->
  e = None /\ xg_err (glob c') = false /\ xg_sess (glob c') = xg_sess (glob c) /\
  xg_sessions (glob c') = xg_sessions (glob c) /\ xg_SL (glob c') = wunlock (xg_SL (glob c)) /\
  nth_error (thr c') t = Some (xfin l 0%N).
Proof. exact reconnect_clears. Qed.
Print Assumptions C17_reconnect_clears.

Theorem C17_failed_reconnect_sets : forall n c t l c' e,
  nth_error (thr c) t = Some l -> x_pc l = XSetErr false ->
  xs_step false n c t = Some (c', e) ->
  e = None /\ xg_err (glob c') = true /\ xg_sess (glob c') = xg_sess (glob c) /\
  nth_error (thr c') t = Some (xfin l 6%N).
Proof. exact reconnect_failure_sets. Qed.
Print Assumptions C17_failed_reconnect_sets.

(* sends without a live session fail with an error and no event *)
Theorem C17_no_session : forall n c t l c' e,
  nth_error (thr c) t = Some l -> x_pc l = XSendChecked -> xg_sess (glob c) = None ->
  xs_step false n c t = Some (c', e) ->
  e = None /\ glob c' = glob c /\ nth_error (thr c') t = Some (xfin l 1%N).
Proof. exact no_session. Qed.
Print Assumptions C17_no_session.

(* lifecycle: Connect on an active session fails without dialling; a failed dial leaves no
   session; every session other than the current one is closed; no connection closed twice *)
Theorem C17_connect_refused : forall n c t l ok ops s c' e,
  nth_error (thr c) t = Some l -> x_pc l = XExcl -> x_ops l = XConnect ok :: ops ->
  xg_sess (glob c) = Some s -> xs_step false n c t = Some (c', e) ->
  e = None /\ nth_error (thr c') t = Some (xfin l 5%N) /\
  xg_sess (glob c') = Some s /\ xg_sessions (glob c') = xg_sessions (glob c) /\
  xg_err (glob c') = xg_err (glob c) /\ rw_writer (xg_SL (glob c')) = None.
Proof. exact connect_refused. Qed.
Print Assumptions C17_connect_refused.
Theorem C17_failed_dial_no_session : forall n c t c',
  xs_step false n c t = Some (c', Some (XEvNew false)) -> xg_sess (glob c') = None.
Proof. exact failed_dial_no_session. Qed.
Print Assumptions C17_failed_dial_no_session.
Theorem C17_lifecycle : forall progs plan readers c,
  reach false progs plan readers c ->
  (forall s, xg_sess (glob c) = Some s -> s < length (xg_sessions (glob c))) /\
  (forall s, xg_sess (glob c) <> Some s -> closed (glob c) s = true) /\
  (forall s1 s2, closed (glob c) s1 = false -> closed (glob c) s2 = false -> s1 = s2) /\
  NoDup (xg_closes (glob c)) /\
  (forall s, In s (xg_closes (glob c)) -> s < length (xg_sessions (glob c)) /\ closed (glob c) s = true) /\
  xg_spawned (glob c) = seq 0 (length (xg_sessions (glob c))).
Proof. exact lifecycle. Qed.
Print Assumptions C17_lifecycle.

(* concurrency: no panic, no deadlock (the only goroutine that may wait forever is the reader
   of the current, healthy session), session pointer written only under the exclusive lock *)
Theorem C17_no_panic : forall progs plan readers c, reach false progs plan readers c -> xg_panic (glob c) = false.
Proof. exact no_panic. Qed.
Print Assumptions C17_no_panic.
Theorem C17_no_deadlock : forall progs plan readers c,
  reach false progs plan readers c -> xs_deadlocked false (length progs) c = true ->
  forall t l, nth_error (thr c) t = Some l -> xdone l = false ->
    length progs <= t /\
    exists s, x_pc l = XBgListening s /\ s = t - length progs /\ xg_sess (glob c) = Some s /\
              closed (glob c) s = false /\ xs_ends_alone (sess_get (glob c) s) = false.
Proof. exact no_deadlock. Qed.
Print Assumptions C17_no_deadlock.
Theorem C17_writes_under_lock : forall progs plan readers c t c' e,
  reach false progs plan readers c -> xs_step false (length progs) c t = Some (c', e) ->
  xg_sess (glob c') <> xg_sess (glob c) \/ xg_sessions (glob c') <> xg_sessions (glob c) ->
  rw_writer (xg_SL (glob c)) = Some t.
Proof. exact writes_under_lock. Qed.
Print Assumptions C17_writes_under_lock.

(* regression witnesses (D16, fixed): the pinned Send re-read c.session for the Write — a
   Disconnect between the Closed() query and the Write is a nil dereference; the pinned reader
   goroutine stored its error unconditionally — a replaced session's reader poisons its successor *)
Theorem C17_refuted_pinned_panic :
  reach true panic_progs [] 1 (fst (xs_exec true 2 (xinit panic_progs [] 1) panic_sched)) /\
  xg_panic (glob (fst (xs_exec true 2 (xinit panic_progs [] 1) panic_sched))) = true /\
  snd (xs_exec true 2 (xinit panic_progs [] 1) panic_sched)
  = [(0, XEvNew true); (0, XEvClosedQ 0 false); (1, XEvClosedQ 0 false); (1, XEvClose 0)].
Proof. exact pinned_panics. Qed.
Print Assumptions C17_refuted_pinned_panic.
