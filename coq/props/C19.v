(* C19 — EventTime preserves the instant to the nanosecond, independent of time zone.
   Model: Msgp.et_payload (EventTime.MarshalBinaryTo applied to the instant
   (Unix(), Nanosecond()) of the value — the only thing the Go code reads from it after
   UTC()) and Msgp.dec_eventtime (EventTime.UnmarshalBinary followed by time.Unix's
   normalisation).  Only statements, [exact], Print Assumptions, examples. *)
From FF Require Import model.Bytes model.Msgp model.Wf proofs.EventTime_Proofs.

(* every instant whose seconds fit 32 unsigned bits survives encode/decode to the nanosecond *)
Theorem C19_roundtrip : forall s n, wf_instant (s, n) = true -> dec_eventtime (et_payload s n) = Ok (s, n).
Proof. exact et_roundtrip. Qed.
Print Assumptions C19_roundtrip.

(* the encoding is a function of the instant alone: the model's encoder has no other
   argument, and on the domain it is injective, so it identifies the instant *)
Theorem C19_instant_only : forall s1 n1 s2 n2, wf_instant (s1, n1) = true -> wf_instant (s2, n2) = true ->
  et_payload s1 n1 = et_payload s2 n2 -> s1 = s2 /\ n1 = n2.
Proof. exact et_payload_inj. Qed.
Print Assumptions C19_instant_only.

(* bytewise lexicographic order of the encodings = order of the instants *)
Theorem C19_order : forall t1 t2, wf_instant t1 = true -> wf_instant t2 = true ->
  bytes_cmp (et_payload (fst t1) (snd t1)) (et_payload (fst t2) (snd t2)) = instant_cmp t1 t2.
Proof. exact et_order. Qed.
Print Assumptions C19_order.

(* payloads that are not exactly eight bytes are rejected, eight bytes are accepted *)
Theorem C19_length_rejected : forall d, length d <> 8%nat -> exists e, dec_eventtime d = Err e.
Proof. exact et_len_rejected. Qed.
Print Assumptions C19_length_rejected.

Theorem C19_length_accepted : forall d, length d = 8%nat -> exists s n, dec_eventtime d = Ok (s, n).
Proof. exact et_len_accepted. Qed.
Print Assumptions C19_length_accepted.

(* decoding then re-encoding any payload with a nanosecond field below 10^9 reproduces it *)
Theorem C19_reencode : forall d s n, length d = 8%nat -> unbe (skipn 4 d) < nsec_mod ->
  dec_eventtime d = Ok (s, n) -> et_payload s n = d.
Proof. exact et_reencode. Qed.
Print Assumptions C19_reencode.

(* non-vacuity: boundary instants are in the domain and round-trip by computation *)
Example C19_nonvacuous :
  wf_instant (4294967295%Z, 999999999) = true /\
  dec_eventtime (et_payload 4294967295 999999999) = Ok (4294967295%Z, 999999999) /\
  et_payload 1700000000 1 = [x65; x53; xf1; x00; x00; x00; x00; x01].
Proof. vm_compute. repeat split; reflexivity. Qed.
