(* C19 — EventTime preserves the instant to the nanosecond, independent of time zone.
   Model: Msgp.et_payload (EventTime.MarshalBinaryTo applied to the instant
   (Unix(), Nanosecond()) of the value — the only thing the Go code reads from it after
   UTC()) and Msgp.dec_eventtime (EventTime.UnmarshalBinary followed by time.Unix's
   normalisation).  Only statements, [exact], Print Assumptions, examples. *)
From FF Require Import model.Bytes model.Msgp model.Forward model.Wf proofs.EventTime_Proofs proofs.Carrier_Proofs.

(* every instant whose seconds fit 32 unsigned bits survives encode/decode to the nanosecond *)
Theorem C19_roundtrip : forall s n, wf_instant (s, n) = true -> dec_eventtime (et_payload s n) = Ok (s, n).
Proof. exact et_roundtrip. Qed.
Print Assumptions C19_roundtrip.

(* the encoding is a function of the instant alone: the model's encoder has no other
   argument, and on the domain it is injective, so it identifies the instant *)
Theorem C19_instant_only : forall s1 n1 s2 n2, wf_instant (s1, n1) = true -> wf_instant (s2, n2) = true ->
  et_payload s1 n1 = et_payload s2 n2 -> s1 = s2 /\ n1 = n2.
Proof. exact et_payload_inj. Qed.
Print Assumptions C19_instant_only.

(* bytewise lexicographic order of the encodings = order of the instants *)
Theorem C19_order : forall t1 t2, wf_instant t1 = true -> wf_instant t2 = true ->
  bytes_cmp (et_payload (fst t1) (snd t1)) (et_payload (fst t2) (snd t2)) = instant_cmp t1 t2.
Proof. exact et_order. Qed.
Print Assumptions C19_order.

(* payloads that are not exactly eight bytes are rejected, eight bytes are accepted *)
Theorem C19_length_rejected : forall d, length d <> 8%nat -> exists e, dec_eventtime d = Err e.
Proof. exact et_len_rejected. Qed.
Print Assumptions C19_length_rejected.

Theorem C19_length_accepted : forall d, length d = 8%nat -> exists s n, dec_eventtime d = Ok (s, n).
Proof. exact et_len_accepted. Qed.
Print Assumptions C19_length_accepted.

(* decoding then re-encoding any payload with a nanosecond field below 10^9 reproduces it *)
Theorem C19_reencode : forall d s n, length d = 8%nat -> unbe (skipn 4 d) < nsec_mod ->
  dec_eventtime d = Ok (s, n) -> et_payload s n = d.
Proof. exact et_reencode. Qed.
Print Assumptions C19_reencode.

(* the length rule through the decoders that carry a timestamp: whatever framing msgpack has for an
   extension (fixext, ext8, ext16, ext32 -- ext_parts reads them all), an entry or a MessageExt that
   decodes has met a type-0 extension of exactly eight bytes, and one of any other length (or type)
   in that place makes the decoder fail, on both paths *)
Theorem C19_entry_timestamp_is_8_bytes : forall p bs e r, U_entry p bs = Ok (e, r) ->
  exists r0 d r1, rd_arr_hdr bs = Ok (2, r0) /\ ext_parts r0 = Ok (0, d, r1) /\ length d = 8%nat /\
                  dec_eventtime d = Ok (e_ts e).
Proof. exact entry_timestamp_ext. Qed.
Print Assumptions C19_entry_timestamp_is_8_bytes.

Theorem C19_entry_rejects_other_lengths : forall p bs r0 ty d r1,
  rd_arr_hdr bs = Ok (2, r0) -> ext_parts r0 = Ok (ty, d, r1) -> (length d <> 8%nat \/ ty <> 0) ->
  exists x, U_entry p bs = Err x.
Proof. exact entry_rejects_other_lengths. Qed.
Print Assumptions C19_entry_rejects_other_lengths.

Theorem C19_message_ext_timestamp_is_8_bytes : forall p prev bs m r, U_message_ext p prev bs = Ok (m, r) ->
  exists sz r0 tag r1 d r2, rd_arr_hdr bs = Ok (sz, r0) /\ rd_str r0 = Ok (tag, r1) /\
     ext_parts r1 = Ok (0, d, r2) /\ length d = 8%nat /\ dec_eventtime d = Ok (x_ts m).
Proof. exact message_ext_timestamp_ext. Qed.
Print Assumptions C19_message_ext_timestamp_is_8_bytes.

Theorem C19_message_ext_rejects_other_lengths : forall p prev bs sz r0 tag r1 ty d r2,
  rd_arr_hdr bs = Ok (sz, r0) -> rd_str r0 = Ok (tag, r1) -> ext_parts r1 = Ok (ty, d, r2) ->
  (length d <> 8%nat \/ ty <> 0) -> exists x, U_message_ext p prev bs = Err x.
Proof. exact message_ext_rejects_other_lengths. Qed.
Print Assumptions C19_message_ext_rejects_other_lengths.

Theorem C19_forward_timestamps_are_8_bytes : forall p prev bs m r, U_forward p prev bs = Ok (m, r) ->
  Forall (fun e => exists bs' r0 d r1, rd_arr_hdr bs' = Ok (2, r0) /\ ext_parts r0 = Ok (0, d, r1) /\
                     length d = 8%nat /\ dec_eventtime d = Ok (e_ts e)) (f_entries m).
Proof. exact forward_timestamps_8_bytes. Qed.
Print Assumptions C19_forward_timestamps_are_8_bytes.

(* non-vacuity: boundary instants are in the domain and round-trip by computation *)
Example C19_nonvacuous :
  wf_instant (4294967295%Z, 999999999) = true /\
  dec_eventtime (et_payload 4294967295 999999999) = Ok (4294967295%Z, 999999999) /\
  et_payload 1700000000 1 = [x65; x53; xf1; x00; x00; x00; x00; x01].
Proof. vm_compute. repeat split; reflexivity. Qed.
