(* C08 — concurrent sends never interleave: the wire carries whole messages.
   Model: ClientConc.v — any number of goroutines, each running any program of calls on one
   client, as atomic micro-steps over sessionLock (RWMutex, writer preference), ackLock and
   the session; every interleaving is a schedule (list of thread ids).  [g_wire] records
   every data Write as (connection, thread, bytes).  The code modelled is the repaired one:
   Send assembles the message and issues ONE Write (D11/D12).  [reachable cf progs c]: c is
   reached from the initial configuration by some schedule.
   Only statements, [exact], Print Assumptions, examples. *)
From FF Require Import model.Bytes model.Msgp model.Forward model.Client model.Lts model.ClientConc model.ClientConcSpec
  model.ClientConcPinned proofs.ClientConc_Inv proofs.ClientConc_Proofs proofs.ClientConc_Wire.

(* every Write carries one COMPLETE encoding of a message its goroutine was asked to send,
   whatever its size, for every schedule of every number of senders *)
Theorem C08_whole_messages : forall (cf : cfg) (progs : list (list cop)) (c : cconfig) (conn t : nat) (b : bytes),
  reachable cf progs c -> In (conn, t, b) (g_wire (glob c)) ->
  exists prog, nth_error progs t = Some prog /\
    ((exists ch w a, In (CSend (Some b) ch w a) prog) \/ (exists w, In (CSendRaw b w) prog)).
Proof. exact wire_whole. Qed.
Print Assumptions C08_whole_messages.

(* every message whose send returned success appears exactly once, in program order; a send
   that failed contributed at most once; nothing else is on the wire *)
Theorem C08_success_exactly_once : forall (cf : cfg) (progs : list (list cop)) (c : cconfig) (t : nat) (l : local) (prog : list cop),
  reachable cf progs c -> nth_error (thr c) t = Some l -> nth_error progs t = Some prog ->
  exists ws, wire_of t (g_wire (glob c)) = ws ++ pending_write l /\ calls_explain (history prog l) ws = true.
Proof. exact send_ok_written_once. Qed.
Print Assumptions C08_success_exactly_once.

Theorem C08_all_ok_wire_exact : forall (cf : cfg) (progs : list (list cop)) (c : cconfig) (t : nat) (l : local) (prog : list cop),
  reachable cf progs c -> nth_error (thr c) t = Some l -> nth_error progs t = Some prog ->
  all_sends_ok (history prog l) = true ->
  wire_of t (g_wire (glob c)) = payloads (history prog l) ++ pending_write l.
Proof. exact all_ok_wire_exact. Qed.
Print Assumptions C08_all_ok_wire_exact.

(* with acknowledgements required no two sends are between their Write and the end of their
   ack wait at the same time (holds_A: the pcs that hold ackLock) *)
Theorem C08_ack_exclusive : forall (cf : cfg) (progs : list (list cop)) (c : cconfig) (t1 t2 : nat) (l1 l2 : local),
  cf_ack cf = true -> reachable cf progs c ->
  nth_error (thr c) t1 = Some l1 -> nth_error (thr c) t2 = Some l2 ->
  holds_A (l_pc l1) = true -> holds_A (l_pc l2) = true -> t1 = t2.
Proof. exact ack_exclusive. Qed.
Print Assumptions C08_ack_exclusive.

(* data is written only on the connection of the live session in transport phase (C06 under
   concurrency) *)
Theorem C08_write_in_transport : forall (cf : cfg) (progs : list (list cop)) (c : cconfig) (t : nat) (c' : config shared local) (e : cevent),
  reachable cf progs c -> conc_step cf c t = Some (c', Some e) -> ce_kind e = 0%N ->
  g_sess (glob c) = Some (ce_conn e, true) /\ ~ In (ce_conn e) (g_closed (glob c)).
Proof. exact data_write_in_transport. Qed.
Print Assumptions C08_write_in_transport.

(* regression witness (D11, fixed): the streaming Send of the pinned commit (a message longer
   than msgp's 2 KiB buffer goes out in two Writes, no write lock): a schedule of two senders
   puts the short message between the two halves of the long one, both sends return success *)
Theorem C08_refuted_pinned : exists sch : list nat,
  let c := fst (pinned_exec pin_cf (init_pinned pin_progs) sch) in
  rev (g_wire (glob c)) = [(0, 0, firstn 2048 pin_long); (0, 1, pin_short); (0, 0, skipn 2048 pin_long)]%nat /\
  map pl_rets (thr c) = [[ROk; ROk]; [ROk]] /\
  wire_whole_b pin_progs (g_wire (glob c)) = false.
Proof. exact pinned_interleaves. Qed.
Print Assumptions C08_refuted_pinned.

(* non-vacuity: a concrete 3-thread run (two acknowledged sends and a Disconnect) whose
   visible trace the acceptance check accepts *)
Example C08_nonvacuous : conc_accepts ex_cf 8 (init_conc ex_progs) (snd ex_run) = true.
Proof. exact ex_accepts. Qed.

(* ---- the pooled buffer in which Send assembles the message (model/SendBuf.v: sendBufferPool.Get, Reset,
   Encode, ONE Connection.Write, deferred Put, as atomic micro-steps on a heap of byte slices).  For any
   number of goroutines, every interleaving of those micro-steps, every behaviour of sync.Pool (a new
   buffer, or any buffer put back earlier with whatever it still holds) and any delay between the
   encoding and the Write: the connection receives, Write by Write, exactly what the buffer-free
   abstract Send emits — each sender's own complete encoding, once ---- *)
From FF Require Import model.Show model.Pool model.SendBuf.
From Coq Require Import String.
Local Open Scope string_scope.
From FF Require proofs.SendBuf_Proofs.

Theorem C08_pooled_buffer_whole_messages : forall (n : nat) (sch : list sitem),
  ss_wire (sc_st (sexec send_repaired (sinit n) sch)) = spec_wire (repeat T_idle n) sch.
Proof. exact SendBuf_Proofs.sendbuf_refines_abstract. Qed.
Print Assumptions C08_pooled_buffer_whole_messages.

(* regression witness: a helper that returns buf.Bytes() with the Put already done (the buffer is back in
   the pool while the caller is about to write it): with two senders one message goes out twice, the other never *)
Theorem C08_pooled_buffer_early_put_refuted :
  ss_wire (sc_st (sexec SendBuf_Proofs.earlyput (sinit 2) SendBuf_Proofs.earlyput_sched)) = [(0%nat, str "BBBB"); (1%nat, str "BBBB")]
  /\ spec_wire (repeat T_idle 2) SendBuf_Proofs.earlyput_sched = [(0%nat, str "AAAA"); (1%nat, str "BBBB")].
Proof. exact SendBuf_Proofs.sendbuf_earlyput_refuted. Qed.
Print Assumptions C08_pooled_buffer_early_put_refuted.
