(* C18 — decoding into a reused message equals decoding into a fresh one.
   The model's decoders take the receiver's previous value [prev] as an argument precisely
   so that a field a decode path leaves unassigned would show.  Only statements, [exact]
   (or [reflexivity] where the statement is definitional), Print Assumptions, examples. *)
From FF Require Import model.Bytes model.Msgp model.Forward model.Pinned.
Open Scope N_scope.

(* the result depends only on the input bytes, for both decoder paths and every receiver *)
Theorem C18_reuse_message : forall p prev bs, U_message p prev bs = U_message p zero_message bs.
Proof. reflexivity. Qed.
Print Assumptions C18_reuse_message.
Theorem C18_reuse_message_ext : forall p prev bs, U_message_ext p prev bs = U_message_ext p zero_message_ext bs.
Proof. reflexivity. Qed.
Print Assumptions C18_reuse_message_ext.
Theorem C18_reuse_forward : forall p prev bs, U_forward p prev bs = U_forward p zero_forward bs.
Proof. reflexivity. Qed.
Print Assumptions C18_reuse_forward.
Theorem C18_reuse_packed : forall p prev bs, U_packed p prev bs = U_packed p zero_packed bs.
Proof. reflexivity. Qed.
Print Assumptions C18_reuse_packed.

(* histories: a sequence of inputs decoded one after another into one receiver (whatever
   state [recv k] the receiver is in before the k-th decode: the value left by the decode
   before, or whatever a failed decode left behind) gives the results of fresh decodes *)
Fixpoint decode_seq {M} (U : M -> bytes -> res (M * bytes)) (recv : nat -> M) (k : nat) (ins : list bytes) : list (res (M * bytes)) :=
  match ins with [] => [] | b :: r => U (recv k) b :: decode_seq U recv (S k) r end.

Lemma decode_seq_fresh {M} (U : M -> bytes -> res (M * bytes)) (zero : M) :
  (forall prev bs, U prev bs = U zero bs) ->
  forall ins recv k, decode_seq U recv k ins = map (U zero) ins.
Proof. intros HU ins; induction ins as [|b r IH]; intros recv k; cbn; [reflexivity|]. now rewrite HU, IH. Qed.

Theorem C18_sequences : forall p ins,
  (forall recv k, decode_seq (U_message p) recv k ins = map (U_message p zero_message) ins) /\
  (forall recv k, decode_seq (U_message_ext p) recv k ins = map (U_message_ext p zero_message_ext) ins) /\
  (forall recv k, decode_seq (U_forward p) recv k ins = map (U_forward p zero_forward) ins) /\
  (forall recv k, decode_seq (U_packed p) recv k ins = map (U_packed p zero_packed) ins).
Proof.
  intros p ins; repeat split; intros; apply decode_seq_fresh; reflexivity.
Qed.
Print Assumptions C18_sequences.

(* regression witness: the decoders of the pinned commit kept the options of the earlier
   message (defect D4): [tag "t", 5, {}] decoded into a receiver that holds chunk "c" *)
Theorem C18_refuted_pinned :
  let prev := {| m_tag := []; m_ts := 0%Z; m_rec := GNil; m_opts := Some {| o_size := None; o_chunk := [x63]; o_comp := [] |} |} in
  let bs := [x93; xa1; x74; x05; x80] in
  U_message_pinned Slice prev bs <> U_message_pinned Slice zero_message bs /\
  U_message Slice prev bs = U_message Slice zero_message bs.
Proof. split; [vm_compute; discriminate | reflexivity]. Qed.
Print Assumptions C18_refuted_pinned.

(* non-vacuity: the decoders do succeed on inputs with and without options *)
Example C18_nonvacuous :
  is_ok (U_message Slice zero_message [x93; xa1; x74; x05; x80]) = true /\
  is_ok (U_message Stream zero_message [x94; xa1; x74; x05; x80; x81; xa5; x63; x68; x75; x6e; x6b; xa1; x63]) = true /\
  is_ok (U_packed Stream zero_packed [x92; xa1; x74; xc4; x00]) = true.
Proof. vm_compute. repeat split; reflexivity. Qed.
