(* C20 — EntryList.Equal decides multiset equality of entries.
   Only statements, [exact], Print Assumptions and non-vacuity examples live here. *)
From FF Require Import model.Bytes model.EntryEqual model.Run proofs.EntryEqual_Proofs proofs.Multiset_Proofs.
From Coq Require Import SetoidList SetoidPermutation RelationClasses.

(* Full statement: for every entry type and every entry equality that is an
   equivalence (same instant /\ deeply equal records), Equal is true exactly on
   lists that are permutations of each other up to that equivalence. *)
Theorem C20_multiset :
  forall (E : Type) (eeq : E -> E -> bool), Equivalence (R eeq) ->
  forall l1 l2 : list E, equal eeq l1 l2 = true <-> PermutationA (R eeq) l1 l2.
Proof. exact (@equal_iff_perm). Qed.
Print Assumptions C20_multiset.

Theorem C20_refl :
  forall (E : Type) (eeq : E -> E -> bool), Equivalence (R eeq) ->
  forall l : list E, equal eeq l l = true.
Proof. exact (@equal_refl). Qed.
Print Assumptions C20_refl.

Theorem C20_sym :
  forall (E : Type) (eeq : E -> E -> bool), Equivalence (R eeq) ->
  forall l1 l2 : list E, equal eeq l1 l2 = equal eeq l2 l1.
Proof. exact (@equal_sym). Qed.
Print Assumptions C20_sym.

Theorem C20_order_irrelevant :
  forall (E : Type) (eeq : E -> E -> bool), Equivalence (R eeq) ->
  forall l1 l1' l2 : list E, PermutationA (R eeq) l1 l1' -> equal eeq l1 l2 = equal eeq l1' l2.
Proof. exact (@equal_order_irrelevant). Qed.
Print Assumptions C20_order_irrelevant.

(* The executable judge applied to the real code's answers (Run.multiset_eqb, counting)
   decides the same relation, so a judged disagreement is a violation of the property. *)
Theorem C20_judge_sound :
  forall l1 l2 : list centry, length l1 = length l2 ->
  (multiset_eqb l1 l2 = true <-> PermutationA (R centry_eqb) l1 l2).
Proof. exact multiset_eqb_iff_perm. Qed.
Print Assumptions C20_judge_sound.

(* Regression witness: the algorithm of the pinned commit is refuted. *)
Theorem C20_refuted_pinned :
  forall (E : Type) (eeq : E -> E -> bool) (a b : E),
  eeq a a = true -> eeq b b = true -> eeq a b = false -> eeq b a = false ->
  equal_pinned eeq [a; a] [a; b] = true /\ equal_pinned eeq [a; a] [a; a] = false.
Proof. exact (@equal_pinned_refuted). Qed.
Print Assumptions C20_refuted_pinned.

(* Non-vacuity: the concrete entry equality used by the correspondence is an
   equivalence, and a repeated-entry permutation is accepted. *)
Example C20_nonvacuous :
  Equivalence (R centry_eqb) /\
  equal centry_eqb [(1%Z, 5%N, [x61]); (1%Z, 5%N, [x61]); (2%Z, 0%N, [])]
                   [(2%Z, 0%N, []); (1%Z, 5%N, [x61]); (1%Z, 5%N, [x61])] = true.
Proof. split; [exact centry_equiv | vm_compute; reflexivity]. Qed.
