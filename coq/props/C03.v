(* C03 — packed and gzip-compressed event streams carry exactly the given entries.
   Model: Pool.v — a heap of byte cells, the two sync.Pools (buffer, gzip compressor) as
   bags of cells with ARBITRARY stale contents, sync.Pool.Get as a choice made by the
   environment (fresh cell or any pooled one), the constructors as sequences of micro-steps
   (Get, Reset+write, copy out, Put).  [gz] is the compressor (compress/gzip): any function
   with a left inverse [gunzip] (explicit premise); "exactly one complete gzip stream"
   is [stream = gz payload], with Reset explicit in the model (a variant without Reset is
   refuted below).  Statements hold for EVERY well-formed state: that is what "no matter how
   many messages were built before" means — whatever the earlier calls left in the pools.
   Only statements, [exact], Print Assumptions, examples. *)
From Coq Require Import String.
From FF Require Import model.Bytes model.Show model.Msgp model.Forward model.Wf model.Pool model.PoolPinned proofs.Pool_Proofs.


(* the event stream is the concatenation, in order, of the encodings of exactly those
   entries; the size option is the number of entries *)
Theorem C03_packed : forall (gz : bytes -> bytes) (s : state) (tag : bytes) (es : list entry) (chs : list choice) (e : bytes),
  wf_state s -> marshal_packed es = Ok e ->
  exists (s' : state) (r : loc),
    run_call gz s (PNewPacked tag es) chs =
      (s', Ret_msg tag r (Some {| o_size := Some (Z.of_nat (length es)); o_chunk := []; o_comp := [] |})) /\
    hget (st_heap s') r = e /\ wf_state s'.
Proof. exact packed_value. Qed.
Print Assumptions C03_packed.

(* unpacking the stream returns an equal list *)
Theorem C03_unpack : forall (gz : bytes -> bytes) (s : state) (tag : bytes) (es : list entry) (chs : list choice),
  wf_state s -> forallb wf_entry es = true ->
  exists (s' : state) (r : loc) (o : option options),
    run_call gz s (PNewPacked tag es) chs = (s', Ret_msg tag r o) /\
    unmarshal_packed (hget (st_heap s') r) = Ok (map norm_entry es).
Proof. exact packed_unpacks. Qed.
Print Assumptions C03_unpack.

(* the compressed variant: one complete compressed stream that decompresses to exactly the
   bytes of the uncompressed variant, flagged compressed=gzip, size = number of entries *)
Theorem C03_compressed : forall (gz : bytes -> bytes) (gunzip : bytes -> option bytes),
  (forall x, gunzip (gz x) = Some x) ->
  forall (s : state) (tag : bytes) (es : list entry) (chs : list choice) (e : bytes),
  wf_state s -> marshal_packed es = Ok e ->
  exists (s' : state) (r : loc),
    run_call gz s (PNewCompressed tag es) chs =
      (s', Ret_msg tag r (Some {| o_size := Some (Z.of_nat (length es)); o_chunk := []; o_comp := str "gzip"%string |})) /\
    hget (st_heap s') r = gz e /\ gunzip (hget (st_heap s') r) = Some e /\ wf_state s'.
Proof. exact compressed_value. Qed.
Print Assumptions C03_compressed.

(* the FromBytes form: decompresses to exactly the caller's bytes, which are left untouched *)
Theorem C03_compressed_from_bytes : forall (gz : bytes -> bytes) (gunzip : bytes -> option bytes),
  (forall x, gunzip (gz x) = Some x) ->
  forall (s : state) (tag : bytes) (src : nat) (chs : list choice),
  wf_state s -> src < length (st_heap s) -> ~ In src (st_gzpool s) ->
  exists (s' : state) (r : loc),
    run_call gz s (PNewCompressedFromBytes tag src) chs =
      (s', Ret_msg tag r (Some {| o_size := None; o_chunk := []; o_comp := str "gzip"%string |})) /\
    hget (st_heap s') r = gz (hget (st_heap s) src) /\
    gunzip (hget (st_heap s') r) = Some (hget (st_heap s) src) /\
    hget (st_heap s') src = hget (st_heap s) src /\ wf_state s'.
Proof. exact compressed_bytes_value. Qed.
Print Assumptions C03_compressed_from_bytes.

Theorem C03_marshal_packed : forall (gz : bytes -> bytes) (s : state) (es : list entry) (chs : list choice) (e : bytes),
  wf_state s -> marshal_packed es = Ok e ->
  exists (s' : state) (r : loc),
    run_call gz s (PMarshalPacked es) chs = (s', Ret_bytes r) /\ hget (st_heap s') r = e /\ wf_state s'.
Proof. exact marshal_packed_value. Qed.
Print Assumptions C03_marshal_packed.

(* ... on this or other goroutines: for EVERY interleaving of the micro-steps of any number
   of threads, every finished call holds the value its specification assigns (ret_spec) *)
Theorem C03_any_interleaving : forall (gz : bytes -> bytes) (caller : list loc) (c0 : config) (sch : list sitem),
  init_ok caller c0 -> NoDup (pools (c_st c0)) -> sched_ok gz caller c0 sch = true ->
  let c := cexec gz c0 sch in
  forall (l : local) (r : ret), In l (c_thr c) -> l_pc l = Done r ->
  l = idle \/ ret_spec gz (l_call l) (st_heap (c_st c)) r.
Proof. exact conc_value. Qed.
Print Assumptions C03_any_interleaving.

(* regression witness: a compressor that is not reset leaks the previous message *)
Theorem C03_noreset_refuted :
  let s0 := {| st_heap := [toy_gz (enc_of [ex2]); enc_of [ex1]]; st_bufpool := []; st_gzpool := [0] |} in
  let '(s1, r1) := run_call_noreset toy_gz s0 (PNewCompressedFromBytes (str "t"%string) 1) [Some 0] in
  wf_state s0 /\ ~ In 1 (st_gzpool s0) /\
  hget (st_heap s1) (stream_of r1) = toy_gz (enc_of [ex2]) ++ toy_gz (enc_of [ex1]) /\
  toy_gunzip (hget (st_heap s1) (stream_of r1)) <> Some (enc_of [ex1]).
Proof. exact noreset_refuted. Qed.
Print Assumptions C03_noreset_refuted.
