(* C02 — encoded bytes conform to the Forward Protocol v1 wire format.
   The judge is Spec.v: a msgpack parser and the protocol's message shapes written from
   the specifications, sharing no definition with the library model (Msgp.v/Forward.v).
   [abs_x] maps a library value to the abstract message the specification talks about.
   Only statements, [exact], Print Assumptions, examples. *)
From FF Require Import model.Bytes model.Show model.Msgp model.Forward model.Handshake model.Spec model.Wf model.Abs
  model.Client proofs.Spec_Proofs proofs.Wire_Proofs.
Open Scope N_scope.

(* [tag:str, time:int, record:map, option:map|nil] *)
Theorem C02_wire_message : forall m e, wf_message m = true -> is_gmap (m_rec m) = true ->
  M_message m = Ok e -> spec_parse shape_message e = Some (abs_message m, []).
Proof. exact wire_message. Qed.
Print Assumptions C02_wire_message.

(* [tag:str, time:EventTime, record:map, option:map|nil] *)
Theorem C02_wire_message_ext : forall m e, wf_message_ext m = true -> is_gmap (x_rec m) = true ->
  M_message_ext m = Ok e -> spec_parse shape_message e = Some (abs_message_ext m, []).
Proof. exact wire_message_ext. Qed.
Print Assumptions C02_wire_message_ext.

(* [tag, [[EventTime, record]...], option?]: two elements when the options are nil *)
Theorem C02_wire_forward : forall m e, wf_forward m = true ->
  forallb (fun en => is_gmap (e_rec en)) (f_entries m) = true ->
  M_forward m = Ok e -> spec_parse shape_forward e = Some (abs_forward m, []).
Proof. exact wire_forward. Qed.
Print Assumptions C02_wire_forward.

(* [tag, bin, option] *)
Theorem C02_wire_packed : forall m, wf_packed m = true ->
  spec_parse shape_packed (M_packed m) = Some (abs_packed m, []).
Proof. exact wire_packed. Qed.
Print Assumptions C02_wire_packed.

(* option keys restricted to size:int, chunk:str, compressed:str, each omitted when empty *)
Theorem C02_wire_options : forall o, wf_options o = true ->
  parse1 (M_options o) = Some (VMap (opt_kvs o), []).
Proof. exact wire_options_pairs. Qed.
Print Assumptions C02_wire_options.

(* EventTime: fixext8 (0xd7), type 0, big-endian seconds then nanoseconds *)
Theorem C02_eventtime_layout : forall s n, wf_instant (s, n) = true ->
  enc_eventtime s n = [n2b 215; n2b 0] ++ be 4 (Z.to_N s) ++ be 4 n.
Proof. exact wire_eventtime. Qed.
Print Assumptions C02_eventtime_layout.

(* HELO / PING / PONG as the 2 / 6 / 5 element arrays of the specification; acks {"ack": str} *)
Theorem C02_wire_helo : forall h, len (hl_type h) < two32 ->
  (match hl_opts h with Some o => len (h_nonce o) < two32 /\ len (h_auth o) < two32 | None => True end) ->
  parse1 (M_helo h) = Some (VArr [VStr (hl_type h); helo_opts_val (hl_opts h)], []).
Proof. exact wire_helo. Qed.
Print Assumptions C02_wire_helo.
Theorem C02_wire_ping : forall p,
  len (pg_type p) < two32 -> len (pg_host p) < two32 -> len (pg_salt p) < two32 ->
  len (pg_digest p) < two32 -> len (pg_user p) < two32 -> len (pg_pass p) < two32 ->
  parse1 (M_ping p) = Some (VArr [VStr (pg_type p); VStr (pg_host p); VBin (pg_salt p); VStr (pg_digest p);
                                  VStr (pg_user p); VStr (pg_pass p)], []).
Proof. exact wire_ping. Qed.
Print Assumptions C02_wire_ping.
Theorem C02_wire_pong : forall p,
  len (po_type p) < two32 -> len (po_reason p) < two32 -> len (po_host p) < two32 -> len (po_digest p) < two32 ->
  parse1 (M_pong p) = Some (VArr [VStr (po_type p); VBool (po_auth p); VStr (po_reason p); VStr (po_host p);
                                  VStr (po_digest p)], []).
Proof. exact wire_pong. Qed.
Print Assumptions C02_wire_pong.
Theorem C02_wire_ack : forall a, len a < two32 ->
  exists v, parse1 (M_ack a) = Some (v, []) /\ shape_ack v = Some a.
Proof. exact wire_ack. Qed.
Print Assumptions C02_wire_ack.

(* a message followed by further stream bytes is read identically and leaves them untouched *)
Theorem C02_wire_in_stream : forall shape e m x,
  spec_parse shape e = Some (m, []) -> spec_parse shape (e ++ x) = Some (m, x).
Proof. exact spec_parse_app. Qed.
Print Assumptions C02_wire_in_stream.

(* ---- the Send* helpers (model/Helpers.v: the constructors of fluent/protocol with the clock as a
   parameter, and "build the message of the mode the helper names, then Send it"): a successful call
   puts on the wire the message of that mode, stamped with the clock reading [now] (whole seconds
   for Message mode, seconds and nanoseconds as EventTime for MessageExt), carrying exactly the
   caller's tag, record, entries or bytes; entry-list helpers add option size = number of entries,
   compressed ones compressed = gzip.  The judge is the specification parser. ---- *)
From FF Require Import model.Pool model.Helpers.
From FF Require proofs.Helpers_Proofs.

Theorem C02_helper_send_message : forall gz now tag rec e,
  len tag < two32 -> int64_ok (fst now) = true -> wf_gval rec = true -> is_gmap rec = true ->
  helper_wire gz now (HSendMessage tag rec) = Ok e ->
  spec_parse shape_message e = Some (SMessage tag (TInt (fst now)) (value_of rec) None, []).
Proof. exact Helpers_Proofs.helper_message. Qed.
Print Assumptions C02_helper_send_message.

Theorem C02_helper_send_message_ext : forall gz now tag rec e,
  len tag < two32 -> wf_instant now = true -> wf_gval rec = true -> is_gmap rec = true ->
  helper_wire gz now (HSendMessageExt tag rec) = Ok e ->
  spec_parse shape_message e = Some (SMessage tag (stime_of now) (value_of rec) None, []).
Proof. exact Helpers_Proofs.helper_message_ext. Qed.
Print Assumptions C02_helper_send_message_ext.

Theorem C02_helper_send_forward : forall gz now tag es e,
  len tag < two32 -> len es < two32 -> forallb wf_entry es = true ->
  forallb (fun en => is_gmap (e_rec en)) es = true ->
  helper_wire gz now (HSendForward tag es) = Ok e ->
  spec_parse shape_forward e = Some (abs_forward (new_forward tag es), []).
Proof. exact Helpers_Proofs.helper_forward. Qed.
Print Assumptions C02_helper_send_forward.

Theorem C02_helper_send_packed : forall gz now tag es e,
  len tag < two32 -> len es < two32 ->
  helper_wire gz now (HSendPacked tag es) = Ok e ->
  exists st, marshal_packed es = Ok st /\
    (len st < two32 -> spec_parse shape_packed e =
       Some (abs_packed {| p_tag := tag; p_stream := st; p_opts := Some (size_opts (length es)) |}, [])).
Proof. exact Helpers_Proofs.helper_packed. Qed.
Print Assumptions C02_helper_send_packed.

Theorem C02_helper_send_packed_from_bytes : forall gz now tag st e,
  len tag < two32 -> len st < two32 ->
  helper_wire gz now (HSendPackedFromBytes tag st) = Ok e ->
  spec_parse shape_packed e = Some (SPacked tag st None, []).
Proof. exact Helpers_Proofs.helper_packed_from_bytes. Qed.
Print Assumptions C02_helper_send_packed_from_bytes.

Theorem C02_helper_send_compressed : forall gz now tag es e,
  len tag < two32 -> len es < two32 ->
  helper_wire gz now (HSendCompressed tag es) = Ok e ->
  exists st, marshal_packed es = Ok st /\
    (len (gz st) < two32 -> spec_parse shape_packed e =
       Some (abs_packed {| p_tag := tag; p_stream := gz st; p_opts := Some (gzip_opts (Some (Z.of_nat (length es)))) |}, [])).
Proof. exact Helpers_Proofs.helper_compressed. Qed.
Print Assumptions C02_helper_send_compressed.

Theorem C02_helper_send_compressed_from_bytes : forall gz now tag st e,
  len tag < two32 -> len (gz st) < two32 ->
  helper_wire gz now (HSendCompressedFromBytes tag st) = Ok e ->
  spec_parse shape_packed e = Some (abs_packed (new_compressed_from_bytes gz tag st), []).
Proof. exact Helpers_Proofs.helper_compressed_from_bytes. Qed.
Print Assumptions C02_helper_send_compressed_from_bytes.

(* raw bytes reach the wire verbatim: in the client model a SendRaw, and a Send of a message
   whose encoding is [b] (RawMessage), offer exactly [b] to the connection in one Write. *)
Theorem C02_raw_verbatim : forall H cf s c b s' e r,
  s_sess s = Some (c, true) ->
  step H cf s (OSendRaw b None) = (s', e, r) -> e = [EvWrite c b b 0] /\ r = ROk.
Proof.
  intros H cf s c b s' e r Hs. cbn [step]. rewrite Hs. cbn [do_write]. intros E; inversion E; auto.
Qed.
Print Assumptions C02_raw_verbatim.

Example C02_nonvacuous :
  let m := {| f_tag := [x74]; f_entries := [{| e_ts := (1700000000%Z, 5); e_rec := GMap [([x6b], GStr [x76])] |}]; f_opts := None |} in
  wf_forward m = true /\ exists e, M_forward m = Ok e /\ spec_parse shape_forward e = Some (abs_forward m, []).
Proof. split; [reflexivity|]. eexists; split; [reflexivity|]. vm_compute. reflexivity. Qed.
