(* C07 — returned messages and byte slices are independent values (no hidden sharing).
   Model: Pool.v (see C03).  Locations handed to callers ([visible]: the result locations of
   finished calls) and locations supplied by callers ([caller]) are tracked against the
   heap: the theorem says their contents never change, whatever any thread does afterwards,
   under every interleaving of the micro-steps and every choice sync.Pool.Get makes.
   NewPackedForwardMessageFromBytes returns the caller's own slice by design (documented
   sharing with the CALLER): that location counts as caller-owned.
   Only statements, [exact], Print Assumptions, examples. *)
From Coq Require Import String.
From FF Require Import model.Bytes model.Show model.Msgp model.Forward model.Pool model.PoolPinned proofs.Pool_Proofs.


(* for every schedule split sch1 ++ sch2: what callers supplied is never written, and every
   value that had been returned by the end of sch1 still holds the same bytes after sch2 *)
Theorem C07_frame : forall (gz : bytes -> bytes) (caller : list loc) (c0 : config) (sch1 sch2 : list sitem),
  init_ok caller c0 -> sched_ok gz caller c0 (sch1 ++ sch2) = true ->
  let c1 := cexec gz c0 sch1 in
  let c2 := cexec gz c1 sch2 in
  (forall x, In x caller -> hget (st_heap (c_st c2)) x = hget (st_heap (c_st c0)) x) /\
  (forall x, In x (visible c1) -> hget (st_heap (c_st c2)) x = hget (st_heap (c_st c1)) x).
Proof. exact frame. Qed.
Print Assumptions C07_frame.

(* sequential histories: every value returned by the first calls is intact after the later ones *)
Theorem C07_frame_sequential : forall (gz : bytes -> bytes) (caller : list nat) (s0 : state)
    (cs1 cs2 : list (call * list choice)) (s1 : state) (rets1 : list ret) (s2 : state) (rets2 : list ret),
  wf_state s0 -> (forall x, In x caller -> x < length (st_heap s0) /\ ~ In x (pools s0)) ->
  seq_ok gz caller s0 (cs1 ++ cs2) ->
  run_calls gz s0 cs1 = (s1, rets1) -> run_calls gz s1 cs2 = (s2, rets2) ->
  (forall x, In x caller -> hget (st_heap s2) x = hget (st_heap s0) x) /\
  (forall (r : ret) (x : loc), In r rets1 -> In x (ret_locs r) -> hget (st_heap s2) x = hget (st_heap s1) x).
Proof. exact frame_sequential. Qed.
Print Assumptions C07_frame_sequential.

(* regression witnesses (D2, D3, fixed): returning the pooled storage itself — two calls
   suffice for the first message's event stream to turn into the second one's *)
Theorem C07_refuted_pinned_packed :
  let '(s1, r1) := run_call_pinned toy_gz empty_state (PNewPacked (str "t"%string) [ex1]) [None] in
  let '(s2, r2) := run_call_pinned toy_gz s1 (PNewPacked (str "t"%string) [ex2]) [Some 0] in
  hget (st_heap s1) (stream_of r1) = enc_of [ex1] /\
  hget (st_heap s2) (stream_of r1) = enc_of [ex2] /\
  hget (st_heap s2) (stream_of r1) <> hget (st_heap s1) (stream_of r1) /\
  stream_of r2 = stream_of r1.
Proof. exact pinned_refuted. Qed.
Print Assumptions C07_refuted_pinned_packed.

Theorem C07_refuted_pinned_compressed :
  let s0 := init_state [enc_of [ex1]; enc_of [ex2]] in
  let '(s1, r1) := run_call_pinned toy_gz s0 (PNewCompressedFromBytes (str "t"%string) 0) [None] in
  let '(s2, _) := run_call_pinned toy_gz s1 (PNewCompressedFromBytes (str "t"%string) 1) [Some 0] in
  toy_gunzip (hget (st_heap s1) (stream_of r1)) = Some (enc_of [ex1]) /\
  toy_gunzip (hget (st_heap s2) (stream_of r1)) = Some (enc_of [ex2]) /\
  hget (st_heap s2) (stream_of r1) <> hget (st_heap s1) (stream_of r1).
Proof. exact pinned_refuted_compressed. Qed.
Print Assumptions C07_refuted_pinned_compressed.

(* ---- option objects are per message (model/OptCells.v: MessageOptions is reached through a pointer; the
   constructors and Chunk() allocate and write such objects).  Whatever is done to one message -- Chunk(), a
   caller-supplied id, an edit of another option field, the construction of further messages -- the options of
   every OTHER message stay what they were, over whole histories; the variant that hands every message of one
   constructor the same package-level object is refuted ---- *)
From FF Require Import model.OptCells.
From FF Require proofs.OptCells_Proofs.

Theorem C07_options_frame : forall (ops : list oop) (s : ostate) (m' : nat),
  OptCells_Proofs.OInv s -> (m' < length (os_msgs s))%nat ->
  (forall o, In o ops -> match o with ONew _ => True | OChunk m | OSetChunk m _ | OClearSize m => m <> m' end) ->
  oview (fold_left (ostep false) ops s) m' = oview s m'.
Proof. exact OptCells_Proofs.opt_frame_history. Qed.
Print Assumptions C07_options_frame.

Theorem C07_options_reachable : forall ops : list oop, OptCells_Proofs.OInv (orun false ops).
Proof. exact OptCells_Proofs.OInv_run. Qed.
Print Assumptions C07_options_reachable.

Theorem C07_options_shared_refuted :
  let ops := [ONew KGzip; ONew KGzip; OChunk 0] in
  option_map oc_chunk (oview (orun true ops) 1) = Some (IdGen 0)
  /\ option_map oc_chunk (oview (orun false ops) 1) = Some IdNone.
Proof. exact OptCells_Proofs.opt_shared_refuted. Qed.
Print Assumptions C07_options_shared_refuted.
