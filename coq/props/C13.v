(* C13 — decoding consumes exactly one msgpack value, whatever the declared arity.
   [one_value bs r]: the independent specification parser (Spec.parse) reads exactly one
   complete value from bs and leaves r.  Every successful decode of the model's decoders —
   on ANY input bytes, valid or not, both paths — leaves exactly that r: never fewer bytes
   (short read) and never more (reading into what follows).
   Only statements, [exact], Print Assumptions, examples. *)
From FF Require Import model.Bytes model.Msgp model.Forward model.Handshake model.Spec model.Wf model.Pinned
  proofs.Msgp_Total proofs.Total_Proofs proofs.Refine_Proofs proofs.Roundtrip_Proofs.
From FF Require proofs.Spec_Proofs.
Open Scope N_scope.

Theorem C13_exact_message : forall p prev bs m r, U_message p prev bs = Ok (m, r) -> one_value bs r.
Proof. exact U_message_refines. Qed.
Print Assumptions C13_exact_message.
Theorem C13_exact_message_ext : forall p prev bs m r, U_message_ext p prev bs = Ok (m, r) -> one_value bs r.
Proof. exact U_message_ext_refines. Qed.
Print Assumptions C13_exact_message_ext.
Theorem C13_exact_forward : forall p prev bs m r, U_forward p prev bs = Ok (m, r) -> one_value bs r.
Proof. exact U_forward_refines. Qed.
Print Assumptions C13_exact_forward.
Theorem C13_exact_packed : forall p prev bs m r, U_packed p prev bs = Ok (m, r) -> one_value bs r.
Proof. exact U_packed_refines. Qed.
Print Assumptions C13_exact_packed.
Theorem C13_exact_entry : forall p bs e r, U_entry p bs = Ok (e, r) -> one_value bs r.
Proof. exact U_entry_refines. Qed.
Print Assumptions C13_exact_entry.
Theorem C13_exact_entry_list : forall p bs es r, U_entry_list p bs = Ok (es, r) -> one_value bs r.
Proof. exact U_entry_list_refines. Qed.
Print Assumptions C13_exact_entry_list.
Theorem C13_exact_options : forall p bs o r, U_options p bs = Ok (o, r) -> one_value bs r.
Proof. exact U_options_refines. Qed.
Print Assumptions C13_exact_options.
Theorem C13_exact_ack : forall p bs a r, U_ack p bs = Ok (a, r) -> one_value bs r.
Proof. exact U_ack_refines. Qed.
Print Assumptions C13_exact_ack.
Theorem C13_exact_helo : forall p bs h r, U_helo p bs = Ok (h, r) -> one_value bs r.
Proof. exact U_helo_refines. Qed.
Print Assumptions C13_exact_helo.
Theorem C13_exact_ping : forall p bs m r, U_ping p bs = Ok (m, r) -> one_value bs r.
Proof. exact U_ping_refines. Qed.
Print Assumptions C13_exact_ping.
Theorem C13_exact_pong : forall p bs m r, U_pong p bs = Ok (m, r) -> one_value bs r.
Proof. exact U_pong_refines. Qed.
Print Assumptions C13_exact_pong.

(* "one value" spelled out: the input splits as c ++ r with c non-empty and c itself one
   complete value with nothing left *)
Theorem C13_one_value_split : forall bs r, one_value bs r -> exists c, bs = c ++ r /\ c <> [] /\ one_value c [].
Proof. exact one_value_split. Qed.
Print Assumptions C13_one_value_split.

(* UnmarshalPacked consumes entry by entry to exhaustion: the stream is a concatenation of
   complete values, one per entry returned *)
Theorem C13_unpack_loop : forall bs es, unmarshal_packed bs = Ok es ->
  exists chunks, bs = concat chunks /\ length chunks = length es /\ Forall (fun c => one_value c []) chunks.
Proof. exact unmarshal_packed_refines. Qed.
Print Assumptions C13_unpack_loop.

(* any concatenation of encoded messages decodes, in order, to exactly those messages with
   nothing left (decode_all applies the decoder until the input is exhausted) *)
Theorem C13_concat_message : forall p prev ms es,
  Forall2 (fun m e => wf_message m = true /\ M_message m = Ok e) ms es ->
  decode_all (U_message p prev) (concat es) = Ok (map norm_message ms).
Proof. exact rt_concat_message. Qed.
Print Assumptions C13_concat_message.
Theorem C13_concat_message_ext : forall p prev ms es,
  Forall2 (fun m e => wf_message_ext m = true /\ M_message_ext m = Ok e) ms es ->
  decode_all (U_message_ext p prev) (concat es) = Ok (map norm_message_ext ms).
Proof. exact rt_concat_message_ext. Qed.
Print Assumptions C13_concat_message_ext.
Theorem C13_concat_forward : forall p prev ms es,
  Forall2 (fun m e => wf_forward m = true /\ M_forward m = Ok e) ms es ->
  decode_all (U_forward p prev) (concat es) = Ok (map norm_forward ms).
Proof. exact rt_concat_forward. Qed.
Print Assumptions C13_concat_forward.
Theorem C13_concat_packed : forall p prev ms, Forall (fun m => wf_packed m = true) ms ->
  decode_all (U_packed p prev) (concat (map M_packed ms)) = Ok ms.
Proof. exact rt_concat_packed. Qed.
Print Assumptions C13_concat_packed.

(* regression witness (D5, fixed): the decoders of the pinned commit ignored the declared
   arity.  Arity 5: the last two elements stay unread (short read, err = nil); arity 2: the
   value FOLLOWING the array is consumed as the record (over-read). *)
Theorem C13_refuted_pinned :
  (exists m, U_message_pinned_arity Slice [x95; xa1; x74; x05; x80; xc0; xc0; xa3; x65; x6e; x64] = Ok (m, [xc0; xc0; xa3; x65; x6e; x64])
             /\ ~ one_value [x95; xa1; x74; x05; x80; xc0; xc0; xa3; x65; x6e; x64] [xc0; xc0; xa3; x65; x6e; x64]) /\
  (exists m, U_message_pinned_arity Slice [x92; xa1; x74; x05; xa3; x65; x6e; x64] = Ok (m, [])
             /\ ~ one_value [x92; xa1; x74; x05; xa3; x65; x6e; x64] []) /\
  (exists e, U_message Slice zero_message [x95; xa1; x74; x05; x80; xc0; xc0; xa3; x65; x6e; x64] = Err e) /\
  (exists e, U_message Slice zero_message [x92; xa1; x74; x05; xa3; x65; x6e; x64] = Err e).
Proof.
  repeat split.
  - eexists. split; [vm_compute; reflexivity|].
    intros (f & v & Hp).
    assert (Hf : parse1 [x95; xa1; x74; x05; x80; xc0; xc0; xa3; x65; x6e; x64] = Some (v, [xc0; xc0; xa3; x65; x6e; x64])).
    { eapply Spec_Proofs.parse1_complete. exact Hp. }
    vm_compute in Hf. discriminate.
  - eexists. split; [vm_compute; reflexivity|].
    intros (f & v & Hp).
    assert (Hf : parse1 [x92; xa1; x74; x05; xa3; x65; x6e; x64] = Some (v, [])).
    { eapply Spec_Proofs.parse1_complete. exact Hp. }
    vm_compute in Hf. discriminate.
  - eexists. vm_compute. reflexivity.
  - eexists. vm_compute. reflexivity.
Qed.
Print Assumptions C13_refuted_pinned.

Example C13_nonvacuous :
  exists m, U_message Stream zero_message [x93; xa1; x74; x05; x80; xa3; x65; x6e; x64] = Ok (m, [xa3; x65; x6e; x64]).
Proof. eexists. vm_compute. reflexivity. Qed.
