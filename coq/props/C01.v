(* C01 — round-trip fidelity of every message kind through both codec paths.
   Model: Forward.v / Handshake.v encoders M_x (MarshalMsg and EncodeMsg emit the same
   bytes; the correspondence check compares both real paths with M_x) and decoders
   U_x p (p = Slice: UnmarshalMsg, p = Stream: DecodeMsg), receiver [prev] arbitrary.
   norm_x is what decoding the canonical encoding yields: an unsigned value below 128 is
   written as a positive fixint and therefore comes back in the signed class (numerically
   equal; msgp's documented behaviour); everything else is returned unchanged.
   Only statements, [exact], Print Assumptions, examples. *)
From Coq Require Import String.
From FF Require Import model.Bytes model.Msgp model.Forward model.Handshake model.Wf proofs.Roundtrip_Proofs.
Open Scope N_scope.

(* every message a caller can build, either decoder path, any trailing bytes: the value
   comes back and exactly the trailing bytes are left over *)
Theorem C01_roundtrip_message : forall p prev m e rest, wf_message m = true -> M_message m = Ok e ->
  U_message p prev (e ++ rest) = Ok (norm_message m, rest).
Proof. exact rt_message. Qed.
Print Assumptions C01_roundtrip_message.

Theorem C01_roundtrip_message_ext : forall p prev m e rest, wf_message_ext m = true -> M_message_ext m = Ok e ->
  U_message_ext p prev (e ++ rest) = Ok (norm_message_ext m, rest).
Proof. exact rt_message_ext. Qed.
Print Assumptions C01_roundtrip_message_ext.

Theorem C01_roundtrip_forward : forall p prev m e rest, wf_forward m = true -> M_forward m = Ok e ->
  U_forward p prev (e ++ rest) = Ok (norm_forward m, rest).
Proof. exact rt_forward. Qed.
Print Assumptions C01_roundtrip_forward.

(* PackedForward and CompressedPackedForward share one representation (the event stream is
   opaque bytes, the compressed flag is an option) *)
Theorem C01_roundtrip_packed : forall p prev m rest, wf_packed m = true ->
  U_packed p prev (M_packed m ++ rest) = Ok (m, rest).
Proof. exact rt_packed. Qed.
Print Assumptions C01_roundtrip_packed.

Theorem C01_roundtrip_entry : forall p x e rest, wf_entry x = true -> M_entry x = Ok e ->
  U_entry p (e ++ rest) = Ok (norm_entry x, rest).
Proof. exact rt_entry. Qed.
Print Assumptions C01_roundtrip_entry.

Theorem C01_roundtrip_entry_list : forall p l e rest, len l < two32 -> forallb wf_entry l = true ->
  M_entry_list l = Ok e -> U_entry_list p (e ++ rest) = Ok (map norm_entry l, rest).
Proof. exact rt_entry_list. Qed.
Print Assumptions C01_roundtrip_entry_list.

(* options: nil vs empty vs populated are all preserved *)
Theorem C01_roundtrip_options : forall p o rest, wf_options o = true ->
  U_options p (M_options o ++ rest) = Ok (o, rest).
Proof. exact rt_options. Qed.
Print Assumptions C01_roundtrip_options.

Theorem C01_nil_vs_empty_options : forall p oo rest, wf_optopt oo = true ->
  U_tail p true (M_optopt oo ++ rest) = Ok (oo, rest).
Proof. exact U_tail_full. Qed.
Print Assumptions C01_nil_vs_empty_options.

Theorem C01_roundtrip_ack : forall p a rest, len a < two32 -> U_ack p (M_ack a ++ rest) = Ok (a, rest).
Proof. exact rt_ack. Qed.
Print Assumptions C01_roundtrip_ack.

Theorem C01_roundtrip_helo : forall p h rest, wf_helo h -> U_helo p (M_helo h ++ rest) = Ok (h, rest).
Proof. exact rt_helo. Qed.
Print Assumptions C01_roundtrip_helo.
Theorem C01_roundtrip_ping : forall p g rest, wf_ping g -> U_ping p (M_ping g ++ rest) = Ok (g, rest).
Proof. exact rt_ping. Qed.
Print Assumptions C01_roundtrip_ping.
Theorem C01_roundtrip_pong : forall p g rest, wf_pong g -> U_pong p (M_pong g ++ rest) = Ok (g, rest).
Proof. exact rt_pong. Qed.
Print Assumptions C01_roundtrip_pong.

(* packed event streams: unpacking the concatenated entry encodings returns the entries *)
Theorem C01_roundtrip_packed_stream : forall l e, forallb wf_entry l = true -> marshal_packed l = Ok e ->
  unmarshal_packed e = Ok (map norm_entry l).
Proof. exact rt_packed_stream. Qed.
Print Assumptions C01_roundtrip_packed_stream.

(* norm is the identity on everything a decoder returns (so decode . encode . decode = decode),
   and on every value that holds no unsigned integer below 128 *)
Theorem C01_norm_idempotent : forall g, norm_gval (norm_gval g) = norm_gval g.
Proof. exact norm_gval_idem. Qed.
Print Assumptions C01_norm_idempotent.
Theorem C01_norm_identity : forall g, no_small_uint g = true -> norm_gval g = g.
Proof. exact no_small_uint_norm. Qed.
Print Assumptions C01_norm_identity.

(* a well-formed value always has an encoding (the hypotheses M_x m = Ok e are satisfiable) *)
Theorem C01_encodable : forall m, wf_message m = true -> exists e, M_message m = Ok e.
Proof. exact M_message_wf_ok. Qed.
Print Assumptions C01_encodable.

(* non-vacuity: a message with nested record, negative timestamp and options *)
Example C01_nonvacuous :
  let m := {| m_tag := [x74; x61; x67]; m_ts := (-5)%Z;
              m_rec := GMap [([x6b], GArr [GUint 200; GInt (-1); GStr [x76]; GNil; GBool true; GF64 4607182418800017408])];
              m_opts := Some {| o_size := Some 3%Z; o_chunk := [x63]; o_comp := [] |} |} in
  wf_message m = true /\
  (exists e, M_message m = Ok e /\ U_message Stream zero_message (e ++ [xc0]) = Ok (norm_message m, [xc0])).
Proof. split; [reflexivity|]. eexists; split; [reflexivity|]. vm_compute. reflexivity. Qed.

(* ---- alternative encodings: a message that is well formed according to the independent
   specification parser, in ANY legal msgpack encoding of its fields (other integer widths,
   unsigned timestamps, longer string / array / map headers, ext8/ext16/ext32 EventTime,
   option element absent), decodes on both paths to the value the specification assigns to
   it.  [supported_value]: what the library documents as supported inside records (string
   map keys; EventTime extensions with 8-byte payload and nanoseconds below 10^9; no msgp
   time/complex extensions 3/4/5).  [opts_simple]: size within int64, and on the stream
   path no unknown option keys (there an empty unknown key / an ext32-encoded value is
   rejected by msgp; see Complete_Proofs.U_options_complete_stream for the exact limits). ---- *)
From FF Require Import model.Spec model.Abs.
From FF Require proofs.Lead_Proofs proofs.Chunk_Proofs proofs.Complete_Proofs.
Import Complete_Proofs.

Theorem C01_alt_message : forall p prev bs tag z rec oo rest,
  spec_parse (shape_message_gen false) bs = Some (SMessage tag (Spec.TInt z) rec oo, rest) ->
  int64_ok z = true -> supported_value rec = true -> opts_simple p oo ->
  exists m, U_message p prev bs = Ok (m, rest) /\ m_tag m = tag /\ m_ts m = z /\
            value_of (m_rec m) = rec /\ optopt_rel (m_opts m) oo.
Proof. exact U_message_complete. Qed.
Print Assumptions C01_alt_message.

Theorem C01_alt_message_ext : forall p prev bs tag sec nsec rec oo rest,
  spec_parse (shape_message_gen false) bs = Some (SMessage tag (TEvent sec nsec) rec oo, rest) ->
  supported_value rec = true -> opts_simple p oo ->
  exists m, U_message_ext p prev bs = Ok (m, rest) /\ x_tag m = tag /\
    x_ts m = (Z.of_N (sec + nsec / 1000000000), nsec mod 1000000000) /\
    value_of (x_rec m) = rec /\ optopt_rel (x_opts m) oo.
Proof. exact U_message_ext_complete. Qed.
Print Assumptions C01_alt_message_ext.

Theorem C01_alt_forward : forall p prev bs tag es oo rest,
  spec_parse (shape_forward_gen false) bs = Some (SForward tag es oo, rest) ->
  Forall (fun tv => supported_value (snd tv) = true) es -> opts_simple p oo ->
  exists m, U_forward p prev bs = Ok (m, rest) /\ f_tag m = tag /\
    Forall2 entry_rel (f_entries m) es /\ optopt_rel (f_opts m) oo.
Proof. exact U_forward_complete. Qed.
Print Assumptions C01_alt_forward.

Theorem C01_alt_packed : forall p prev bs tag st oo rest,
  spec_parse shape_packed bs = Some (SPacked tag st oo, rest) -> opts_simple p oo ->
  exists m, U_packed p prev bs = Ok (m, rest) /\ p_tag m = tag /\ p_stream m = st /\
            optopt_rel (p_opts m) oo.
Proof. exact U_packed_complete. Qed.
Print Assumptions C01_alt_packed.

(* records: every supported value, in any encoding, is read back as that value *)
Theorem C01_alt_values : forall p f bs v r, parse f bs = Some (v, r) -> supported_value v = true ->
  forall f', (fuel_for bs <= f')%nat -> exists g, rd_intf p f' bs = Ok (g, r) /\ value_of g = v.
Proof. exact rd_intf_complete_fuel. Qed.
Print Assumptions C01_alt_values.

(* ---- what the correspondence check evaluates: the entry-list decoders that hand the loop's remaining fuel
   down to each entry (model/ForwardFast.v, linear in the input) are the decoders of the theorems above
   (model/Forward.v, fresh fuel per entry), because fuel is only a bound: a reader that does not run out of
   fuel returns the same result with more ---- *)
From FF Require Import model.ForwardFast.
From FF Require proofs.Fuel_Proofs.

Theorem C01_evaluated_forward_decoder : forall (p : path) (prev : forward) (bs : bytes),
  U_forward_f p prev bs = U_forward p prev bs.
Proof. exact Fuel_Proofs.U_forward_f_eq. Qed.
Print Assumptions C01_evaluated_forward_decoder.

Theorem C01_evaluated_entry_list_decoder : forall (p : path) (bs : bytes), U_entry_list_f p bs = U_entry_list p bs.
Proof. exact Fuel_Proofs.U_entry_list_f_eq. Qed.
Print Assumptions C01_evaluated_entry_list_decoder.

Theorem C01_evaluated_unmarshal_packed : forall bs : bytes, unmarshal_packed_f bs = unmarshal_packed bs.
Proof. exact Fuel_Proofs.unmarshal_packed_f_eq. Qed.
Print Assumptions C01_evaluated_unmarshal_packed.

Theorem C01_fuel_is_only_a_bound : forall (p : path) (f : nat) (bs : bytes),
  (fuel_for bs <= f)%nat -> rd_intf p f bs = rd_intf p (fuel_for bs) bs.
Proof. exact Fuel_Proofs.rd_intf_enough. Qed.
Print Assumptions C01_fuel_is_only_a_bound.
