(* C12 — chunk ids are fresh per message, stable once assigned, and carried on the wire.
   Model: ChunkId.v.  [rnd k] is the k-th 16-byte window of the random stream (uuid's pool
   hands out consecutive windows under its mutex); make_chunk_id = base64 of the window
   with the UUIDv4 version/variant bits forced; chunk_x = the Chunk() method of the four
   message modes (allocate options if nil, keep a non-empty id, else assign a fresh one).
   The probabilistic fact about crypto/rand — distinct windows differ in their 122 free
   bits — is an explicit premise ([bound] windows, collision probability 2^-122 per pair).
   Only statements, [exact], Print Assumptions, examples. *)
From FF Require Import model.Bytes model.Msgp model.Forward model.Spec model.Wf model.Abs model.ChunkId proofs.ChunkId_Proofs.

(* stable: asking again returns the same id, changes nothing, consumes no randomness *)
Theorem C12_stable : forall rnd : nat -> bytes, (forall k, length (rnd k) = 16%nat) ->
  forall (a : anymsg) (k k' : nat),
  chunk_any rnd (fst (fst (chunk_any rnd a k))) k' = (fst (fst (chunk_any rnd a k)), snd (fst (chunk_any rnd a k)), k').
Proof. exact chunk_stable. Qed.
Print Assumptions C12_stable.

(* a caller-supplied id is preserved; nothing else of the message ever changes *)
Theorem C12_supplied_preserved : forall (rnd : nat -> bytes) (m : message) (o : options) (k : nat),
  m_opts m = Some o -> o_chunk o <> [] -> chunk_message rnd m k = (m, o_chunk o, k).
Proof. exact chunk_preserves_supplied_message. Qed.
Print Assumptions C12_supplied_preserved.

Theorem C12_frame : forall rnd : nat -> bytes, (forall k, length (rnd k) = 16%nat) ->
  forall (m : message) (k : nat) (m' : message) (id : bytes) (k' : nat),
  chunk_message rnd m k = (m', id, k') ->
  m_tag m' = m_tag m /\ m_ts m' = m_ts m /\ m_rec m' = m_rec m /\
  (exists o', m_opts m' = Some o' /\ opts_frame rnd (m_opts m) k o' id k').
Proof. exact chunk_frame_message. Qed.
Print Assumptions C12_frame.

(* on the wire: after assignment every encoding carries exactly that id as its chunk option,
   as seen by the independent specification parser (the id the client waits for is the id
   the server sees) *)
Theorem C12_on_wire_message : forall rnd : nat -> bytes, (forall k, length (rnd k) = 16%nat) ->
  forall (m : message) (k : nat) (m' : message) (id : bytes) (k' : nat) (e : bytes),
  wf_message m = true -> is_gmap (m_rec m) = true -> chunk_message rnd m k = (m', id, k') -> M_message m' = Ok e ->
  spec_parse shape_message e = Some (abs_message m', []) /\ spec_chunk (abs_message m') = Some id.
Proof. exact chunk_on_wire_spec_message. Qed.
Print Assumptions C12_on_wire_message.
Theorem C12_on_wire_message_ext : forall rnd : nat -> bytes, (forall k, length (rnd k) = 16%nat) ->
  forall (m : message_ext) (k : nat) (m' : message_ext) (id : bytes) (k' : nat) (e : bytes),
  wf_message_ext m = true -> is_gmap (x_rec m) = true -> chunk_message_ext rnd m k = (m', id, k') -> M_message_ext m' = Ok e ->
  spec_parse shape_message e = Some (abs_message_ext m', []) /\ spec_chunk (abs_message_ext m') = Some id.
Proof. exact chunk_on_wire_spec_message_ext. Qed.
Print Assumptions C12_on_wire_message_ext.
Theorem C12_on_wire_forward : forall rnd : nat -> bytes, (forall k, length (rnd k) = 16%nat) ->
  forall (m : forward) (k : nat) (m' : forward) (id : bytes) (k' : nat) (e : bytes),
  wf_forward m = true -> forallb (fun en => is_gmap (e_rec en)) (f_entries m) = true ->
  chunk_forward rnd m k = (m', id, k') -> M_forward m' = Ok e ->
  spec_parse shape_forward e = Some (abs_forward m', []) /\ spec_chunk (abs_forward m') = Some id.
Proof. exact chunk_on_wire_spec_forward. Qed.
Print Assumptions C12_on_wire_forward.
Theorem C12_on_wire_packed : forall rnd : nat -> bytes, (forall k, length (rnd k) = 16%nat) ->
  forall (m : packed) (k : nat) (m' : packed) (id : bytes) (k' : nat),
  wf_packed m = true -> chunk_packed rnd m k = (m', id, k') ->
  spec_parse shape_packed (M_packed m') = Some (abs_packed m', []) /\ spec_chunk (abs_packed m') = Some id.
Proof. exact chunk_on_wire_spec_packed. Qed.
Print Assumptions C12_on_wire_packed.

(* the id is base64 of 128 bits with the v4 markers, and two ids coincide exactly when the
   windows agree on their 122 free bits *)
Theorem C12_id_injective : forall rnd : nat -> bytes, (forall k, length (rnd k) = 16%nat) ->
  forall i j, make_chunk_id rnd i = make_chunk_id rnd j <-> free_bits (rnd i) = free_bits (rnd j).
Proof. exact chunk_id_inj. Qed.
Print Assumptions C12_id_injective.
Theorem C12_id_shape : forall rnd : nat -> bytes, (forall k, length (rnd k) = 16%nat) -> forall k,
  let id := make_chunk_id rnd k in
  length id = 24%nat /\
  (exists body, id = body ++ [b64_pad; b64_pad] /\ length body = 22%nat /\ forallb is_b64 body = true) /\
  (exists u, unbase64 id = Some u /\ length u = 16%nat /\
             (b2n (nth 6 u x00) / 16 = 4)%N /\ (b2n (nth 8 u x00) / 64 = 2)%N /\
             u = v4mask (rnd k) /\ free_bits u = free_bits (rnd k)).
Proof. exact id_shape. Qed.
Print Assumptions C12_id_shape.

(* any number of threads, any interleaving of their fetch (atomic under the pool mutex) and
   finish steps: every window is handed out once ... *)
Theorem C12_windows_once : forall rnd : nat -> bytes, (forall k, length (rnd k) = 16%nat) ->
  forall (k0 : nat) (ths : list (list anymsg)) (sch : list nat),
  let s := pool_run rnd (pool_init k0 ths) sch in
  NoDup (log_windows (ps_log s) ++ held_windows (ps_thr s)).
Proof. exact pool_windows_nodup. Qed.
Print Assumptions C12_windows_once.

(* ... hence ids generated for different messages never coincide, under any degree of
   concurrency (given windows that differ in their free bits) *)
Theorem C12_distinct : forall rnd : nat -> bytes, (forall k, length (rnd k) = 16%nat) ->
  forall bound : nat,
  (forall i j, (i < bound)%nat -> (j < bound)%nat -> i <> j -> free_bits (rnd i) <> free_bits (rnd j)) ->
  forall (k0 : nat) (ths : list (list anymsg)) (sch : list nat),
  (k0 + length (concat ths) <= bound)%nat ->
  NoDup (log_fresh_ids (ps_log (pool_run rnd (pool_init k0 ths) sch))).
Proof. exact ids_distinct_count. Qed.
Print Assumptions C12_distinct.

(* non-vacuity: the premises are satisfiable (a concrete stream of 256 pairwise different windows) *)
Example C12_nonvacuous : forall (k0 : nat) (ths : list (list anymsg)) (sch : list nat),
  (k0 + length (concat ths) <= 256)%nat ->
  NoDup (log_fresh_ids (ps_log (pool_run rnd_demo (pool_init k0 ths) sch))).
Proof. exact ids_distinct_demo. Qed.

(* ---- ids and option objects (model/OptCells.v): in every state reachable by constructor calls, Chunk() calls,
   caller-supplied ids and option edits, two messages never carry the same generated id; a message is born
   without an id; an id that is there is kept by Chunk() ---- *)
From FF Require Import model.OptCells.
From FF Require proofs.OptCells_Proofs.

Theorem C12_generated_ids_distinct : forall (ops : list oop) (m m' : nat) (cl cl' : ocell) (k : nat),
  oview (orun false ops) m = Some cl -> oview (orun false ops) m' = Some cl' ->
  oc_chunk cl = IdGen k -> oc_chunk cl' = IdGen k -> m = m'.
Proof. exact OptCells_Proofs.opt_ids_distinct. Qed.
Print Assumptions C12_generated_ids_distinct.

Theorem C12_born_without_id : forall (s : ostate) (k : ctor),
  match oview (ostep false s (ONew k)) (length (os_msgs s)) with Some cl => oc_chunk cl = IdNone | None => True end.
Proof. exact OptCells_Proofs.opt_born_clean. Qed.
Print Assumptions C12_born_without_id.

Theorem C12_id_kept : forall (s : ostate) (m : nat) (cl : ocell),
  OptCells_Proofs.OInv s -> oview s m = Some cl -> oc_chunk cl <> IdNone ->
  oview (ostep false s (OChunk m)) m = Some cl.
Proof. exact OptCells_Proofs.opt_id_kept. Qed.
Print Assumptions C12_id_kept.
