(* C14 — TCP client lifecycle: one live connection, closed exactly once, race-free.
   Sequential histories: Client.v + the reference monitors of ClientSpec.v (all call
   sequences, factories and connections failing on chosen calls).  Interleavings:
   ClientConc.v (any number of goroutines, any programs, every schedule).
   Only statements, [exact], Print Assumptions, examples. *)
From FF Require Import model.Bytes model.Msgp model.Forward model.Handshake model.Client model.ClientSpec model.Lts
  model.ClientConc model.ClientConcSpec model.ClientConcPinned
  proofs.Handshake_Proofs proofs.Client_Proofs proofs.ClientConc_Inv proofs.ClientConc_Proofs.

(* ---- histories ---- *)
(* over the whole call trace of every history: a connection is dialled only while no obtained
   connection is open (at most one live connection; the old one is closed before it is
   replaced), ids are fresh, and Write / Close / SetReadDeadline happen only on an open
   connection (so no connection is closed twice and none is used after its Close) *)
Theorem C14_connection_discipline : forall (H : bytes -> bytes) cf ops,
  trace_ok [] [] (trace (fst (runs H cf init_st ops))) = true.
Proof. exact run_trace_ok. Qed.
Print Assumptions C14_connection_discipline.

(* the reference monitor accepts every history: Connect on an active session fails without
   dialling, Disconnect closes the session's connection, a failed Reconnect leaves no session *)
Theorem C14_monitor_accepts : forall (H : bytes -> bytes) cf ops,
  monitor (has_key cf) None (history ops (fst (runs H cf init_st ops))) = true.
Proof. intros H cf ops. exact (run_monitored H (U_ack_not_panic Stream) (client_handshake_no_panic H) cf ops init_st). Qed.
Print Assumptions C14_monitor_accepts.

(* ---- interleavings ---- *)
(* the same discipline over the visible trace of every schedule *)
Theorem C14_conc_connection_discipline : forall (cf : cfg) (progs : list (list cop)) (sch : list nat),
  ctrace_ok [] [] (snd (conc_exec cf (init_conc progs) sch)) = true.
Proof. exact no_write_after_close. Qed.
Print Assumptions C14_conc_connection_discipline.

(* a connection is dialled only when every connection obtained so far has been closed *)
Theorem C14_conc_one_live_connection : forall (cf : cfg) (progs : list (list cop)) (c : cconfig) (t : nat) (c' : config shared local) (e : cevent),
  reachable cf progs c -> conc_step cf c t = Some (c', Some e) -> ce_kind e = 2%N \/ ce_kind e = 3%N ->
  g_sess (glob c) = None /\ ce_conn e = g_next (glob c) /\ (forall i, i < g_next (glob c) -> In i (g_closed (glob c))).
Proof. exact new_only_when_all_closed. Qed.
Print Assumptions C14_conc_one_live_connection.

(* the invariant behind it: exactly the session's connection is open, every other obtained
   connection has been closed exactly once (conn_ok inside Inv) *)
Theorem C14_conc_invariant : forall (cf : cfg) (progs : list (list cop)) (c : cconfig), reachable cf progs c -> Inv cf c.
Proof. exact reachable_inv. Qed.
Print Assumptions C14_conc_invariant.

Theorem C14_connect_refused_without_dial : forall (cf : cfg) (c : config shared local) (t : nat) (l : local) (k : N) (ok : bool)
    (rest : list cop) (s : nat * bool) (c' : config shared local) (oe : option cevent),
  nth_error (thr c) t = Some l -> l_pc l = PExcl k -> l_ops l = CConnect ok :: rest -> g_sess (glob c) = Some s ->
  conc_step cf c t = Some (c', oe) ->
  oe = None /\ nth_error (thr c') t = Some (finish l RErr) /\ g_sess (glob c') = Some s /\
  g_next (glob c') = g_next (glob c) /\ g_closed (glob c') = g_closed (glob c).
Proof. exact connect_refused_without_dial. Qed.
Print Assumptions C14_connect_refused_without_dial.

(* no interleaving deadlocks: some goroutine can always move until all calls have returned *)
Theorem C14_no_deadlock : forall (cf : cfg) (progs : list (list cop)) (c : cconfig),
  reachable cf progs c -> conc_deadlocked cf c = false.
Proof. exact no_deadlock. Qed.
Print Assumptions C14_no_deadlock.

(* race freedom by lock discipline: a step that WRITES the session pointer / the transport
   flag fires only while its goroutine holds sessionLock exclusively with no reader inside; a
   step that READS them fires only while nobody holds it exclusively — so a write never
   overlaps a read or another write *)
Theorem C14_lockset : forall (cf : cfg) (progs : list (list cop)) (c : cconfig) (t : nat) (l : local) (c' : config shared local) (oe : option cevent),
  reachable cf progs c -> nth_error (thr c) t = Some l -> conc_step cf c t = Some (c', oe) ->
  (access_of l = Some true -> rw_writer (g_S (glob c)) = Some t /\ rw_readers (g_S (glob c)) = []) /\
  (access_of l = Some false -> rw_writer (g_S (glob c)) = None).
Proof. exact lockset. Qed.
Print Assumptions C14_lockset.
Theorem C14_no_conflicting_access : forall (cf : cfg) (progs : list (list cop)) (c : cconfig) (t1 t2 : nat) (l1 l2 : local)
    (c1 c2 : config shared local) (e1 e2 : option cevent) (w : bool),
  reachable cf progs c -> t1 <> t2 -> nth_error (thr c) t1 = Some l1 -> nth_error (thr c) t2 = Some l2 ->
  conc_step cf c t1 = Some (c1, e1) -> conc_step cf c t2 = Some (c2, e2) ->
  access_of l1 = Some true -> access_of l2 = Some w -> False.
Proof. exact no_conflicting_access. Qed.
Print Assumptions C14_no_conflicting_access.

(* regression witness (D14, fixed): the Handshake of the pinned commit wrote the transport
   flag holding sessionLock only SHARED: a reachable configuration in which that write and a
   TransportPhase() read are both enabled while nobody holds the lock exclusively *)
Theorem C14_refuted_pinned : exists (sch : list nat) (l0 l1 : plocal) (c0 c1 : config shared plocal) (e0 e1 : option cevent),
  let c := fst (pinned_exec pin_cf2 (init_pinned pin_progs2) sch) in
  nth_error (thr c) 0 = Some l0 /\ nth_error (thr c) 1 = Some l1 /\
  paccess_of l0 = Some true /\ pinned_step pin_cf2 c 0 = Some (c0, e0) /\
  paccess_of l1 = Some false /\ pinned_step pin_cf2 c 1 = Some (c1, e1) /\
  rw_writer (g_S (glob c)) = None /\ rw_readers (g_S (glob c)) = [0]%nat /\
  g_sess (glob c) = Some (0%nat, false) /\ g_sess (glob c0) = Some (0%nat, true).
Proof. exact pinned_races. Qed.
Print Assumptions C14_refuted_pinned.
