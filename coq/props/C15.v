(* C15 — websocket close protocol: single closer, single close frame, bounded time.
   Model: WsConn.v — ws.connection as an interleaving system: any number of goroutines
   calling Close / Write / Listen in any programs, the read loop each Listen spawns, the
   default ReadHandler (Close inline on an error), a scripted peer (data, close with any
   code, transport failure, silence) and the close timer (may fire whenever the closer is
   scheduled before done is closed).  [reach pd progs script cfok c]: c is reached from the
   initial configuration by some schedule; pd = false is the repaired code.
   Only statements, [exact], Print Assumptions, examples. *)
From FF Require Import model.Bytes model.Lts model.WsConn model.WsConnSpec proofs.WsConn_Proofs proofs.WsConn_Handled.
Close Scope N_scope.
Open Scope nat_scope.

(* exactly one close call passes the gate, whatever the number of closers (direct or the
   handler's inline one); Open, once cleared, is never set again (Closed() never reverts) *)
Theorem C15_single_closer : forall pd progs script cfok c, reach pd progs script cfok c ->
  w_gate (glob c) <= 1 /\ (w_gate (glob c) = 0 <-> f_open (w_flags (glob c)) = true) /\
  cnt pgP (thr c) + w_closes (glob c) = w_gate (glob c) /\
  (forall t1 t2 l1 l2, nth_error (thr c) t1 = Some l1 -> nth_error (thr c) t2 = Some l2 ->
     past_gate (wl_pc l1) = true -> past_gate (wl_pc l2) = true -> t1 = t2).
Proof. exact single_closer. Qed.
Print Assumptions C15_single_closer.

Theorem C15_closed_never_reverts : forall pd c t c' e,
  ws_step pd c t = Some (c', e) -> f_open (w_flags (glob c)) = false -> f_open (w_flags (glob c')) = false.
Proof. exact open_never_set_again. Qed.
Print Assumptions C15_closed_never_reverts.

(* every other close call reports the multiple-close error (code 1) without touching anything *)
Theorem C15_late_close_rejected : forall pd c t c' e l,
  ws_step pd c t = Some (c', e) -> nth_error (thr c) t = Some l -> wl_pc l = QGate false ->
  f_open (w_flags (glob c)) = false ->
  exists l', nth_error (thr c') t = Some l' /\ wl_pc l' = QIdle /\ wl_rets l' = wl_rets l ++ [1%N] /\
             wl_ops l' = tl (wl_ops l) /\ glob c' = glob c.
Proof. exact late_close_returns_1. Qed.
Print Assumptions C15_late_close_rejected.

(* at most one close frame is ever written, on every schedule (over the visible trace) *)
Theorem C15_one_close_frame : forall pd progs script cfok sch,
  count8 (ev_frames (snd (ws_exec pd (winit progs script cfok) sch))) <= 1.
Proof. exact one_close_frame_trace. Qed.
Print Assumptions C15_one_close_frame.

(* the underlying connection is closed at most once, and exactly once when the winner is through *)
Theorem C15_underlying_closed_once : forall pd progs script cfok c, reach pd progs script cfok c ->
  w_closes (glob c) <= 1 /\ (w_uclosed (glob c) = true <-> w_closes (glob c) = 1) /\
  (w_uclosed (glob c) = true -> f_closed (w_flags (glob c)) = true) /\
  (w_gate (glob c) = 1 -> (forall t l, nth_error (thr c) t = Some l -> past_gate (wl_pc l) = false) ->
   w_closes (glob c) = 1) /\
  (forall t l, nth_error (thr c) t = Some l -> past_gate (wl_pc l) = true -> w_uclosed (glob c) = false).
Proof. exact underlying_closed_once. Qed.
Print Assumptions C15_underlying_closed_once.
Theorem C15_underlying_closed_once_trace : forall pd progs script cfok sch,
  ev_closes (snd (ws_exec pd (winit progs script cfok) sch)) <= 1.
Proof. exact underlying_closed_once_trace. Qed.
Print Assumptions C15_underlying_closed_once_trace.

(* bounded time: the winning closer is never blocked except while another goroutine holds
   writeLock — and that one can move; its only wait (for done) is cut short by the timer; it
   finishes within 7 of its own steps *)
Theorem C15_closer_bounded : forall progs script cfok c t l,
  reach false progs script cfok c -> nth_error (thr c) t = Some l -> past_gate (wl_pc l) = true ->
  ws_enabled false c t = true \/
  exists inln t' l', wl_pc l = QWantWL inln /\ w_WL (glob c) = Some t' /\ t' <> t /\
     nth_error (thr c) t' = Some l' /\ holds_wl (wl_pc l') = true /\ ws_enabled false c t' = true.
Proof. exact closer_bounded. Qed.
Print Assumptions C15_closer_bounded.
Theorem C15_closer_rank_decreases : forall pd c t c' e l,
  ws_step pd c t = Some (c', e) -> nth_error (thr c) t = Some l -> past_gate (wl_pc l) = true ->
  exists l', nth_error (thr c') t = Some l' /\ closer_rank (wl_pc l') < closer_rank (wl_pc l) <= 7.
Proof. exact closer_rank_decreases. Qed.
Print Assumptions C15_closer_rank_decreases.

(* Listen returns once the connection is closed: after any Close has passed the gate the
   system cannot get stuck and every maximal execution ends with all calls returned and all
   read loops gone (no leaked reader) *)
Theorem C15_no_deadlock_after_close : forall progs script cfok c,
  reach false progs script cfok c -> f_open (w_flags (glob c)) = false -> ws_deadlocked false c = false.
Proof. exact no_deadlock_after_close. Qed.
Print Assumptions C15_no_deadlock_after_close.
Theorem C15_terminates_after_close : forall progs script cfok c,
  reach false progs script cfok c -> f_open (w_flags (glob c)) = false ->
  exists sch, ws_all_done (fst (ws_exec false c sch)) = true.
Proof. exact terminates_after_close. Qed.
Print Assumptions C15_terminates_after_close.
Theorem C15_quiescent_is_done : forall progs script cfok c,
  reach false progs script cfok c -> f_open (w_flags (glob c)) = false ->
  (forall t, ws_enabled false c t = false) -> ws_all_done c = true.
Proof. exact quiescent_after_close_is_done. Qed.
Print Assumptions C15_quiescent_is_done.

(* the result of Listen: "already listening" (4) only when refused by the guard; otherwise nil
   (0) iff the only error its handler saw was a normal closure (1000) or none, and the error
   (5) after any other close code, a transport failure *)
Theorem C15_listen_result : forall pd progs script cfok c t c' e l l',
  reach pd progs script cfok c ->
  ws_step pd c t = Some (c', e) -> nth_error (thr c) t = Some l -> nth_error (thr c') t = Some l' ->
  (wl_pc l = QLGuard \/ exists acc, wl_pc l = QLRecv acc) -> wl_pc l' = QIdle ->
  exists r, wl_rets l' = wl_rets l ++ [r] /\ wl_ops l' = tl (wl_ops l) /\
    ((r = 4%N /\ wl_pc l = QLGuard /\ f_listening (w_flags (glob c)) = true) \/
     (r = listen_code (wl_hmsg l) /\ wl_pc l = QLRecv r /\ chan_get (glob c) (wl_loop l) = (None, true))).
Proof. exact listen_result. Qed.
Print Assumptions C15_listen_result.
Theorem C15_listen_code : forall m,
  (listen_code m = 0%N <-> m = MData \/ m = MCloseErr 1000) /\
  (listen_code m = 5%N <-> m = MNetErr \/ m = MErrClosed \/ exists c, m = MCloseErr c /\ c <> 1000%N).
Proof. exact listen_code_spec. Qed.
Print Assumptions C15_listen_code.

(* "Listen returns once the connection is closed": a Listen call that returns an error (5), or whose
   handler has dealt with any error message (normal closure included), returns on a connection that
   already reports Closed() and keeps doing so -- the default handler closes before it returns the
   error.  (This is what the websocket client composes with: C17's reader ends with an error on a
   connection that is closed.) *)
Theorem C15_listen_error_on_closed_connection : forall pd progs script cfok c t c' e l l' r,
  reach pd progs script cfok c ->
  ws_step pd c t = Some (c', e) -> nth_error (thr c) t = Some l -> nth_error (thr c') t = Some l' ->
  wl_pc l = QLRecv r -> wl_pc l' = QIdle ->
  (r = 5%N \/ is_err_msg (wl_hmsg l) = true) ->
  f_open (w_flags (glob c)) = false /\ f_open (w_flags (glob c')) = false.
Proof. exact listen_error_closed. Qed.
Print Assumptions C15_listen_error_on_closed_connection.

(* ... and at every moment: a thread whose handler has met an error message and is past the gate of
   its inline Close sees Closed() *)
Theorem C15_handled_error_means_closed : forall pd progs script cfok c t l,
  reach pd progs script cfok c -> nth_error (thr c) t = Some l ->
  is_err_msg (wl_hmsg l) = true -> wl_pc l <> QGate true -> f_open (w_flags (glob c)) = false.
Proof. intros pd progs script cfok c t l R N. exact (proj1 (handled_error_closed pd progs script cfok c t l R N)). Qed.
Print Assumptions C15_handled_error_means_closed.

(* no sequence of Listen / Close / Write calls panics ... *)
Theorem C15_no_panic : forall progs script cfok c, reach false progs script cfok c -> w_panic (glob c) = false.
Proof. exact no_panic. Qed.
Print Assumptions C15_no_panic.
(* ... whereas the pinned code (done closed by every read loop) does: Listen, Close, Listen (D15, fixed) *)
Theorem C15_refuted_pinned : exists progs script sch, progs = [[WListen; WListen]; [WClose]] /\
  w_panic (glob (fst (ws_exec true (winit progs script true) sch))) = true.
Proof. exact pinned_panics. Qed.
Print Assumptions C15_refuted_pinned.
