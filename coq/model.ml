
type nat =
| O
| S of nat

(** val snd : ('a1 * 'a2) -> 'a2 **)

let snd = function
| (_, y) -> y

(** val length : 'a1 list -> nat **)

let rec length = function
| [] -> O
| _ :: l' -> S (length l')

(** val app : 'a1 list -> 'a1 list -> 'a1 list **)

let rec app l m =
  match l with
  | [] -> m
  | a :: l1 -> a :: (app l1 m)

type comparison =
| Eq
| Lt
| Gt

type byte =
| X00
| X01
| X02
| X03
| X04
| X05
| X06
| X07
| X08
| X09
| X0a
| X0b
| X0c
| X0d
| X0e
| X0f
| X10
| X11
| X12
| X13
| X14
| X15
| X16
| X17
| X18
| X19
| X1a
| X1b
| X1c
| X1d
| X1e
| X1f
| X20
| X21
| X22
| X23
| X24
| X25
| X26
| X27
| X28
| X29
| X2a
| X2b
| X2c
| X2d
| X2e
| X2f
| X30
| X31
| X32
| X33
| X34
| X35
| X36
| X37
| X38
| X39
| X3a
| X3b
| X3c
| X3d
| X3e
| X3f
| X40
| X41
| X42
| X43
| X44
| X45
| X46
| X47
| X48
| X49
| X4a
| X4b
| X4c
| X4d
| X4e
| X4f
| X50
| X51
| X52
| X53
| X54
| X55
| X56
| X57
| X58
| X59
| X5a
| X5b
| X5c
| X5d
| X5e
| X5f
| X60
| X61
| X62
| X63
| X64
| X65
| X66
| X67
| X68
| X69
| X6a
| X6b
| X6c
| X6d
| X6e
| X6f
| X70
| X71
| X72
| X73
| X74
| X75
| X76
| X77
| X78
| X79
| X7a
| X7b
| X7c
| X7d
| X7e
| X7f
| X80
| X81
| X82
| X83
| X84
| X85
| X86
| X87
| X88
| X89
| X8a
| X8b
| X8c
| X8d
| X8e
| X8f
| X90
| X91
| X92
| X93
| X94
| X95
| X96
| X97
| X98
| X99
| X9a
| X9b
| X9c
| X9d
| X9e
| X9f
| Xa0
| Xa1
| Xa2
| Xa3
| Xa4
| Xa5
| Xa6
| Xa7
| Xa8
| Xa9
| Xaa
| Xab
| Xac
| Xad
| Xae
| Xaf
| Xb0
| Xb1
| Xb2
| Xb3
| Xb4
| Xb5
| Xb6
| Xb7
| Xb8
| Xb9
| Xba
| Xbb
| Xbc
| Xbd
| Xbe
| Xbf
| Xc0
| Xc1
| Xc2
| Xc3
| Xc4
| Xc5
| Xc6
| Xc7
| Xc8
| Xc9
| Xca
| Xcb
| Xcc
| Xcd
| Xce
| Xcf
| Xd0
| Xd1
| Xd2
| Xd3
| Xd4
| Xd5
| Xd6
| Xd7
| Xd8
| Xd9
| Xda
| Xdb
| Xdc
| Xdd
| Xde
| Xdf
| Xe0
| Xe1
| Xe2
| Xe3
| Xe4
| Xe5
| Xe6
| Xe7
| Xe8
| Xe9
| Xea
| Xeb
| Xec
| Xed
| Xee
| Xef
| Xf0
| Xf1
| Xf2
| Xf3
| Xf4
| Xf5
| Xf6
| Xf7
| Xf8
| Xf9
| Xfa
| Xfb
| Xfc
| Xfd
| Xfe
| Xff

(** val of_bits :
    (bool * (bool * (bool * (bool * (bool * (bool * (bool * bool))))))) ->
    byte **)

let of_bits = function
| (b0, p) ->
  if b0
  then let (b1, p0) = p in
       if b1
       then let (b2, p1) = p0 in
            if b2
            then let (b3, p2) = p1 in
                 if b3
                 then let (b4, p3) = p2 in
                      if b4
                      then let (b5, p4) = p3 in
                           if b5
                           then let (b6, b7) = p4 in
                                if b6
                                then if b7 then Xff else X7f
                                else if b7 then Xbf else X3f
                           else let (b6, b7) = p4 in
                                if b6
                                then if b7 then Xdf else X5f
                                else if b7 then X9f else X1f
                      else let (b5, p4) = p3 in
                           if b5
                           then let (b6, b7) = p4 in
                                if b6
                                then if b7 then Xef else X6f
                                else if b7 then Xaf else X2f
                           else let (b6, b7) = p4 in
                                if b6
                                then if b7 then Xcf else X4f
                                else if b7 then X8f else X0f
                 else let (b4, p3) = p2 in
                      if b4
                      then let (b5, p4) = p3 in
                           if b5
                           then let (b6, b7) = p4 in
                                if b6
                                then if b7 then Xf7 else X77
                                else if b7 then Xb7 else X37
                           else let (b6, b7) = p4 in
                                if b6
                                then if b7 then Xd7 else X57
                                else if b7 then X97 else X17
                      else let (b5, p4) = p3 in
                           if b5
                           then let (b6, b7) = p4 in
                                if b6
                                then if b7 then Xe7 else X67
                                else if b7 then Xa7 else X27
                           else let (b6, b7) = p4 in
                                if b6
                                then if b7 then Xc7 else X47
                                else if b7 then X87 else X07
            else let (b3, p2) = p1 in
                 if b3
                 then let (b4, p3) = p2 in
                      if b4
                      then let (b5, p4) = p3 in
                           if b5
                           then let (b6, b7) = p4 in
                                if b6
                                then if b7 then Xfb else X7b
                                else if b7 then Xbb else X3b
                           else let (b6, b7) = p4 in
                                if b6
                                then if b7 then Xdb else X5b
                                else if b7 then X9b else X1b
                      else let (b5, p4) = p3 in
                           if b5
                           then let (b6, b7) = p4 in
                                if b6
                                then if b7 then Xeb else X6b
                                else if b7 then Xab else X2b
                           else let (b6, b7) = p4 in
                                if b6
                                then if b7 then Xcb else X4b
                                else if b7 then X8b else X0b
                 else let (b4, p3) = p2 in
                      if b4
                      then let (b5, p4) = p3 in
                           if b5
                           then let (b6, b7) = p4 in
                                if b6
                                then if b7 then Xf3 else X73
                                else if b7 then Xb3 else X33
                           else let (b6, b7) = p4 in
                                if b6
                                then if b7 then Xd3 else X53
                                else if b7 then X93 else X13
                      else let (b5, p4) = p3 in
                           if b5
                           then let (b6, b7) = p4 in
                                if b6
                                then if b7 then Xe3 else X63
                                else if b7 then Xa3 else X23
                           else let (b6, b7) = p4 in
                                if b6
                                then if b7 then Xc3 else X43
                                else if b7 then X83 else X03
       else let (b2, p1) = p0 in
            if b2
            then let (b3, p2) = p1 in
                 if b3
                 then let (b4, p3) = p2 in
                      if b4
                      then let (b5, p4) = p3 in
                           if b5
                           then let (b6, b7) = p4 in
                                if b6
                                then if b7 then Xfd else X7d
                                else if b7 then Xbd else X3d
                           else let (b6, b7) = p4 in
                                if b6
                                then if b7 then Xdd else X5d
                                else if b7 then X9d else X1d
                      else let (b5, p4) = p3 in
                           if b5
                           then let (b6, b7) = p4 in
                                if b6
                                then if b7 then Xed else X6d
                                else if b7 then Xad else X2d
                           else let (b6, b7) = p4 in
                                if b6
                                then if b7 then Xcd else X4d
                                else if b7 then X8d else X0d
                 else let (b4, p3) = p2 in
                      if b4
                      then let (b5, p4) = p3 in
                           if b5
                           then let (b6, b7) = p4 in
                                if b6
                                then if b7 then Xf5 else X75
                                else if b7 then Xb5 else X35
                           else let (b6, b7) = p4 in
                                if b6
                                then if b7 then Xd5 else X55
                                else if b7 then X95 else X15
                      else let (b5, p4) = p3 in
                           if b5
                           then let (b6, b7) = p4 in
                                if b6
                                then if b7 then Xe5 else X65
                                else if b7 then Xa5 else X25
                           else let (b6, b7) = p4 in
                                if b6
                                then if b7 then Xc5 else X45
                                else if b7 then X85 else X05
            else let (b3, p2) = p1 in
                 if b3
                 then let (b4, p3) = p2 in
                      if b4
                      then let (b5, p4) = p3 in
                           if b5
                           then let (b6, b7) = p4 in
                                if b6
                                then if b7 then Xf9 else X79
                                else if b7 then Xb9 else X39
                           else let (b6, b7) = p4 in
                                if b6
                                then if b7 then Xd9 else X59
                                else if b7 then X99 else X19
                      else let (b5, p4) = p3 in
                           if b5
                           then let (b6, b7) = p4 in
                                if b6
                                then if b7 then Xe9 else X69
                                else if b7 then Xa9 else X29
                           else let (b6, b7) = p4 in
                                if b6
                                then if b7 then Xc9 else X49
                                else if b7 then X89 else X09
                 else let (b4, p3) = p2 in
                      if b4
                      then let (b5, p4) = p3 in
                           if b5
                           then let (b6, b7) = p4 in
                                if b6
                                then if b7 then Xf1 else X71
                                else if b7 then Xb1 else X31
                           else let (b6, b7) = p4 in
                                if b6
                                then if b7 then Xd1 else X51
                                else if b7 then X91 else X11
                      else let (b5, p4) = p3 in
                           if b5
                           then let (b6, b7) = p4 in
                                if b6
                                then if b7 then Xe1 else X61
                                else if b7 then Xa1 else X21
                           else let (b6, b7) = p4 in
                                if b6
                                then if b7 then Xc1 else X41
                                else if b7 then X81 else X01
  else let (b1, p0) = p in
       if b1
       then let (b2, p1) = p0 in
            if b2
            then let (b3, p2) = p1 in
                 if b3
                 then let (b4, p3) = p2 in
                      if b4
                      then let (b5, p4) = p3 in
                           if b5
                           then let (b6, b7) = p4 in
                                if b6
                                then if b7 then Xfe else X7e
                                else if b7 then Xbe else X3e
                           else let (b6, b7) = p4 in
                                if b6
                                then if b7 then Xde else X5e
                                else if b7 then X9e else X1e
                      else let (b5, p4) = p3 in
                           if b5
                           then let (b6, b7) = p4 in
                                if b6
                                then if b7 then Xee else X6e
                                else if b7 then Xae else X2e
                           else let (b6, b7) = p4 in
                                if b6
                                then if b7 then Xce else X4e
                                else if b7 then X8e else X0e
                 else let (b4, p3) = p2 in
                      if b4
                      then let (b5, p4) = p3 in
                           if b5
                           then let (b6, b7) = p4 in
                                if b6
                                then if b7 then Xf6 else X76
                                else if b7 then Xb6 else X36
                           else let (b6, b7) = p4 in
                                if b6
                                then if b7 then Xd6 else X56
                                else if b7 then X96 else X16
                      else let (b5, p4) = p3 in
                           if b5
                           then let (b6, b7) = p4 in
                                if b6
                                then if b7 then Xe6 else X66
                                else if b7 then Xa6 else X26
                           else let (b6, b7) = p4 in
                                if b6
                                then if b7 then Xc6 else X46
                                else if b7 then X86 else X06
            else let (b3, p2) = p1 in
                 if b3
                 then let (b4, p3) = p2 in
                      if b4
                      then let (b5, p4) = p3 in
                           if b5
                           then let (b6, b7) = p4 in
                                if b6
                                then if b7 then Xfa else X7a
                                else if b7 then Xba else X3a
                           else let (b6, b7) = p4 in
                                if b6
                                then if b7 then Xda else X5a
                                else if b7 then X9a else X1a
                      else let (b5, p4) = p3 in
                           if b5
                           then let (b6, b7) = p4 in
                                if b6
                                then if b7 then Xea else X6a
                                else if b7 then Xaa else X2a
                           else let (b6, b7) = p4 in
                                if b6
                                then if b7 then Xca else X4a
                                else if b7 then X8a else X0a
                 else let (b4, p3) = p2 in
                      if b4
                      then let (b5, p4) = p3 in
                           if b5
                           then let (b6, b7) = p4 in
                                if b6
                                then if b7 then Xf2 else X72
                                else if b7 then Xb2 else X32
                           else let (b6, b7) = p4 in
                                if b6
                                then if b7 then Xd2 else X52
                                else if b7 then X92 else X12
                      else let (b5, p4) = p3 in
                           if b5
                           then let (b6, b7) = p4 in
                                if b6
                                then if b7 then Xe2 else X62
                                else if b7 then Xa2 else X22
                           else let (b6, b7) = p4 in
                                if b6
                                then if b7 then Xc2 else X42
                                else if b7 then X82 else X02
       else let (b2, p1) = p0 in
            if b2
            then let (b3, p2) = p1 in
                 if b3
                 then let (b4, p3) = p2 in
                      if b4
                      then let (b5, p4) = p3 in
                           if b5
                           then let (b6, b7) = p4 in
                                if b6
                                then if b7 then Xfc else X7c
                                else if b7 then Xbc else X3c
                           else let (b6, b7) = p4 in
                                if b6
                                then if b7 then Xdc else X5c
                                else if b7 then X9c else X1c
                      else let (b5, p4) = p3 in
                           if b5
                           then let (b6, b7) = p4 in
                                if b6
                                then if b7 then Xec else X6c
                                else if b7 then Xac else X2c
                           else let (b6, b7) = p4 in
                                if b6
                                then if b7 then Xcc else X4c
                                else if b7 then X8c else X0c
                 else let (b4, p3) = p2 in
                      if b4
                      then let (b5, p4) = p3 in
                           if b5
                           then let (b6, b7) = p4 in
                                if b6
                                then if b7 then Xf4 else X74
                                else if b7 then Xb4 else X34
                           else let (b6, b7) = p4 in
                                if b6
                                then if b7 then Xd4 else X54
                                else if b7 then X94 else X14
                      else let (b5, p4) = p3 in
                           if b5
                           then let (b6, b7) = p4 in
                                if b6
                                then if b7 then Xe4 else X64
                                else if b7 then Xa4 else X24
                           else let (b6, b7) = p4 in
                                if b6
                                then if b7 then Xc4 else X44
                                else if b7 then X84 else X04
            else let (b3, p2) = p1 in
                 if b3
                 then let (b4, p3) = p2 in
                      if b4
                      then let (b5, p4) = p3 in
                           if b5
                           then let (b6, b7) = p4 in
                                if b6
                                then if b7 then Xf8 else X78
                                else if b7 then Xb8 else X38
                           else let (b6, b7) = p4 in
                                if b6
                                then if b7 then Xd8 else X58
                                else if b7 then X98 else X18
                      else let (b5, p4) = p3 in
                           if b5
                           then let (b6, b7) = p4 in
                                if b6
                                then if b7 then Xe8 else X68
                                else if b7 then Xa8 else X28
                           else let (b6, b7) = p4 in
                                if b6
                                then if b7 then Xc8 else X48
                                else if b7 then X88 else X08
                 else let (b4, p3) = p2 in
                      if b4
                      then let (b5, p4) = p3 in
                           if b5
                           then let (b6, b7) = p4 in
                                if b6
                                then if b7 then Xf0 else X70
                                else if b7 then Xb0 else X30
                           else let (b6, b7) = p4 in
                                if b6
                                then if b7 then Xd0 else X50
                                else if b7 then X90 else X10
                      else let (b5, p4) = p3 in
                           if b5
                           then let (b6, b7) = p4 in
                                if b6
                                then if b7 then Xe0 else X60
                                else if b7 then Xa0 else X20
                           else let (b6, b7) = p4 in
                                if b6
                                then if b7 then Xc0 else X40
                                else if b7 then X80 else X00

(** val to_bits :
    byte -> bool * (bool * (bool * (bool * (bool * (bool * (bool * bool)))))) **)

let to_bits = function
| X00 -> (false, (false, (false, (false, (false, (false, (false, false)))))))
| X01 -> (true, (false, (false, (false, (false, (false, (false, false)))))))
| X02 -> (false, (true, (false, (false, (false, (false, (false, false)))))))
| X03 -> (true, (true, (false, (false, (false, (false, (false, false)))))))
| X04 -> (false, (false, (true, (false, (false, (false, (false, false)))))))
| X05 -> (true, (false, (true, (false, (false, (false, (false, false)))))))
| X06 -> (false, (true, (true, (false, (false, (false, (false, false)))))))
| X07 -> (true, (true, (true, (false, (false, (false, (false, false)))))))
| X08 -> (false, (false, (false, (true, (false, (false, (false, false)))))))
| X09 -> (true, (false, (false, (true, (false, (false, (false, false)))))))
| X0a -> (false, (true, (false, (true, (false, (false, (false, false)))))))
| X0b -> (true, (true, (false, (true, (false, (false, (false, false)))))))
| X0c -> (false, (false, (true, (true, (false, (false, (false, false)))))))
| X0d -> (true, (false, (true, (true, (false, (false, (false, false)))))))
| X0e -> (false, (true, (true, (true, (false, (false, (false, false)))))))
| X0f -> (true, (true, (true, (true, (false, (false, (false, false)))))))
| X10 -> (false, (false, (false, (false, (true, (false, (false, false)))))))
| X11 -> (true, (false, (false, (false, (true, (false, (false, false)))))))
| X12 -> (false, (true, (false, (false, (true, (false, (false, false)))))))
| X13 -> (true, (true, (false, (false, (true, (false, (false, false)))))))
| X14 -> (false, (false, (true, (false, (true, (false, (false, false)))))))
| X15 -> (true, (false, (true, (false, (true, (false, (false, false)))))))
| X16 -> (false, (true, (true, (false, (true, (false, (false, false)))))))
| X17 -> (true, (true, (true, (false, (true, (false, (false, false)))))))
| X18 -> (false, (false, (false, (true, (true, (false, (false, false)))))))
| X19 -> (true, (false, (false, (true, (true, (false, (false, false)))))))
| X1a -> (false, (true, (false, (true, (true, (false, (false, false)))))))
| X1b -> (true, (true, (false, (true, (true, (false, (false, false)))))))
| X1c -> (false, (false, (true, (true, (true, (false, (false, false)))))))
| X1d -> (true, (false, (true, (true, (true, (false, (false, false)))))))
| X1e -> (false, (true, (true, (true, (true, (false, (false, false)))))))
| X1f -> (true, (true, (true, (true, (true, (false, (false, false)))))))
| X20 -> (false, (false, (false, (false, (false, (true, (false, false)))))))
| X21 -> (true, (false, (false, (false, (false, (true, (false, false)))))))
| X22 -> (false, (true, (false, (false, (false, (true, (false, false)))))))
| X23 -> (true, (true, (false, (false, (false, (true, (false, false)))))))
| X24 -> (false, (false, (true, (false, (false, (true, (false, false)))))))
| X25 -> (true, (false, (true, (false, (false, (true, (false, false)))))))
| X26 -> (false, (true, (true, (false, (false, (true, (false, false)))))))
| X27 -> (true, (true, (true, (false, (false, (true, (false, false)))))))
| X28 -> (false, (false, (false, (true, (false, (true, (false, false)))))))
| X29 -> (true, (false, (false, (true, (false, (true, (false, false)))))))
| X2a -> (false, (true, (false, (true, (false, (true, (false, false)))))))
| X2b -> (true, (true, (false, (true, (false, (true, (false, false)))))))
| X2c -> (false, (false, (true, (true, (false, (true, (false, false)))))))
| X2d -> (true, (false, (true, (true, (false, (true, (false, false)))))))
| X2e -> (false, (true, (true, (true, (false, (true, (false, false)))))))
| X2f -> (true, (true, (true, (true, (false, (true, (false, false)))))))
| X30 -> (false, (false, (false, (false, (true, (true, (false, false)))))))
| X31 -> (true, (false, (false, (false, (true, (true, (false, false)))))))
| X32 -> (false, (true, (false, (false, (true, (true, (false, false)))))))
| X33 -> (true, (true, (false, (false, (true, (true, (false, false)))))))
| X34 -> (false, (false, (true, (false, (true, (true, (false, false)))))))
| X35 -> (true, (false, (true, (false, (true, (true, (false, false)))))))
| X36 -> (false, (true, (true, (false, (true, (true, (false, false)))))))
| X37 -> (true, (true, (true, (false, (true, (true, (false, false)))))))
| X38 -> (false, (false, (false, (true, (true, (true, (false, false)))))))
| X39 -> (true, (false, (false, (true, (true, (true, (false, false)))))))
| X3a -> (false, (true, (false, (true, (true, (true, (false, false)))))))
| X3b -> (true, (true, (false, (true, (true, (true, (false, false)))))))
| X3c -> (false, (false, (true, (true, (true, (true, (false, false)))))))
| X3d -> (true, (false, (true, (true, (true, (true, (false, false)))))))
| X3e -> (false, (true, (true, (true, (true, (true, (false, false)))))))
| X3f -> (true, (true, (true, (true, (true, (true, (false, false)))))))
| X40 -> (false, (false, (false, (false, (false, (false, (true, false)))))))
| X41 -> (true, (false, (false, (false, (false, (false, (true, false)))))))
| X42 -> (false, (true, (false, (false, (false, (false, (true, false)))))))
| X43 -> (true, (true, (false, (false, (false, (false, (true, false)))))))
| X44 -> (false, (false, (true, (false, (false, (false, (true, false)))))))
| X45 -> (true, (false, (true, (false, (false, (false, (true, false)))))))
| X46 -> (false, (true, (true, (false, (false, (false, (true, false)))))))
| X47 -> (true, (true, (true, (false, (false, (false, (true, false)))))))
| X48 -> (false, (false, (false, (true, (false, (false, (true, false)))))))
| X49 -> (true, (false, (false, (true, (false, (false, (true, false)))))))
| X4a -> (false, (true, (false, (true, (false, (false, (true, false)))))))
| X4b -> (true, (true, (false, (true, (false, (false, (true, false)))))))
| X4c -> (false, (false, (true, (true, (false, (false, (true, false)))))))
| X4d -> (true, (false, (true, (true, (false, (false, (true, false)))))))
| X4e -> (false, (true, (true, (true, (false, (false, (true, false)))))))
| X4f -> (true, (true, (true, (true, (false, (false, (true, false)))))))
| X50 -> (false, (false, (false, (false, (true, (false, (true, false)))))))
| X51 -> (true, (false, (false, (false, (true, (false, (true, false)))))))
| X52 -> (false, (true, (false, (false, (true, (false, (true, false)))))))
| X53 -> (true, (true, (false, (false, (true, (false, (true, false)))))))
| X54 -> (false, (false, (true, (false, (true, (false, (true, false)))))))
| X55 -> (true, (false, (true, (false, (true, (false, (true, false)))))))
| X56 -> (false, (true, (true, (false, (true, (false, (true, false)))))))
| X57 -> (true, (true, (true, (false, (true, (false, (true, false)))))))
| X58 -> (false, (false, (false, (true, (true, (false, (true, false)))))))
| X59 -> (true, (false, (false, (true, (true, (false, (true, false)))))))
| X5a -> (false, (true, (false, (true, (true, (false, (true, false)))))))
| X5b -> (true, (true, (false, (true, (true, (false, (true, false)))))))
| X5c -> (false, (false, (true, (true, (true, (false, (true, false)))))))
| X5d -> (true, (false, (true, (true, (true, (false, (true, false)))))))
| X5e -> (false, (true, (true, (true, (true, (false, (true, false)))))))
| X5f -> (true, (true, (true, (true, (true, (false, (true, false)))))))
| X60 -> (false, (false, (false, (false, (false, (true, (true, false)))))))
| X61 -> (true, (false, (false, (false, (false, (true, (true, false)))))))
| X62 -> (false, (true, (false, (false, (false, (true, (true, false)))))))
| X63 -> (true, (true, (false, (false, (false, (true, (true, false)))))))
| X64 -> (false, (false, (true, (false, (false, (true, (true, false)))))))
| X65 -> (true, (false, (true, (false, (false, (true, (true, false)))))))
| X66 -> (false, (true, (true, (false, (false, (true, (true, false)))))))
| X67 -> (true, (true, (true, (false, (false, (true, (true, false)))))))
| X68 -> (false, (false, (false, (true, (false, (true, (true, false)))))))
| X69 -> (true, (false, (false, (true, (false, (true, (true, false)))))))
| X6a -> (false, (true, (false, (true, (false, (true, (true, false)))))))
| X6b -> (true, (true, (false, (true, (false, (true, (true, false)))))))
| X6c -> (false, (false, (true, (true, (false, (true, (true, false)))))))
| X6d -> (true, (false, (true, (true, (false, (true, (true, false)))))))
| X6e -> (false, (true, (true, (true, (false, (true, (true, false)))))))
| X6f -> (true, (true, (true, (true, (false, (true, (true, false)))))))
| X70 -> (false, (false, (false, (false, (true, (true, (true, false)))))))
| X71 -> (true, (false, (false, (false, (true, (true, (true, false)))))))
| X72 -> (false, (true, (false, (false, (true, (true, (true, false)))))))
| X73 -> (true, (true, (false, (false, (true, (true, (true, false)))))))
| X74 -> (false, (false, (true, (false, (true, (true, (true, false)))))))
| X75 -> (true, (false, (true, (false, (true, (true, (true, false)))))))
| X76 -> (false, (true, (true, (false, (true, (true, (true, false)))))))
| X77 -> (true, (true, (true, (false, (true, (true, (true, false)))))))
| X78 -> (false, (false, (false, (true, (true, (true, (true, false)))))))
| X79 -> (true, (false, (false, (true, (true, (true, (true, false)))))))
| X7a -> (false, (true, (false, (true, (true, (true, (true, false)))))))
| X7b -> (true, (true, (false, (true, (true, (true, (true, false)))))))
| X7c -> (false, (false, (true, (true, (true, (true, (true, false)))))))
| X7d -> (true, (false, (true, (true, (true, (true, (true, false)))))))
| X7e -> (false, (true, (true, (true, (true, (true, (true, false)))))))
| X7f -> (true, (true, (true, (true, (true, (true, (true, false)))))))
| X80 -> (false, (false, (false, (false, (false, (false, (false, true)))))))
| X81 -> (true, (false, (false, (false, (false, (false, (false, true)))))))
| X82 -> (false, (true, (false, (false, (false, (false, (false, true)))))))
| X83 -> (true, (true, (false, (false, (false, (false, (false, true)))))))
| X84 -> (false, (false, (true, (false, (false, (false, (false, true)))))))
| X85 -> (true, (false, (true, (false, (false, (false, (false, true)))))))
| X86 -> (false, (true, (true, (false, (false, (false, (false, true)))))))
| X87 -> (true, (true, (true, (false, (false, (false, (false, true)))))))
| X88 -> (false, (false, (false, (true, (false, (false, (false, true)))))))
| X89 -> (true, (false, (false, (true, (false, (false, (false, true)))))))
| X8a -> (false, (true, (false, (true, (false, (false, (false, true)))))))
| X8b -> (true, (true, (false, (true, (false, (false, (false, true)))))))
| X8c -> (false, (false, (true, (true, (false, (false, (false, true)))))))
| X8d -> (true, (false, (true, (true, (false, (false, (false, true)))))))
| X8e -> (false, (true, (true, (true, (false, (false, (false, true)))))))
| X8f -> (true, (true, (true, (true, (false, (false, (false, true)))))))
| X90 -> (false, (false, (false, (false, (true, (false, (false, true)))))))
| X91 -> (true, (false, (false, (false, (true, (false, (false, true)))))))
| X92 -> (false, (true, (false, (false, (true, (false, (false, true)))))))
| X93 -> (true, (true, (false, (false, (true, (false, (false, true)))))))
| X94 -> (false, (false, (true, (false, (true, (false, (false, true)))))))
| X95 -> (true, (false, (true, (false, (true, (false, (false, true)))))))
| X96 -> (false, (true, (true, (false, (true, (false, (false, true)))))))
| X97 -> (true, (true, (true, (false, (true, (false, (false, true)))))))
| X98 -> (false, (false, (false, (true, (true, (false, (false, true)))))))
| X99 -> (true, (false, (false, (true, (true, (false, (false, true)))))))
| X9a -> (false, (true, (false, (true, (true, (false, (false, true)))))))
| X9b -> (true, (true, (false, (true, (true, (false, (false, true)))))))
| X9c -> (false, (false, (true, (true, (true, (false, (false, true)))))))
| X9d -> (true, (false, (true, (true, (true, (false, (false, true)))))))
| X9e -> (false, (true, (true, (true, (true, (false, (false, true)))))))
| X9f -> (true, (true, (true, (true, (true, (false, (false, true)))))))
| Xa0 -> (false, (false, (false, (false, (false, (true, (false, true)))))))
| Xa1 -> (true, (false, (false, (false, (false, (true, (false, true)))))))
| Xa2 -> (false, (true, (false, (false, (false, (true, (false, true)))))))
| Xa3 -> (true, (true, (false, (false, (false, (true, (false, true)))))))
| Xa4 -> (false, (false, (true, (false, (false, (true, (false, true)))))))
| Xa5 -> (true, (false, (true, (false, (false, (true, (false, true)))))))
| Xa6 -> (false, (true, (true, (false, (false, (true, (false, true)))))))
| Xa7 -> (true, (true, (true, (false, (false, (true, (false, true)))))))
| Xa8 -> (false, (false, (false, (true, (false, (true, (false, true)))))))
| Xa9 -> (true, (false, (false, (true, (false, (true, (false, true)))))))
| Xaa -> (false, (true, (false, (true, (false, (true, (false, true)))))))
| Xab -> (true, (true, (false, (true, (false, (true, (false, true)))))))
| Xac -> (false, (false, (true, (true, (false, (true, (false, true)))))))
| Xad -> (true, (false, (true, (true, (false, (true, (false, true)))))))
| Xae -> (false, (true, (true, (true, (false, (true, (false, true)))))))
| Xaf -> (true, (true, (true, (true, (false, (true, (false, true)))))))
| Xb0 -> (false, (false, (false, (false, (true, (true, (false, true)))))))
| Xb1 -> (true, (false, (false, (false, (true, (true, (false, true)))))))
| Xb2 -> (false, (true, (false, (false, (true, (true, (false, true)))))))
| Xb3 -> (true, (true, (false, (false, (true, (true, (false, true)))))))
| Xb4 -> (false, (false, (true, (false, (true, (true, (false, true)))))))
| Xb5 -> (true, (false, (true, (false, (true, (true, (false, true)))))))
| Xb6 -> (false, (true, (true, (false, (true, (true, (false, true)))))))
| Xb7 -> (true, (true, (true, (false, (true, (true, (false, true)))))))
| Xb8 -> (false, (false, (false, (true, (true, (true, (false, true)))))))
| Xb9 -> (true, (false, (false, (true, (true, (true, (false, true)))))))
| Xba -> (false, (true, (false, (true, (true, (true, (false, true)))))))
| Xbb -> (true, (true, (false, (true, (true, (true, (false, true)))))))
| Xbc -> (false, (false, (true, (true, (true, (true, (false, true)))))))
| Xbd -> (true, (false, (true, (true, (true, (true, (false, true)))))))
| Xbe -> (false, (true, (true, (true, (true, (true, (false, true)))))))
| Xbf -> (true, (true, (true, (true, (true, (true, (false, true)))))))
| Xc0 -> (false, (false, (false, (false, (false, (false, (true, true)))))))
| Xc1 -> (true, (false, (false, (false, (false, (false, (true, true)))))))
| Xc2 -> (false, (true, (false, (false, (false, (false, (true, true)))))))
| Xc3 -> (true, (true, (false, (false, (false, (false, (true, true)))))))
| Xc4 -> (false, (false, (true, (false, (false, (false, (true, true)))))))
| Xc5 -> (true, (false, (true, (false, (false, (false, (true, true)))))))
| Xc6 -> (false, (true, (true, (false, (false, (false, (true, true)))))))
| Xc7 -> (true, (true, (true, (false, (false, (false, (true, true)))))))
| Xc8 -> (false, (false, (false, (true, (false, (false, (true, true)))))))
| Xc9 -> (true, (false, (false, (true, (false, (false, (true, true)))))))
| Xca -> (false, (true, (false, (true, (false, (false, (true, true)))))))
| Xcb -> (true, (true, (false, (true, (false, (false, (true, true)))))))
| Xcc -> (false, (false, (true, (true, (false, (false, (true, true)))))))
| Xcd -> (true, (false, (true, (true, (false, (false, (true, true)))))))
| Xce -> (false, (true, (true, (true, (false, (false, (true, true)))))))
| Xcf -> (true, (true, (true, (true, (false, (false, (true, true)))))))
| Xd0 -> (false, (false, (false, (false, (true, (false, (true, true)))))))
| Xd1 -> (true, (false, (false, (false, (true, (false, (true, true)))))))
| Xd2 -> (false, (true, (false, (false, (true, (false, (true, true)))))))
| Xd3 -> (true, (true, (false, (false, (true, (false, (true, true)))))))
| Xd4 -> (false, (false, (true, (false, (true, (false, (true, true)))))))
| Xd5 -> (true, (false, (true, (false, (true, (false, (true, true)))))))
| Xd6 -> (false, (true, (true, (false, (true, (false, (true, true)))))))
| Xd7 -> (true, (true, (true, (false, (true, (false, (true, true)))))))
| Xd8 -> (false, (false, (false, (true, (true, (false, (true, true)))))))
| Xd9 -> (true, (false, (false, (true, (true, (false, (true, true)))))))
| Xda -> (false, (true, (false, (true, (true, (false, (true, true)))))))
| Xdb -> (true, (true, (false, (true, (true, (false, (true, true)))))))
| Xdc -> (false, (false, (true, (true, (true, (false, (true, true)))))))
| Xdd -> (true, (false, (true, (true, (true, (false, (true, true)))))))
| Xde -> (false, (true, (true, (true, (true, (false, (true, true)))))))
| Xdf -> (true, (true, (true, (true, (true, (false, (true, true)))))))
| Xe0 -> (false, (false, (false, (false, (false, (true, (true, true)))))))
| Xe1 -> (true, (false, (false, (false, (false, (true, (true, true)))))))
| Xe2 -> (false, (true, (false, (false, (false, (true, (true, true)))))))
| Xe3 -> (true, (true, (false, (false, (false, (true, (true, true)))))))
| Xe4 -> (false, (false, (true, (false, (false, (true, (true, true)))))))
| Xe5 -> (true, (false, (true, (false, (false, (true, (true, true)))))))
| Xe6 -> (false, (true, (true, (false, (false, (true, (true, true)))))))
| Xe7 -> (true, (true, (true, (false, (false, (true, (true, true)))))))
| Xe8 -> (false, (false, (false, (true, (false, (true, (true, true)))))))
| Xe9 -> (true, (false, (false, (true, (false, (true, (true, true)))))))
| Xea -> (false, (true, (false, (true, (false, (true, (true, true)))))))
| Xeb -> (true, (true, (false, (true, (false, (true, (true, true)))))))
| Xec -> (false, (false, (true, (true, (false, (true, (true, true)))))))
| Xed -> (true, (false, (true, (true, (false, (true, (true, true)))))))
| Xee -> (false, (true, (true, (true, (false, (true, (true, true)))))))
| Xef -> (true, (true, (true, (true, (false, (true, (true, true)))))))
| Xf0 -> (false, (false, (false, (false, (true, (true, (true, true)))))))
| Xf1 -> (true, (false, (false, (false, (true, (true, (true, true)))))))
| Xf2 -> (false, (true, (false, (false, (true, (true, (true, true)))))))
| Xf3 -> (true, (true, (false, (false, (true, (true, (true, true)))))))
| Xf4 -> (false, (false, (true, (false, (true, (true, (true, true)))))))
| Xf5 -> (true, (false, (true, (false, (true, (true, (true, true)))))))
| Xf6 -> (false, (true, (true, (false, (true, (true, (true, true)))))))
| Xf7 -> (true, (true, (true, (false, (true, (true, (true, true)))))))
| Xf8 -> (false, (false, (false, (true, (true, (true, (true, true)))))))
| Xf9 -> (true, (false, (false, (true, (true, (true, (true, true)))))))
| Xfa -> (false, (true, (false, (true, (true, (true, (true, true)))))))
| Xfb -> (true, (true, (false, (true, (true, (true, (true, true)))))))
| Xfc -> (false, (false, (true, (true, (true, (true, (true, true)))))))
| Xfd -> (true, (false, (true, (true, (true, (true, (true, true)))))))
| Xfe -> (false, (true, (true, (true, (true, (true, (true, true)))))))
| Xff -> (true, (true, (true, (true, (true, (true, (true, true)))))))

(** val eqb : bool -> bool -> bool **)

let eqb b1 b2 =
  if b1 then b2 else if b2 then false else true

module Nat =
 struct
  (** val eqb : nat -> nat -> bool **)

  let rec eqb n0 m =
    match n0 with
    | O -> (match m with
            | O -> true
            | S _ -> false)
    | S n' -> (match m with
               | O -> false
               | S m' -> eqb n' m')
 end

(** val rev : 'a1 list -> 'a1 list **)

let rec rev = function
| [] -> []
| x :: l' -> app (rev l') (x :: [])

(** val map : ('a1 -> 'a2) -> 'a1 list -> 'a2 list **)

let rec map f = function
| [] -> []
| a :: t -> (f a) :: (map f t)

(** val fold_left : ('a1 -> 'a2 -> 'a1) -> 'a2 list -> 'a1 -> 'a1 **)

let rec fold_left f l a0 =
  match l with
  | [] -> a0
  | b :: t -> fold_left f t (f a0 b)

(** val fold_right : ('a2 -> 'a1 -> 'a1) -> 'a1 -> 'a2 list -> 'a1 **)

let rec fold_right f a0 = function
| [] -> a0
| b :: t -> f b (fold_right f a0 t)

(** val forallb : ('a1 -> bool) -> 'a1 list -> bool **)

let rec forallb f = function
| [] -> true
| a :: l0 -> (&&) (f a) (forallb f l0)

type positive =
| XI of positive
| XO of positive
| XH

type n =
| N0
| Npos of positive

type z =
| Z0
| Zpos of positive
| Zneg of positive

module Pos =
 struct
  type mask =
  | IsNul
  | IsPos of positive
  | IsNeg
 end

module Coq_Pos =
 struct
  (** val succ : positive -> positive **)

  let rec succ = function
  | XI p -> XO (succ p)
  | XO p -> XI p
  | XH -> XO XH

  (** val add : positive -> positive -> positive **)

  let rec add x y =
    match x with
    | XI p ->
      (match y with
       | XI q -> XO (add_carry p q)
       | XO q -> XI (add p q)
       | XH -> XO (succ p))
    | XO p ->
      (match y with
       | XI q -> XI (add p q)
       | XO q -> XO (add p q)
       | XH -> XI p)
    | XH -> (match y with
             | XI q -> XO (succ q)
             | XO q -> XI q
             | XH -> XO XH)

  (** val add_carry : positive -> positive -> positive **)

  and add_carry x y =
    match x with
    | XI p ->
      (match y with
       | XI q -> XI (add_carry p q)
       | XO q -> XO (add_carry p q)
       | XH -> XI (succ p))
    | XO p ->
      (match y with
       | XI q -> XO (add_carry p q)
       | XO q -> XI (add p q)
       | XH -> XO (succ p))
    | XH ->
      (match y with
       | XI q -> XI (succ q)
       | XO q -> XO (succ q)
       | XH -> XI XH)

  (** val pred_double : positive -> positive **)

  let rec pred_double = function
  | XI p -> XI (XO p)
  | XO p -> XI (pred_double p)
  | XH -> XH

  type mask = Pos.mask =
  | IsNul
  | IsPos of positive
  | IsNeg

  (** val succ_double_mask : mask -> mask **)

  let succ_double_mask = function
  | IsNul -> IsPos XH
  | IsPos p -> IsPos (XI p)
  | IsNeg -> IsNeg

  (** val double_mask : mask -> mask **)

  let double_mask = function
  | IsPos p -> IsPos (XO p)
  | x0 -> x0

  (** val double_pred_mask : positive -> mask **)

  let double_pred_mask = function
  | XI p -> IsPos (XO (XO p))
  | XO p -> IsPos (XO (pred_double p))
  | XH -> IsNul

  (** val sub_mask : positive -> positive -> mask **)

  let rec sub_mask x y =
    match x with
    | XI p ->
      (match y with
       | XI q -> double_mask (sub_mask p q)
       | XO q -> succ_double_mask (sub_mask p q)
       | XH -> IsPos (XO p))
    | XO p ->
      (match y with
       | XI q -> succ_double_mask (sub_mask_carry p q)
       | XO q -> double_mask (sub_mask p q)
       | XH -> IsPos (pred_double p))
    | XH -> (match y with
             | XH -> IsNul
             | _ -> IsNeg)

  (** val sub_mask_carry : positive -> positive -> mask **)

  and sub_mask_carry x y =
    match x with
    | XI p ->
      (match y with
       | XI q -> succ_double_mask (sub_mask_carry p q)
       | XO q -> double_mask (sub_mask p q)
       | XH -> IsPos (pred_double p))
    | XO p ->
      (match y with
       | XI q -> double_mask (sub_mask_carry p q)
       | XO q -> succ_double_mask (sub_mask_carry p q)
       | XH -> double_pred_mask p)
    | XH -> IsNeg

  (** val mul : positive -> positive -> positive **)

  let rec mul x y =
    match x with
    | XI p -> add y (XO (mul p y))
    | XO p -> XO (mul p y)
    | XH -> y

  (** val compare_cont : comparison -> positive -> positive -> comparison **)

  let rec compare_cont r x y =
    match x with
    | XI p ->
      (match y with
       | XI q -> compare_cont r p q
       | XO q -> compare_cont Gt p q
       | XH -> Gt)
    | XO p ->
      (match y with
       | XI q -> compare_cont Lt p q
       | XO q -> compare_cont r p q
       | XH -> Gt)
    | XH -> (match y with
             | XH -> r
             | _ -> Lt)

  (** val compare : positive -> positive -> comparison **)

  let compare =
    compare_cont Eq

  (** val eqb : positive -> positive -> bool **)

  let rec eqb p q =
    match p with
    | XI p0 -> (match q with
                | XI q0 -> eqb p0 q0
                | _ -> false)
    | XO p0 -> (match q with
                | XO q0 -> eqb p0 q0
                | _ -> false)
    | XH -> (match q with
             | XH -> true
             | _ -> false)
 end

module N =
 struct
  (** val succ_double : n -> n **)

  let succ_double = function
  | N0 -> Npos XH
  | Npos p -> Npos (XI p)

  (** val double : n -> n **)

  let double = function
  | N0 -> N0
  | Npos p -> Npos (XO p)

  (** val add : n -> n -> n **)

  let add n0 m =
    match n0 with
    | N0 -> m
    | Npos p -> (match m with
                 | N0 -> n0
                 | Npos q -> Npos (Coq_Pos.add p q))

  (** val sub : n -> n -> n **)

  let sub n0 m =
    match n0 with
    | N0 -> N0
    | Npos n' ->
      (match m with
       | N0 -> n0
       | Npos m' ->
         (match Coq_Pos.sub_mask n' m' with
          | Coq_Pos.IsPos p -> Npos p
          | _ -> N0))

  (** val mul : n -> n -> n **)

  let mul n0 m =
    match n0 with
    | N0 -> N0
    | Npos p -> (match m with
                 | N0 -> N0
                 | Npos q -> Npos (Coq_Pos.mul p q))

  (** val compare : n -> n -> comparison **)

  let compare n0 m =
    match n0 with
    | N0 -> (match m with
             | N0 -> Eq
             | Npos _ -> Lt)
    | Npos n' -> (match m with
                  | N0 -> Gt
                  | Npos m' -> Coq_Pos.compare n' m')

  (** val eqb : n -> n -> bool **)

  let eqb n0 m =
    match n0 with
    | N0 -> (match m with
             | N0 -> true
             | Npos _ -> false)
    | Npos p -> (match m with
                 | N0 -> false
                 | Npos q -> Coq_Pos.eqb p q)

  (** val leb : n -> n -> bool **)

  let leb x y =
    match compare x y with
    | Gt -> false
    | _ -> true

  (** val pos_div_eucl : positive -> n -> n * n **)

  let rec pos_div_eucl a b =
    match a with
    | XI a' ->
      let (q, r) = pos_div_eucl a' b in
      let r' = succ_double r in
      if leb b r' then ((succ_double q), (sub r' b)) else ((double q), r')
    | XO a' ->
      let (q, r) = pos_div_eucl a' b in
      let r' = double r in
      if leb b r' then ((succ_double q), (sub r' b)) else ((double q), r')
    | XH ->
      (match b with
       | N0 -> (N0, (Npos XH))
       | Npos p -> (match p with
                    | XH -> ((Npos XH), N0)
                    | _ -> (N0, (Npos XH))))

  (** val div_eucl : n -> n -> n * n **)

  let div_eucl a b =
    match a with
    | N0 -> (N0, N0)
    | Npos na -> (match b with
                  | N0 -> (N0, a)
                  | Npos _ -> pos_div_eucl na b)

  (** val modulo : n -> n -> n **)

  let modulo a b =
    snd (div_eucl a b)
 end

(** val eqb0 : byte -> byte -> bool **)

let eqb0 a b =
  let (a0, p) = to_bits a in
  let (a1, p0) = p in
  let (a2, p1) = p0 in
  let (a3, p2) = p1 in
  let (a4, p3) = p2 in
  let (a5, p4) = p3 in
  let (a6, a7) = p4 in
  let (b0, p5) = to_bits b in
  let (b1, p6) = p5 in
  let (b2, p7) = p6 in
  let (b3, p8) = p7 in
  let (b4, p9) = p8 in
  let (b5, p10) = p9 in
  let (b6, b7) = p10 in
  (&&)
    ((&&)
      ((&&)
        ((&&)
          ((&&) ((&&) ((&&) (eqb a0 b0) (eqb a1 b1)) (eqb a2 b2)) (eqb a3 b3))
          (eqb a4 b4)) (eqb a5 b5)) (eqb a6 b6)) (eqb a7 b7)

(** val to_N : byte -> n **)

let to_N = function
| X00 -> N0
| X01 -> Npos XH
| X02 -> Npos (XO XH)
| X03 -> Npos (XI XH)
| X04 -> Npos (XO (XO XH))
| X05 -> Npos (XI (XO XH))
| X06 -> Npos (XO (XI XH))
| X07 -> Npos (XI (XI XH))
| X08 -> Npos (XO (XO (XO XH)))
| X09 -> Npos (XI (XO (XO XH)))
| X0a -> Npos (XO (XI (XO XH)))
| X0b -> Npos (XI (XI (XO XH)))
| X0c -> Npos (XO (XO (XI XH)))
| X0d -> Npos (XI (XO (XI XH)))
| X0e -> Npos (XO (XI (XI XH)))
| X0f -> Npos (XI (XI (XI XH)))
| X10 -> Npos (XO (XO (XO (XO XH))))
| X11 -> Npos (XI (XO (XO (XO XH))))
| X12 -> Npos (XO (XI (XO (XO XH))))
| X13 -> Npos (XI (XI (XO (XO XH))))
| X14 -> Npos (XO (XO (XI (XO XH))))
| X15 -> Npos (XI (XO (XI (XO XH))))
| X16 -> Npos (XO (XI (XI (XO XH))))
| X17 -> Npos (XI (XI (XI (XO XH))))
| X18 -> Npos (XO (XO (XO (XI XH))))
| X19 -> Npos (XI (XO (XO (XI XH))))
| X1a -> Npos (XO (XI (XO (XI XH))))
| X1b -> Npos (XI (XI (XO (XI XH))))
| X1c -> Npos (XO (XO (XI (XI XH))))
| X1d -> Npos (XI (XO (XI (XI XH))))
| X1e -> Npos (XO (XI (XI (XI XH))))
| X1f -> Npos (XI (XI (XI (XI XH))))
| X20 -> Npos (XO (XO (XO (XO (XO XH)))))
| X21 -> Npos (XI (XO (XO (XO (XO XH)))))
| X22 -> Npos (XO (XI (XO (XO (XO XH)))))
| X23 -> Npos (XI (XI (XO (XO (XO XH)))))
| X24 -> Npos (XO (XO (XI (XO (XO XH)))))
| X25 -> Npos (XI (XO (XI (XO (XO XH)))))
| X26 -> Npos (XO (XI (XI (XO (XO XH)))))
| X27 -> Npos (XI (XI (XI (XO (XO XH)))))
| X28 -> Npos (XO (XO (XO (XI (XO XH)))))
| X29 -> Npos (XI (XO (XO (XI (XO XH)))))
| X2a -> Npos (XO (XI (XO (XI (XO XH)))))
| X2b -> Npos (XI (XI (XO (XI (XO XH)))))
| X2c -> Npos (XO (XO (XI (XI (XO XH)))))
| X2d -> Npos (XI (XO (XI (XI (XO XH)))))
| X2e -> Npos (XO (XI (XI (XI (XO XH)))))
| X2f -> Npos (XI (XI (XI (XI (XO XH)))))
| X30 -> Npos (XO (XO (XO (XO (XI XH)))))
| X31 -> Npos (XI (XO (XO (XO (XI XH)))))
| X32 -> Npos (XO (XI (XO (XO (XI XH)))))
| X33 -> Npos (XI (XI (XO (XO (XI XH)))))
| X34 -> Npos (XO (XO (XI (XO (XI XH)))))
| X35 -> Npos (XI (XO (XI (XO (XI XH)))))
| X36 -> Npos (XO (XI (XI (XO (XI XH)))))
| X37 -> Npos (XI (XI (XI (XO (XI XH)))))
| X38 -> Npos (XO (XO (XO (XI (XI XH)))))
| X39 -> Npos (XI (XO (XO (XI (XI XH)))))
| X3a -> Npos (XO (XI (XO (XI (XI XH)))))
| X3b -> Npos (XI (XI (XO (XI (XI XH)))))
| X3c -> Npos (XO (XO (XI (XI (XI XH)))))
| X3d -> Npos (XI (XO (XI (XI (XI XH)))))
| X3e -> Npos (XO (XI (XI (XI (XI XH)))))
| X3f -> Npos (XI (XI (XI (XI (XI XH)))))
| X40 -> Npos (XO (XO (XO (XO (XO (XO XH))))))
| X41 -> Npos (XI (XO (XO (XO (XO (XO XH))))))
| X42 -> Npos (XO (XI (XO (XO (XO (XO XH))))))
| X43 -> Npos (XI (XI (XO (XO (XO (XO XH))))))
| X44 -> Npos (XO (XO (XI (XO (XO (XO XH))))))
| X45 -> Npos (XI (XO (XI (XO (XO (XO XH))))))
| X46 -> Npos (XO (XI (XI (XO (XO (XO XH))))))
| X47 -> Npos (XI (XI (XI (XO (XO (XO XH))))))
| X48 -> Npos (XO (XO (XO (XI (XO (XO XH))))))
| X49 -> Npos (XI (XO (XO (XI (XO (XO XH))))))
| X4a -> Npos (XO (XI (XO (XI (XO (XO XH))))))
| X4b -> Npos (XI (XI (XO (XI (XO (XO XH))))))
| X4c -> Npos (XO (XO (XI (XI (XO (XO XH))))))
| X4d -> Npos (XI (XO (XI (XI (XO (XO XH))))))
| X4e -> Npos (XO (XI (XI (XI (XO (XO XH))))))
| X4f -> Npos (XI (XI (XI (XI (XO (XO XH))))))
| X50 -> Npos (XO (XO (XO (XO (XI (XO XH))))))
| X51 -> Npos (XI (XO (XO (XO (XI (XO XH))))))
| X52 -> Npos (XO (XI (XO (XO (XI (XO XH))))))
| X53 -> Npos (XI (XI (XO (XO (XI (XO XH))))))
| X54 -> Npos (XO (XO (XI (XO (XI (XO XH))))))
| X55 -> Npos (XI (XO (XI (XO (XI (XO XH))))))
| X56 -> Npos (XO (XI (XI (XO (XI (XO XH))))))
| X57 -> Npos (XI (XI (XI (XO (XI (XO XH))))))
| X58 -> Npos (XO (XO (XO (XI (XI (XO XH))))))
| X59 -> Npos (XI (XO (XO (XI (XI (XO XH))))))
| X5a -> Npos (XO (XI (XO (XI (XI (XO XH))))))
| X5b -> Npos (XI (XI (XO (XI (XI (XO XH))))))
| X5c -> Npos (XO (XO (XI (XI (XI (XO XH))))))
| X5d -> Npos (XI (XO (XI (XI (XI (XO XH))))))
| X5e -> Npos (XO (XI (XI (XI (XI (XO XH))))))
| X5f -> Npos (XI (XI (XI (XI (XI (XO XH))))))
| X60 -> Npos (XO (XO (XO (XO (XO (XI XH))))))
| X61 -> Npos (XI (XO (XO (XO (XO (XI XH))))))
| X62 -> Npos (XO (XI (XO (XO (XO (XI XH))))))
| X63 -> Npos (XI (XI (XO (XO (XO (XI XH))))))
| X64 -> Npos (XO (XO (XI (XO (XO (XI XH))))))
| X65 -> Npos (XI (XO (XI (XO (XO (XI XH))))))
| X66 -> Npos (XO (XI (XI (XO (XO (XI XH))))))
| X67 -> Npos (XI (XI (XI (XO (XO (XI XH))))))
| X68 -> Npos (XO (XO (XO (XI (XO (XI XH))))))
| X69 -> Npos (XI (XO (XO (XI (XO (XI XH))))))
| X6a -> Npos (XO (XI (XO (XI (XO (XI XH))))))
| X6b -> Npos (XI (XI (XO (XI (XO (XI XH))))))
| X6c -> Npos (XO (XO (XI (XI (XO (XI XH))))))
| X6d -> Npos (XI (XO (XI (XI (XO (XI XH))))))
| X6e -> Npos (XO (XI (XI (XI (XO (XI XH))))))
| X6f -> Npos (XI (XI (XI (XI (XO (XI XH))))))
| X70 -> Npos (XO (XO (XO (XO (XI (XI XH))))))
| X71 -> Npos (XI (XO (XO (XO (XI (XI XH))))))
| X72 -> Npos (XO (XI (XO (XO (XI (XI XH))))))
| X73 -> Npos (XI (XI (XO (XO (XI (XI XH))))))
| X74 -> Npos (XO (XO (XI (XO (XI (XI XH))))))
| X75 -> Npos (XI (XO (XI (XO (XI (XI XH))))))
| X76 -> Npos (XO (XI (XI (XO (XI (XI XH))))))
| X77 -> Npos (XI (XI (XI (XO (XI (XI XH))))))
| X78 -> Npos (XO (XO (XO (XI (XI (XI XH))))))
| X79 -> Npos (XI (XO (XO (XI (XI (XI XH))))))
| X7a -> Npos (XO (XI (XO (XI (XI (XI XH))))))
| X7b -> Npos (XI (XI (XO (XI (XI (XI XH))))))
| X7c -> Npos (XO (XO (XI (XI (XI (XI XH))))))
| X7d -> Npos (XI (XO (XI (XI (XI (XI XH))))))
| X7e -> Npos (XO (XI (XI (XI (XI (XI XH))))))
| X7f -> Npos (XI (XI (XI (XI (XI (XI XH))))))
| X80 -> Npos (XO (XO (XO (XO (XO (XO (XO XH)))))))
| X81 -> Npos (XI (XO (XO (XO (XO (XO (XO XH)))))))
| X82 -> Npos (XO (XI (XO (XO (XO (XO (XO XH)))))))
| X83 -> Npos (XI (XI (XO (XO (XO (XO (XO XH)))))))
| X84 -> Npos (XO (XO (XI (XO (XO (XO (XO XH)))))))
| X85 -> Npos (XI (XO (XI (XO (XO (XO (XO XH)))))))
| X86 -> Npos (XO (XI (XI (XO (XO (XO (XO XH)))))))
| X87 -> Npos (XI (XI (XI (XO (XO (XO (XO XH)))))))
| X88 -> Npos (XO (XO (XO (XI (XO (XO (XO XH)))))))
| X89 -> Npos (XI (XO (XO (XI (XO (XO (XO XH)))))))
| X8a -> Npos (XO (XI (XO (XI (XO (XO (XO XH)))))))
| X8b -> Npos (XI (XI (XO (XI (XO (XO (XO XH)))))))
| X8c -> Npos (XO (XO (XI (XI (XO (XO (XO XH)))))))
| X8d -> Npos (XI (XO (XI (XI (XO (XO (XO XH)))))))
| X8e -> Npos (XO (XI (XI (XI (XO (XO (XO XH)))))))
| X8f -> Npos (XI (XI (XI (XI (XO (XO (XO XH)))))))
| X90 -> Npos (XO (XO (XO (XO (XI (XO (XO XH)))))))
| X91 -> Npos (XI (XO (XO (XO (XI (XO (XO XH)))))))
| X92 -> Npos (XO (XI (XO (XO (XI (XO (XO XH)))))))
| X93 -> Npos (XI (XI (XO (XO (XI (XO (XO XH)))))))
| X94 -> Npos (XO (XO (XI (XO (XI (XO (XO XH)))))))
| X95 -> Npos (XI (XO (XI (XO (XI (XO (XO XH)))))))
| X96 -> Npos (XO (XI (XI (XO (XI (XO (XO XH)))))))
| X97 -> Npos (XI (XI (XI (XO (XI (XO (XO XH)))))))
| X98 -> Npos (XO (XO (XO (XI (XI (XO (XO XH)))))))
| X99 -> Npos (XI (XO (XO (XI (XI (XO (XO XH)))))))
| X9a -> Npos (XO (XI (XO (XI (XI (XO (XO XH)))))))
| X9b -> Npos (XI (XI (XO (XI (XI (XO (XO XH)))))))
| X9c -> Npos (XO (XO (XI (XI (XI (XO (XO XH)))))))
| X9d -> Npos (XI (XO (XI (XI (XI (XO (XO XH)))))))
| X9e -> Npos (XO (XI (XI (XI (XI (XO (XO XH)))))))
| X9f -> Npos (XI (XI (XI (XI (XI (XO (XO XH)))))))
| Xa0 -> Npos (XO (XO (XO (XO (XO (XI (XO XH)))))))
| Xa1 -> Npos (XI (XO (XO (XO (XO (XI (XO XH)))))))
| Xa2 -> Npos (XO (XI (XO (XO (XO (XI (XO XH)))))))
| Xa3 -> Npos (XI (XI (XO (XO (XO (XI (XO XH)))))))
| Xa4 -> Npos (XO (XO (XI (XO (XO (XI (XO XH)))))))
| Xa5 -> Npos (XI (XO (XI (XO (XO (XI (XO XH)))))))
| Xa6 -> Npos (XO (XI (XI (XO (XO (XI (XO XH)))))))
| Xa7 -> Npos (XI (XI (XI (XO (XO (XI (XO XH)))))))
| Xa8 -> Npos (XO (XO (XO (XI (XO (XI (XO XH)))))))
| Xa9 -> Npos (XI (XO (XO (XI (XO (XI (XO XH)))))))
| Xaa -> Npos (XO (XI (XO (XI (XO (XI (XO XH)))))))
| Xab -> Npos (XI (XI (XO (XI (XO (XI (XO XH)))))))
| Xac -> Npos (XO (XO (XI (XI (XO (XI (XO XH)))))))
| Xad -> Npos (XI (XO (XI (XI (XO (XI (XO XH)))))))
| Xae -> Npos (XO (XI (XI (XI (XO (XI (XO XH)))))))
| Xaf -> Npos (XI (XI (XI (XI (XO (XI (XO XH)))))))
| Xb0 -> Npos (XO (XO (XO (XO (XI (XI (XO XH)))))))
| Xb1 -> Npos (XI (XO (XO (XO (XI (XI (XO XH)))))))
| Xb2 -> Npos (XO (XI (XO (XO (XI (XI (XO XH)))))))
| Xb3 -> Npos (XI (XI (XO (XO (XI (XI (XO XH)))))))
| Xb4 -> Npos (XO (XO (XI (XO (XI (XI (XO XH)))))))
| Xb5 -> Npos (XI (XO (XI (XO (XI (XI (XO XH)))))))
| Xb6 -> Npos (XO (XI (XI (XO (XI (XI (XO XH)))))))
| Xb7 -> Npos (XI (XI (XI (XO (XI (XI (XO XH)))))))
| Xb8 -> Npos (XO (XO (XO (XI (XI (XI (XO XH)))))))
| Xb9 -> Npos (XI (XO (XO (XI (XI (XI (XO XH)))))))
| Xba -> Npos (XO (XI (XO (XI (XI (XI (XO XH)))))))
| Xbb -> Npos (XI (XI (XO (XI (XI (XI (XO XH)))))))
| Xbc -> Npos (XO (XO (XI (XI (XI (XI (XO XH)))))))
| Xbd -> Npos (XI (XO (XI (XI (XI (XI (XO XH)))))))
| Xbe -> Npos (XO (XI (XI (XI (XI (XI (XO XH)))))))
| Xbf -> Npos (XI (XI (XI (XI (XI (XI (XO XH)))))))
| Xc0 -> Npos (XO (XO (XO (XO (XO (XO (XI XH)))))))
| Xc1 -> Npos (XI (XO (XO (XO (XO (XO (XI XH)))))))
| Xc2 -> Npos (XO (XI (XO (XO (XO (XO (XI XH)))))))
| Xc3 -> Npos (XI (XI (XO (XO (XO (XO (XI XH)))))))
| Xc4 -> Npos (XO (XO (XI (XO (XO (XO (XI XH)))))))
| Xc5 -> Npos (XI (XO (XI (XO (XO (XO (XI XH)))))))
| Xc6 -> Npos (XO (XI (XI (XO (XO (XO (XI XH)))))))
| Xc7 -> Npos (XI (XI (XI (XO (XO (XO (XI XH)))))))
| Xc8 -> Npos (XO (XO (XO (XI (XO (XO (XI XH)))))))
| Xc9 -> Npos (XI (XO (XO (XI (XO (XO (XI XH)))))))
| Xca -> Npos (XO (XI (XO (XI (XO (XO (XI XH)))))))
| Xcb -> Npos (XI (XI (XO (XI (XO (XO (XI XH)))))))
| Xcc -> Npos (XO (XO (XI (XI (XO (XO (XI XH)))))))
| Xcd -> Npos (XI (XO (XI (XI (XO (XO (XI XH)))))))
| Xce -> Npos (XO (XI (XI (XI (XO (XO (XI XH)))))))
| Xcf -> Npos (XI (XI (XI (XI (XO (XO (XI XH)))))))
| Xd0 -> Npos (XO (XO (XO (XO (XI (XO (XI XH)))))))
| Xd1 -> Npos (XI (XO (XO (XO (XI (XO (XI XH)))))))
| Xd2 -> Npos (XO (XI (XO (XO (XI (XO (XI XH)))))))
| Xd3 -> Npos (XI (XI (XO (XO (XI (XO (XI XH)))))))
| Xd4 -> Npos (XO (XO (XI (XO (XI (XO (XI XH)))))))
| Xd5 -> Npos (XI (XO (XI (XO (XI (XO (XI XH)))))))
| Xd6 -> Npos (XO (XI (XI (XO (XI (XO (XI XH)))))))
| Xd7 -> Npos (XI (XI (XI (XO (XI (XO (XI XH)))))))
| Xd8 -> Npos (XO (XO (XO (XI (XI (XO (XI XH)))))))
| Xd9 -> Npos (XI (XO (XO (XI (XI (XO (XI XH)))))))
| Xda -> Npos (XO (XI (XO (XI (XI (XO (XI XH)))))))
| Xdb -> Npos (XI (XI (XO (XI (XI (XO (XI XH)))))))
| Xdc -> Npos (XO (XO (XI (XI (XI (XO (XI XH)))))))
| Xdd -> Npos (XI (XO (XI (XI (XI (XO (XI XH)))))))
| Xde -> Npos (XO (XI (XI (XI (XI (XO (XI XH)))))))
| Xdf -> Npos (XI (XI (XI (XI (XI (XO (XI XH)))))))
| Xe0 -> Npos (XO (XO (XO (XO (XO (XI (XI XH)))))))
| Xe1 -> Npos (XI (XO (XO (XO (XO (XI (XI XH)))))))
| Xe2 -> Npos (XO (XI (XO (XO (XO (XI (XI XH)))))))
| Xe3 -> Npos (XI (XI (XO (XO (XO (XI (XI XH)))))))
| Xe4 -> Npos (XO (XO (XI (XO (XO (XI (XI XH)))))))
| Xe5 -> Npos (XI (XO (XI (XO (XO (XI (XI XH)))))))
| Xe6 -> Npos (XO (XI (XI (XO (XO (XI (XI XH)))))))
| Xe7 -> Npos (XI (XI (XI (XO (XO (XI (XI XH)))))))
| Xe8 -> Npos (XO (XO (XO (XI (XO (XI (XI XH)))))))
| Xe9 -> Npos (XI (XO (XO (XI (XO (XI (XI XH)))))))
| Xea -> Npos (XO (XI (XO (XI (XO (XI (XI XH)))))))
| Xeb -> Npos (XI (XI (XO (XI (XO (XI (XI XH)))))))
| Xec -> Npos (XO (XO (XI (XI (XO (XI (XI XH)))))))
| Xed -> Npos (XI (XO (XI (XI (XO (XI (XI XH)))))))
| Xee -> Npos (XO (XI (XI (XI (XO (XI (XI XH)))))))
| Xef -> Npos (XI (XI (XI (XI (XO (XI (XI XH)))))))
| Xf0 -> Npos (XO (XO (XO (XO (XI (XI (XI XH)))))))
| Xf1 -> Npos (XI (XO (XO (XO (XI (XI (XI XH)))))))
| Xf2 -> Npos (XO (XI (XO (XO (XI (XI (XI XH)))))))
| Xf3 -> Npos (XI (XI (XO (XO (XI (XI (XI XH)))))))
| Xf4 -> Npos (XO (XO (XI (XO (XI (XI (XI XH)))))))
| Xf5 -> Npos (XI (XO (XI (XO (XI (XI (XI XH)))))))
| Xf6 -> Npos (XO (XI (XI (XO (XI (XI (XI XH)))))))
| Xf7 -> Npos (XI (XI (XI (XO (XI (XI (XI XH)))))))
| Xf8 -> Npos (XO (XO (XO (XI (XI (XI (XI XH)))))))
| Xf9 -> Npos (XI (XO (XO (XI (XI (XI (XI XH)))))))
| Xfa -> Npos (XO (XI (XO (XI (XI (XI (XI XH)))))))
| Xfb -> Npos (XI (XI (XO (XI (XI (XI (XI XH)))))))
| Xfc -> Npos (XO (XO (XI (XI (XI (XI (XI XH)))))))
| Xfd -> Npos (XI (XO (XI (XI (XI (XI (XI XH)))))))
| Xfe -> Npos (XO (XI (XI (XI (XI (XI (XI XH)))))))
| Xff -> Npos (XI (XI (XI (XI (XI (XI (XI XH)))))))

(** val of_N : n -> byte option **)

let of_N = function
| N0 -> Some X00
| Npos p ->
  (match p with
   | XI p0 ->
     (match p0 with
      | XI p1 ->
        (match p1 with
         | XI p2 ->
           (match p2 with
            | XI p3 ->
              (match p3 with
               | XI p4 ->
                 (match p4 with
                  | XI p5 ->
                    (match p5 with
                     | XI p6 -> (match p6 with
                                 | XH -> Some Xff
                                 | _ -> None)
                     | XO p6 -> (match p6 with
                                 | XH -> Some Xbf
                                 | _ -> None)
                     | XH -> Some X7f)
                  | XO p5 ->
                    (match p5 with
                     | XI p6 -> (match p6 with
                                 | XH -> Some Xdf
                                 | _ -> None)
                     | XO p6 -> (match p6 with
                                 | XH -> Some X9f
                                 | _ -> None)
                     | XH -> Some X5f)
                  | XH -> Some X3f)
               | XO p4 ->
                 (match p4 with
                  | XI p5 ->
                    (match p5 with
                     | XI p6 -> (match p6 with
                                 | XH -> Some Xef
                                 | _ -> None)
                     | XO p6 -> (match p6 with
                                 | XH -> Some Xaf
                                 | _ -> None)
                     | XH -> Some X6f)
                  | XO p5 ->
                    (match p5 with
                     | XI p6 -> (match p6 with
                                 | XH -> Some Xcf
                                 | _ -> None)
                     | XO p6 -> (match p6 with
                                 | XH -> Some X8f
                                 | _ -> None)
                     | XH -> Some X4f)
                  | XH -> Some X2f)
               | XH -> Some X1f)
            | XO p3 ->
              (match p3 with
               | XI p4 ->
                 (match p4 with
                  | XI p5 ->
                    (match p5 with
                     | XI p6 -> (match p6 with
                                 | XH -> Some Xf7
                                 | _ -> None)
                     | XO p6 -> (match p6 with
                                 | XH -> Some Xb7
                                 | _ -> None)
                     | XH -> Some X77)
                  | XO p5 ->
                    (match p5 with
                     | XI p6 -> (match p6 with
                                 | XH -> Some Xd7
                                 | _ -> None)
                     | XO p6 -> (match p6 with
                                 | XH -> Some X97
                                 | _ -> None)
                     | XH -> Some X57)
                  | XH -> Some X37)
               | XO p4 ->
                 (match p4 with
                  | XI p5 ->
                    (match p5 with
                     | XI p6 -> (match p6 with
                                 | XH -> Some Xe7
                                 | _ -> None)
                     | XO p6 -> (match p6 with
                                 | XH -> Some Xa7
                                 | _ -> None)
                     | XH -> Some X67)
                  | XO p5 ->
                    (match p5 with
                     | XI p6 -> (match p6 with
                                 | XH -> Some Xc7
                                 | _ -> None)
                     | XO p6 -> (match p6 with
                                 | XH -> Some X87
                                 | _ -> None)
                     | XH -> Some X47)
                  | XH -> Some X27)
               | XH -> Some X17)
            | XH -> Some X0f)
         | XO p2 ->
           (match p2 with
            | XI p3 ->
              (match p3 with
               | XI p4 ->
                 (match p4 with
                  | XI p5 ->
                    (match p5 with
                     | XI p6 -> (match p6 with
                                 | XH -> Some Xfb
                                 | _ -> None)
                     | XO p6 -> (match p6 with
                                 | XH -> Some Xbb
                                 | _ -> None)
                     | XH -> Some X7b)
                  | XO p5 ->
                    (match p5 with
                     | XI p6 -> (match p6 with
                                 | XH -> Some Xdb
                                 | _ -> None)
                     | XO p6 -> (match p6 with
                                 | XH -> Some X9b
                                 | _ -> None)
                     | XH -> Some X5b)
                  | XH -> Some X3b)
               | XO p4 ->
                 (match p4 with
                  | XI p5 ->
                    (match p5 with
                     | XI p6 -> (match p6 with
                                 | XH -> Some Xeb
                                 | _ -> None)
                     | XO p6 -> (match p6 with
                                 | XH -> Some Xab
                                 | _ -> None)
                     | XH -> Some X6b)
                  | XO p5 ->
                    (match p5 with
                     | XI p6 -> (match p6 with
                                 | XH -> Some Xcb
                                 | _ -> None)
                     | XO p6 -> (match p6 with
                                 | XH -> Some X8b
                                 | _ -> None)
                     | XH -> Some X4b)
                  | XH -> Some X2b)
               | XH -> Some X1b)
            | XO p3 ->
              (match p3 with
               | XI p4 ->
                 (match p4 with
                  | XI p5 ->
                    (match p5 with
                     | XI p6 -> (match p6 with
                                 | XH -> Some Xf3
                                 | _ -> None)
                     | XO p6 -> (match p6 with
                                 | XH -> Some Xb3
                                 | _ -> None)
                     | XH -> Some X73)
                  | XO p5 ->
                    (match p5 with
                     | XI p6 -> (match p6 with
                                 | XH -> Some Xd3
                                 | _ -> None)
                     | XO p6 -> (match p6 with
                                 | XH -> Some X93
                                 | _ -> None)
                     | XH -> Some X53)
                  | XH -> Some X33)
               | XO p4 ->
                 (match p4 with
                  | XI p5 ->
                    (match p5 with
                     | XI p6 -> (match p6 with
                                 | XH -> Some Xe3
                                 | _ -> None)
                     | XO p6 -> (match p6 with
                                 | XH -> Some Xa3
                                 | _ -> None)
                     | XH -> Some X63)
                  | XO p5 ->
                    (match p5 with
                     | XI p6 -> (match p6 with
                                 | XH -> Some Xc3
                                 | _ -> None)
                     | XO p6 -> (match p6 with
                                 | XH -> Some X83
                                 | _ -> None)
                     | XH -> Some X43)
                  | XH -> Some X23)
               | XH -> Some X13)
            | XH -> Some X0b)
         | XH -> Some X07)
      | XO p1 ->
        (match p1 with
         | XI p2 ->
           (match p2 with
            | XI p3 ->
              (match p3 with
               | XI p4 ->
                 (match p4 with
                  | XI p5 ->
                    (match p5 with
                     | XI p6 -> (match p6 with
                                 | XH -> Some Xfd
                                 | _ -> None)
                     | XO p6 -> (match p6 with
                                 | XH -> Some Xbd
                                 | _ -> None)
                     | XH -> Some X7d)
                  | XO p5 ->
                    (match p5 with
                     | XI p6 -> (match p6 with
                                 | XH -> Some Xdd
                                 | _ -> None)
                     | XO p6 -> (match p6 with
                                 | XH -> Some X9d
                                 | _ -> None)
                     | XH -> Some X5d)
                  | XH -> Some X3d)
               | XO p4 ->
                 (match p4 with
                  | XI p5 ->
                    (match p5 with
                     | XI p6 -> (match p6 with
                                 | XH -> Some Xed
                                 | _ -> None)
                     | XO p6 -> (match p6 with
                                 | XH -> Some Xad
                                 | _ -> None)
                     | XH -> Some X6d)
                  | XO p5 ->
                    (match p5 with
                     | XI p6 -> (match p6 with
                                 | XH -> Some Xcd
                                 | _ -> None)
                     | XO p6 -> (match p6 with
                                 | XH -> Some X8d
                                 | _ -> None)
                     | XH -> Some X4d)
                  | XH -> Some X2d)
               | XH -> Some X1d)
            | XO p3 ->
              (match p3 with
               | XI p4 ->
                 (match p4 with
                  | XI p5 ->
                    (match p5 with
                     | XI p6 -> (match p6 with
                                 | XH -> Some Xf5
                                 | _ -> None)
                     | XO p6 -> (match p6 with
                                 | XH -> Some Xb5
                                 | _ -> None)
                     | XH -> Some X75)
                  | XO p5 ->
                    (match p5 with
                     | XI p6 -> (match p6 with
                                 | XH -> Some Xd5
                                 | _ -> None)
                     | XO p6 -> (match p6 with
                                 | XH -> Some X95
                                 | _ -> None)
                     | XH -> Some X55)
                  | XH -> Some X35)
               | XO p4 ->
                 (match p4 with
                  | XI p5 ->
                    (match p5 with
                     | XI p6 -> (match p6 with
                                 | XH -> Some Xe5
                                 | _ -> None)
                     | XO p6 -> (match p6 with
                                 | XH -> Some Xa5
                                 | _ -> None)
                     | XH -> Some X65)
                  | XO p5 ->
                    (match p5 with
                     | XI p6 -> (match p6 with
                                 | XH -> Some Xc5
                                 | _ -> None)
                     | XO p6 -> (match p6 with
                                 | XH -> Some X85
                                 | _ -> None)
                     | XH -> Some X45)
                  | XH -> Some X25)
               | XH -> Some X15)
            | XH -> Some X0d)
         | XO p2 ->
           (match p2 with
            | XI p3 ->
              (match p3 with
               | XI p4 ->
                 (match p4 with
                  | XI p5 ->
                    (match p5 with
                     | XI p6 -> (match p6 with
                                 | XH -> Some Xf9
                                 | _ -> None)
                     | XO p6 -> (match p6 with
                                 | XH -> Some Xb9
                                 | _ -> None)
                     | XH -> Some X79)
                  | XO p5 ->
                    (match p5 with
                     | XI p6 -> (match p6 with
                                 | XH -> Some Xd9
                                 | _ -> None)
                     | XO p6 -> (match p6 with
                                 | XH -> Some X99
                                 | _ -> None)
                     | XH -> Some X59)
                  | XH -> Some X39)
               | XO p4 ->
                 (match p4 with
                  | XI p5 ->
                    (match p5 with
                     | XI p6 -> (match p6 with
                                 | XH -> Some Xe9
                                 | _ -> None)
                     | XO p6 -> (match p6 with
                                 | XH -> Some Xa9
                                 | _ -> None)
                     | XH -> Some X69)
                  | XO p5 ->
                    (match p5 with
                     | XI p6 -> (match p6 with
                                 | XH -> Some Xc9
                                 | _ -> None)
                     | XO p6 -> (match p6 with
                                 | XH -> Some X89
                                 | _ -> None)
                     | XH -> Some X49)
                  | XH -> Some X29)
               | XH -> Some X19)
            | XO p3 ->
              (match p3 with
               | XI p4 ->
                 (match p4 with
                  | XI p5 ->
                    (match p5 with
                     | XI p6 -> (match p6 with
                                 | XH -> Some Xf1
                                 | _ -> None)
                     | XO p6 -> (match p6 with
                                 | XH -> Some Xb1
                                 | _ -> None)
                     | XH -> Some X71)
                  | XO p5 ->
                    (match p5 with
                     | XI p6 -> (match p6 with
                                 | XH -> Some Xd1
                                 | _ -> None)
                     | XO p6 -> (match p6 with
                                 | XH -> Some X91
                                 | _ -> None)
                     | XH -> Some X51)
                  | XH -> Some X31)
               | XO p4 ->
                 (match p4 with
                  | XI p5 ->
                    (match p5 with
                     | XI p6 -> (match p6 with
                                 | XH -> Some Xe1
                                 | _ -> None)
                     | XO p6 -> (match p6 with
                                 | XH -> Some Xa1
                                 | _ -> None)
                     | XH -> Some X61)
                  | XO p5 ->
                    (match p5 with
                     | XI p6 -> (match p6 with
                                 | XH -> Some Xc1
                                 | _ -> None)
                     | XO p6 -> (match p6 with
                                 | XH -> Some X81
                                 | _ -> None)
                     | XH -> Some X41)
                  | XH -> Some X21)
               | XH -> Some X11)
            | XH -> Some X09)
         | XH -> Some X05)
      | XH -> Some X03)
   | XO p0 ->
     (match p0 with
      | XI p1 ->
        (match p1 with
         | XI p2 ->
           (match p2 with
            | XI p3 ->
              (match p3 with
               | XI p4 ->
                 (match p4 with
                  | XI p5 ->
                    (match p5 with
                     | XI p6 -> (match p6 with
                                 | XH -> Some Xfe
                                 | _ -> None)
                     | XO p6 -> (match p6 with
                                 | XH -> Some Xbe
                                 | _ -> None)
                     | XH -> Some X7e)
                  | XO p5 ->
                    (match p5 with
                     | XI p6 -> (match p6 with
                                 | XH -> Some Xde
                                 | _ -> None)
                     | XO p6 -> (match p6 with
                                 | XH -> Some X9e
                                 | _ -> None)
                     | XH -> Some X5e)
                  | XH -> Some X3e)
               | XO p4 ->
                 (match p4 with
                  | XI p5 ->
                    (match p5 with
                     | XI p6 -> (match p6 with
                                 | XH -> Some Xee
                                 | _ -> None)
                     | XO p6 -> (match p6 with
                                 | XH -> Some Xae
                                 | _ -> None)
                     | XH -> Some X6e)
                  | XO p5 ->
                    (match p5 with
                     | XI p6 -> (match p6 with
                                 | XH -> Some Xce
                                 | _ -> None)
                     | XO p6 -> (match p6 with
                                 | XH -> Some X8e
                                 | _ -> None)
                     | XH -> Some X4e)
                  | XH -> Some X2e)
               | XH -> Some X1e)
            | XO p3 ->
              (match p3 with
               | XI p4 ->
                 (match p4 with
                  | XI p5 ->
                    (match p5 with
                     | XI p6 -> (match p6 with
                                 | XH -> Some Xf6
                                 | _ -> None)
                     | XO p6 -> (match p6 with
                                 | XH -> Some Xb6
                                 | _ -> None)
                     | XH -> Some X76)
                  | XO p5 ->
                    (match p5 with
                     | XI p6 -> (match p6 with
                                 | XH -> Some Xd6
                                 | _ -> None)
                     | XO p6 -> (match p6 with
                                 | XH -> Some X96
                                 | _ -> None)
                     | XH -> Some X56)
                  | XH -> Some X36)
               | XO p4 ->
                 (match p4 with
                  | XI p5 ->
                    (match p5 with
                     | XI p6 -> (match p6 with
                                 | XH -> Some Xe6
                                 | _ -> None)
                     | XO p6 -> (match p6 with
                                 | XH -> Some Xa6
                                 | _ -> None)
                     | XH -> Some X66)
                  | XO p5 ->
                    (match p5 with
                     | XI p6 -> (match p6 with
                                 | XH -> Some Xc6
                                 | _ -> None)
                     | XO p6 -> (match p6 with
                                 | XH -> Some X86
                                 | _ -> None)
                     | XH -> Some X46)
                  | XH -> Some X26)
               | XH -> Some X16)
            | XH -> Some X0e)
         | XO p2 ->
           (match p2 with
            | XI p3 ->
              (match p3 with
               | XI p4 ->
                 (match p4 with
                  | XI p5 ->
                    (match p5 with
                     | XI p6 -> (match p6 with
                                 | XH -> Some Xfa
                                 | _ -> None)
                     | XO p6 -> (match p6 with
                                 | XH -> Some Xba
                                 | _ -> None)
                     | XH -> Some X7a)
                  | XO p5 ->
                    (match p5 with
                     | XI p6 -> (match p6 with
                                 | XH -> Some Xda
                                 | _ -> None)
                     | XO p6 -> (match p6 with
                                 | XH -> Some X9a
                                 | _ -> None)
                     | XH -> Some X5a)
                  | XH -> Some X3a)
               | XO p4 ->
                 (match p4 with
                  | XI p5 ->
                    (match p5 with
                     | XI p6 -> (match p6 with
                                 | XH -> Some Xea
                                 | _ -> None)
                     | XO p6 -> (match p6 with
                                 | XH -> Some Xaa
                                 | _ -> None)
                     | XH -> Some X6a)
                  | XO p5 ->
                    (match p5 with
                     | XI p6 -> (match p6 with
                                 | XH -> Some Xca
                                 | _ -> None)
                     | XO p6 -> (match p6 with
                                 | XH -> Some X8a
                                 | _ -> None)
                     | XH -> Some X4a)
                  | XH -> Some X2a)
               | XH -> Some X1a)
            | XO p3 ->
              (match p3 with
               | XI p4 ->
                 (match p4 with
                  | XI p5 ->
                    (match p5 with
                     | XI p6 -> (match p6 with
                                 | XH -> Some Xf2
                                 | _ -> None)
                     | XO p6 -> (match p6 with
                                 | XH -> Some Xb2
                                 | _ -> None)
                     | XH -> Some X72)
                  | XO p5 ->
                    (match p5 with
                     | XI p6 -> (match p6 with
                                 | XH -> Some Xd2
                                 | _ -> None)
                     | XO p6 -> (match p6 with
                                 | XH -> Some X92
                                 | _ -> None)
                     | XH -> Some X52)
                  | XH -> Some X32)
               | XO p4 ->
                 (match p4 with
                  | XI p5 ->
                    (match p5 with
                     | XI p6 -> (match p6 with
                                 | XH -> Some Xe2
                                 | _ -> None)
                     | XO p6 -> (match p6 with
                                 | XH -> Some Xa2
                                 | _ -> None)
                     | XH -> Some X62)
                  | XO p5 ->
                    (match p5 with
                     | XI p6 -> (match p6 with
                                 | XH -> Some Xc2
                                 | _ -> None)
                     | XO p6 -> (match p6 with
                                 | XH -> Some X82
                                 | _ -> None)
                     | XH -> Some X42)
                  | XH -> Some X22)
               | XH -> Some X12)
            | XH -> Some X0a)
         | XH -> Some X06)
      | XO p1 ->
        (match p1 with
         | XI p2 ->
           (match p2 with
            | XI p3 ->
              (match p3 with
               | XI p4 ->
                 (match p4 with
                  | XI p5 ->
                    (match p5 with
                     | XI p6 -> (match p6 with
                                 | XH -> Some Xfc
                                 | _ -> None)
                     | XO p6 -> (match p6 with
                                 | XH -> Some Xbc
                                 | _ -> None)
                     | XH -> Some X7c)
                  | XO p5 ->
                    (match p5 with
                     | XI p6 -> (match p6 with
                                 | XH -> Some Xdc
                                 | _ -> None)
                     | XO p6 -> (match p6 with
                                 | XH -> Some X9c
                                 | _ -> None)
                     | XH -> Some X5c)
                  | XH -> Some X3c)
               | XO p4 ->
                 (match p4 with
                  | XI p5 ->
                    (match p5 with
                     | XI p6 -> (match p6 with
                                 | XH -> Some Xec
                                 | _ -> None)
                     | XO p6 -> (match p6 with
                                 | XH -> Some Xac
                                 | _ -> None)
                     | XH -> Some X6c)
                  | XO p5 ->
                    (match p5 with
                     | XI p6 -> (match p6 with
                                 | XH -> Some Xcc
                                 | _ -> None)
                     | XO p6 -> (match p6 with
                                 | XH -> Some X8c
                                 | _ -> None)
                     | XH -> Some X4c)
                  | XH -> Some X2c)
               | XH -> Some X1c)
            | XO p3 ->
              (match p3 with
               | XI p4 ->
                 (match p4 with
                  | XI p5 ->
                    (match p5 with
                     | XI p6 -> (match p6 with
                                 | XH -> Some Xf4
                                 | _ -> None)
                     | XO p6 -> (match p6 with
                                 | XH -> Some Xb4
                                 | _ -> None)
                     | XH -> Some X74)
                  | XO p5 ->
                    (match p5 with
                     | XI p6 -> (match p6 with
                                 | XH -> Some Xd4
                                 | _ -> None)
                     | XO p6 -> (match p6 with
                                 | XH -> Some X94
                                 | _ -> None)
                     | XH -> Some X54)
                  | XH -> Some X34)
               | XO p4 ->
                 (match p4 with
                  | XI p5 ->
                    (match p5 with
                     | XI p6 -> (match p6 with
                                 | XH -> Some Xe4
                                 | _ -> None)
                     | XO p6 -> (match p6 with
                                 | XH -> Some Xa4
                                 | _ -> None)
                     | XH -> Some X64)
                  | XO p5 ->
                    (match p5 with
                     | XI p6 -> (match p6 with
                                 | XH -> Some Xc4
                                 | _ -> None)
                     | XO p6 -> (match p6 with
                                 | XH -> Some X84
                                 | _ -> None)
                     | XH -> Some X44)
                  | XH -> Some X24)
               | XH -> Some X14)
            | XH -> Some X0c)
         | XO p2 ->
           (match p2 with
            | XI p3 ->
              (match p3 with
               | XI p4 ->
                 (match p4 with
                  | XI p5 ->
                    (match p5 with
                     | XI p6 -> (match p6 with
                                 | XH -> Some Xf8
                                 | _ -> None)
                     | XO p6 -> (match p6 with
                                 | XH -> Some Xb8
                                 | _ -> None)
                     | XH -> Some X78)
                  | XO p5 ->
                    (match p5 with
                     | XI p6 -> (match p6 with
                                 | XH -> Some Xd8
                                 | _ -> None)
                     | XO p6 -> (match p6 with
                                 | XH -> Some X98
                                 | _ -> None)
                     | XH -> Some X58)
                  | XH -> Some X38)
               | XO p4 ->
                 (match p4 with
                  | XI p5 ->
                    (match p5 with
                     | XI p6 -> (match p6 with
                                 | XH -> Some Xe8
                                 | _ -> None)
                     | XO p6 -> (match p6 with
                                 | XH -> Some Xa8
                                 | _ -> None)
                     | XH -> Some X68)
                  | XO p5 ->
                    (match p5 with
                     | XI p6 -> (match p6 with
                                 | XH -> Some Xc8
                                 | _ -> None)
                     | XO p6 -> (match p6 with
                                 | XH -> Some X88
                                 | _ -> None)
                     | XH -> Some X48)
                  | XH -> Some X28)
               | XH -> Some X18)
            | XO p3 ->
              (match p3 with
               | XI p4 ->
                 (match p4 with
                  | XI p5 ->
                    (match p5 with
                     | XI p6 -> (match p6 with
                                 | XH -> Some Xf0
                                 | _ -> None)
                     | XO p6 -> (match p6 with
                                 | XH -> Some Xb0
                                 | _ -> None)
                     | XH -> Some X70)
                  | XO p5 ->
                    (match p5 with
                     | XI p6 -> (match p6 with
                                 | XH -> Some Xd0
                                 | _ -> None)
                     | XO p6 -> (match p6 with
                                 | XH -> Some X90
                                 | _ -> None)
                     | XH -> Some X50)
                  | XH -> Some X30)
               | XO p4 ->
                 (match p4 with
                  | XI p5 ->
                    (match p5 with
                     | XI p6 -> (match p6 with
                                 | XH -> Some Xe0
                                 | _ -> None)
                     | XO p6 -> (match p6 with
                                 | XH -> Some Xa0
                                 | _ -> None)
                     | XH -> Some X60)
                  | XO p5 ->
                    (match p5 with
                     | XI p6 -> (match p6 with
                                 | XH -> Some Xc0
                                 | _ -> None)
                     | XO p6 -> (match p6 with
                                 | XH -> Some X80
                                 | _ -> None)
                     | XH -> Some X40)
                  | XH -> Some X20)
               | XH -> Some X10)
            | XH -> Some X08)
         | XH -> Some X04)
      | XH -> Some X02)
   | XH -> Some X01)

type ascii =
| Ascii of bool * bool * bool * bool * bool * bool * bool * bool

(** val byte_of_ascii : ascii -> byte **)

let byte_of_ascii = function
| Ascii (b0, b1, b2, b3, b4, b5, b6, b7) ->
  of_bits (b0, (b1, (b2, (b3, (b4, (b5, (b6, b7)))))))

module Z =
 struct
  (** val opp : z -> z **)

  let opp = function
  | Z0 -> Z0
  | Zpos x0 -> Zneg x0
  | Zneg x0 -> Zpos x0

  (** val eqb : z -> z -> bool **)

  let eqb x y =
    match x with
    | Z0 -> (match y with
             | Z0 -> true
             | _ -> false)
    | Zpos p -> (match y with
                 | Zpos q -> Coq_Pos.eqb p q
                 | _ -> false)
    | Zneg p -> (match y with
                 | Zneg q -> Coq_Pos.eqb p q
                 | _ -> false)

  (** val of_N : n -> z **)

  let of_N = function
  | N0 -> Z0
  | Npos p -> Zpos p
 end

type string =
| EmptyString
| String of ascii * string

(** val list_ascii_of_string : string -> ascii list **)

let rec list_ascii_of_string = function
| EmptyString -> []
| String (ch, s0) -> ch :: (list_ascii_of_string s0)

(** val list_byte_of_string : string -> byte list **)

let list_byte_of_string s =
  map byte_of_ascii (list_ascii_of_string s)

type bytes = byte list

(** val b2n : byte -> n **)

let b2n =
  to_N

(** val n2b : n -> byte **)

let n2b n0 =
  match of_N (N.modulo n0 (Npos (XO (XO (XO (XO (XO (XO (XO (XO XH)))))))))) with
  | Some b -> b
  | None -> X00

(** val bytes_eqb : bytes -> bytes -> bool **)

let rec bytes_eqb a b =
  match a with
  | [] -> (match b with
           | [] -> true
           | _ :: _ -> false)
  | x :: a' ->
    (match b with
     | [] -> false
     | y :: b' -> (&&) (eqb0 x y) (bytes_eqb a' b'))

(** val str : string -> bytes **)

let str =
  list_byte_of_string

(** val unhexd : byte -> n option **)

let unhexd b =
  let n0 = b2n b in
  if (&&) (N.leb (Npos (XO (XO (XO (XO (XI XH)))))) n0)
       (N.leb n0 (Npos (XI (XO (XO (XI (XI XH)))))))
  then Some (N.sub n0 (Npos (XO (XO (XO (XO (XI XH)))))))
  else if (&&) (N.leb (Npos (XI (XO (XO (XO (XO (XI XH))))))) n0)
            (N.leb n0 (Npos (XO (XI (XI (XO (XO (XI XH))))))))
       then Some (N.sub n0 (Npos (XI (XI (XI (XO (XI (XO XH))))))))
       else if (&&) (N.leb (Npos (XI (XO (XO (XO (XO (XO XH))))))) n0)
                 (N.leb n0 (Npos (XO (XI (XI (XO (XO (XO XH))))))))
            then Some (N.sub n0 (Npos (XI (XI (XI (XO (XI XH)))))))
            else None

(** val unhex : bytes -> bytes **)

let rec unhex = function
| [] -> []
| a :: l ->
  (match l with
   | [] -> []
   | b :: r ->
     (match unhexd a with
      | Some x ->
        (match unhexd b with
         | Some y ->
           (n2b (N.add (N.mul x (Npos (XO (XO (XO (XO XH)))))) y)) :: 
             (unhex r)
         | None -> [])
      | None -> []))

(** val show_bool : bool -> bytes **)

let show_bool = function
| true ->
  str (String ((Ascii (false, false, true, false, true, true, true, false)),
    EmptyString))
| false ->
  str (String ((Ascii (false, true, true, false, false, true, true, false)),
    EmptyString))

(** val read_N_acc : bytes -> n -> n **)

let rec read_N_acc bs acc =
  match bs with
  | [] -> acc
  | b :: r ->
    read_N_acc r
      (N.add (N.mul acc (Npos (XO (XI (XO XH)))))
        (N.sub (b2n b) (Npos (XO (XO (XO (XO (XI XH))))))))

(** val read_N : bytes -> n **)

let read_N bs =
  read_N_acc bs N0

(** val read_Z : bytes -> z **)

let read_Z bs = match bs with
| [] -> Z0
| b :: r ->
  if N.eqb (b2n b) (Npos (XI (XO (XI (XI (XO XH))))))
  then Z.opp (Z.of_N (read_N r))
  else Z.of_N (read_N bs)

(** val remove_first :
    ('a1 -> 'a1 -> bool) -> 'a1 -> 'a1 list -> 'a1 list option **)

let rec remove_first eeq a = function
| [] -> None
| b :: r ->
  if eeq a b
  then Some r
  else (match remove_first eeq a r with
        | Some r' -> Some (b :: r')
        | None -> None)

(** val match_all : ('a1 -> 'a1 -> bool) -> 'a1 list -> 'a1 list -> bool **)

let rec match_all eeq l1 l2 =
  match l1 with
  | [] -> true
  | a :: r ->
    (match remove_first eeq a l2 with
     | Some l2' -> match_all eeq r l2'
     | None -> false)

(** val equal : ('a1 -> 'a1 -> bool) -> 'a1 list -> 'a1 list -> bool **)

let equal eeq l1 l2 =
  (&&) (Nat.eqb (length l1) (length l2)) (match_all eeq l1 l2)

(** val count_matches :
    ('a1 -> 'a1 -> bool) -> 'a1 list -> 'a1 list -> nat **)

let count_matches eeq l1 l2 =
  fold_left (fun acc a ->
    fold_left (fun acc0 b -> if eeq a b then S acc0 else acc0) l2 acc) l1 O

(** val equal_pinned :
    ('a1 -> 'a1 -> bool) -> 'a1 list -> 'a1 list -> bool **)

let equal_pinned eeq l1 l2 =
  (&&) (Nat.eqb (length l1) (length l2))
    (Nat.eqb (count_matches eeq l1 l2) (length l1))

type centry = (z * n) * bytes

(** val centry_eqb : centry -> centry -> bool **)

let centry_eqb a b =
  let (p, r1) = a in
  let (s1, n1) = p in
  let (p0, r2) = b in
  let (s2, n2) = p0 in
  (&&) ((&&) (Z.eqb s1 s2) (N.eqb n1 n2)) (bytes_eqb r1 r2)

(** val split_on_aux : byte -> bytes -> bytes -> bytes list **)

let rec split_on_aux sep bs cur =
  match bs with
  | [] -> (rev cur) :: []
  | b :: r ->
    if eqb0 b sep
    then (rev cur) :: (split_on_aux sep r [])
    else split_on_aux sep r (b :: cur)

(** val split_on : byte -> bytes -> bytes list **)

let split_on sep bs = match bs with
| [] -> []
| _ :: _ -> split_on_aux sep bs []

(** val comma : byte **)

let comma =
  X2c

(** val colon : byte **)

let colon =
  X3a

(** val parse_centry : bytes -> centry **)

let parse_centry bs =
  match split_on colon bs with
  | [] -> ((Z0, N0), [])
  | s :: l ->
    (match l with
     | [] -> ((Z0, N0), [])
     | n0 :: l0 ->
       (match l0 with
        | [] -> ((Z0, N0), [])
        | r :: l1 ->
          (match l1 with
           | [] -> (((read_Z s), (read_N n0)), (unhex r))
           | _ :: _ -> ((Z0, N0), []))))

(** val parse_centries : bytes -> centry list **)

let parse_centries bs =
  map parse_centry (split_on comma bs)

(** val count_eq : centry -> centry list -> nat **)

let rec count_eq a = function
| [] -> O
| b :: r -> if centry_eqb a b then S (count_eq a r) else count_eq a r

(** val multiset_eqb : centry list -> centry list -> bool **)

let multiset_eqb l1 l2 =
  forallb (fun a -> Nat.eqb (count_eq a l1) (count_eq a l2)) (app l1 l2)

(** val run_c20 : bytes -> bytes list -> bytes option **)

let run_c20 entry args =
  if bytes_eqb entry
       (str (String ((Ascii (true, false, true, false, false, true, true,
         false)), (String ((Ascii (true, false, false, false, true, true,
         true, false)), (String ((Ascii (true, false, true, false, true,
         true, true, false)), (String ((Ascii (true, false, false, false,
         false, true, true, false)), (String ((Ascii (false, false, true,
         true, false, true, true, false)), EmptyString)))))))))))
  then (match args with
        | [] -> None
        | a :: l ->
          (match l with
           | [] -> None
           | b :: l0 ->
             (match l0 with
              | [] ->
                Some
                  (show_bool
                    (equal centry_eqb (parse_centries a) (parse_centries b)))
              | _ :: _ -> None)))
  else if bytes_eqb entry
            (str (String ((Ascii (true, false, true, false, false, true,
              true, false)), (String ((Ascii (true, false, false, false,
              true, true, true, false)), (String ((Ascii (true, false, true,
              false, true, true, true, false)), (String ((Ascii (true, false,
              false, false, false, true, true, false)), (String ((Ascii
              (false, false, true, true, false, true, true, false)), (String
              ((Ascii (true, true, true, true, true, false, true, false)),
              (String ((Ascii (false, false, false, false, true, true, true,
              false)), (String ((Ascii (true, false, false, true, false,
              true, true, false)), (String ((Ascii (false, true, true, true,
              false, true, true, false)), (String ((Ascii (false, true, true,
              true, false, true, true, false)), (String ((Ascii (true, false,
              true, false, false, true, true, false)), (String ((Ascii
              (false, false, true, false, false, true, true, false)),
              EmptyString)))))))))))))))))))))))))
       then (match args with
             | [] -> None
             | a :: l ->
               (match l with
                | [] -> None
                | b :: l0 ->
                  (match l0 with
                   | [] ->
                     Some
                       (show_bool
                         (equal_pinned centry_eqb (parse_centries a)
                           (parse_centries b)))
                   | _ :: _ -> None)))
       else if bytes_eqb entry
                 (str (String ((Ascii (false, true, false, true, false, true,
                   true, false)), (String ((Ascii (true, false, true, false,
                   true, true, true, false)), (String ((Ascii (false, false,
                   true, false, false, true, true, false)), (String ((Ascii
                   (true, true, true, false, false, true, true, false)),
                   (String ((Ascii (true, false, true, false, false, true,
                   true, false)), (String ((Ascii (true, true, true, true,
                   true, false, true, false)), (String ((Ascii (true, false,
                   true, false, false, true, true, false)), (String ((Ascii
                   (true, false, false, false, true, true, true, false)),
                   (String ((Ascii (true, false, true, false, true, true,
                   true, false)), (String ((Ascii (true, false, false, false,
                   false, true, true, false)), (String ((Ascii (false, false,
                   true, true, false, true, true, false)),
                   EmptyString)))))))))))))))))))))))
            then (match args with
                  | [] -> None
                  | a :: l ->
                    (match l with
                     | [] -> None
                     | b :: l0 ->
                       (match l0 with
                        | [] -> None
                        | r :: l1 ->
                          (match l1 with
                           | [] ->
                             Some
                               (if eqb
                                     (multiset_eqb (parse_centries a)
                                       (parse_centries b))
                                     (bytes_eqb r
                                       (str (String ((Ascii (false, false,
                                         true, false, true, true, true,
                                         false)), EmptyString))))
                                then str (String ((Ascii (true, true, true,
                                       true, false, true, true, false)),
                                       (String ((Ascii (true, true, false,
                                       true, false, true, true, false)),
                                       EmptyString))))
                                else str (String ((Ascii (false, true, false,
                                       false, false, true, true, false)),
                                       (String ((Ascii (true, false, false,
                                       false, false, true, true, false)),
                                       (String ((Ascii (false, false, true,
                                       false, false, true, true, false)),
                                       EmptyString)))))))
                           | _ :: _ -> None))))
            else None

(** val first_some : bytes option list -> bytes **)

let first_some l =
  fold_right (fun o acc -> match o with
                           | Some x -> x
                           | None -> acc)
    (str (String ((Ascii (true, false, true, false, true, true, true,
      false)), (String ((Ascii (false, true, true, true, false, true, true,
      false)), (String ((Ascii (true, true, false, true, false, true, true,
      false)), (String ((Ascii (false, true, true, true, false, true, true,
      false)), (String ((Ascii (true, true, true, true, false, true, true,
      false)), (String ((Ascii (true, true, true, false, true, true, true,
      false)), (String ((Ascii (false, true, true, true, false, true, true,
      false)), (String ((Ascii (true, false, true, true, false, true, false,
      false)), (String ((Ascii (true, false, true, false, false, true, true,
      false)), (String ((Ascii (false, true, true, true, false, true, true,
      false)), (String ((Ascii (false, false, true, false, true, true, true,
      false)), (String ((Ascii (false, true, false, false, true, true, true,
      false)), (String ((Ascii (true, false, false, true, true, true, true,
      false)), EmptyString))))))))))))))))))))))))))) l

(** val run : bytes -> bytes list -> bytes **)

let run entry args =
  first_some ((run_c20 entry args) :: [])
