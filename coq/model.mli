
type nat =
| O
| S of nat

val snd : ('a1 * 'a2) -> 'a2

val length : 'a1 list -> nat

val app : 'a1 list -> 'a1 list -> 'a1 list

type comparison =
| Eq
| Lt
| Gt

type byte =
| X00
| X01
| X02
| X03
| X04
| X05
| X06
| X07
| X08
| X09
| X0a
| X0b
| X0c
| X0d
| X0e
| X0f
| X10
| X11
| X12
| X13
| X14
| X15
| X16
| X17
| X18
| X19
| X1a
| X1b
| X1c
| X1d
| X1e
| X1f
| X20
| X21
| X22
| X23
| X24
| X25
| X26
| X27
| X28
| X29
| X2a
| X2b
| X2c
| X2d
| X2e
| X2f
| X30
| X31
| X32
| X33
| X34
| X35
| X36
| X37
| X38
| X39
| X3a
| X3b
| X3c
| X3d
| X3e
| X3f
| X40
| X41
| X42
| X43
| X44
| X45
| X46
| X47
| X48
| X49
| X4a
| X4b
| X4c
| X4d
| X4e
| X4f
| X50
| X51
| X52
| X53
| X54
| X55
| X56
| X57
| X58
| X59
| X5a
| X5b
| X5c
| X5d
| X5e
| X5f
| X60
| X61
| X62
| X63
| X64
| X65
| X66
| X67
| X68
| X69
| X6a
| X6b
| X6c
| X6d
| X6e
| X6f
| X70
| X71
| X72
| X73
| X74
| X75
| X76
| X77
| X78
| X79
| X7a
| X7b
| X7c
| X7d
| X7e
| X7f
| X80
| X81
| X82
| X83
| X84
| X85
| X86
| X87
| X88
| X89
| X8a
| X8b
| X8c
| X8d
| X8e
| X8f
| X90
| X91
| X92
| X93
| X94
| X95
| X96
| X97
| X98
| X99
| X9a
| X9b
| X9c
| X9d
| X9e
| X9f
| Xa0
| Xa1
| Xa2
| Xa3
| Xa4
| Xa5
| Xa6
| Xa7
| Xa8
| Xa9
| Xaa
| Xab
| Xac
| Xad
| Xae
| Xaf
| Xb0
| Xb1
| Xb2
| Xb3
| Xb4
| Xb5
| Xb6
| Xb7
| Xb8
| Xb9
| Xba
| Xbb
| Xbc
| Xbd
| Xbe
| Xbf
| Xc0
| Xc1
| Xc2
| Xc3
| Xc4
| Xc5
| Xc6
| Xc7
| Xc8
| Xc9
| Xca
| Xcb
| Xcc
| Xcd
| Xce
| Xcf
| Xd0
| Xd1
| Xd2
| Xd3
| Xd4
| Xd5
| Xd6
| Xd7
| Xd8
| Xd9
| Xda
| Xdb
| Xdc
| Xdd
| Xde
| Xdf
| Xe0
| Xe1
| Xe2
| Xe3
| Xe4
| Xe5
| Xe6
| Xe7
| Xe8
| Xe9
| Xea
| Xeb
| Xec
| Xed
| Xee
| Xef
| Xf0
| Xf1
| Xf2
| Xf3
| Xf4
| Xf5
| Xf6
| Xf7
| Xf8
| Xf9
| Xfa
| Xfb
| Xfc
| Xfd
| Xfe
| Xff

val of_bits :
  (bool * (bool * (bool * (bool * (bool * (bool * (bool * bool))))))) -> byte

val to_bits :
  byte -> bool * (bool * (bool * (bool * (bool * (bool * (bool * bool))))))

val eqb : bool -> bool -> bool

module Nat :
 sig
  val eqb : nat -> nat -> bool
 end

val rev : 'a1 list -> 'a1 list

val map : ('a1 -> 'a2) -> 'a1 list -> 'a2 list

val fold_left : ('a1 -> 'a2 -> 'a1) -> 'a2 list -> 'a1 -> 'a1

val fold_right : ('a2 -> 'a1 -> 'a1) -> 'a1 -> 'a2 list -> 'a1

val forallb : ('a1 -> bool) -> 'a1 list -> bool

type positive =
| XI of positive
| XO of positive
| XH

type n =
| N0
| Npos of positive

type z =
| Z0
| Zpos of positive
| Zneg of positive

module Pos :
 sig
  type mask =
  | IsNul
  | IsPos of positive
  | IsNeg
 end

module Coq_Pos :
 sig
  val succ : positive -> positive

  val add : positive -> positive -> positive

  val add_carry : positive -> positive -> positive

  val pred_double : positive -> positive

  type mask = Pos.mask =
  | IsNul
  | IsPos of positive
  | IsNeg

  val succ_double_mask : mask -> mask

  val double_mask : mask -> mask

  val double_pred_mask : positive -> mask

  val sub_mask : positive -> positive -> mask

  val sub_mask_carry : positive -> positive -> mask

  val mul : positive -> positive -> positive

  val compare_cont : comparison -> positive -> positive -> comparison

  val compare : positive -> positive -> comparison

  val eqb : positive -> positive -> bool
 end

module N :
 sig
  val succ_double : n -> n

  val double : n -> n

  val add : n -> n -> n

  val sub : n -> n -> n

  val mul : n -> n -> n

  val compare : n -> n -> comparison

  val eqb : n -> n -> bool

  val leb : n -> n -> bool

  val pos_div_eucl : positive -> n -> n * n

  val div_eucl : n -> n -> n * n

  val modulo : n -> n -> n
 end

val eqb0 : byte -> byte -> bool

val to_N : byte -> n

val of_N : n -> byte option

type ascii =
| Ascii of bool * bool * bool * bool * bool * bool * bool * bool

val byte_of_ascii : ascii -> byte

module Z :
 sig
  val opp : z -> z

  val eqb : z -> z -> bool

  val of_N : n -> z
 end

type string =
| EmptyString
| String of ascii * string

val list_ascii_of_string : string -> ascii list

val list_byte_of_string : string -> byte list

type bytes = byte list

val b2n : byte -> n

val n2b : n -> byte

val bytes_eqb : bytes -> bytes -> bool

val str : string -> bytes

val unhexd : byte -> n option

val unhex : bytes -> bytes

val show_bool : bool -> bytes

val read_N_acc : bytes -> n -> n

val read_N : bytes -> n

val read_Z : bytes -> z

val remove_first : ('a1 -> 'a1 -> bool) -> 'a1 -> 'a1 list -> 'a1 list option

val match_all : ('a1 -> 'a1 -> bool) -> 'a1 list -> 'a1 list -> bool

val equal : ('a1 -> 'a1 -> bool) -> 'a1 list -> 'a1 list -> bool

val count_matches : ('a1 -> 'a1 -> bool) -> 'a1 list -> 'a1 list -> nat

val equal_pinned : ('a1 -> 'a1 -> bool) -> 'a1 list -> 'a1 list -> bool

type centry = (z * n) * bytes

val centry_eqb : centry -> centry -> bool

val split_on_aux : byte -> bytes -> bytes -> bytes list

val split_on : byte -> bytes -> bytes list

val comma : byte

val colon : byte

val parse_centry : bytes -> centry

val parse_centries : bytes -> centry list

val count_eq : centry -> centry list -> nat

val multiset_eqb : centry list -> centry list -> bool

val run_c20 : bytes -> bytes list -> bytes option

val first_some : bytes option list -> bytes

val run : bytes -> bytes list -> bytes
